#!/usr/bin/env python3
"""Regenerates the hand-written witness cases corpus/C13/*.jsonl (one per defect found on the pinned tree,
plus the concurrent ones).  Token format: see harness/signaling/zz_verif_c13_backends_test.go."""
import json, os
HERE = os.path.dirname(os.path.abspath(__file__))
SAFE = set("0123456789ABCDEFGHIJKLMNOPQRSTUVWXYZabcdefghijklmnopqrstuvwxyz_.:/@+=,-")
def enc(s):
    if s == "": return "%"
    return "".join(c if c in SAFE else "%%%02x" % ord(c) for c in s)
def sec(id, url, secret, limit="x", stream="x", screen="x"):
    norm = url if url.endswith("/") else url + "/"
    scheme, rest = norm.split("://", 1); host = rest.split("/", 1)[0]
    return "sec %s %s 1 %s %s %s %s %s %s %s" % (enc(id), enc(url), enc(norm), enc(host), enc(scheme), enc(secret), limit, stream, screen)
def cfg(ids, secs, cs=""): return "cs=%s ids=%s %s" % (enc(cs), enc(ids), " ".join(secs))
def probe(raw, dots=0):
    scheme, rest = raw.split("://", 1); host = rest.split("/", 1)[0]
    us = raw if raw.endswith("/") else raw + "/"
    return "probe %s %s %s %d %s" % (enc(scheme), enc(host), enc(us), dots, enc(raw))
def put(key, url, secret, limit=0, stream=0, screen=0, raw=None, valid=True):
    if raw is None:
        d = {"url": url, "secret": secret}
        if limit: d["sessionlimit"] = limit
        if stream: d["maxstreambitrate"] = stream
        if screen: d["maxscreenbitrate"] = screen
        raw = json.dumps(d, separators=(",", ":"))
    if valid:
        scheme, rest = url.split("://", 1); host = rest.split("/", 1)[0]
        return "put %s 1 %s 1 %s %s %s %s %d %d %d %s" % (enc(key), enc(url), enc(url), enc(host), enc(scheme), enc(secret), limit, stream, screen, enc(raw))
    return "put %s 0 %% 0 %% %% %% %% 0 0 0 %s" % (enc(key), enc(raw))
def w(name, ops): open(os.path.join(HERE, "%s.jsonl" % name), "w").write(json.dumps({"ops": ops}) + "\n")

a = sec("a", "https://h1.invalid/a", "sa"); b = sec("b", "https://h1.invalid/b", "sb", limit="10"); c = sec("c", "https://h1.invalid/c", "sc")
w("01_static_remove_first_of_three", ["mode static", "load " + cfg("a, b, c", [a, b, c]), "reload " + cfg("b, c", [b, c]),
   probe("https://h1.invalid/a/x"), probe("https://h1.invalid/b/x"), probe("https://h1.invalid/c/x"), "list"])
w("02_static_remove_two_of_two", ["mode static", "load " + cfg("a, b", [a, b]), "reload " + cfg("c", [c]),
   probe("https://h1.invalid/a/x"), probe("https://h1.invalid/c"), "list"])
n1 = sec("b1", "https://h1.invalid/a", "s1"); n2 = sec("b2", "https://h1.invalid/a/b", "s2", stream="1000")
w("03_static_reorder_nested_prefixes", ["mode static", "load " + cfg("b1, b2", [n1, n2]), probe("https://h1.invalid/a/b/x"),
   "reload " + cfg("b2, b1", [n1, n2]), probe("https://h1.invalid/a/b/x"), probe("https://h1.invalid/a/x"), "list"])
w("04_static_add_before_existing", ["mode static", "load " + cfg("b1", [n1]), "reload " + cfg("b2, b1", [n1, n2]), probe("https://h1.invalid/a/b/x"),
   probe("https://h1.invalid/a/b/../x", 1), "list"])
w("05_etcd_key_moves_host", ["mode etcd", put("/backends/k1", "https://h1.invalid/a", "s1"), put("/backends/k1", "https://h2.invalid/a", "s1"),
   probe("https://h1.invalid/a/x"), probe("https://h2.invalid/a/x"), "list"])
w("06_etcd_invalid_value_replaces_valid", ["mode etcd", put("/backends/k1", "https://h1.invalid/a", "s1"),
   put("/backends/k1", "", "", raw='{"url":"https://h1.invalid/a"}', valid=False), probe("https://h1.invalid/a/x"), "list"])
w("07_etcd_insertion_order_nested_prefixes", ["mode etcd", put("/backends/k2", "https://h1.invalid/a", "s2"), put("/backends/k1", "https://h1.invalid/a/b", "s1", limit=10),
   probe("https://h1.invalid/a/b/x"), probe("https://h1.invalid/a/x"), "list"])
w("08_etcd_move_and_delete", ["mode etcd", put("/backends/k1", "https://h1.invalid/a", "s1"), put("/backends/k2", "https://h1.invalid/b", "s2"),
   put("/backends/k1", "https://h2.invalid/a", "s1"), "del " + enc("/backends/k1"), probe("https://h1.invalid/a/x"), probe("https://h2.invalid/a/x"), probe("https://h1.invalid/b/x"), "list"])
w("11_static_backends_emptied", ["mode static", "load " + cfg("a, b", [a, b]), "reload " + cfg("", [a, b]),
   probe("https://h1.invalid/a/x"), probe("https://h1.invalid/b/x"), "list"])
c1 = cfg("a, b", [a, b]); c2 = cfg("b, c", [b, c])
ops = ["mode static", "load " + c1, "racebegin 4"]
for i in range(150): ops += ["reload " + c2, "reload " + c1]
ops += ["raceend", probe("https://h1.invalid/a/x"), probe("https://h1.invalid/b/x"), probe("https://h1.invalid/c/x")]
w("09_static_lookups_during_reloads", ops)
ops = ["mode etcd", put("/backends/k1", "https://h1.invalid/a", "s1"), "racebegin 4"]
for i in range(150): ops += [put("/backends/k2", "https://h1.invalid/b", "s2"), "del " + enc("/backends/k2")]
ops += ["raceend", probe("https://h1.invalid/a/x"), probe("https://h1.invalid/b/x")]
w("10_etcd_lookups_during_events", ops)
# etcd keeps the url as given (no final slash): a sibling path is not under the backend (before /repo's repair of
# getBackendLocked the prefix comparison against the url as stored accepted https://h1.invalid/bx for .../b)
w("12_etcd_sibling_path_not_under_backend", ["mode etcd", put("/backends/k1", "https://h1.invalid/b", "s0", stream=1000),
   probe("https://h1.invalid/bx"), probe("https://h1.invalid/bx/ocs/v2.php"), probe("https://h1.invalid/b/x"), probe("https://h1.invalid/b"), "list"])
# the common `[backend] secret`: a backend without own secret is configured only while the file in force has a common
# secret, and answers with that one (a Reload falling back to the common secret of an earlier file keeps / adds it)
n = sec("b1", "https://h1.invalid/a", ""); o = sec("b2", "https://h1.invalid/b", "s2")
w("13_static_common_secret_removed", ["mode static", "load " + cfg("b1, b2", [n, o], cs="old"), probe("https://h1.invalid/a/x"),
   "reload " + cfg("b1, b2", [n, o]), probe("https://h1.invalid/a/x"), probe("https://h1.invalid/b/x"), "list"])
o1 = sec("b1", "https://h1.invalid/a", "s1"); n3 = sec("b3", "https://h1.invalid/c", "")
w("14_static_common_secret_gone_before_backend_without_own", ["mode static", "load " + cfg("b1", [o1], cs="old"), "reload " + cfg("b1", [o1]),
   probe("https://h1.invalid/a/x"), "reload " + cfg("b1, b3", [o1, n3]), probe("https://h1.invalid/c/x"), probe("https://h1.invalid/a/x"), "list"])
w("15_static_common_secret_changed_removed_readded", ["mode static", "load " + cfg("b1, b2", [n, o], cs="old"), "reload " + cfg("b1, b2", [n, o], cs="new"),
   probe("https://h1.invalid/a/x"), "reload " + cfg("b1, b2", [n, o]), probe("https://h1.invalid/a/x"), "reload " + cfg("b2, b1", [n, o], cs="newer"),
   probe("https://h1.invalid/a/x"), probe("https://h1.invalid/b/x"), "list"])
