#!/usr/bin/env python3
"""Writes the hand-made C02 corpus cases about backends announced through etcd (urls stored as given).

  etcd-sibling-url.jsonl          one etcd backend http://H1/foo (no final slash); a room API request and an outgoing
                                  request for the sibling path /foobar/ — which belongs to no backend — must be refused
                                  (403) / not be sent.  On the tree before the repair of getBackendLocked (prefix
                                  comparison against the url as stored) the request was accepted as b1's (200, event
                                  published) and the outgoing request was sent, signed with b1's secret.
  etcd-sibling-url-two-backends.jsonl   both /foo and /foobar are etcd backends with their own secrets: a request of
                                  /foobar is b2's.  Before the repair it was attributed to b1 (first key): b2's own
                                  checksum was refused and one made with b1's secret accepted.

  reload-rotates-common-secret.jsonl    static storage, b1 has no own secret and uses the common [backend] secret; a reload
                                  rotates the common secret: the request signed with the old one must be refused, the one
                                  signed with the new one accepted, outgoing requests carry the new checksum.  (Seeded change
                                  C02-3 — Reload handing getConfiguredHosts a value cached at startup — fails at ops 4 and 7.)
  redirect-other-origin.jsonl     b1 http://H1/one/ and b2 http://H2/one/ (same host name, other port): b1 answers with
                                  redirects to b2's url, to its own path under another host name, under https; none may be
                                  followed (seeded change C02-4 — CheckRedirect comparing Hostname() — follows the first);
                                  redirects within b1 are followed (301: a GET without body, 307: the POST again).
  redirect-within-origin.jsonl    b1 http://H1/one/ and b2 http://H1/two/ on one origin: a 307 to b2's url is followed, b2
                                  receives the POST with the checksum made with b1's secret: open known finding
                                  C02-redirect-within-origin-leaves-backend.
"""
import hashlib, hmac, json, os

HERE = os.path.dirname(os.path.abspath(__file__))
SAFE = set(b"abcdefghijklmnopqrstuvwxyzABCDEFGHIJKLMNOPQRSTUVWXYZ0123456789-_.:/=,@+")


def enc(s):
    if s == "":
        return "%"
    return "".join(chr(b) if b in SAFE else "%%%02x" % b for b in s.encode())


def x(b):
    return "x" + (b if isinstance(b, bytes) else b.encode()).hex()


def checksum(random, body, secret):
    return hmac.new(secret, random.encode() + body, hashlib.sha256).hexdigest()


PATH = "/ocs/v2.php/apps/spreed/api/v1/signaling/backend"
BODY = b'{"type":"message","message":{"data":{"n":1}}}'


def cfg(mode, backends, verb="cfg", common=None):
    """backends: (id, url, own secret or None)"""
    return "%s - %s%s u=%s" % (verb, ",".join("%s:%s" % (i, x(s or b"")) for i, _, s in backends),
                               " cs=" + x(common) if common else "",
                               enc(mode + ";" + ";".join("%s=%s" % (i, u) for i, u, _ in backends)))


def sign(label, bid, random):
    return "sign %s %s %s %s" % (label, bid, x(random), x(BODY))


def req(label, tok, hdr, random, sum_, tag):
    return "req %s %s %s %s %s 1 1 %d room1 u=%s wr=%s wc=%s ct=application/json #%s" % (
        label, tok, x(random), x(sum_), x(BODY), len(BODY), enc(hdr), enc(random), enc(sum_), tag)


def out(kind, owner, base, hops=()):
    rd = " rd=" + enc(";".join("%d %s" % (c, l) for c, l in hops)) if hops else ""
    return "out %s %s u=%s%s" % (kind, owner, enc(base.rstrip("/") + PATH), rd)


def write(name, ops):
    with open(os.path.join(HERE, name), "w") as f:
        f.write(json.dumps({"ops": ops}) + "\n")


s1, s2 = b"secret-of-foo", b"secret-of-foobar"
r1 = "5f" * 32
c1 = checksum(r1, BODY, s1)
write("etcd-sibling-url.jsonl", [
    cfg("etcd", [("b1", "http://H1/foo", s1)]),
    sign("L0", "b1", r1),
    req("L0", "b:b1", "http://H1/foo", r1, c1, "valid"),
    req("L0", "b:b1", "http://H1/foo/index.php/apps/spreed/", r1, c1, "backend-url-variant"),
    req("L0", "?", "http://H1/foobar/", r1, c1, "backend-url-near-miss"),
    req("L0", "?", "http://H1/foobar", r1, c1, "backend-url-near-miss"),
    out("ping", "b1", "http://H1/foo"),
    out("ping", "-", "http://H1/foobar/"),
    out("room-join", "-", "http://H1/foo2"),
])
r2 = "a7" * 32
c2 = checksum(r2, BODY, s2)
c21 = checksum(r2, BODY, s1)
write("etcd-sibling-url-two-backends.jsonl", [
    cfg("etcd", [("b1", "http://H1/foo", s1), ("b2", "http://H1/foobar", s2)]),
    sign("L0", "b2", r2),
    req("L0", "b:b2", "http://H1/foobar", r2, c2, "valid"),
    req("L0", "b:b2", "http://H1/foobar/", r2, c2, "backend-url-variant"),
    req("L0", "b:b2", "http://H1/foobar/", r2, c21, "other-secret"),
    req("L0", "b:b1", "http://H1/foo/", r2, c2, "claims-other-backend"),
    out("auth", "b2", "http://H1/foobar"),
    out("auth", "b1", "http://H1/foo"),
])

# the common secret is rotated by a reload
old, new = b"common-secret-at-startup", b"common-secret-after-rotation"
r3, r4 = "3c" * 32, "4d" * 32
write("reload-rotates-common-secret.jsonl", [
    cfg("backends", [("b1", "http://H1/one/", None), ("b2", "http://H1/two/", b"own-secret-of-two")], common=old),
    sign("L0", "b1", r3),
    req("L0", "b:b1", "http://H1/one/", r3, checksum(r3, BODY, old), "valid"),
    cfg("backends", [("b1", "http://H1/one/", None), ("b2", "http://H1/two/", b"own-secret-of-two")], verb="reload", common=new),
    req("L0", "b:b1", "http://H1/one/", r3, checksum(r3, BODY, old), "old-signature-after-reload"),
    sign("L1", "b1", r4),
    req("L1", "b:b1", "http://H1/one/", r4, checksum(r4, BODY, new), "valid-after-reload"),
    req("L1", "b:b1", "http://H1/one/", r4, checksum(r4, BODY, old), "rotated-out-secret"),
    out("ping", "b1", "http://H1/one/"),
    out("ping", "b2", "http://H1/two/"),
])

sa, sb = b"secret-of-one", b"secret-of-the-other"
write("redirect-other-origin.jsonl", [
    cfg("backends", [("b1", "http://H1/one/", sa), ("b2", "http://H2/one/", sb)]),
    out("room-join", "b1", "http://H1/one/", [(307, "http://H2/one" + PATH)]),
    out("room-join", "b1", "http://H1/one/", [(308, "http://N1/one" + PATH)]),
    out("room-join", "b1", "http://H1/one/", [(303, "https://H1/one" + PATH)]),
    out("room-join", "b1", "http://H1/one/", [(301, "http://H1/one/index.php" + PATH)]),
    out("room-join", "b1", "http://H1/one/", [(307, "http://H1/one/index.php" + PATH), (308, "http://H2/one" + PATH)]),
    out("ping", "b2", "http://H2/one/", [(302, "http://H1/one" + PATH)]),
])
write("redirect-within-origin.jsonl", [
    cfg("backends", [("b1", "http://H1/one/", sa), ("b2", "http://H1/two/", sb)]),
    out("room-join", "b1", "http://H1/one/", [(307, "http://H1/two" + PATH)]),
])
