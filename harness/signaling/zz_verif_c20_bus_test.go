package signaling

import (
	"bytes"
	"encoding/json"
	"fmt"
	"log"
	"os"
	"runtime"
	"sort"
	"strconv"
	"strings"
	"sync"
	"testing"
	"time"

	"github.com/nats-io/nats.go"
)

// C20: the event bus (async_events.go, async_events_nats.go, natsclient_loopback.go) against
// Model/Bus.lean (deterministic schedules) and Spec/Bus.lean `admits` (all recorded histories).

// ---------- subjects ----------

type vC20Variant struct {
	id      string
	backend *Backend
}

type vC20Subject struct {
	kind     string // room | user | session | backendroom
	variants []vC20Variant
}

var (
	vC20BackendA = &Backend{id: "A"}
	vC20BackendB = &Backend{id: "B"}
	vC20BackendC = &Backend{id: "C", compat: true}
)

// Spec-level identity of a subject: kind + id + backend (all compat backends and "no backend" are one
// tenant; a session subject is identified by the session id alone). Same id under different kinds /
// backends on purpose.
var vC20Subjects = []vC20Subject{
	0: {"room", []vC20Variant{{"r1", vC20BackendA}}},
	1: {"room", []vC20Variant{{"r1", vC20BackendB}}},
	2: {"room", []vC20Variant{{"r1", nil}, {"r1", vC20BackendC}}},
	3: {"user", []vC20Variant{{"r1", vC20BackendA}}},
	4: {"session", []vC20Variant{{"r1", vC20BackendA}, {"r1", vC20BackendB}, {"r1", nil}}},
	5: {"backendroom", []vC20Variant{{"r1", vC20BackendA}}},
	6: {"room", []vC20Variant{{"r1 x", vC20BackendA}}},
	7: {"room", []vC20Variant{{"r2", vC20BackendA}}},
	8: {"user", []vC20Variant{{"r1", nil}, {"r1", vC20BackendC}}},
	9: {"backendroom", []vC20Variant{{"r1", vC20BackendB}}},
}

// ---------- harness-owned NATS client (mode own) and index-stamping wrapper (mode loop) ----------

// vC20Stamp gives every published message its index in the publication order of the client and
// writes it into AsyncMessage.Id ("<s>/<nonce>" becomes "<idx>/<s>/<nonce>").
type vC20Stamp struct {
	mu sync.Mutex
	n  int
}

func (s *vC20Stamp) stamp(message interface{}) {
	if m, ok := message.(*AsyncMessage); ok && m.Type == "verif" {
		m.Id = strconv.Itoa(s.n) + "/" + m.Id
		s.n++
	}
}

type vC20Wrap struct {
	vC20Stamp
	inner NatsClient
}

func (w *vC20Wrap) Close() { w.inner.Close() }
func (w *vC20Wrap) Subscribe(subject string, ch chan *nats.Msg) (NatsSubscription, error) {
	return w.inner.Subscribe(subject, ch)
}
func (w *vC20Wrap) Decode(msg *nats.Msg, v interface{}) error { return w.inner.Decode(msg, v) }
func (w *vC20Wrap) Publish(subject string, message interface{}) error {
	// LoopbackNatsClient.Publish holds its own mutex for the whole call; taking this one around it only
	// makes the order of the pushes known.
	w.mu.Lock()
	defer w.mu.Unlock()
	w.stamp(message)
	return w.inner.Publish(subject, message)
}

type vC20OwnSub struct {
	c       *vC20Own
	subject string
	ch      chan *nats.Msg
}

func (s *vC20OwnSub) Unsubscribe() error {
	s.c.mu.Lock()
	defer s.c.mu.Unlock()
	for i, x := range s.c.subs {
		if x == s {
			s.c.subs = append(s.c.subs[:i:i], s.c.subs[i+1:]...)
			break
		}
	}
	return nil
}

// vC20Own queues published messages until the harness dispatches them.
type vC20Own struct {
	vC20Stamp
	subs    []*vC20OwnSub
	queue   []*nats.Msg
	dropped bool
}

func (c *vC20Own) Close() {}
func (c *vC20Own) Subscribe(subject string, ch chan *nats.Msg) (NatsSubscription, error) {
	c.mu.Lock()
	defer c.mu.Unlock()
	s := &vC20OwnSub{c: c, subject: subject, ch: ch}
	c.subs = append(c.subs, s)
	return s, nil
}
func (c *vC20Own) Decode(msg *nats.Msg, v interface{}) error { return json.Unmarshal(msg.Data, v) }
func (c *vC20Own) Publish(subject string, message interface{}) error {
	c.mu.Lock()
	defer c.mu.Unlock()
	c.stamp(message)
	data, err := json.Marshal(message)
	if err != nil {
		return err
	}
	c.queue = append(c.queue, &nats.Msg{Subject: subject, Data: data})
	return nil
}

// dispatchOne hands the oldest queued message to every subscribed channel; returns the number of channels.
func (c *vC20Own) dispatchOne() (string, bool) {
	c.mu.Lock()
	defer c.mu.Unlock()
	if len(c.queue) == 0 {
		return "", false
	}
	msg := c.queue[0]
	c.queue = c.queue[1:]
	for _, s := range c.subs {
		if s.subject == msg.Subject {
			select {
			case s.ch <- msg:
			default:
				c.dropped = true
			}
		}
	}
	return msg.Subject, true
}

func (c *vC20Own) queued() int {
	c.mu.Lock()
	defer c.mu.Unlock()
	return len(c.queue)
}

// ---------- recording ----------

type vC20Delivery struct {
	l, idx, s int
}

type vC20Bus struct {
	events AsyncEvents
	own    *vC20Own

	mu        sync.Mutex
	cond      *sync.Cond
	published map[int]string // idx -> Id as published
	pubSubj   map[int]int
	recorded  []vC20Delivery
	hist      []string // concurrent mode: event log in logical-clock order
	conc      bool
	held      map[int]bool   // armed: the next callback of the listener blocks at entry
	blocked   map[int]int    // callbacks blocked at entry, per listener
	releases  map[int]int    // generation counter of `release`
	rereg     map[[2]int]int // (listener, subject) -> variant, armed self re-registration
	sentinel  map[string]int
	listeners map[int]*vC20Listener
}

type vC20Listener struct {
	id int
	b  *vC20Bus
}

func (l *vC20Listener) ProcessBackendRoomRequest(m *AsyncMessage)  { l.b.on(l, "backendroom", m) }
func (l *vC20Listener) ProcessAsyncRoomMessage(m *AsyncMessage)    { l.b.on(l, "room", m) }
func (l *vC20Listener) ProcessAsyncUserMessage(m *AsyncMessage)    { l.b.on(l, "user", m) }
func (l *vC20Listener) ProcessAsyncSessionMessage(m *AsyncMessage) { l.b.on(l, "session", m) }

func newVC20Bus(own bool) *vC20Bus {
	b := &vC20Bus{
		published: map[int]string{}, pubSubj: map[int]int{}, held: map[int]bool{}, blocked: map[int]int{}, releases: map[int]int{},
		rereg: map[[2]int]int{}, sentinel: map[string]int{}, listeners: map[int]*vC20Listener{},
	}
	b.cond = sync.NewCond(&b.mu)
	var client NatsClient
	if own {
		b.own = &vC20Own{}
		client = b.own
	} else {
		inner, err := NewLoopbackNatsClient()
		if err != nil {
			panic(err)
		}
		client = &vC20Wrap{inner: inner}
	}
	ev, err := NewAsyncEventsNats(client)
	if err != nil {
		panic(err)
	}
	b.events = ev
	return b
}

func (b *vC20Bus) listener(id int) *vC20Listener {
	b.mu.Lock()
	defer b.mu.Unlock()
	l := b.listeners[id]
	if l == nil {
		l = &vC20Listener{id: id, b: b}
		b.listeners[id] = l
	}
	return l
}

// on is the callback of every recording listener.
func (b *vC20Bus) on(l *vC20Listener, kind string, m *AsyncMessage) {
	b.mu.Lock()
	if m.Type == "sentinel" {
		b.sentinel[m.Id]++
		b.cond.Broadcast()
		b.mu.Unlock()
		return
	}
	if l.id < 0 {
		// the sentinel listener ignores the traffic of the run
		b.mu.Unlock()
		return
	}
	if b.held[l.id] {
		// one-shot: this callback blocks until `release`, later ones pass
		delete(b.held, l.id)
		b.blocked[l.id]++
		gen := b.releases[l.id]
		for b.releases[l.id] == gen {
			b.cond.Wait()
		}
		b.blocked[l.id]--
	}
	idx, s := -1, 999
	parts := strings.SplitN(m.Id, "/", 3)
	if m.Type == "verif" && len(parts) == 3 {
		if v, err := strconv.Atoi(parts[0]); err == nil {
			idx = v
		}
		if v, err := strconv.Atoi(parts[1]); err == nil {
			s = v
		}
	}
	if idx < 0 || s >= len(vC20Subjects) {
		idx, s = 99999, 999 // not a message of this run
	} else if want, ok := b.published[idx]; (ok && want != m.Id) || m.Message != nil || m.Room != nil || len(m.Permissions) != 1 || m.Permissions[0] != Permission(parts[2]) {
		s = 998 // modified on the way
	} else if vC20Subjects[s].kind != kind {
		s = 997 // handed over through the callback of another kind of subject
	}
	if b.conc {
		b.hist = append(b.hist, fmt.Sprintf("rv,%d,%d,%d", l.id, idx, s))
	} else {
		b.recorded = append(b.recorded, vC20Delivery{l.id, idx, s})
	}
	variant, armed := b.rereg[[2]int{l.id, s}]
	if armed {
		delete(b.rereg, [2]int{l.id, s})
	}
	b.cond.Broadcast()
	b.mu.Unlock()
	if armed {
		b.unregister(l.id, s, variant)
		b.register(l.id, s, variant)
	}
}

func (b *vC20Bus) register(l, s, v int) {
	sub := vC20Subjects[s]
	va := sub.variants[v%len(sub.variants)]
	li := b.listener(l)
	var err error
	switch sub.kind {
	case "room":
		err = b.events.RegisterRoomListener(va.id, va.backend, li)
	case "user":
		err = b.events.RegisterUserListener(va.id, va.backend, li)
	case "session":
		err = b.events.RegisterSessionListener(va.id, va.backend, li)
	case "backendroom":
		err = b.events.RegisterBackendRoomListener(va.id, va.backend, li)
	}
	if err != nil {
		panic(err)
	}
}

func (b *vC20Bus) unregister(l, s, v int) {
	sub := vC20Subjects[s]
	va := sub.variants[v%len(sub.variants)]
	li := b.listener(l)
	switch sub.kind {
	case "room":
		b.events.UnregisterRoomListener(va.id, va.backend, li)
	case "user":
		b.events.UnregisterUserListener(va.id, va.backend, li)
	case "session":
		b.events.UnregisterSessionListener(va.id, va.backend, li)
	case "backendroom":
		b.events.UnregisterBackendRoomListener(va.id, va.backend, li)
	}
}

// publish returns the index the client gave to the message.
func (b *vC20Bus) publish(s, v int, nonce string) int {
	sub := vC20Subjects[s]
	va := sub.variants[v%len(sub.variants)]
	m := &AsyncMessage{Type: "verif", Id: strconv.Itoa(s) + "/" + nonce, Permissions: []Permission{Permission(nonce)}}
	var err error
	switch sub.kind {
	case "room":
		err = b.events.PublishRoomMessage(va.id, va.backend, m)
	case "user":
		err = b.events.PublishUserMessage(va.id, va.backend, m)
	case "session":
		err = b.events.PublishSessionMessage(va.id, va.backend, m)
	case "backendroom":
		err = b.events.PublishBackendRoomMessage(va.id, va.backend, m)
	}
	if err != nil {
		panic(err)
	}
	idx, _ := strconv.Atoi(strings.SplitN(m.Id, "/", 2)[0])
	b.mu.Lock()
	b.published[idx] = m.Id
	b.pubSubj[idx] = s
	b.mu.Unlock()
	return idx
}

func (b *vC20Bus) count() int {
	b.mu.Lock()
	defer b.mu.Unlock()
	return len(b.recorded)
}

// waitFor waits until `want` deliveries are recorded (or the deadline passes), then a short grace period
// for unexpected extras. With `stable` it instead waits until nothing has been recorded for a while.
func (b *vC20Bus) waitFor(want int, stable bool) {
	if stable {
		last, since := b.count(), time.Now()
		for time.Since(since) < 15*time.Millisecond {
			time.Sleep(time.Millisecond)
			if n := b.count(); n != last {
				last, since = n, time.Now()
			}
		}
		return
	}
	deadline := time.Now().Add(3 * time.Second)
	for b.count() < want && time.Now().Before(deadline) {
		runtime.Gosched()
		time.Sleep(20 * time.Microsecond)
	}
	for i := 0; i < 20; i++ {
		runtime.Gosched()
	}
	time.Sleep(150 * time.Microsecond)
}

// flush renders the deliveries recorded since the last call, grouped by listener.
func (b *vC20Bus) flush(from *int) string {
	b.mu.Lock()
	defer b.mu.Unlock()
	groups := map[int][]string{}
	for _, d := range b.recorded[*from:] {
		groups[d.l] = append(groups[d.l], fmt.Sprintf("%d/%d", d.idx, d.s))
	}
	*from = len(b.recorded)
	ids := make([]int, 0, len(groups))
	for l := range groups {
		ids = append(ids, l)
	}
	sort.Ints(ids)
	out := "ok"
	for _, l := range ids {
		out += fmt.Sprintf(" %d:%s", l, strings.Join(groups[l], ","))
	}
	return out
}

// sync publishes a sentinel through every currently subscribed subject of the given list and waits until
// a sentinel listener registered there has seen it: everything published before has then been processed
// by the receiver goroutines of those subjects (FIFO client, one goroutine per subject).
func (b *vC20Bus) sync(subjects []int, tag string) bool {
	z := &vC20Listener{id: -1, b: b}
	e := b.events.(*asyncEventsNats)
	okAll := true
	for _, s := range subjects {
		sub := vC20Subjects[s]
		va := sub.variants[0]
		var present bool
		e.mu.Lock()
		switch sub.kind {
		case "room":
			_, present = e.roomSubscriptions[GetSubjectForRoomId(va.id, va.backend)]
		case "user":
			_, present = e.userSubscriptions[GetSubjectForUserId(va.id, va.backend)]
		case "session":
			_, present = e.sessionSubscriptions[GetSubjectForSessionId(va.id, va.backend)]
		case "backendroom":
			_, present = e.backendRoomSubscriptions[GetSubjectForBackendRoomId(va.id, va.backend)]
		}
		e.mu.Unlock()
		if !present {
			continue
		}
		id := fmt.Sprintf("%s-%d", tag, s)
		m := &AsyncMessage{Type: "sentinel", Id: id}
		switch sub.kind {
		case "room":
			b.events.RegisterRoomListener(va.id, va.backend, z)
		case "user":
			b.events.RegisterUserListener(va.id, va.backend, z)
		case "session":
			b.events.RegisterSessionListener(va.id, va.backend, z)
		case "backendroom":
			b.events.RegisterBackendRoomListener(va.id, va.backend, z)
		}
		// a sentinel can itself be dropped at a full channel: publish again until one gets through
		deadline := time.Now().Add(10 * time.Second)
		seen := false
		for !seen && time.Now().Before(deadline) {
			switch sub.kind {
			case "room":
				b.events.PublishRoomMessage(va.id, va.backend, m)
			case "user":
				b.events.PublishUserMessage(va.id, va.backend, m)
			case "session":
				b.events.PublishSessionMessage(va.id, va.backend, m)
			case "backendroom":
				b.events.PublishBackendRoomMessage(va.id, va.backend, m)
			}
			retry := time.Now().Add(50 * time.Millisecond)
			for !seen && time.Now().Before(retry) {
				b.mu.Lock()
				seen = b.sentinel[id] > 0
				b.mu.Unlock()
				if !seen {
					time.Sleep(100 * time.Microsecond)
				}
			}
		}
		if !seen {
			okAll = false
		}
		switch sub.kind {
		case "room":
			b.events.UnregisterRoomListener(va.id, va.backend, z)
		case "user":
			b.events.UnregisterUserListener(va.id, va.backend, z)
		case "session":
			b.events.UnregisterSessionListener(va.id, va.backend, z)
		case "backendroom":
			b.events.UnregisterBackendRoomListener(va.id, va.backend, z)
		}
	}
	return okAll
}

// ---------- capture of "Slow consumer" log lines ----------

type vC20Log struct {
	mu  sync.Mutex
	buf bytes.Buffer
}

func (w *vC20Log) Write(p []byte) (int, error) {
	w.mu.Lock()
	defer w.mu.Unlock()
	return w.buf.Write(p)
}

func (w *vC20Log) slow() bool {
	w.mu.Lock()
	defer w.mu.Unlock()
	return strings.Contains(w.buf.String(), "Slow consumer")
}

// ---------- deterministic schedules ----------

func vC20ExecDet(c *vCase) {
	own := len(c.Ops) > 0 && c.Ops[0] == "mode own"
	// after a release the number of deliveries to come is not known to the harness: wait for stability
	usesHold := false
	lw := &vC20Log{}
	log.SetOutput(lw)
	defer log.SetOutput(os.Stderr)
	b := newVC20Bus(own)
	defer func() {
		b.mu.Lock()
		for l := range b.listeners {
			delete(b.held, l)
			b.releases[l]++
		}
		b.cond.Broadcast()
		b.mu.Unlock()
		b.events.Close()
	}()
	regd := map[int]map[int]bool{} // oracle used only to know how long to wait
	ownSubj := []int{}             // own mode: subject of every queued message
	expected, from, nonce := 0, 0, 0
	for _, line := range c.Ops {
		f := strings.Fields(line)
		atoi := func(i int) int {
			if i >= len(f) {
				return 0
			}
			v, _ := strconv.Atoi(f[i])
			return v
		}
		out := "bad-op"
		switch f[0] {
		case "mode":
			out = "ok"
		case "reg":
			l, s := atoi(1), atoi(2)
			b.register(l, s, atoi(3))
			if regd[s] == nil {
				regd[s] = map[int]bool{}
			}
			regd[s][l] = true
			b.waitFor(expected, usesHold)
			out = b.flush(&from)
		case "unreg":
			l, s := atoi(1), atoi(2)
			b.unregister(l, s, atoi(3))
			delete(regd[s], l)
			b.waitFor(expected, usesHold)
			out = b.flush(&from)
		case "pub":
			s := atoi(1)
			nonce++
			b.publish(s, atoi(2), "n"+strconv.Itoa(nonce))
			if own {
				ownSubj = append(ownSubj, s)
			} else {
				b.mu.Lock()
				var armed []int
				for l := range regd[s] {
					if b.held[l] {
						armed = append(armed, l)
					} else if b.blocked[l] == 0 {
						expected++
					}
				}
				b.mu.Unlock()
				// an armed listener is going to block in this callback: wait until it does
				for _, l := range armed {
					deadline := time.Now().Add(3 * time.Second)
					for time.Now().Before(deadline) {
						b.mu.Lock()
						n := b.blocked[l]
						b.mu.Unlock()
						if n > 0 {
							break
						}
						time.Sleep(50 * time.Microsecond)
					}
				}
			}
			b.waitFor(expected, usesHold)
			out = b.flush(&from)
		case "disp":
			if own {
				if _, ok := b.own.dispatchOne(); ok {
					expected += len(regd[ownSubj[0]])
					ownSubj = ownSubj[1:]
				}
			}
			b.waitFor(expected, usesHold)
			out = b.flush(&from)
		case "drain":
			if own {
				for {
					if _, ok := b.own.dispatchOne(); !ok {
						break
					}
					expected += len(regd[ownSubj[0]])
					ownSubj = ownSubj[1:]
					b.waitFor(expected, usesHold)
				}
			}
			b.waitFor(expected, usesHold)
			out = b.flush(&from)
		case "hold":
			b.mu.Lock()
			b.held[atoi(1)] = true
			b.mu.Unlock()
			out = b.flush(&from)
		case "release":
			b.mu.Lock()
			delete(b.held, atoi(1))
			b.releases[atoi(1)]++
			b.cond.Broadcast()
			b.mu.Unlock()
			b.waitFor(expected, true)
			expected = b.count()
			out = b.flush(&from)
		case "rereg":
			b.mu.Lock()
			b.rereg[[2]int{atoi(1), atoi(2)}] = atoi(3)
			b.mu.Unlock()
			out = b.flush(&from)
		case "end":
			b.waitFor(expected, usesHold)
			out = b.flush(&from)
			b.mu.Lock()
			nheld := 0
			for _, n := range b.blocked {
				nheld += n
			}
			b.mu.Unlock()
			complete := nheld == 0 && !lw.slow()
			if own {
				complete = complete && b.own.queued() == 0 && !b.own.dropped
			}
			if complete {
				out += " complete"
			} else {
				out += " partial"
			}
		}
		c.Impl = append(c.Impl, out)
	}
}

// ---------- concurrent runs ----------

func (b *vC20Bus) ev(format string, a ...interface{}) {
	b.mu.Lock()
	b.hist = append(b.hist, fmt.Sprintf(format, a...))
	b.mu.Unlock()
}

func vC20ExecConc(c *vCase) {
	f := strings.Fields(c.Ops[0])
	atoi := func(i int) int { v, _ := strconv.Atoi(f[i]); return v }
	seed, G, N, S := uint64(atoi(1)), atoi(2), atoi(3), atoi(4)
	lw := &vC20Log{}
	log.SetOutput(lw)
	defer log.SetOutput(os.Stderr)
	b := newVC20Bus(false)
	b.conc = true
	defer b.events.Close()
	r := newVRand(seed)
	subjects := make([]int, S)
	for i := range subjects {
		subjects[i] = r.intn(len(vC20Subjects))
	}
	var wg sync.WaitGroup
	var callId struct {
		sync.Mutex
		n int
	}
	next := func() int {
		callId.Lock()
		defer callId.Unlock()
		callId.n++
		return callId.n
	}
	for g := 0; g < G; g++ {
		rr := r.fork()
		g := g
		wg.Add(1)
		go func() {
			defer wg.Done()
			// every goroutine owns two listeners; only their owner (un)registers them
			mine := []int{2*g + 1, 2*g + 2}
			isReg := map[[2]int]bool{}
			for n := 0; n < N; n++ {
				s := subjects[rr.intn(S)]
				v := rr.intn(3)
				switch k := rr.intn(100); {
				case k < 50:
					c := next()
					b.ev("ps,%d,%d", c, s)
					idx := b.publish(s, v, fmt.Sprintf("g%dn%d", g, n))
					b.ev("pe,%d,%d", c, idx)
				default:
					l := mine[rr.intn(2)]
					key := [2]int{l, s}
					doReg := !isReg[key]
					if rr.chance(1, 10) {
						doReg = !doReg // double registration / unregistration of an unregistered listener
					}
					c := next()
					if doReg {
						b.ev("rs,%d,%d,%d", c, l, s)
						b.register(l, s, v)
						b.ev("re,%d", c)
						isReg[key] = true
					} else {
						b.ev("us,%d,%d,%d", c, l, s)
						b.unregister(l, s, v)
						b.ev("ue,%d", c)
						isReg[key] = false
					}
				}
				if rr.chance(1, 3) {
					runtime.Gosched()
				}
			}
		}()
	}
	wg.Wait()
	// quiescence: two rounds of sentinels through every subject that still has a subscriber
	all := make([]int, len(vC20Subjects))
	for i := range all {
		all[i] = i
	}
	ok := b.sync(all, "a") && b.sync(all, "b")
	complete := "1"
	if !ok || lw.slow() {
		complete = "0"
	}
	b.mu.Lock()
	h := strings.Join(b.hist, ";")
	b.mu.Unlock()
	c.Impl = append(c.Impl, "H "+complete+" "+h)
}

// ---------- generator ----------

func vC20GenDet(rr *vRand, own bool, maxOps int) []string {
	ops := []string{"mode loop"}
	if own {
		ops[0] = "mode own"
	}
	ns := 1 + rr.intn(3)
	subjects := make([]int, ns)
	for i := range subjects {
		subjects[i] = rr.intn(len(vC20Subjects))
	}
	nl := 1 + rr.intn(4)
	if rr.chance(1, 4) {
		nl = 5 + rr.intn(3) // larger listener sets with holes: where a map iteration can produce an entry twice
	}
	isReg := map[[2]int]bool{}
	queued := 0
	nops := 6 + rr.intn(maxOps)
	for len(ops) < nops {
		s := subjects[rr.intn(ns)]
		l := 1 + rr.intn(nl)
		v := rr.intn(3)
		key := [2]int{l, s}
		switch k := rr.intn(100); {
		case k < 40:
			burst := 1
			if rr.chance(1, 5) {
				burst = 2 + rr.intn(4)
			}
			for j := 0; j < burst; j++ {
				ops = append(ops, fmt.Sprintf("pub %d %d", s, v))
				queued++
			}
		case k < 55 && own:
			ops = append(ops, "disp")
		case k < 60 && own:
			ops = append(ops, "drain")
		case k < 64 && isReg[key]:
			// the listener leaves and joins again from inside its next callback
			ops = append(ops, fmt.Sprintf("rereg %d %d %d", l, s, v))
		default:
			doReg := !isReg[key]
			if rr.chance(1, 10) {
				doReg = !doReg
			}
			if doReg {
				ops = append(ops, fmt.Sprintf("reg %d %d %d", l, s, v))
				isReg[key] = true
			} else {
				ops = append(ops, fmt.Sprintf("unreg %d %d %d", l, s, v))
				isReg[key] = false
			}
		}
	}
	return append(ops, "drain", "end")
}

// scripted schedules with a blocked callback (one listener per subject, so that they are deterministic)
func vC20GenHold(rr *vRand) []string {
	s, s2 := rr.intn(len(vC20Subjects)), rr.intn(len(vC20Subjects))
	ops := []string{"mode loop", fmt.Sprintf("reg 1 %d 0", s)}
	if s2 != s {
		ops = append(ops, fmt.Sprintf("reg 2 %d 0", s2))
	}
	ops = append(ops, "hold 1")
	switch rr.intn(3) {
	case 0:
		// publishers are not held up by a stuck consumer; beyond the channel capacity messages are dropped
		n := 60 + rr.intn(12)
		for i := 0; i < n; i++ {
			ops = append(ops, fmt.Sprintf("pub %d 0", s))
			if s2 != s && rr.chance(1, 4) {
				ops = append(ops, fmt.Sprintf("pub %d 0", s2))
			}
		}
		ops = append(ops, "release 1")
	case 1:
		// callback entered after the unregistration returned
		ops = append(ops, fmt.Sprintf("pub %d 0", s), fmt.Sprintf("pub %d 0", s), fmt.Sprintf("unreg 1 %d 0", s), "release 1",
			fmt.Sprintf("pub %d 0", s))
	default:
		// leave and join again while a callback is stuck: the subscriber made for the subject must not let newer
		// messages overtake the stuck one
		ops = append(ops, fmt.Sprintf("pub %d 0", s), fmt.Sprintf("unreg 1 %d 0", s), fmt.Sprintf("reg 1 %d 0", s),
			fmt.Sprintf("pub %d 0", s), fmt.Sprintf("pub %d 0", s), "release 1", fmt.Sprintf("pub %d 0", s))
	}
	return append(ops, "drain", "end")
}

func vC20Gen(e *vEnv, r *vRand) []vCase {
	var cases []vCase
	for i, n := 0, e.scale(80, 800); i < n; i++ {
		cases = append(cases, vCase{Ops: vC20GenDet(r.fork(), false, e.scale(24, 40))})
	}
	for i, n := 0, e.scale(60, 600); i < n; i++ {
		cases = append(cases, vCase{Ops: vC20GenDet(r.fork(), true, e.scale(24, 40)), Tags: []string{"own"}})
	}
	for i, n := 0, e.scale(6, 30); i < n; i++ {
		cases = append(cases, vCase{Ops: vC20GenHold(r.fork()), Tags: []string{"hold"}})
	}
	for i, n := 0, e.scale(40, 300); i < n; i++ {
		cases = append(cases, vCase{Ops: []string{fmt.Sprintf("conc %d %d %d %d", r.u64()%1000000, e.scale(6, 8), 200, 1+r.intn(4))},
			Tags: []string{"conc"}})
	}
	return cases
}

func vC20Exec(t *testing.T, c *vCase) {
	if len(c.Ops) > 0 && strings.HasPrefix(c.Ops[0], "conc ") {
		vC20ExecConc(c)
		return
	}
	vC20ExecDet(c)
}

func TestVerifC20(t *testing.T) {
	vRun(t, vC20Gen, vC20Exec)
}
