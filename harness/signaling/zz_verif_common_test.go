// Verification harness support (overlaid into package signaling by
// /verif/tools/check.py with `go test -overlay`; not part of /repo).
package signaling

import (
	"bufio"
	"encoding/json"
	"fmt"
	"os"
	"strconv"
	"strings"
	"testing"
)

// ---------- deterministic PRNG (splitmix64) ----------

type vRand struct{ s uint64 }

// newVRand mixes the seed first so that neighbouring seeds give unrelated streams.
func newVRand(seed uint64) *vRand {
	z := seed + 0x9E3779B97F4A7C15
	z = (z ^ (z >> 30)) * 0xBF58476D1CE4E5B9
	z = (z ^ (z >> 27)) * 0x94D049BB133111EB
	return &vRand{s: z ^ (z >> 31)}
}

func (r *vRand) u64() uint64 {
	r.s += 0x9E3779B97F4A7C15
	z := r.s
	z = (z ^ (z >> 30)) * 0xBF58476D1CE4E5B9
	z = (z ^ (z >> 27)) * 0x94D049BB133111EB
	return z ^ (z >> 31)
}

func (r *vRand) intn(n int) int {
	if n <= 0 {
		return 0
	}
	return int(r.u64() % uint64(n))
}

func (r *vRand) chance(num, den int) bool { return r.intn(den) < num }

func (r *vRand) pick(xs []string) string { return xs[r.intn(len(xs))] }

func (r *vRand) fork() *vRand { return newVRand(r.u64()) }

// ---------- environment ----------

type vEnv struct {
	seed   uint64
	tier   string
	out    string
	replay string
}

func verifEnv(t *testing.T) *vEnv {
	e := &vEnv{tier: "quick"}
	if s := os.Getenv("VERIF_SEED"); s != "" {
		if v, err := strconv.ParseUint(s, 10, 64); err == nil {
			e.seed = v
		}
	}
	if s := os.Getenv("VERIF_TIER"); s != "" {
		e.tier = s
	}
	e.out = os.Getenv("VERIF_OUT")
	e.replay = os.Getenv("VERIF_REPLAY")
	if e.out == "" {
		t.Skip("VERIF_OUT not set: verification harness is driven by /verif/bin/check")
	}
	return e
}

func (e *vEnv) thorough() bool { return e.tier == "thorough" }

// scale returns q in the quick tier and th in the thorough tier; VERIF_SCALE
// (percent) widens both for the failing-input search.
func (e *vEnv) scale(q, th int) int {
	n := q
	if e.thorough() {
		n = th
	}
	if s := os.Getenv("VERIF_SCALE"); s != "" {
		if v, err := strconv.Atoi(s); err == nil && v > 0 {
			n = n * v / 100
		}
	}
	if n < 1 {
		n = 1
	}
	return n
}

// ---------- token encoding (must match SigModel/Basic/Proto.lean) ----------

func vSafeByte(b byte) bool {
	switch {
	case b >= '0' && b <= '9', b >= 'A' && b <= 'Z', b >= 'a' && b <= 'z':
		return true
	}
	switch b {
	case '_', '.', ':', '/', '@', '+', '=', ',', '-':
		return true
	}
	return false
}

func vEnc(s string) string {
	if s == "" {
		return "%"
	}
	var sb strings.Builder
	for i := 0; i < len(s); i++ {
		b := s[i]
		if vSafeByte(b) {
			sb.WriteByte(b)
		} else {
			fmt.Fprintf(&sb, "%%%02x", b)
		}
	}
	return sb.String()
}

func vDec(tok string) string {
	if tok == "%" {
		return ""
	}
	var sb strings.Builder
	for i := 0; i < len(tok); i++ {
		if tok[i] == '%' && i+2 < len(tok) {
			v, err := strconv.ParseUint(tok[i+1:i+3], 16, 8)
			if err == nil {
				sb.WriteByte(byte(v))
				i += 2
				continue
			}
		}
		sb.WriteByte(tok[i])
	}
	return sb.String()
}

// ---------- cases ----------

// vCase is one generated case: op lines (protocol of the Lean driver) and,
// after execution, one implementation output line per op.
type vCase struct {
	Ops  []string `json:"ops"`
	Impl []string `json:"impl,omitempty"`
	Tags []string `json:"tags,omitempty"`
	// Crash is set when executing the case panicked; Impl is then partial.
	Crash string `json:"crash,omitempty"`
}

// vRun is the common entry point of every property harness: either replays the
// cases in VERIF_REPLAY or generates new ones, executes them on the real code
// and writes the observations to VERIF_OUT (JSON lines).
func vRun(t *testing.T, gen func(e *vEnv, r *vRand) []vCase, exec func(t *testing.T, c *vCase)) {
	vRunPar(t, gen, exec, 1)
}

// vRunPar is vRun with up to `workers` cases executing concurrently (each case
// must then own all the state it touches). Results are written in case order.
func vRunPar(t *testing.T, gen func(e *vEnv, r *vRand) []vCase, exec func(t *testing.T, c *vCase), workers int) {
	e := verifEnv(t)
	var cases []vCase
	if e.replay != "" {
		f, err := os.Open(e.replay)
		if err != nil {
			t.Fatal(err)
		}
		sc := bufio.NewScanner(f)
		sc.Buffer(make([]byte, 1<<20), 1<<28)
		for sc.Scan() {
			line := strings.TrimSpace(sc.Text())
			if line == "" {
				continue
			}
			var c vCase
			if err := json.Unmarshal([]byte(line), &c); err != nil {
				t.Fatalf("replay file: %v", err)
			}
			c.Impl = nil
			c.Crash = ""
			cases = append(cases, c)
		}
		f.Close()
	} else {
		cases = gen(e, newVRand(e.seed))
		// the generated cases, before any of them runs: lets the driver find the case that killed the process
		if lp := os.Getenv("VERIF_LIST"); lp != "" {
			if lf, err := os.Create(lp); err == nil {
				lw := bufio.NewWriter(lf)
				for i := range cases {
					if data, err := json.Marshal(&vCase{Ops: cases[i].Ops, Tags: cases[i].Tags}); err == nil {
						lw.Write(data)
						lw.WriteByte('\n')
					}
				}
				lw.Flush()
				lf.Close()
			}
		}
	}

	out, err := os.Create(e.out)
	if err != nil {
		t.Fatal(err)
	}
	defer out.Close()
	w := bufio.NewWriter(out)
	defer w.Flush()
	if s := os.Getenv("VERIF_WORKERS"); s != "" {
		if v, err := strconv.Atoi(s); err == nil && v > 0 {
			workers = v
		}
	}
	run := func(c *vCase) {
		defer func() {
			if r := recover(); r != nil {
				c.Crash = fmt.Sprint(r)
			}
		}()
		exec(t, c)
	}
	done := make([]chan struct{}, len(cases))
	for i := range done {
		done[i] = make(chan struct{})
	}
	sem := make(chan struct{}, workers)
	go func() {
		for i := range cases {
			sem <- struct{}{}
			go func(i int) {
				defer func() { <-sem; close(done[i]) }()
				run(&cases[i])
			}(i)
		}
	}()
	for i := range cases {
		<-done[i]
		c := &cases[i]
		data, err := json.Marshal(c)
		if err != nil {
			t.Fatal(err)
		}
		w.Write(data)
		w.WriteByte('\n')
		w.Flush()
	}
}
