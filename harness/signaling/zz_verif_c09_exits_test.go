package signaling

import (
	"context"
	"encoding/json"
	"errors"
	"fmt"
	"io"
	"log"
	"net"
	"net/http"
	"strconv"
	"strings"
	"sync"
	"testing/synctest"
	"time"

	"github.com/gorilla/websocket"
)

// C09, second part: the ways a session stops being in the call / in the room /
// alive, for every client type.
//
// The first line of a case may describe the sessions:
//
//	world T0 T1 T2      c user client | d federation client | i internal client | f internal client with the
//	                    feature internal-incall; an upper-case letter attaches a real Client (client.go) over an
//	                    in-memory websocket connection.  Answer: `ok <own in-call flags of each session>`
//
// Further op lines (all run to quiescence):
//
//	incallall R 0|1     backend room request `incall` with all=true  (Hub.processRoomInCallChanged)
//	intincall S F       client message `internal` / `incall` of S with flags F (Hub.processInternalMsg)
//	                    answer: ok <own flags afterwards> | ignored (not an internal client)
//	delroom R           backend room request `delete` (Hub.processRoomDeleted)
//	disinvite S R       `roomlist` / `disinvite` event for room R published to session S
//	kick S              another connection arrives with the room session id of S (Hub.disconnectByRoomSessionId)
//	                    answer: ok | noroom
//	asyncbye S          asynchronous message bye / room_session_reconnected for S
//	bye S               S sends `bye` on its connection             answer: ok | noclient
//	drop S              the connection of S is lost                 answer: ok | noclient
//	expire              sessionExpireDuration passes, then Hub.performHousekeeping
//	virtual S R         the internal client S adds a virtual session to room R and puts it into the call
//	                    answer: ok | ignored

// ---------- in-memory listener ----------

type vC09Addr struct{ s string }

func (a vC09Addr) Network() string { return "tcp" }
func (a vC09Addr) String() string  { return a.s }

type vC09Conn struct {
	net.Conn
	local, remote net.Addr
}

func (c *vC09Conn) LocalAddr() net.Addr  { return c.local }
func (c *vC09Conn) RemoteAddr() net.Addr { return c.remote }

type vC09Listener struct {
	ch     chan net.Conn
	closed chan struct{}
	once   sync.Once
}

func newVC09Listener() *vC09Listener {
	return &vC09Listener{ch: make(chan net.Conn), closed: make(chan struct{})}
}

func (l *vC09Listener) Accept() (net.Conn, error) {
	select {
	case c := <-l.ch:
		return c, nil
	case <-l.closed:
		return nil, net.ErrClosed
	}
}

func (l *vC09Listener) Close() error {
	l.once.Do(func() { close(l.closed) })
	return nil
}

func (l *vC09Listener) Addr() net.Addr { return vC09Addr{"192.0.2.10:80"} }

func (l *vC09Listener) dial(ctx context.Context, network, addr string) (net.Conn, error) {
	c1, c2 := net.Pipe()
	cl, sv := vC09Addr{"192.0.2.1:1234"}, vC09Addr{"192.0.2.10:80"}
	select {
	case l.ch <- &vC09Conn{Conn: c2, local: sv, remote: cl}:
		return &vC09Conn{Conn: c1, local: cl, remote: sv}, nil
	case <-l.closed:
		c1.Close()
		c2.Close()
		return nil, errors.New("listener closed")
	case <-ctx.Done():
		c1.Close()
		c2.Close()
		return nil, ctx.Err()
	}
}

// ---------- stand-in for Nextcloud: says yes to everything ----------

func vC09Nextcloud(w http.ResponseWriter, r *http.Request) {
	if r.Method == "GET" {
		spreed, _ := json.Marshal(map[string]interface{}{"features": []string{"verif"}, "config": map[string]interface{}{}})
		resp := &CapabilitiesResponse{Version: CapabilitiesVersion{Major: 20}, Capabilities: map[string]json.RawMessage{"spreed": spreed}}
		data, _ := json.Marshal(resp)
		var ocs OcsResponse
		ocs.Ocs = &OcsBody{Meta: OcsMeta{Status: "ok", StatusCode: 200, Message: "OK"}, Data: data}
		data, _ = json.Marshal(ocs)
		w.Header().Set("Content-Type", "application/json")
		w.Write(data) // nolint
		return
	}
	body, _ := io.ReadAll(r.Body)
	var request BackendClientRequest
	if err := json.Unmarshal(body, &request); err != nil {
		http.Error(w, "bad", http.StatusBadRequest)
		return
	}
	var response BackendClientResponse
	response.Type = request.Type
	switch request.Type {
	case "room":
		response.Room = &BackendClientRoomResponse{Version: BackendVersion, RoomId: request.Room.RoomId}
	case "session":
		response.Session = &BackendClientSessionResponse{Version: BackendVersion, RoomId: request.Session.RoomId}
	}
	data, _ := json.Marshal(&response)
	if r.Header.Get("OCS-APIRequest") != "" {
		var ocs OcsResponse
		ocs.Ocs = &OcsBody{Meta: OcsMeta{Status: "ok", StatusCode: 200, Message: "OK"}, Data: data}
		data, _ = json.Marshal(ocs)
	}
	w.Header().Set("Content-Type", "application/json")
	w.Write(data) // nolint
}

// ---------- the far end of a session's connection ----------

type vC09Peer struct {
	conn   *websocket.Conn
	client *Client
	mu     sync.Mutex
	wmu    sync.Mutex
	msgs   []*ServerMessage
	done   chan struct{}
}

func (p *vC09Peer) reader() {
	defer close(p.done)
	for {
		_, data, err := p.conn.ReadMessage()
		if err != nil {
			return
		}
		var m ServerMessage
		if err := json.Unmarshal(data, &m); err != nil {
			m = ServerMessage{Type: "undecodable"}
		}
		p.mu.Lock()
		p.msgs = append(p.msgs, &m)
		p.mu.Unlock()
	}
}

func (p *vC09Peer) take() []*ServerMessage {
	p.mu.Lock()
	defer p.mu.Unlock()
	m := p.msgs
	p.msgs = nil
	return m
}

func (p *vC09Peer) send(m *ClientMessage) bool {
	data, _ := json.Marshal(m)
	p.wmu.Lock()
	defer p.wmu.Unlock()
	return p.conn.WriteMessage(websocket.TextMessage, data) == nil
}

type vC09Net struct {
	ncL    *vC09Listener
	ncSrv  *http.Server
	wsL    *vC09Listener
	wsSrv  *http.Server
	wsConn chan *websocket.Conn
}

func (w *vC09World) startNet() {
	n := &vC09Net{ncL: newVC09Listener(), wsL: newVC09Listener(), wsConn: make(chan *websocket.Conn, 1)}
	tr := w.hub.backend.pool.transport
	tr.DialContext = n.ncL.dial
	tr.DialTLSContext = n.ncL.dial
	tr.Proxy = nil
	n.ncSrv = &http.Server{Handler: http.HandlerFunc(vC09Nextcloud), ErrorLog: log.New(io.Discard, "", 0)}
	go n.ncSrv.Serve(n.ncL) // nolint
	up := websocket.Upgrader{}
	n.wsSrv = &http.Server{ErrorLog: log.New(io.Discard, "", 0), Handler: http.HandlerFunc(func(rw http.ResponseWriter, r *http.Request) {
		conn, err := up.Upgrade(rw, r, nil)
		if err != nil {
			panic(fmt.Sprintf("verif: upgrade: %v", err))
		}
		n.wsConn <- conn
	})}
	go n.wsSrv.Serve(n.wsL) // nolint
	w.net = n
}

func (w *vC09World) stopNet() {
	for _, p := range w.peers {
		if p != nil {
			p.conn.Close()
			<-p.done
			p.client.Close()
		}
	}
	synctest.Wait()
	w.net.wsSrv.Close()
	w.hub.backend.pool.transport.CloseIdleConnections()
	w.net.ncSrv.Close()
}

// connect attaches a real Client (client.go) to session i, the way
// Hub.processRegister does after a successful hello.
func (w *vC09World) connect(i int) {
	d := websocket.Dialer{NetDialContext: w.net.wsL.dial}
	conn, _, err := d.Dial("ws://signaling.verif/spreed", nil)
	if err != nil {
		w.t.Fatalf("verif: dial: %v", err)
	}
	server := <-w.net.wsConn
	s := w.sessions[i]
	client, err := NewClient(context.Background(), server, "192.0.2.1", "verif", w.hub)
	if err != nil {
		w.t.Fatal(err)
	}
	w.hub.mu.Lock()
	s.SetClient(client)
	w.hub.clients[s.Data().Sid] = client
	w.hub.mu.Unlock()
	go client.WritePump()
	go client.ReadPump()
	p := &vC09Peer{conn: conn, client: client, done: make(chan struct{})}
	go p.reader()
	w.peers[i] = p
}

func (w *vC09World) connected(i int) bool {
	p := w.peers[i]
	return p != nil && w.sessions[i].GetClient() == HandlerClient(p.client)
}

// ---------- the ops ----------

func (w *vC09World) worldLine() string {
	res := "ok"
	for _, s := range w.sessions {
		res += " " + strconv.Itoa(s.GetInCall())
	}
	return res
}

func (w *vC09World) room(tok string) (*Room, bool) {
	if _, err := strconv.Atoi(tok); err != nil {
		return nil, false
	}
	return w.hub.GetRoomForBackend("room"+tok, w.backend), true
}

func (w *vC09World) execExit(f []string) (string, bool) {
	switch f[0] {
	case "incallall":
		if len(f) != 3 {
			return "bad-op", true
		}
		room, ok := w.room(f[1])
		if !ok {
			return "bad-op", true
		}
		if room != nil {
			flags := "0"
			if f[2] == "1" {
				flags = strconv.Itoa(FlagInCall | FlagWithAudio | FlagWithVideo)
			}
			w.hub.processRoomInCallChanged(&BackendServerRoomRequest{Type: "incall", room: room,
				InCall: &BackendRoomInCallRequest{All: true, InCall: json.RawMessage(flags)}})
			synctest.Wait()
		}
		return "ok", true
	case "intincall":
		if len(f) != 3 {
			return "bad-op", true
		}
		i, ok := w.sess(f[1])
		flags, err := strconv.Atoi(f[2])
		if !ok || err != nil || flags < 0 {
			return "bad-op", true
		}
		s := w.sessions[i]
		w.hub.processInternalMsg(s, &ClientMessage{Id: "i", Type: "internal",
			Internal: &InternalClientMessage{Type: "incall", InCall: &InCallInternalClientMessage{InCall: flags}}})
		synctest.Wait()
		if s.ClientType() != HelloClientTypeInternal {
			return "ignored", true
		}
		return "ok " + strconv.Itoa(s.GetInCall()), true
	case "delroom":
		if len(f) != 2 {
			return "bad-op", true
		}
		room, ok := w.room(f[1])
		if !ok {
			return "bad-op", true
		}
		if room != nil {
			// Room.processBackendRoomRequestRoom, case "delete"; the hub's loop would take the request from h.roomDeleted
			room.notifyInternalRoomDeleted()
			w.hub.processRoomDeleted(&BackendServerRoomRequest{Type: "delete", room: room})
			synctest.Wait()
		}
		return "ok", true
	case "disinvite":
		if len(f) != 3 {
			return "bad-op", true
		}
		i, ok := w.sess(f[1])
		if _, err := strconv.Atoi(f[2]); !ok || err != nil {
			return "bad-op", true
		}
		// BackendServer.sendRoomDisinvite
		msg := &AsyncMessage{Type: "message", Message: &ServerMessage{Type: "event", Event: &EventServerMessage{
			Target: "roomlist", Type: "disinvite",
			Disinvite: &RoomDisinviteEventServerMessage{RoomEventServerMessage: RoomEventServerMessage{RoomId: "room" + f[2]}, Reason: DisinviteReasonDisinvited},
		}}}
		if err := w.events.PublishSessionMessage(w.sessions[i].PublicId(), w.backend, msg); err != nil {
			w.t.Fatalf("verif: publish: %v", err)
		}
		synctest.Wait()
		return "ok", true
	case "kick":
		if len(f) != 2 {
			return "bad-op", true
		}
		i, ok := w.sess(f[1])
		if !ok {
			return "bad-op", true
		}
		had := w.sessions[i].GetRoom() != nil
		w.hub.disconnectByRoomSessionId(context.Background(), "rs"+f[1], w.backend, nil)
		synctest.Wait()
		if !had {
			return "noroom", true
		}
		return "ok", true
	case "asyncbye":
		if len(f) != 2 {
			return "bad-op", true
		}
		i, ok := w.sess(f[1])
		if !ok {
			return "bad-op", true
		}
		w.sessions[i].processAsyncMessage(&AsyncMessage{Type: "message", Message: &ServerMessage{Type: "bye",
			Bye: &ByeServerMessage{Reason: "room_session_reconnected"}}})
		synctest.Wait()
		return "ok", true
	case "bye":
		if len(f) != 2 {
			return "bad-op", true
		}
		i, ok := w.sess(f[1])
		if !ok {
			return "bad-op", true
		}
		if !w.connected(i) {
			return "noclient", true
		}
		w.peers[i].send(&ClientMessage{Id: "b", Type: "bye", Bye: &ByeClientMessage{}})
		synctest.Wait()
		return "ok", true
	case "drop":
		if len(f) != 2 {
			return "bad-op", true
		}
		i, ok := w.sess(f[1])
		if !ok {
			return "bad-op", true
		}
		if !w.connected(i) {
			return "noclient", true
		}
		w.peers[i].conn.Close()
		synctest.Wait()
		return "ok", true
	case "expire":
		if len(f) != 1 {
			return "bad-op", true
		}
		time.Sleep(sessionExpireDuration + time.Second)
		w.hub.performHousekeeping(time.Now())
		synctest.Wait()
		return "ok", true
	case "virtual":
		if len(f) != 3 {
			return "bad-op", true
		}
		i, ok := w.sess(f[1])
		if _, err := strconv.Atoi(f[2]); !ok || err != nil {
			return "bad-op", true
		}
		s := w.sessions[i]
		w.nvirtual++
		common := CommonSessionInternalClientMessage{SessionId: "v" + strconv.Itoa(w.nvirtual), RoomId: "room" + f[2]}
		zero, one := 0, FlagInCall|FlagWithPhone
		w.hub.processInternalMsg(s, &ClientMessage{Id: "v", Type: "internal", Internal: &InternalClientMessage{Type: "addsession",
			AddSession: &AddSessionInternalClientMessage{CommonSessionInternalClientMessage: common, UserId: "virtual", InCall: &zero}}})
		synctest.Wait()
		w.hub.processInternalMsg(s, &ClientMessage{Id: "v", Type: "internal", Internal: &InternalClientMessage{Type: "updatesession",
			UpdateSession: &UpdateSessionInternalClientMessage{CommonSessionInternalClientMessage: common, InCall: &one}}})
		synctest.Wait()
		if s.ClientType() != HelloClientTypeInternal {
			return "ignored", true
		}
		return "ok", true
	}
	return "", false
}

// ---------- generator: every way out, for every client type, with an object open or being created ----------

type vC09Entry struct {
	name string
	ops  func(t string) []string // puts session 0 (of type t, already in room 1) into the call; nil = not applicable
}

func vC09IsInternal(t string) bool { return strings.EqualFold(t, "i") || strings.EqualFold(t, "f") }

// How session 0 gets into the call of room 1.
var vC09Entries = []vC09Entry{
	{"backend-one", func(t string) []string { return []string{"incall 0 1"} }},
	{"backend-all", func(t string) []string {
		if strings.EqualFold(t, "c") {
			return []string{"incallall 1 1"}
		}
		return nil
	}},
	{"own-message", func(t string) []string {
		if strings.EqualFold(t, "i") {
			// created with the flags set: a change is needed to be announced
			return []string{"intincall 0 0", "intincall 0 7"}
		} else if strings.EqualFold(t, "f") {
			return []string{"intincall 0 3"}
		}
		return nil
	}},
}

// How session 0 stops being in the call / in room 1 / alive / permitted.
var vC09Exits = [][]string{
	{"leave 0"}, {"join 0 2"}, {"incall 0 0"}, {"incallall 1 0"}, {"intincall 0 0"}, {"delroom 1"},
	{"disinvite 0 1"}, {"kick 0"}, {"asyncbye 0"}, {"bye 0"}, {"drop 0", "expire"}, {"close 0"}, {"perms 0 -"},
	// not a way out: nothing may be closed
	{"incallall 2 0"}, {"disinvite 0 2"}, {"delroom 2"}, {"incallall 1 1"},
}

// What session 0 owns (or is about to own) when it goes.
var vC09Owned = []string{"offer %d 0 video av", "offer %d 0 screen av", "request %d 0 1 video", "sendoffer %d 1 0 screen"}

func vC09ExitCases(types []string) [][]string {
	var res [][]string
	for _, t := range types {
		for _, en := range vC09Entries {
			in := en.ops(t)
			if in == nil {
				continue
			}
			for _, ex := range vC09Exits {
				for _, own := range vC09Owned {
					for phase := 0; phase < 4; phase++ {
						ops := []string{"world " + t + " c i", "join 0 1", "join 1 1", "incall 1 1", "virtual 2 1"}
						ops = append(ops, in...)
						begin := fmt.Sprintf(own, 1)
						switch phase {
						case 0: // stored before the session goes
							ops = append(ops, begin, "end 1 ok", "state")
							ops = append(ops, ex...)
						case 1: // requested before, answered after
							ops = append(ops, begin)
							ops = append(ops, ex...)
							ops = append(ops, "end 1 ok")
						case 2: // one stored, a second one in creation
							other := "offer 2 0 screen av"
							if strings.Contains(own, "screen") {
								other = "offer 2 0 video av"
							}
							ops = append(ops, begin, "end 1 ok", other)
							ops = append(ops, ex...)
							ops = append(ops, "end 2 ok")
						case 3: // stored before; afterwards the session asks again (tells a closed session from one that only left)
							ops = append(ops, begin, "end 1 ok")
							ops = append(ops, ex...)
							ops = append(ops, "state", fmt.Sprintf(own, 2), "end 2 ok")
						}
						ops = append(ops, "state")
						res = append(res, ops)
					}
				}
			}
		}
		// a session that is in no room (it may publish, an internal client may subscribe) and ends
		for _, ex := range vC09RoomlessExits {
			for _, own := range vC09Owned {
				if strings.HasPrefix(own, "request") && !vC09IsInternal(t) {
					continue
				}
				for phase := 0; phase < 3; phase++ {
					ops := []string{"world " + t + " c i", "join 1 1", "incall 1 1"}
					begin := fmt.Sprintf(own, 1)
					switch phase {
					case 0:
						ops = append(ops, begin, "end 1 ok", "state")
						ops = append(ops, ex...)
					case 1:
						ops = append(ops, begin)
						ops = append(ops, ex...)
						ops = append(ops, "end 1 ok")
					case 2:
						ops = append(ops, begin, "end 1 ok")
						ops = append(ops, ex...)
						ops = append(ops, "state", fmt.Sprintf(own, 2), "end 2 ok")
					}
					ops = append(ops, "state")
					res = append(res, ops)
				}
			}
		}
	}
	return res
}

// Ways a session without room ends (and events that must not touch it).
var vC09RoomlessExits = [][]string{
	{"close 0"}, {"bye 0"}, {"drop 0", "expire"}, {"asyncbye 0"}, {"kick 0"}, {"disinvite 0 1"}, {"incallall 1 0"}, {"delroom 1"},
}

var vC09Types = []string{"c", "C", "d", "D", "i", "I", "f", "F"}
