package signaling

// C01 harness, part 1: in-memory network, key material, fake Nextcloud tenants.
//
// Everything runs inside a testing/synctest bubble (go1.26): the hub's
// time.Now() and the JWT library's clock are the bubble's virtual clock, which
// does not move while any goroutine is runnable, so token time claims can be
// placed exactly on the leeway boundaries.  All connections (websocket clients →
// hub, hub → backends) are net.Pipe pairs handed out by in-memory listeners,
// so arbitrary host names and https URLs can be used without DNS or TLS.

import (
	"crypto/ecdsa"
	"crypto/ed25519"
	"crypto/elliptic"
	"crypto/rand"
	"crypto/rsa"
	"crypto/x509"
	"encoding/base64"
	"encoding/json"
	"encoding/pem"
	"fmt"
	"io"
	"net"
	"net/http"
	"net/url"
	"path"
	"sort"
	"strings"
	"sync"
)

// ---------- in-memory network ----------

type c01Addr struct{ s string }

func (a c01Addr) Network() string { return "tcp" }
func (a c01Addr) String() string  { return a.s }

type c01Conn struct {
	net.Conn
	local, remote net.Addr
}

func (c *c01Conn) LocalAddr() net.Addr  { return c.local }
func (c *c01Conn) RemoteAddr() net.Addr { return c.remote }

type c01Listener struct {
	ch     chan net.Conn
	closed chan struct{}
	once   sync.Once
	addr   net.Addr
}

func newC01Listener(addr string) *c01Listener {
	return &c01Listener{ch: make(chan net.Conn), closed: make(chan struct{}), addr: c01Addr{addr}}
}

func (l *c01Listener) Accept() (net.Conn, error) {
	select {
	case c := <-l.ch:
		return c, nil
	case <-l.closed:
		return nil, net.ErrClosed
	}
}

func (l *c01Listener) Close() error   { l.once.Do(func() { close(l.closed) }); return nil }
func (l *c01Listener) Addr() net.Addr { return l.addr }

func (l *c01Listener) Dial(from string) (net.Conn, error) {
	a, b := net.Pipe()
	sc := &c01Conn{Conn: b, local: l.addr, remote: c01Addr{from}}
	cc := &c01Conn{Conn: a, local: c01Addr{from}, remote: l.addr}
	select {
	case l.ch <- sc:
		return cc, nil
	case <-l.closed:
		a.Close()
		b.Close()
		return nil, net.ErrClosed
	}
}

// ---------- keys (generated once per process) ----------

type c01Key struct {
	name string
	fam  string // rsa | ecdsa | ed25519
	priv interface{}
	pub  interface{}
	pem  string // PKIX public key, PEM
	b64  string // ed25519 only: raw key, base64 (what Nextcloud sends)
}

var (
	c01KeysOnce sync.Once
	c01Keys     map[string]*c01Key
	c01KeyNames []string
)

func c01PemOf(pub interface{}) string {
	der, err := x509.MarshalPKIXPublicKey(pub)
	if err != nil {
		panic(err)
	}
	return string(pem.EncodeToMemory(&pem.Block{Type: "PUBLIC KEY", Bytes: der}))
}

func c01InitKeys() {
	c01KeysOnce.Do(func() {
		c01Keys = map[string]*c01Key{}
		add := func(name, fam string, priv, pub interface{}) {
			k := &c01Key{name: name, fam: fam, priv: priv, pub: pub, pem: c01PemOf(pub)}
			if e, ok := pub.(ed25519.PublicKey); ok {
				k.b64 = base64.StdEncoding.EncodeToString(e)
			}
			c01Keys[name] = k
			c01KeyNames = append(c01KeyNames, name)
		}
		r1, err := rsa.GenerateKey(rand.Reader, 2048)
		if err != nil {
			panic(err)
		}
		add("rsaA", "rsa", r1, &r1.PublicKey)
		r2, err := rsa.GenerateKey(rand.Reader, 1024)
		if err != nil {
			panic(err)
		}
		add("rsaB", "rsa", r2, &r2.PublicKey)
		for _, e := range []struct {
			n string
			c elliptic.Curve
		}{{"ec256A", elliptic.P256()}, {"ec256B", elliptic.P256()}, {"ec384", elliptic.P384()}, {"ec521", elliptic.P521()}} {
			k, err := ecdsa.GenerateKey(e.c, rand.Reader)
			if err != nil {
				panic(err)
			}
			add(e.n, "ecdsa", k, &k.PublicKey)
		}
		for _, n := range []string{"edA", "edB"} {
			pub, priv, err := ed25519.GenerateKey(rand.Reader)
			if err != nil {
				panic(err)
			}
			add(n, "ed25519", priv, pub)
		}
	})
}

// ---------- tenants: fake Nextcloud instances ----------

type c01Tenant struct {
	Name   string
	Hosts  []string // host[:port] as it appears in the Host header (standard ports stripped)
	Prefix string   // "/", "/one/", …
	Kid    string   // key name or "-"
	Kfmt   string   // pem | b64 | garbage | none
	Fed    bool
	V3     bool
}

// family of the key the tenant publishes in a form the hub's loaders can read
func (t *c01Tenant) keyFam() string {
	if t.Kfmt != "pem" && t.Kfmt != "b64" {
		return "none"
	}
	k := c01Keys[t.Kid]
	if k == nil || (t.Kfmt == "b64" && k.fam != "ed25519") {
		return "none"
	}
	return k.fam
}

func (t *c01Tenant) published() (string, bool) {
	switch t.Kfmt {
	case "pem":
		if k := c01Keys[t.Kid]; k != nil {
			return k.pem, true
		}
	case "b64":
		if k := c01Keys[t.Kid]; k != nil && k.b64 != "" {
			return k.b64, true
		}
	case "garbage":
		return "-----BEGIN PUBLIC KEY-----\nbm90IGEga2V5\n-----END PUBLIC KEY-----\n", true
	}
	return "", false
}

func c01StripStdPort(host string) string {
	if strings.HasSuffix(host, ":443") {
		return strings.TrimSuffix(host, ":443")
	}
	if strings.HasSuffix(host, ":80") {
		return strings.TrimSuffix(host, ":80")
	}
	return host
}

// c01Route: which tenant's web server answers a request for (host, path).  Like
// every real web server it resolves dot segments and duplicate slashes before
// choosing the location; the longest matching prefix wins.
func c01Route(tenants []*c01Tenant, host, p string) *c01Tenant {
	host = c01StripStdPort(host)
	if !strings.HasPrefix(p, "/") {
		p = "/" + p
	}
	clean := path.Clean(p)
	if !strings.HasSuffix(clean, "/") {
		clean += "/"
	}
	var best *c01Tenant
	for _, t := range tenants {
		ok := false
		for _, h := range t.Hosts {
			if h == host {
				ok = true
			}
		}
		if ok && strings.HasPrefix(clean, t.Prefix) && (best == nil || len(t.Prefix) > len(best.Prefix)) {
			best = t
		}
	}
	return best
}

// c01V1Answer: what tenant `name` answers to a protocol-1.0 auth request with these
// params (pure; used by the generator to predict and by the fake backend to answer).
type c01V1Params struct {
	Ticket string `json:"ticket"`
	UserId string `json:"userid"`
	Mode   string `json:"mode"`
}

func c01V1Answer(name string, p *c01V1Params) string {
	switch p.Mode {
	case "badct":
		return "fail"
	case "other":
		return "other"
	case "error":
		return "error:" + vEnc("some_backend_error")
	}
	if p.Ticket == name {
		return "auth:" + vEnc(p.UserId)
	}
	return "error:" + vEnc("invalid_ticket")
}

type c01BackendLog struct {
	mu      sync.Mutex
	entries []string // "<kind> <tenant|-> <detail>"
}

func (l *c01BackendLog) add(s string) {
	l.mu.Lock()
	l.entries = append(l.entries, s)
	l.mu.Unlock()
}

func (l *c01BackendLog) take() []string {
	l.mu.Lock()
	defer l.mu.Unlock()
	e := l.entries
	l.entries = nil
	return e
}

func c01Ocs(data string) []byte {
	return []byte(fmt.Sprintf(`{"ocs":{"meta":{"status":"ok","statuscode":200,"message":"OK"},"data":%s}}`, data))
}

// c01BackendHandler is the web server of all tenants.
func c01BackendHandler(tenants []*c01Tenant, lg *c01BackendLog) http.Handler {
	return http.HandlerFunc(func(w http.ResponseWriter, r *http.Request) {
		body, _ := io.ReadAll(r.Body)
		t := c01Route(tenants, r.Host, r.URL.Path)
		if t == nil {
			lg.add("any - 404 " + r.Host + r.URL.Path)
			http.NotFound(w, r)
			return
		}
		clean := path.Clean(r.URL.Path)
		if r.Method == "GET" && strings.HasSuffix(clean, "/ocs/v2.php/cloud/capabilities") {
			lg.add("caps " + t.Name)
			features := []string{"foo"}
			if t.Fed {
				features = append(features, "federation-v2")
			}
			if t.V3 {
				features = append(features, "signaling-v3")
			}
			signaling := map[string]interface{}{"foo": "bar"}
			if key, ok := t.published(); ok {
				signaling["hello-v2-token-key"] = key
			}
			spreed, _ := json.Marshal(map[string]interface{}{"features": features, "config": map[string]interface{}{"signaling": signaling}})
			data, _ := json.Marshal(map[string]interface{}{"version": map[string]interface{}{"major": 30}, "capabilities": map[string]json.RawMessage{"spreed": spreed}})
			w.Header().Set("Content-Type", "application/json")
			w.WriteHeader(200)
			w.Write(c01Ocs(string(data)))
			return
		}
		if r.Method == "POST" {
			var req struct {
				Type string `json:"type"`
				Auth *struct {
					Params json.RawMessage `json:"params"`
				} `json:"auth"`
			}
			if err := json.Unmarshal(body, &req); err != nil || req.Type != "auth" || req.Auth == nil {
				lg.add("post " + t.Name + " unexpected " + string(body))
				http.Error(w, "unexpected request", 400)
				return
			}
			var p c01V1Params
			json.Unmarshal(req.Auth.Params, &p)
			ans := c01V1Answer(t.Name, &p)
			lg.add("auth " + t.Name + " " + ans)
			switch {
			case ans == "fail":
				w.Header().Set("Content-Type", "text/plain")
				w.WriteHeader(200)
				w.Write([]byte("hello"))
				return
			case ans == "other":
				w.Header().Set("Content-Type", "application/json")
				w.Write(c01Ocs(`{"type":"room","room":{"version":"1.0","roomid":"x"}}`))
			case strings.HasPrefix(ans, "error:"):
				w.Header().Set("Content-Type", "application/json")
				w.Write(c01Ocs(fmt.Sprintf(`{"type":"error","error":{"code":%q,"message":"refused"}}`, vDec(ans[6:]))))
			default:
				data, _ := json.Marshal(map[string]interface{}{"type": "auth", "auth": map[string]interface{}{
					"version": "1.0", "userid": p.UserId, "user": map[string]string{"displayname": "D " + p.UserId}}})
				w.Header().Set("Content-Type", "application/json")
				w.Write(c01Ocs(string(data)))
			}
			return
		}
		lg.add("any " + t.Name + " 404 " + r.Method + " " + r.URL.Path)
		http.NotFound(w, r)
	})
}

// ---------- what net/url makes of a URL (for the model) ----------

type c01UrlFacts struct {
	Raw                                        string
	Ok                                         bool
	Scheme, Host, Hostname, Port, S1, S2, Srv string
	Dot                                        bool
}

// c01UrlInfo parses with the function the server uses for that field
// (ParseRequestURI for hello.auth.url, Parse for internal backend) and renders the
// facts the model's lookup is defined over.  Standard library only.
func c01UrlInfo(raw string, requestURI bool, tenants []*c01Tenant) c01UrlFacts {
	f := c01UrlFacts{Raw: raw}
	var u *url.URL
	var err error
	if requestURI {
		u, err = url.ParseRequestURI(raw)
	} else {
		u, err = url.Parse(raw)
	}
	if err != nil {
		return f
	}
	f.Ok = true
	f.Scheme, f.Host, f.Hostname, f.Port = u.Scheme, u.Host, u.Hostname(), u.Port()
	f.S1 = u.String()
	u2 := *u
	u2.Host = u.Hostname()
	f.S2 = u2.String()
	for _, seg := range strings.Split(u.Path, "/") {
		if seg == "." || seg == ".." {
			f.Dot = true
		}
	}
	if u.Scheme == "http" || u.Scheme == "https" {
		if t := c01Route(tenants, u.Host, u.Path); t != nil {
			f.Srv = t.Name
		}
	}
	return f
}

func (f c01UrlFacts) kv(p string) string {
	b := func(x bool) string {
		if x {
			return "1"
		}
		return "0"
	}
	return fmt.Sprintf("%sraw=%s %sok=%s %sscheme=%s %shost=%s %shostname=%s %sport=%s %ss1=%s %ss2=%s %sdot=%s %ssrv=%s",
		p, vEnc(f.Raw), p, b(f.Ok), p, vEnc(f.Scheme), p, vEnc(f.Host), p, vEnc(f.Hostname), p, vEnc(f.Port),
		p, vEnc(f.S1), p, vEnc(f.S2), p, b(f.Dot), p, vEnc(f.Srv))
}

// ---------- key=value op lines ----------

type c01KV map[string]string

func c01ParseKV(fields []string) c01KV {
	m := c01KV{}
	for _, f := range fields {
		if i := strings.IndexByte(f, '='); i >= 0 {
			m[f[:i]] = f[i+1:]
		}
	}
	return m
}

func (m c01KV) s(k string) string { return vDec(m[k]) }
func (m c01KV) b(k string) bool   { return m[k] == "1" }
func (m c01KV) raw(k string) string {
	return m[k]
}

func c01SortedKeys(m map[string]bool) []string {
	var ks []string
	for k := range m {
		ks = append(ks, k)
	}
	sort.Strings(ks)
	return ks
}
