package signaling

// C10 harness, part 2: document generator (structure-aware mutations over the
// protocol's field names + raw byte stream), the shape of a document as seen by
// the real decoder (what the Lean model is given), execution of one case.

import (
	"bufio"
	"bytes"
	"encoding/hex"
	"encoding/json"
	"fmt"
	"io"
	"log"
	"net/url"
	"os"
	"os/exec"
	"sort"
	"strconv"
	"strings"
	"testing"
	"time"
	"unicode/utf8"

	"github.com/gorilla/websocket"
)

// ---------- a small JSON tree that can express malformed documents ----------

type vJ struct {
	kind byte // 'o' object, 'a' array, 's' string, 'l' literal (number, true, false, null, garbage)
	s    string
	kv   []vJKV
	arr  []*vJ
	pad  bool // string leaf filled with the case's padding
}

type vJKV struct {
	k string
	v *vJ
}

func jO(kv ...interface{}) *vJ {
	o := &vJ{kind: 'o'}
	for i := 0; i+1 < len(kv); i += 2 {
		o.kv = append(o.kv, vJKV{kv[i].(string), jV(kv[i+1])})
	}
	return o
}

func jV(v interface{}) *vJ {
	switch x := v.(type) {
	case *vJ:
		return x
	case string:
		return &vJ{kind: 's', s: x}
	case int:
		return &vJ{kind: 'l', s: strconv.Itoa(x)}
	case bool:
		return &vJ{kind: 'l', s: strconv.FormatBool(x)}
	case nil:
		return &vJ{kind: 'l', s: "null"}
	case []string:
		a := &vJ{kind: 'a'}
		for _, s := range x {
			a.arr = append(a.arr, jV(s))
		}
		return a
	}
	panic(fmt.Sprintf("jV: %T", v))
}

func jL(s string) *vJ { return &vJ{kind: 'l', s: s} }

func (j *vJ) clone() *vJ {
	c := *j
	c.kv = nil
	c.arr = nil
	for _, e := range j.kv {
		c.kv = append(c.kv, vJKV{e.k, e.v.clone()})
	}
	for _, e := range j.arr {
		c.arr = append(c.arr, e.clone())
	}
	return &c
}

func (j *vJ) write(sb *strings.Builder) {
	switch j.kind {
	case 'o':
		sb.WriteByte('{')
		for i, e := range j.kv {
			if i > 0 {
				sb.WriteByte(',')
			}
			k, _ := json.Marshal(e.k)
			sb.Write(k)
			sb.WriteByte(':')
			e.v.write(sb)
		}
		sb.WriteByte('}')
	case 'a':
		sb.WriteByte('[')
		for i, e := range j.arr {
			if i > 0 {
				sb.WriteByte(',')
			}
			e.write(sb)
		}
		sb.WriteByte(']')
	case 's':
		if j.pad {
			sb.WriteString(`"@PAD@"`)
			return
		}
		k, _ := json.Marshal(j.s)
		sb.Write(k)
	default:
		sb.WriteString(j.s)
	}
}

func (j *vJ) String() string {
	var sb strings.Builder
	j.write(&sb)
	return sb.String()
}

// nodes lists every (parent, index) slot of the tree.
type vJSlot struct {
	parent *vJ
	idx    int
}

func (j *vJ) slots(out *[]vJSlot) {
	for i := range j.kv {
		*out = append(*out, vJSlot{j, i})
		j.kv[i].v.slots(out)
	}
	for i := range j.arr {
		*out = append(*out, vJSlot{j, i})
		j.arr[i].slots(out)
	}
}

func (s vJSlot) get() *vJ {
	if s.parent.kind == 'o' {
		return s.parent.kv[s.idx].v
	}
	return s.parent.arr[s.idx]
}

func (s vJSlot) set(v *vJ) {
	if s.parent.kind == 'o' {
		s.parent.kv[s.idx].v = v
	} else {
		s.parent.arr[s.idx] = v
	}
}

func (s vJSlot) key() string {
	if s.parent.kind == 'o' {
		return s.parent.kv[s.idx].k
	}
	return ""
}

// ---------- placeholders ----------

const (
	phURL     = "$URL"
	phSelf    = "$SELF"
	phSelfPri = "$SELFPRIV"
	phBy      = "$BY"
	phDialout = "$DIALOUT"
	phVirt    = "$VIRT"
	phToken   = "$ITOKEN"
	repURL    = "http://127.0.0.1:18080"
)

// ---------- valid base documents ----------

var vC10SdpOk = "v=0\r\no=- 1 1 IN IP4 127.0.0.1\r\ns=-\r\nt=0 0\r\nm=audio 9 UDP/TLS/RTP/SAVPF 111\r\nc=IN IP4 0.0.0.0\r\na=rtpmap:111 opus/48000/2\r\n"

type vC10Base struct {
	name string
	doc  func(r *vRand) *vJ
}

func vC10Recipient(r *vRand) *vJ {
	switch r.intn(8) {
	case 0:
		return jO("type", "room")
	case 1:
		return jO("type", "call")
	case 2:
		return jO("type", "session", "sessionid", phBy)
	case 3:
		return jO("type", "session", "sessionid", r.pick([]string{phSelf, phVirt, "bogus-session-id", "Zm9vYmFy", ""}))
	case 4:
		return jO("type", "user", "userid", "bystander")
	case 5:
		return jO("type", "user", "userid", r.pick([]string{"sender", "nobody", "user with space", ""}))
	case 6:
		return jO("type", r.pick([]string{"", "Room", "everyone", "session"}))
	default:
		return jO("type", "session", "sessionid", phBy, "userid", "bystander")
	}
}

func vC10Data(r *vRand) *vJ {
	switch r.intn(14) {
	case 0:
		return jO("type", "chat", "chat", jO("refresh", true))
	case 1:
		return jV("plain string payload")
	case 2:
		return jO("type", "requestoffer", "roomType", r.pick([]string{"video", "screen", "", "bogus"}))
	case 3:
		return jO("type", "offer", "roomType", "video", "payload", jO("type", "offer", "sdp", vC10SdpOk))
	case 4:
		return jO("type", r.pick([]string{"offer", "answer"}), "roomType", r.pick([]string{"video", "screen"}), "payload",
			jO("sdp", r.pick([]string{"", "v=0", "garbage\r\n\r\n", "m=audio", vC10SdpOk[:40]})))
	case 5:
		return jO("type", r.pick([]string{"offer", "answer"}), "payload", jO("sdp", jV(r.intn(5))))
	case 6:
		return jO("type", r.pick([]string{"offer", "answer"}), "roomType", "video")
	case 7:
		return jO("type", "candidate", "roomType", "video", "payload", jO("candidate", jO("candidate", "candidate:1 1 UDP 1 127.0.0.1 9 typ host", "sdpMid", "0")))
	case 8:
		return jO("type", r.pick([]string{"endOfCandidates", "selectStream", "unshareScreen", "sendoffer"}), "roomType", r.pick([]string{"video", "screen"}), "sid", "abc")
	case 9:
		return jO("type", "sendoffer", "roomType", "video")
	case 10:
		return jL(strconv.Itoa(r.intn(1000)))
	case 11:
		return jO("type", "nickChanged", "payload", jO("name", "x"))
	case 12:
		return jO("type", jV(r.intn(3)), "payload", jV("nope"), "bitrate", "fast")
	default:
		return jO("action", "forceMute", "peerId", phBy)
	}
}

func vC10Internal(r *vRand) *vJ {
	room := r.pick([]string{vC10Room, vC10Room, vC10Room, "elsewhere", ""})
	vsid := r.pick([]string{"v1", "v1", "v2", ""})
	switch r.intn(9) {
	case 0:
		o := jO("sessionid", vsid, "roomid", room, "userid", "vuser")
		if r.chance(1, 2) {
			o.kv = append(o.kv, vJKV{"flags", jV(r.intn(8))})
		}
		if r.chance(1, 2) {
			o.kv = append(o.kv, vJKV{"incall", jV(r.intn(8))})
		}
		if r.chance(1, 3) {
			o.kv = append(o.kv, vJKV{"options", jO("actorId", "a1", "actorType", "phones")})
		}
		if r.chance(1, 3) {
			o.kv = append(o.kv, vJKV{"user", r.pickJ([]*vJ{jO("displayname", "V"), jV("not an object"), jL("[1,2]")})})
		}
		return jO("type", "addsession", "addsession", o)
	case 1:
		o := jO("sessionid", vsid, "roomid", room)
		if r.chance(2, 3) {
			o.kv = append(o.kv, vJKV{"flags", jV(r.intn(8))})
		}
		if r.chance(2, 3) {
			o.kv = append(o.kv, vJKV{"incall", jV(r.intn(8) - 1)})
		}
		return jO("type", "updatesession", "updatesession", o)
	case 2:
		return jO("type", "removesession", "removesession", jO("sessionid", vsid, "roomid", room, "userid", "vuser"))
	case 3:
		return jO("type", "incall", "incall", jO("incall", r.intn(8)-1))
	case 4:
		return jO("type", "dialout", "dialout", jO("type", "error", "roomid", room, "error", jO("code", "e1", "message", "m")))
	case 5:
		return jO("type", "dialout", "dialout", jO("type", "status", "roomid", room,
			"status", jO("callid", "c"+strconv.Itoa(r.intn(3)), "status", r.pick([]string{"accepted", "ringing", "connected", "rejected", "cleared", "weird"}))))
	case 6:
		return jO("type", "dialout", "dialout", jO("type", r.pick([]string{"other", "Status", "x"}), "roomid", room))
	case 7:
		// another internal type that carries a (not validated) dialout member
		return jO("type", "incall", "incall", jO("incall", 1), "dialout", jO("type", r.pick([]string{"status", "error", "x"})))
	default:
		return jO("type", r.pick([]string{"bogus", "", "AddSession"}))
	}
}

func (r *vRand) pickJ(xs []*vJ) *vJ { return xs[r.intn(len(xs))] }

var vC10Bases = []vC10Base{
	{"hello-v1", func(r *vRand) *vJ {
		user := r.pick([]string{"u1", "u1", "restricted-u2", "", "deny-u3"})
		return jO("type", "hello", "hello", jO("version", "1.0", "auth", jO("url", phURL, "params", jO("userid", user))))
	}},
	{"hello-v2", func(r *vRand) *vJ {
		return jO("type", "hello", "hello", jO("version", "2.0", "auth", jO("type", r.pick([]string{"", "client", "federation"}), "url", phURL,
			"params", jO("token", r.pick([]string{"a.b.c", "", "eyJhbGciOiJSUzI1NiJ9.e30.c2ln", "eyJhbGciOiJub25lIn0.e30."})))))
	}},
	{"hello-internal", func(r *vRand) *vJ {
		rnd := r.pick([]string{vC10Random, vC10Random, "short", ""})
		tok := r.pick([]string{phToken, phToken, "deadbeef", ""})
		feats := r.pickJ([]*vJ{jV([]string{}), jV([]string{"start-dialout"}), jV([]string{"internal-incall"})})
		return jO("type", "hello", "hello", jO("version", r.pick([]string{"1.0", "2.0"}), "features", feats, "auth", jO("type", "internal",
			"params", jO("random", rnd, "token", tok, "backend", r.pick([]string{phURL, phURL, "", "http://unknown.invalid/", "::"})))))
	}},
	{"hello-resume", func(r *vRand) *vJ {
		return jO("type", "hello", "hello", jO("version", r.pick([]string{"1.0", "2.0"}), "resumeid", r.pick([]string{"bogus", phSelf, "Zm9v", "a b"})))
	}},
	{"hello-odd", func(r *vRand) *vJ {
		return jO("type", "hello", "hello", jO("version", r.pick([]string{"1.0", "3.0", ""}), "auth", jO("type", r.pick([]string{"virtual", "Client", "federation"}),
			"url", r.pick([]string{phURL, "", "not a url", "/relative", "http://unknown.invalid/"}), "params", r.pickJ([]*vJ{jO("userid", "u1"), jL("null"), jV(""), jL("0")}))))
	}},
	{"bye", func(r *vRand) *vJ {
		if r.chance(1, 2) {
			return jO("type", "bye")
		}
		return jO("type", "bye", "bye", jO())
	}},
	{"room-join", func(r *vRand) *vJ {
		return jO("type", "room", "room", jO("roomid", r.pick([]string{vC10Room, vC10Room, "other-room", "deny-room", "room with space"}),
			"sessionid", r.pick([]string{"", "rs-x1", "rs-x2"})))
	}},
	{"room-leave", func(r *vRand) *vJ { return jO("type", "room", "room", jO("roomid", "")) }},
	{"room-federation", func(r *vRand) *vJ {
		return jO("type", "room", "room", jO("roomid", r.pick([]string{vC10Room, "fed-room"}), "sessionid", "rs-f", "federation",
			jO("signaling", r.pick([]string{"http://127.0.0.1:1/", "http://127.0.0.1:1", "", "::", "ws://[::1"}),
				"url", r.pick([]string{phURL, "", "::"}), "roomid", r.pick([]string{"", "remote"}), "token", r.pick([]string{"tok", ""}))))
	}},
	{"message", func(r *vRand) *vJ { return jO("type", "message", "message", jO("recipient", vC10Recipient(r), "data", vC10Data(r))) }},
	{"control", func(r *vRand) *vJ { return jO("type", "control", "control", jO("recipient", vC10Recipient(r), "data", vC10Data(r))) }},
	{"internal", func(r *vRand) *vJ { return jO("type", "internal", "internal", vC10Internal(r)) }},
	{"transient", func(r *vRand) *vJ {
		key := r.pick([]string{"k1", "k1", "k2", ""})
		switch r.intn(5) {
		case 0, 1:
			o := jO("type", "set", "key", key, "value", r.pickJ([]*vJ{jV("v" + strconv.Itoa(r.intn(3))), jO("a", 1), jL("null"), jL("17")}))
			if r.chance(1, 3) {
				o.kv = append(o.kv, vJKV{"ttl", jL(r.pick([]string{"0", "-1", "3600000000000", "9223372036854775807"}))})
			}
			return jO("type", "transient", "transient", o)
		case 2:
			return jO("type", "transient", "transient", jO("type", "set", "key", key))
		case 3:
			return jO("type", "transient", "transient", jO("type", "remove", "key", key))
		default:
			return jO("type", "transient", "transient", jO("type", r.pick([]string{"get", "", "Set"}), "key", key))
		}
	}},
	{"unknown", func(r *vRand) *vJ {
		return jO("type", r.pick([]string{"ping", "Hello", "event", "error", "welcome", " room"}), "room", jO("roomid", vC10Room))
	}},
}

// ---------- mutations ----------

var vC10TopKeys = []string{"hello", "bye", "room", "message", "control", "internal", "transient"}
var vC10Types = []string{"hello", "bye", "room", "message", "control", "internal", "transient", "", "bogus"}

func vC10Nest(r *vRand, depth int) *vJ {
	open, cls := "[", "]"
	if r.chance(1, 2) {
		open, cls = `{"a":`, "}"
	}
	return jL(strings.Repeat(open, depth) + "1" + strings.Repeat(cls, depth))
}

func vC10Hostile(r *vRand) *vJ {
	switch r.intn(16) {
	case 0:
		return jL("null")
	case 1:
		return jV("")
	case 2:
		return jO()
	case 3:
		return &vJ{kind: 'a'}
	case 4:
		return jL(r.pick([]string{"0", "-1", "1.5", "1e400", "9223372036854775808", "-0", "4294967296", "18446744073709551616"}))
	case 5:
		return jL(r.pick([]string{"true", "false"}))
	case 6:
		return jV(r.pick([]string{"string", "0", "null", "\u0000", "\ufffd", "a\nb", strings.Repeat("x", 300)}))
	case 7:
		return vC10Nest(r, 1+r.intn(40))
	case 8:
		return vC10Nest(r, 5000+r.intn(6000))
	case 9:
		return jO("type", r.pick(vC10Types))
	case 10:
		return jV([]string{"a", "b"})
	case 11:
		return jL(r.pick([]string{"nul", "{", "\"unterminated", "[1,", "tru", "01", "+1", "'x'"}))
	case 12:
		return jO("sessionid", phBy, "roomid", vC10Room, "type", "status", "status", jL("null"), "error", jL("null"))
	case 13:
		return jV(r.pick([]string{phBy, phSelf, phURL, vC10Room}))
	case 14:
		return jL("[[[[[[[[[[{\"a\":[[[[[[[[[[null]]]]]]]]]]}]]]]]]]]]]")
	default:
		return jL(strconv.Itoa(r.intn(100000)))
	}
}

// vC10Mutate applies one structure-aware mutation in place; returns whether
// the document must be padded (oversized leaf).
func vC10Mutate(r *vRand, doc *vJ, padded bool) (pad bool) {
	var slots []vJSlot
	doc.slots(&slots)
	if len(slots) == 0 {
		return false
	}
	s := slots[r.intn(len(slots))]
	switch r.intn(12) {
	case 0, 1: // member missing
		if s.parent.kind == 'o' {
			s.parent.kv = append(s.parent.kv[:s.idx:s.idx], s.parent.kv[s.idx+1:]...)
		} else {
			s.parent.arr = append(s.parent.arr[:s.idx:s.idx], s.parent.arr[s.idx+1:]...)
		}
	case 2: // null
		s.set(jL("null"))
	case 3, 4, 5: // wrong-typed / hostile value
		s.set(vC10Hostile(r))
	case 6: // duplicated member, second one hostile or the original again
		if s.parent.kind == 'o' {
			dup := vJKV{s.key(), s.get().clone()}
			if r.chance(1, 2) {
				dup.v = vC10Hostile(r)
			}
			if r.chance(1, 2) {
				s.parent.kv = append(s.parent.kv, dup)
			} else {
				s.parent.kv = append([]vJKV{dup}, s.parent.kv...)
			}
		}
	case 7: // type confusion at the top level
		for i := range doc.kv {
			if doc.kv[i].k == "type" {
				doc.kv[i].v = jV(r.pick(vC10Types))
			}
		}
	case 8: // graft a sub-object of another message type
		other := vC10Bases[r.intn(len(vC10Bases))].doc(r)
		for _, e := range other.kv {
			if e.k != "type" {
				doc.kv = append(doc.kv, e)
			}
		}
	case 9: // rename a top-level member to another protocol name
		if len(doc.kv) > 0 {
			i := r.intn(len(doc.kv))
			if doc.kv[i].k != "type" {
				doc.kv[i].k = r.pick(vC10TopKeys)
			}
		}
	case 10: // oversized string leaf
		if s.get().kind == 's' && !strings.HasPrefix(s.get().s, "$") && !padded && !strings.Contains(doc.String(), "@PAD@") {
			s.set(&vJ{kind: 's', pad: true})
			return true
		}
		s.set(vC10Hostile(r))
	case 11: // unknown extra member
		if s.parent.kind == 'o' {
			s.parent.kv = append(s.parent.kv, vJKV{r.pick([]string{"extra", "__proto__", "Type", "TYPE", "id"}), vC10Hostile(r)})
		}
	}
	return false
}

// ---------- raw byte stream ----------

func vC10Raw(r *vRand) (data string, binary bool) {
	switch r.intn(12) {
	case 0:
		n := r.intn(64)
		b := make([]byte, n)
		for i := range b {
			b[i] = byte(r.intn(256))
		}
		return string(b), r.chance(1, 3)
	case 1:
		return r.pick([]string{"", " ", "null", "[]", "\"\"", "0", "{}", "true", "{\"type\":null}", "{\"type\":0}", "\xef\xbb\xbf{}", "{\"type\":\"bye\"}{}", "{} x"}), false
	case 2, 3: // truncated valid document
		doc := vC10Bases[r.intn(len(vC10Bases))].doc(r).String()
		return doc[:r.intn(len(doc)+1)], false
	case 4, 5: // byte flips in a valid document
		doc := []byte(vC10Bases[r.intn(len(vC10Bases))].doc(r).String())
		for k := 0; k < 1+r.intn(3) && len(doc) > 0; k++ {
			doc[r.intn(len(doc))] = byte(r.intn(256))
		}
		return string(doc), false
	case 6: // valid document in a binary frame
		return vC10Bases[r.intn(len(vC10Bases))].doc(r).String(), true
	case 7:
		return strings.Repeat(r.pick([]string{"[", "{\"a\":", "\"", "\\", "{"}), 1+r.intn(3000)), false
	case 8:
		return "{\"type\":\"message\",\"message\":{\"recipient\":{\"type\":\"room\"},\"data\":" + strings.Repeat("[", 20000) + strings.Repeat("]", 20000) + "}}", false
	case 9:
		return "{\"type\":\"hello\",\"hello\":{\"version\":\"1.0\",\"features\":[" + strings.Repeat("\"f\",", 5000) + "\"f\"],\"resumeid\":\"x\"}}", false
	case 10:
		return "{\"id\":\"" + strings.Repeat("i", r.intn(5000)) + "\",\"type\":\"\\u0062ye\"}", false
	default:
		return "\xff\xfe{\"type\":\"bye\"}", false
	}
}

// ---------- shape: what the real decoder makes of a document ----------

func vC10UrlClass(s string) string {
	if s == "" {
		return "e"
	}
	sub := strings.ReplaceAll(s, phURL, repURL)
	if _, err := url.ParseRequestURI(sub); err != nil {
		return "bad"
	}
	if s == phURL || s == phURL+"/" {
		return "known"
	}
	if strings.Contains(s, phURL) {
		return "amb"
	}
	return "unknown"
}

func vC10UrlClassParse(s string) string {
	if s == "" {
		return "e"
	}
	sub := strings.ReplaceAll(s, phURL, repURL)
	if _, err := url.Parse(sub); err != nil {
		return "bad"
	}
	if s == phURL || s == phURL+"/" {
		return "known"
	}
	if strings.Contains(s, phURL) {
		return "amb"
	}
	return "unknown"
}

func vC10SidClass(s string) string {
	switch s {
	case "":
		return "e"
	case phSelf:
		return "self"
	case phBy:
		return "by"
	case phVirt:
		return "virt"
	}
	if strings.Contains(s, "$") {
		return "amb"
	}
	return "o"
}

func vC10RoomClass(s string) string {
	switch {
	case s == "":
		return "e"
	case s == vC10Room:
		return "by"
	case strings.HasPrefix(s, "deny"):
		return "deny"
	}
	if strings.Contains(s, "$") {
		return "amb"
	}
	return "o:" + s
}

func b01(b bool) string {
	if b {
		return "1"
	}
	return "0"
}

type vShape struct{ toks []string }

// add appends a token; the decoder does not check UTF-8, the driver's tokens must be valid.
func (s *vShape) add(k, v string) { s.toks = append(s.toks, k+"="+vEnc(strings.ToValidUTF8(v, "\uFFFD"))) }

func vC10DataShape(s *vShape, p string, data json.RawMessage) {
	s.add(p+".data", b01(len(data) > 0))
	s.add(p+".dvalid", b01(json.Valid(data)))
	vC10ServerDataShape(s, p, data)
	var d MessageClientMessageData
	if err := json.Unmarshal(data, &d); err != nil {
		s.add(p+".dj", "bad")
		return
	}
	s.add(p+".dj", "ok")
	s.add(p+".dtype", d.Type)
	rt := "valid"
	if d.RoomType == "" {
		rt = "e"
	} else if !IsValidStreamType(d.RoomType) {
		rt = "invalid"
	}
	s.add(p+".drt", rt)
	if d.RoomType == "screen" {
		s.add(p+".dscreen", "1")
	}
	sdp := "none"
	if v, found := d.Payload["sdp"]; found {
		if str, ok := v.(string); !ok {
			sdp = "nostr"
		} else {
			// the SDP parser is an external library: its verdict is an input of the model
			dd := MessageClientMessageData{Type: "offer", Payload: map[string]interface{}{"sdp": str}}
			if dd.CheckValid() != nil {
				sdp = "bad"
			} else {
				sdp = "ok"
			}
		}
	}
	s.add(p+".dsdp", sdp)
}

// vC10ServerDataShape: the same bytes as the recipient's side decodes them again
// (MessageServerMessageData: IsChatRefresh, filterMessage).  Only non-default values are written.
func vC10ServerDataShape(s *vShape, p string, data json.RawMessage) {
	var d MessageServerMessageData
	if len(data) == 0 || json.Unmarshal(data, &d) != nil {
		return
	}
	s.add(p+".sdj", "ok")
	if d.Type != "" {
		s.add(p+".sdtype", d.Type)
	}
	if d.Chat != nil {
		s.add(p+".sdchat", b01(d.Chat.Refresh))
	}
}

func vC10MsgShape(s *vShape, p string, m *MessageClientMessage) {
	s.add(p+".rtype", m.Recipient.Type)
	s.add(p+".rsid", vC10SidClass(m.Recipient.SessionId))
	uid := "o"
	switch m.Recipient.UserId {
	case "":
		uid = "e"
	case "bystander":
		uid = "by"
	case "sender", "restricted-sender":
		uid = "self"
	}
	s.add(p+".ruid", uid)
	vC10DataShape(s, p, m.Data)
}

// vC10Shape decodes the template with the real decoder and flattens what the
// model needs.  Returns ok=false if the document cannot be classified
// unambiguously (the generator then drops it).
func vC10Shape(template string, pad int, binary bool, noroom bool) (toks []string, ok bool) {
	s := &vShape{}
	// in a world whose bystander is in no room `vroom` is a room like any other
	vC10RoomClass := func(id string) string {
		if c := vC10RoomClass(id); !noroom || c != "by" {
			return c
		}
		return "o:" + id
	}
	// for a padded document `pad` is the total size of the frame that will be sent
	// (the padding is computed when the placeholders have been substituted)
	size := len(template)
	padLen := 0
	if strings.Contains(template, "@PAD@") {
		size = pad
		padLen = pad - (len(template) - len("@PAD@"))
		if padLen < 1 {
			padLen = 1
		}
	}
	if n := strings.Count(template, "$"); n > 0 && padLen == 0 {
		// an unpadded document is sent with its placeholders substituted (session ids, the server's URL): a
		// size this close to the limit could end up on the other side of it -- not classifiable here
		if (size <= maxMessageSize && size+512*n > maxMessageSize) || (size > maxMessageSize && size-16*n <= maxMessageSize) {
			return nil, false
		}
	}
	s.add("size", strconv.Itoa(size))
	if binary {
		s.add("frame", "bin")
	} else {
		s.add("frame", "text")
	}
	doc := strings.ReplaceAll(template, "@PAD@", strings.Repeat("A", padLen))
	var m ClientMessage
	var derr error
	panicked := false
	func() {
		defer func() {
			if r := recover(); r != nil {
				panicked = true
			}
		}()
		derr = m.UnmarshalJSON([]byte(doc))
	}()
	if panicked {
		s.add("dec", "panic")
		return s.toks, true
	}
	if derr != nil {
		s.add("dec", "err")
		return s.toks, true
	}
	s.add("dec", "ok")
	amb := false
	cls := func(c string) string {
		if c == "amb" {
			amb = true
		}
		return c
	}
	switch {
	case m.Id == "":
		s.add("id", "e")
	case m.Id == phDialout:
		s.add("id", "p")
	case strings.HasPrefix(m.Id, "vsync"):
		amb = true
	default:
		s.add("id", "o")
	}
	s.add("type", m.Type)
	s.add("type.utf8", b01(utf8.ValidString(m.Type)))
	s.add("hello", b01(m.Hello != nil))
	s.add("bye", b01(m.Bye != nil))
	s.add("room", b01(m.Room != nil))
	s.add("message", b01(m.Message != nil))
	s.add("control", b01(m.Control != nil))
	s.add("internal", b01(m.Internal != nil))
	s.add("transient", b01(m.TransientData != nil))
	if h := m.Hello; h != nil {
		s.add("h.ver", h.Version)
		switch h.ResumeId {
		case "":
			s.add("h.resume", "e")
		case phSelfPri, phBy:
			amb = true
		default:
			s.add("h.resume", "o")
		}
		feat := ""
		for _, f := range h.Features {
			if f == ClientFeatureStartDialout {
				feat += "d"
			}
			if f == ClientFeatureInternalInCall {
				feat += "i"
			}
		}
		s.add("h.feat", feat)
		s.add("h.auth", b01(h.Auth != nil))
		if a := h.Auth; a != nil {
			s.add("h.atype", a.Type)
			s.add("h.params", b01(len(a.Params) > 0))
			s.add("h.url", cls(vC10UrlClass(a.Url)))
			var v2 HelloV2AuthParams
			s.add("h.v2", b01(json.Unmarshal(a.Params, &v2) == nil && v2.Token != ""))
			acc, user := vC10AuthDecision(a.Params)
			s.add("h.v1", b01(acc))
			uc := "n"
			if user == "" {
				uc = "e"
			} else if strings.HasPrefix(user, "restricted") {
				uc = "r"
			}
			s.add("h.v1user", uc)
			var ip ClientTypeInternalAuthParams
			if err := json.Unmarshal(a.Params, &ip); err != nil {
				s.add("h.ip", "0")
			} else {
				s.add("h.ip", "1")
				s.add("h.ibackend", cls(vC10UrlClassParse(ip.Backend)))
				s.add("h.irnd", strconv.Itoa(len(ip.Random)))
				tok := "0"
				if ip.Token == phToken && ip.Random == vC10Random {
					tok = "1"
				} else if ip.Token == vC10InternalToken(ip.Random) {
					tok = "1"
				} else if strings.Contains(ip.Token, "$") {
					amb = true
				}
				s.add("h.itok", tok)
			}
		}
	}
	if r := m.Room; r != nil {
		s.add("r.id", cls(vC10RoomClass(r.RoomId)))
		switch r.SessionId {
		case "":
			s.add("r.sid", "e")
		case "rs-by", "rs-snd":
			amb = true
		default:
			s.add("r.sid", "o")
		}
		s.add("r.fed", b01(r.Federation != nil))
		if f := r.Federation; f != nil {
			sig := f.SignalingUrl
			sc := "ok"
			if sig == "" {
				sc = "e"
			} else {
				if sig[len(sig)-1] != '/' {
					sig += "/"
				}
				if _, err := url.Parse(sig); err != nil {
					sc = "bad"
				} else if !strings.HasPrefix(sig, "http://127.0.0.1:1/") {
					amb = true // only an unreachable local port is dialled by the harness
				}
			}
			s.add("r.fsig", sc)
			nc := "ok"
			if f.NextcloudUrl == "" {
				nc = "e"
			} else if _, err := url.Parse(strings.ReplaceAll(f.NextcloudUrl, phURL, repURL)); err != nil {
				nc = "bad"
			}
			s.add("r.furl", nc)
			s.add("r.ftok", b01(f.Token != ""))
		}
	}
	if mm := m.Message; mm != nil {
		vC10MsgShape(s, "m", mm)
	}
	if c := m.Control; c != nil {
		vC10MsgShape(s, "c", &c.MessageClientMessage)
	}
	if in := m.Internal; in != nil {
		s.add("i.type", in.Type)
		s.add("i.add", b01(in.AddSession != nil))
		s.add("i.upd", b01(in.UpdateSession != nil))
		s.add("i.rem", b01(in.RemoveSession != nil))
		s.add("i.incall", b01(in.InCall != nil))
		s.add("i.dialout", b01(in.Dialout != nil))
		common := func(p string, c *CommonSessionInternalClientMessage) {
			s.add(p+".sid", c.SessionId)
			s.add(p+".room", cls(vC10RoomClass(c.RoomId)))
		}
		if a := in.AddSession; a != nil {
			common("i.add", &a.CommonSessionInternalClientMessage)
			s.add("i.add.opts", b01(a.Options != nil))
			s.add("i.add.uvalid", b01(len(a.User) == 0 || json.Valid(a.User)))
			s.add("i.add.flags", strconv.Itoa(int(a.Flags)))
			if a.InCall != nil {
				s.add("i.add.incall", strconv.Itoa(*a.InCall))
			}
		}
		if a := in.UpdateSession; a != nil {
			common("i.upd", &a.CommonSessionInternalClientMessage)
			if a.Flags != nil {
				s.add("i.upd.flags", strconv.Itoa(int(*a.Flags)))
			}
			if a.InCall != nil {
				s.add("i.upd.incall", strconv.Itoa(*a.InCall))
			}
		}
		if a := in.RemoveSession; a != nil {
			common("i.rem", &a.CommonSessionInternalClientMessage)
		}
		if a := in.InCall; a != nil {
			s.add("i.incall.v", strconv.Itoa(a.InCall))
		}
		if d := in.Dialout; d != nil {
			s.add("i.d.type", d.Type)
			s.add("i.d.room", cls(vC10RoomClass(d.RoomId)))
			s.add("i.d.error", b01(d.Error != nil))
			s.add("i.d.status", b01(d.Status != nil))
			if d.Status != nil {
				s.add("i.d.st", string(d.Status.Status))
			}
		}
	}
	if t := m.TransientData; t != nil {
		s.add("t.type", t.Type)
		s.add("t.key", t.Key)
		if t.Value != nil {
			s.add("t.value", string(t.Value))
		}
		s.add("t.vvalid", b01(len(t.Value) == 0 || json.Valid(t.Value)))
		s.add("t.ttl", strconv.FormatInt(int64(t.TTL), 10))
		if t.TTL > 0 && t.TTL < time.Hour {
			amb = true // would expire while the case runs
		}
	}
	return s.toks, !amb
}

// ---------- generation ----------

func vC10MsgOp(template string, pad int, binary bool) (string, bool) {
	return vC10MsgOpW(template, pad, binary, false)
}

func vC10MsgOpW(template string, pad int, binary bool, noroom bool) (string, bool) {
	toks, ok := vC10Shape(template, pad, binary, noroom)
	if !ok {
		return "", false
	}
	return "msg " + vEnc(template) + " " + strconv.Itoa(pad) + " " + strings.Join(toks, " "), true
}

func vC10GenDoc(r *vRand) (string, int, bool) {
	if r.chance(1, 5) {
		data, binary := vC10Raw(r)
		return data, 0, binary
	}
	base := vC10Bases[r.intn(len(vC10Bases))]
	doc := base.doc(r)
	if r.chance(1, 6) {
		doc.kv = append([]vJKV{{"id", jV(r.pick([]string{"m1", phDialout, phDialout, ""}))}}, doc.kv...)
	} else if r.chance(1, 2) {
		doc.kv = append([]vJKV{{"id", jV("m" + strconv.Itoa(r.intn(1000)))}}, doc.kv...)
	}
	pad := 0
	nmut := []int{0, 0, 1, 1, 1, 2, 2, 3}[r.intn(8)]
	padded := false
	for k := 0; k < nmut; k++ {
		if vC10Mutate(r, doc, padded) {
			padded = true
		}
	}
	if padded {
		// sizes around the limit, and clearly below / above it
		pad = []int{1000, 30000, maxMessageSize - 1, maxMessageSize, maxMessageSize + 1, maxMessageSize + 2, 2 * maxMessageSize, 200000}[r.intn(8)]
		// the frame has exactly `pad` bytes only if the rest (with ids substituted) fits
		if rest := len(doc.String()) + 2048; pad < rest {
			pad = rest
		}
	}
	return doc.String(), pad, false
}

// vC10GenFromDocs builds cases from explicit documents (one JSON object per
// line: {"mcu":0,"by":"hc","states":[["dialout",["<doc>", "op:by drop", ...]], ...]}); used to write
// corpus cases and for targeted probes.
func vC10GenFromDocs(path string) []vCase {
	data, err := os.ReadFile(path)
	if err != nil {
		panic(err)
	}
	var cases []vCase
	for _, line := range strings.Split(string(data), "\n") {
		if strings.TrimSpace(line) == "" {
			continue
		}
		var spec struct {
			Mcu    int             `json:"mcu"`
			By     *string         `json:"by"`
			States [][]interface{} `json:"states"`
		}
		if err := json.Unmarshal([]byte(line), &spec); err != nil {
			panic(err)
		}
		ops := []string{"world mcu=" + strconv.Itoa(spec.Mcu)}
		noroom := false
		if spec.By != nil {
			ops[0] += " by=" + *spec.By
			noroom = strings.Contains(*spec.By, "n")
		}
		for _, st := range spec.States {
			ops = append(ops, "state "+st[0].(string))
			for _, d := range st[1].([]interface{}) {
				doc, pad, binary := d.(string), 0, false
				if strings.HasPrefix(doc, "op:") {
					ops = append(ops, doc[3:])
					continue
				}
				if strings.HasPrefix(doc, "bin:") {
					doc, binary = doc[4:], true
				}
				if strings.HasPrefix(doc, "hex:") {
					raw, err := hex.DecodeString(doc[4:])
					if err != nil {
						panic(err)
					}
					doc = string(raw)
				}
				if i := strings.Index(doc, "@PAD@"); i >= 0 {
					if j := strings.Index(doc, "@@"); j > 0 && j < i {
						pad, _ = strconv.Atoi(doc[:j])
						doc = doc[j+2:]
					}
				}
				if op, ok := vC10MsgOpW(doc, pad, binary, noroom); ok {
					ops = append(ops, op)
				} else {
					panic("ambiguous document: " + doc)
				}
			}
		}
		cases = append(cases, vCase{Ops: ops})
	}
	return cases
}

func vC10Gen(e *vEnv, r *vRand) []vCase {
	if p := os.Getenv("VERIF_C10_DOCS"); p != "" {
		return vC10GenFromDocs(p)
	}
	if os.Getenv("VERIF_C10_ONLY") == "media" {
		// development aid: only the cases with the Janus client
		return vC10GenMedia(e, newVRand(uint64(e.seed)*0x9e3779b97f4a7c15+0xc10), e.scale(30, 150))
	}
	switch os.Getenv("VERIF_C10_ONLY") {
	case "rcpt":
		return vC10GenRcpt(e, newVRand(uint64(e.seed)*0x9e3779b97f4a7c15+0xc10c), e.scale(40, 100))
	case "remote":
		return vC10GenRemote(e, newVRand(uint64(e.seed)*0x9e3779b97f4a7c15+0xc10d), e.scale(15, 30))
	}
	var cases []vCase
	ncases := e.scale(600, 3000)
	perState := e.scale(9, 14)
	for i := 0; i < ncases; i++ {
		rr := r.fork()
		mcu := rr.chance(1, 3)
		ops := []string{"world mcu=" + b01(mcu)}
		nstates := 1 + rr.intn(3)
		for s := 0; s < nstates; s++ {
			st := vC10States[rr.intn(len(vC10States))]
			ops = append(ops, "state "+st)
			n := 1 + rr.intn(perState)
			for k := 0; k < n; k++ {
				for try := 0; try < 20; try++ {
					doc, pad, binary := vC10GenDoc(rr)
					if strings.Contains(doc, phDialout) && st != "dialout" {
						doc = strings.ReplaceAll(doc, phDialout, "m7")
					}
					if st == "federated" && pad > maxMessageSize-512 && pad <= maxMessageSize {
						// forwarded messages are serialised again and can then exceed the read limit
						// of the federation target, which tears the link down (see docs/notes/C10.md)
						pad = maxMessageSize - 1024
					}
					if op, ok := vC10MsgOp(doc, pad, binary); ok {
						ops = append(ops, op)
						break
					}
				}
			}
		}
		if rr.chance(1, 12) {
			ops = append(ops, "race "+strconv.Itoa(20+rr.intn(60)))
		}
		cases = append(cases, vCase{Ops: ops})
	}
	// the media code behind the handlers (own random stream: the cases above stay what they were)
	cases = append(cases, vC10GenMedia(e, newVRand(uint64(e.seed)*0x9e3779b97f4a7c15+0xc10), e.scale(30, 150))...)
	// the recipient's side (bystander detached / resumed, in no room, in the call, with hide-displaynames)
	cases = append(cases, vC10GenRcpt(e, newVRand(uint64(e.seed)*0x9e3779b97f4a7c15+0xc10c), e.scale(40, 100))...)
	// a sender that is not a websocket of this hub
	cases = append(cases, vC10GenRemote(e, newVRand(uint64(e.seed)*0x9e3779b97f4a7c15+0xc10d), e.scale(15, 30))...)
	return cases
}

// ---------- execution ----------

type vC10Exec struct {
	w *vC10World
}

var vC10McuTypes = map[string]bool{"requestoffer": true, "offer": true, "answer": true, "endOfCandidates": true, "selectStream": true,
	"candidate": true, "unshareScreen": true, "sendoffer": true}

func vC10Join(kinds []string) string {
	if len(kinds) == 0 {
		return "-"
	}
	set := map[string]bool{}
	for _, k := range kinds {
		set[k] = true
	}
	var out []string
	for k := range set {
		out = append(out, k)
	}
	sort.Strings(out)
	return strings.Join(out, "+")
}

func (x *vC10Exec) subst(doc string, pad int) string {
	doc = x.substIds(doc)
	if strings.Contains(doc, "@PAD@") {
		n := pad - (len(doc) - len("@PAD@"))
		if n < 1 {
			n = 1
		}
		doc = strings.Replace(doc, "@PAD@", strings.Repeat("A", n), 1)
	}
	return doc
}

func (x *vC10Exec) substIds(doc string) string {
	w := x.w
	if !strings.Contains(doc, "$") {
		return doc
	}
	rep := []string{phURL, w.server.URL, phToken, vC10InternalToken(vC10Random), phDialout, w.pendingId}
	self, selfPriv, virt := "none", "none", "none"
	if w.snd != nil && w.snd.pub != "" {
		self, selfPriv = w.snd.pub, w.snd.priv
		// a virtual session of the sender, if any
		w.hub.mu.RLock()
		for k, sid := range w.hub.virtualSessions {
			if strings.HasPrefix(k, self+"|") {
				if s, ok := w.hub.sessions[sid]; ok {
					virt = s.PublicId()
				}
			}
		}
		w.hub.mu.RUnlock()
	}
	rep = append(rep, phSelfPri, selfPriv, phSelf, self, phVirt, virt, phBy, w.by.pub)
	return strings.NewReplacer(rep...).Replace(doc)
}

func (x *vC10Exec) ensureWorld(t *testing.T) error {
	if x.w != nil {
		return nil
	}
	w, err := vC10NewWorld(t, 0, "")
	if err != nil {
		return err
	}
	x.w = w
	return nil
}

func (x *vC10Exec) op(t *testing.T, op string) string {
	f := strings.Fields(op)
	if len(f) == 0 {
		return "fail:empty-op"
	}
	switch f[0] {
	case "world":
		if x.w != nil {
			x.w.close()
			x.w = nil
		}
		mcu := 0
		if len(f) > 1 && strings.HasPrefix(f[1], "mcu=") {
			mcu, _ = strconv.Atoi(f[1][4:])
		}
		flags := ""
		if len(f) > 2 && strings.HasPrefix(f[2], "by=") {
			flags = f[2][3:]
		}
		w, err := vC10NewWorld(t, mcu, flags)
		if err != nil {
			return "fail:" + vEnc(err.Error())
		}
		x.w = w
		return "ok"
	case "state":
		if len(f) < 2 {
			return "fail:bad-op"
		}
		if err := x.ensureWorld(t); err != nil {
			return "fail:" + vEnc(err.Error())
		}
		if err := x.w.setState(f[1]); err != nil {
			return "fail:" + vEnc(err.Error())
		}
		return "ok"
	case "by":
		// the bystander's connection goes away (its session waits to be resumed) / comes back
		if len(f) < 2 {
			return "fail:bad-op"
		}
		if err := x.ensureWorld(t); err != nil {
			return "fail:" + vEnc(err.Error())
		}
		switch f[1] {
		case "drop":
			if err := x.w.dropBystander(); err != nil {
				return "fail:" + vEnc(err.Error())
			}
			return "ok"
		case "resume":
			return x.w.resumeBystander()
		}
		return "fail:bad-op"
	case "race":
		// two more clients of the bystander's room: one keeps changing transient data, the
		// other keeps joining and leaving; afterwards everybody must still be served
		if err := x.ensureWorld(t); err != nil {
			return "fail:" + vEnc(err.Error())
		}
		n := 50
		if len(f) > 1 {
			n, _ = strconv.Atoi(f[1])
		}
		return x.w.race(n)
	case "msg":
		if len(f) < 3 {
			return "fail:bad-op"
		}
		// a case without `world` / `state` (shrunk cases): plain world, connection without session
		if err := x.ensureWorld(t); err != nil {
			return "fail:" + vEnc(err.Error())
		}
		if x.w.snd == nil && x.w.state == "" {
			if err := x.w.setState("nosession"); err != nil {
				return "fail:" + vEnc(err.Error())
			}
		}
		return x.msg(f)
	}
	return "fail:unknown-op"
}

func (x *vC10Exec) msg(f []string) string {
	w := x.w
	if w.snd == nil || w.snd.dead {
		return "dead"
	}
	pad, _ := strconv.Atoi(f[2])
	shape := map[string]string{}
	for _, t := range f[3:] {
		if i := strings.IndexByte(t, '='); i > 0 {
			shape[t[:i]] = vDec(t[i+1:])
		}
	}
	// the tables must be at rest before the frame is sent: the asynchronous tail of an earlier op (a
	// session that is still being removed, on a loaded machine) is not an effect of this frame
	before := w.digest()
	for i := 0; i < 40; i++ {
		time.Sleep(100 * time.Microsecond)
		again := w.digest()
		if again == before {
			break
		}
		before = again
	}
	nExpect := w.expectHelloCount()
	extra := ""
	armed := false
	if w.state == "dialout" && w.dialoutEligible() {
		armed = true
		if err := w.armDialout(); err != nil {
			return "fail:" + vEnc(err.Error())
		}
	}
	doc := x.subst(vDec(f[1]), pad)
	mt := websocket.TextMessage
	if shape["frame"] == "bin" {
		mt = websocket.BinaryMessage
	}
	wasFed := w.senderFederated()
	w.snd.send(mt, []byte(doc)) // nolint
	snd, by, ok := w.barrier()
	if w.snd.dead && w.snd.pub == "" && w.snd.rem == nil {
		// a connection without session that the server closed (size limit): the hub takes it off its list
		// of connections that owe a hello when the read loop has ended
		for deadline := time.Now().Add(2 * time.Second); w.expectHelloCount() >= nExpect && time.Now().Before(deadline); {
			time.Sleep(200 * time.Microsecond)
		}
	}
	if wasFed && ok && !w.senderFederated() {
		// the federation client was detached (leave, local join, bye): what the target still
		// answers arrives without a marker to wait for
		w.idle(w.snd, &snd, 40*time.Millisecond)
	}
	mcuKind := w.mcu && (vC10McuTypes[shape["m.dtype"]] || vC10McuTypes[shape["c.dtype"]])
	if mcuKind && ok {
		// MCU work runs in goroutines of its own: allow late replies (with the Janus client also
		// the ones that come when a request for a stream nobody publishes gives up)
		d := 60 * time.Millisecond
		if w.janus != nil {
			d += vC10McuTimeout
		}
		w.idle(w.snd, &snd, d)
		s2, b2, _ := w.barrier()
		snd, by = append(snd, s2...), append(by, b2...)
	}
	if armed {
		extra = " http=" + strconv.Itoa(w.finishDialout())
		s2, b2, _ := w.barrier()
		snd, by = append(snd, s2...), append(by, b2...)
	}
	after := w.digest()
	st := "same"
	if before != after {
		st = "chg"
		if os.Getenv("VERIF_C10_DEBUG") != "" {
			bl, al := strings.Split(before, "\n"), strings.Split(after, "\n")
			inB := map[string]bool{}
			for _, l := range bl {
				inB[l] = true
			}
			inA := map[string]bool{}
			for _, l := range al {
				inA[l] = true
				if !inB[l] {
					fmt.Fprintf(os.Stderr, "DIGEST + %s\n", l)
				}
			}
			for _, l := range bl {
				if !inA[l] {
					fmt.Fprintf(os.Stderr, "DIGEST - %s\n", l)
				}
			}
			fmt.Fprintf(os.Stderr, "DIGEST for s=%s %s\n", vC10Join(snd), doc[:min(len(doc), 120)])
		}
	}
	byDead := ""
	if w.by.dead && !w.byDetached {
		byDead = "+dead"
	}
	return "s=" + vC10Join(snd) + " b=" + vC10Join(by) + byDead + " st=" + st + extra
}

// vC10RunCases is vRun with one difference: the case is flushed to VERIF_OUT
// before every op, so that a death of the process (panic in a server
// goroutine) is attributed to the op being executed.
func vC10RunCases(t *testing.T, gen func(e *vEnv, r *vRand) []vCase) {
	e := verifEnv(t)
	var cases []vCase
	if e.replay != "" {
		f, err := os.Open(e.replay)
		if err != nil {
			t.Fatal(err)
		}
		sc := bufio.NewScanner(f)
		sc.Buffer(make([]byte, 1<<20), 1<<28)
		for sc.Scan() {
			line := strings.TrimSpace(sc.Text())
			if line == "" {
				continue
			}
			var c vCase
			if err := json.Unmarshal([]byte(line), &c); err != nil {
				t.Fatalf("replay file: %v", err)
			}
			c.Impl, c.Crash = nil, ""
			cases = append(cases, c)
		}
		f.Close()
	} else {
		cases = gen(e, newVRand(e.seed))
	}
	out, err := os.Create(e.out)
	if err != nil {
		t.Fatal(err)
	}
	defer out.Close()
	var off int64
	flush := func(c *vCase) {
		data, _ := json.Marshal(c)
		data = append(data, '\n')
		out.Truncate(off)     // nolint
		out.WriteAt(data, off) // nolint
		out.Sync()            // nolint
	}
	if os.Getenv("VERIF_C10_DEBUG") == "" {
		log.SetOutput(io.Discard)
	}
	// Replayed cases (corpus, shrinking, --replay) run in a child process each: a
	// panic in a server goroutine then becomes the `crash` of that one case instead
	// of the end of the whole run.
	isolate := e.replay != "" && os.Getenv("VERIF_C10_CHILD") == ""
	for i := range cases {
		c := &cases[i]
		if isolate {
			vC10RunIsolated(c)
			flush(c)
			data, _ := json.Marshal(c)
			off += int64(len(data) + 1)
			continue
		}
		x := &vC10Exec{}
		func() {
			defer func() {
				if r := recover(); r != nil {
					c.Crash = fmt.Sprint(r)
				}
			}()
			for _, op := range c.Ops {
				flush(c)
				t0 := time.Now()
				c.Impl = append(c.Impl, x.op(t, op))
				if d := time.Since(t0); d > 300*time.Millisecond && os.Getenv("VERIF_C10_DEBUG") != "" {
					fmt.Fprintf(os.Stderr, "SLOW %s %.80s => %s\n", d, op, c.Impl[len(c.Impl)-1])
				}
			}
		}()
		if x.w != nil {
			x.w.close()
		}
		flush(c)
		data, _ := json.Marshal(c)
		off += int64(len(data) + 1)
	}
}

// vC10RunIsolated executes one case in a child process (this test binary with a
// one-case replay file).
func vC10RunIsolated(c *vCase) {
	dir, err := os.MkdirTemp("", "vc10")
	if err != nil {
		c.Crash = "harness: " + err.Error()
		return
	}
	defer os.RemoveAll(dir)
	in, out := dir+"/in.jsonl", dir+"/out.jsonl"
	data, _ := json.Marshal(vCase{Ops: c.Ops})
	os.WriteFile(in, append(data, '\n'), 0o600) // nolint
	cmd := exec.Command(os.Args[0], "-test.run", "^TestVerifC10$", "-test.count=1", "-test.timeout=600s")
	cmd.Env = append(os.Environ(), "VERIF_C10_CHILD=1", "VERIF_REPLAY="+in, "VERIF_OUT="+out)
	var stderr bytes.Buffer
	cmd.Stderr = &stderr
	cmd.Stdout = &stderr
	runErr := cmd.Run()
	if res, err := os.ReadFile(out); err == nil {
		var got vCase
		for _, line := range strings.Split(string(res), "\n") {
			if strings.TrimSpace(line) != "" && json.Unmarshal([]byte(line), &got) == nil {
				c.Impl, c.Crash = got.Impl, got.Crash
			}
		}
	}
	if runErr != nil && c.Crash == "" {
		msg := stderr.String()
		if i := strings.Index(msg, "panic:"); i >= 0 {
			msg = msg[i:]
		}
		if len(msg) > 600 {
			msg = msg[:600]
		}
		c.Crash = "process died while executing op " + strconv.Itoa(len(c.Impl)) + ": " + strings.Join(strings.Fields(msg), " ")
	}
}

func TestVerifC10(t *testing.T) {
	// nothing may time out while a case runs
	initialHelloTimeout = time.Hour
	anonmyousJoinRoomTimeout = time.Hour
	sessionExpireDuration = time.Hour
	cleanupScreenPublisherDelay = 5 * time.Millisecond
	vC10RunCases(t, vC10Gen)
}
