package signaling

import (
	"bufio"
	"bytes"
	"context"
	"crypto/ecdsa"
	"crypto/elliptic"
	"crypto/rand"
	"crypto/tls"
	"crypto/x509"
	"crypto/x509/pkix"
	"encoding/hex"
	"encoding/json"
	"fmt"
	"io"
	"log"
	"math/big"
	"net"
	"net/http"
	"net/http/httptest"
	"net/url"
	"sort"
	"strconv"
	"strings"
	"sync"
	"testing"
	"time"

	"github.com/dlintw/goconf"
	"github.com/gorilla/mux"
)

// C02: room API authentication (incoming, over a real HTTP/1.1 connection written byte by
// byte) and the signature of outgoing backend requests, against Model/Checksum.lean.
//
// One world per case: real Hub + BackendServer built from a generated backend
// configuration; the event bus of the BackendServer is replaced by a recorder (a rejected
// request must not publish anything), the throttler by a recorder (no sleeping).
// Backend URLs are written with the placeholder hosts H1/H2 in the ops; at execution they
// are two fake Nextcloud servers that record what the signaling server sends them.  Both
// listen on 127.0.0.1 (same host name, different ports) and speak http and https on the
// same port; N1/N2 are the same two servers under the name `localhost` (other host name,
// same port).  A fake answers a signed request with the next redirect of the op's script
// (`rd=`), if there is one.
//
// A case may reload the configuration of the running server (`reload`: static storage
// Reload(file), etcd storage key updates/deletions); the ops after it are judged by the
// file loaded last.  The backend tokens carry the own secret of the section, `cs=` the
// common `[backend] secret`.

type vc02Backend struct {
	id, url string // url with placeholder host
	secret  []byte // the secret in force for it by the configuration it is part of (own, else the common one)
	common  bool   // the section has no own secret
}

func (b vc02Backend) tok() string {
	if b.common {
		return b.id + ":x"
	}
	return b.id + ":" + vx(b.secret)
}

type vc02Cfg struct {
	mode     string // backends | etcd | compat | allowall
	backends []vc02Backend
	compat   *vc02Backend
	common   []byte   // [backend] secret (mode backends)
	pool     []string // generator only: urls a backend may be added with
}

// fix gives the backends without own secret the common one.
func (c *vc02Cfg) fix() *vc02Cfg {
	for i := range c.backends {
		if c.backends[i].common {
			c.backends[i].secret = c.common
		}
	}
	return c
}

func (c *vc02Cfg) clone() *vc02Cfg {
	d := *c
	d.backends = append([]vc02Backend{}, c.backends...)
	return &d
}

// configured: the backends that have a secret (a section without any is not a backend).
func (c *vc02Cfg) configured() []vc02Backend {
	var l []vc02Backend
	for _, b := range c.backends {
		if len(b.secret) > 0 {
			l = append(l, b)
		}
	}
	return l
}

// byUrl: the configuration consists of backends with urls (from the configuration file, or from etcd).
func (c *vc02Cfg) byUrl() bool { return c.mode == "backends" || c.mode == "etcd" }

func (c *vc02Cfg) op() string { return c.opAs("cfg") }

func (c *vc02Cfg) opAs(verb string) string {
	ct, bt := "-", "-"
	if c.compat != nil {
		ct = c.compat.tok()
	}
	if len(c.backends) > 0 {
		var ts []string
		for _, b := range c.backends {
			ts = append(ts, b.tok())
		}
		bt = strings.Join(ts, ",")
	}
	// the urls are for the executor only
	var us []string
	for _, b := range c.backends {
		us = append(us, b.id+"="+b.url)
	}
	cs := ""
	if len(c.common) > 0 {
		cs = " cs=" + vx(c.common)
	}
	return fmt.Sprintf("%s %s %s%s u=%s", verb, ct, bt, cs, vEnc(c.mode+";"+strings.Join(us, ";")))
}

// ---------- recorders ----------

type vc02Events struct {
	AsyncEvents
	mu  sync.Mutex
	log []string
}

func (e *vc02Events) rec(s string) error {
	e.mu.Lock()
	e.log = append(e.log, s)
	e.mu.Unlock()
	return nil
}

func bid(b *Backend) string {
	if b == nil {
		return "nil"
	}
	return b.Id()
}

func (e *vc02Events) PublishBackendRoomMessage(roomId string, backend *Backend, m *AsyncMessage) error {
	return e.rec("br:" + roomId + "@" + bid(backend))
}
func (e *vc02Events) PublishRoomMessage(roomId string, backend *Backend, m *AsyncMessage) error {
	return e.rec("r:" + roomId + "@" + bid(backend))
}
func (e *vc02Events) PublishUserMessage(userId string, backend *Backend, m *AsyncMessage) error {
	return e.rec("u:" + userId + "@" + bid(backend))
}
func (e *vc02Events) PublishSessionMessage(sessionId string, backend *Backend, m *AsyncMessage) error {
	return e.rec("s:" + sessionId + "@" + bid(backend))
}

func (e *vc02Events) take() []string {
	e.mu.Lock()
	defer e.mu.Unlock()
	l := e.log
	e.log = nil
	return l
}

type vc02Throttler struct {
	mu    sync.Mutex
	calls int
}

func (t *vc02Throttler) Close() {}
func (t *vc02Throttler) CheckBruteforce(ctx context.Context, client string, action string) (ThrottleFunc, error) {
	return func(ctx context.Context) {
		t.mu.Lock()
		t.calls++
		t.mu.Unlock()
	}, nil
}
func (t *vc02Throttler) take() int {
	t.mu.Lock()
	defer t.mu.Unlock()
	n := t.calls
	t.calls = 0
	return n
}

// ---------- fake Nextcloud ----------

type vc02Received struct {
	url              string // scheme://host/path as received, placeholder host
	post             bool
	random, checksum string
	body             []byte
}

type vc02Hop struct {
	code int
	loc  string // placeholder host
}

var (
	vc02TLSOnce sync.Once
	vc02TLSCfg  *tls.Config
)

func vc02TLS() *tls.Config {
	vc02TLSOnce.Do(func() {
		key, err := ecdsa.GenerateKey(elliptic.P256(), rand.Reader)
		if err != nil {
			panic(err)
		}
		tmpl := &x509.Certificate{SerialNumber: big.NewInt(1), Subject: pkix.Name{CommonName: "verif"},
			NotBefore: time.Now().Add(-time.Hour), NotAfter: time.Now().Add(48 * time.Hour),
			KeyUsage: x509.KeyUsageDigitalSignature, ExtKeyUsage: []x509.ExtKeyUsage{x509.ExtKeyUsageServerAuth},
			DNSNames: []string{"localhost"}, IPAddresses: []net.IP{net.ParseIP("127.0.0.1")}}
		der, err := x509.CreateCertificate(rand.Reader, tmpl, tmpl, &key.PublicKey, key)
		if err != nil {
			panic(err)
		}
		vc02TLSCfg = &tls.Config{Certificates: []tls.Certificate{{Certificate: [][]byte{der}, PrivateKey: key}}}
	})
	return vc02TLSCfg
}

// vc02Listener hands out plain or TLS connections depending on the first byte the client sends
// (0x16 = TLS handshake): one port serves http and https.
type vc02Listener struct {
	net.Listener
	ch   chan net.Conn
	done chan struct{}
}

type vc02PeekConn struct {
	net.Conn
	br *bufio.Reader
}

func (c *vc02PeekConn) Read(p []byte) (int, error) { return c.br.Read(p) }

func newVC02Listener(inner net.Listener) *vc02Listener {
	l := &vc02Listener{Listener: inner, ch: make(chan net.Conn), done: make(chan struct{})}
	go func() {
		defer close(l.done)
		for {
			c, err := inner.Accept()
			if err != nil {
				return
			}
			go func() {
				br := bufio.NewReader(c)
				c.SetReadDeadline(time.Now().Add(10 * time.Second)) // nolint
				b, err := br.Peek(1)
				if err != nil {
					c.Close()
					return
				}
				c.SetReadDeadline(time.Time{}) // nolint
				var conn net.Conn = &vc02PeekConn{Conn: c, br: br}
				if b[0] == 0x16 {
					conn = tls.Server(conn, vc02TLS())
				}
				select {
				case l.ch <- conn:
				case <-l.done:
					c.Close()
				}
			}()
		}
	}()
	return l
}

func (l *vc02Listener) Accept() (net.Conn, error) {
	select {
	case c := <-l.ch:
		return c, nil
	case <-l.done:
		return nil, net.ErrClosed
	}
}

type vc02Fake struct {
	srv *httptest.Server
}

// newVC02Fake: a server that records every request carrying a checksum (and every POST) with the url it
// was received at, and answers it with the next redirect of the world's script, else with a valid reply.
func newVC02Fake(w *vc02World) *vc02Fake {
	f := &vc02Fake{}
	f.srv = httptest.NewUnstartedServer(http.HandlerFunc(func(rw http.ResponseWriter, r *http.Request) {
		sum := r.Header.Get(HeaderBackendSignalingChecksum)
		if r.Method != "POST" && sum == "" {
			// capabilities and the like: not a signed backend request
			http.Error(rw, "not found", http.StatusNotFound)
			return
		}
		body, _ := io.ReadAll(r.Body)
		scheme := "http"
		if r.TLS != nil {
			scheme = "https"
		}
		w.mu.Lock()
		w.got = append(w.got, vc02Received{url: scheme + "://" + w.unsubst(r.Host) + r.URL.Path, post: r.Method == "POST",
			random: r.Header.Get(HeaderBackendSignalingRandom), checksum: sum, body: body})
		var hop *vc02Hop
		if len(w.script) > 0 {
			hop = &vc02Hop{}
			*hop = w.script[0]
			w.script = w.script[1:]
		}
		w.mu.Unlock()
		if hop != nil {
			rw.Header().Set("Location", w.subst(hop.loc))
			rw.WriteHeader(hop.code)
			return
		}
		rw.Header().Set("Content-Type", "application/json")
		rw.Write([]byte(`{"ocs":{"meta":{"status":"ok","statuscode":200,"message":"OK"},"data":{"type":"room","room":{"version":"1.0","roomid":"r1"}}}}`)) // nolint
	}))
	f.srv.Listener = newVC02Listener(f.srv.Listener)
	f.srv.Start()
	return f
}

func (w *vc02World) take() []vc02Received {
	w.mu.Lock()
	defer w.mu.Unlock()
	g := w.got
	w.got = nil
	return g
}

// ---------- world ----------

type vc02World struct {
	cfg    *vc02Cfg
	hub    *Hub
	bs     *BackendServer
	events *vc02Events
	thr    *vc02Throttler
	srv    *httptest.Server
	conn   net.Conn
	br     *bufio.Reader
	fakes  [2]*vc02Fake
	hosts  map[string]string // H1 -> 127.0.0.1:port, N1 -> localhost:port
	mu     sync.Mutex
	got    []vc02Received // what the fakes received, in the order of arrival
	script []vc02Hop      // the redirects the fakes answer with next
	// mode etcd: the storage the server was started with (put back before closing)
	startStorage BackendStorage
}

func (w *vc02World) subst(s string) string {
	for k, v := range w.hosts {
		s = strings.ReplaceAll(s, k, v)
	}
	return s
}

// unsubst: the placeholder of a host as a fake saw it in the Host header.
func (w *vc02World) unsubst(host string) string {
	for k, v := range w.hosts {
		if v == host {
			return k
		}
	}
	return host
}

// config writes the configuration file of c.
func (w *vc02World) config(c *vc02Cfg) *goconf.ConfigFile {
	config := goconf.NewConfigFile()
	switch c.mode {
	case "backends":
		var ids []string
		for _, b := range c.backends {
			ids = append(ids, b.id)
			config.AddOption(b.id, "url", w.subst(b.url))
			if !b.common {
				config.AddOption(b.id, "secret", string(b.secret))
			}
		}
		config.AddOption("backend", "backends", strings.Join(ids, ", "))
		if len(c.common) > 0 {
			config.AddOption("backend", "secret", string(c.common))
		}
	case "etcd":
		// no backend in the configuration file: the backends arrive as etcd keys, see below
	case "compat":
		config.AddOption("backend", "allowed", w.hosts["H1"]+", "+w.hosts["H2"])
		config.AddOption("backend", "secret", string(c.compat.secret))
	case "allowall":
		config.AddOption("backend", "allowall", "true")
		config.AddOption("backend", "secret", string(c.compat.secret))
	}
	config.AddOption("backend", "allowhttp", "true")
	config.AddOption("backend", "skipverify", "true") // the fakes' certificate is self-signed
	config.AddOption("sessions", "hashkey", "12345678901234567890123456789012")
	config.AddOption("sessions", "blockkey", "09876543210987654321098765432109")
	config.AddOption("clients", "internalsecret", "verif-internal-secret")
	config.AddOption("geoip", "url", "none")
	return config
}

func (w *vc02World) etcdValue(b vc02Backend) []byte {
	val, err := json.Marshal(map[string]string{"url": w.subst(b.url), "secret": string(b.secret)})
	if err != nil {
		panic(err)
	}
	return val
}

func vc02KeyOrder(bs []vc02Backend) []vc02Backend {
	keys := append([]vc02Backend{}, bs...)
	sort.SliceStable(keys, func(i, j int) bool { return keys[i].id < keys[j].id })
	return keys
}

// reload makes the running server load configuration c: the static storage through Reload(file), the etcd
// storage through the key events that lead from the current keys to those of c (deletions, then one update per key in key order).
func (w *vc02World) reload(c *vc02Cfg) {
	switch c.mode {
	case "backends":
		w.hub.backend.Reload(w.config(c))
	case "etcd":
		st := w.hub.backend.backends.storage.(*backendStorageEtcd)
		for _, o := range vc02KeyOrder(w.cfg.backends) {
			found := false
			for _, b := range c.backends {
				found = found || b.id == o.id
			}
			if !found {
				st.EtcdKeyDeleted(nil, o.id, nil)
			}
		}
		for _, b := range vc02KeyOrder(c.backends) {
			st.EtcdKeyUpdated(nil, b.id, w.etcdValue(b), nil)
		}
	}
	w.cfg = c
}

func newVC02World(c *vc02Cfg) *vc02World {
	w := &vc02World{cfg: c, hosts: map[string]string{}}
	for i := range w.fakes {
		w.fakes[i] = newVC02Fake(w)
		u, _ := url.Parse(w.fakes[i].srv.URL)
		w.hosts[fmt.Sprintf("H%d", i+1)] = u.Host
		w.hosts[fmt.Sprintf("N%d", i+1)] = "localhost:" + u.Port()
	}
	config := w.config(c)
	nc, err := NewLoopbackNatsClient()
	if err != nil {
		panic(err)
	}
	events, err := NewAsyncEventsNats(nc)
	if err != nil {
		panic(err)
	}
	r := mux.NewRouter()
	w.hub, err = NewHub(config, events, nil, nil, nil, r, "verif")
	if err != nil {
		panic(err)
	}
	w.bs, err = NewBackendServer(config, w.hub, "verif")
	if err != nil {
		panic(err)
	}
	if err := w.bs.Start(r); err != nil {
		panic(err)
	}
	if c.mode == "etcd" {
		// The real etcd backend storage, fed the way the etcd client feeds it (no etcd server needed): a
		// starting server receives the current keys in key order, one EtcdKeyUpdated per key.
		st := &backendStorageEtcd{
			backendStorageCommon: backendStorageCommon{backends: make(map[string][]*Backend)},
			keyInfos:             make(map[string]*BackendInformationEtcd),
		}
		for _, b := range vc02KeyOrder(c.backends) {
			st.EtcdKeyUpdated(nil, b.id, w.etcdValue(b), nil)
		}
		w.startStorage = w.hub.backend.backends.storage
		w.hub.backend.backends.storage = st
	}
	w.events = &vc02Events{AsyncEvents: events}
	w.bs.events = w.events
	w.hub.throttler.Close()
	w.thr = &vc02Throttler{}
	w.hub.throttler = w.thr
	w.srv = httptest.NewServer(r)
	return w
}

func (w *vc02World) close() {
	if w.conn != nil {
		w.conn.Close()
	}
	w.srv.Close()
	for _, f := range w.fakes {
		f.srv.Close()
	}
	if w.startStorage != nil {
		w.hub.backend.backends.storage = w.startStorage
	}
	w.hub.backend.Close()
	w.events.AsyncEvents.Close()
}

// post writes one HTTP/1.1 request byte by byte (no client library in between: header
// values go out exactly as given) and returns the status code (0 = no reply).
func (w *vc02World) post(room string, headers [][2]string, body []byte, chunked bool, ct string) int {
	for attempt := 0; attempt < 2; attempt++ {
		if w.conn == nil {
			u, _ := url.Parse(w.srv.URL)
			c, err := net.DialTimeout("tcp", u.Host, 5*time.Second)
			if err != nil {
				return 0
			}
			w.conn = c
			w.br = bufio.NewReader(c)
		}
		var b bytes.Buffer
		fmt.Fprintf(&b, "POST /api/v1/room/%s HTTP/1.1\r\nHost: signaling.test\r\n", url.PathEscape(room))
		if ct != "" {
			fmt.Fprintf(&b, "Content-Type: %s\r\n", ct)
		}
		for _, h := range headers {
			fmt.Fprintf(&b, "%s: %s\r\n", h[0], h[1])
		}
		if chunked {
			fmt.Fprintf(&b, "Transfer-Encoding: chunked\r\n\r\n")
			if len(body) > 0 {
				fmt.Fprintf(&b, "%x\r\n", len(body))
				b.Write(body)
				b.WriteString("\r\n")
			}
			b.WriteString("0\r\n\r\n")
		} else {
			fmt.Fprintf(&b, "Content-Length: %d\r\n\r\n", len(body))
			b.Write(body)
		}
		w.conn.SetDeadline(time.Now().Add(10 * time.Second)) // nolint
		_, werr := w.conn.Write(b.Bytes())
		resp, err := http.ReadResponse(w.br, nil)
		if err != nil {
			w.conn.Close()
			w.conn = nil
			if werr != nil || attempt == 0 {
				continue // the server had closed the kept-alive connection: once more on a new one
			}
			return 0
		}
		io.Copy(io.Discard, resp.Body) // nolint
		resp.Body.Close()
		if resp.Close || werr != nil {
			w.conn.Close()
			w.conn = nil
		}
		return resp.StatusCode
	}
	return 0
}

// ---------- generation ----------

func vc02Secret(r *vRand) []byte {
	// secrets are configuration strings: printable, no leading/trailing blanks
	n := []int{1, 8, 16, 32, 64, 100}[r.intn(6)]
	const cs = "abcdefghijklmnopqrstuvwxyzABCDEFGHIJKLMNOPQRSTUVWXYZ0123456789!$%&/()=?+-_.:,<>"
	b := make([]byte, n)
	for i := range b {
		b[i] = cs[r.intn(len(cs))]
	}
	return vc02PlainSecret(b)
}

// vc02PlainSecret: a configuration value is subject to "$(VAR)" (GetStringOptionWithEnv) and "%(name)s"
// (goconf) substitution — documented features of the configuration file, not of the authentication;
// the generated secrets stay clear of both openers so that the configured secret is the generated one.
func vc02PlainSecret(b []byte) []byte {
	for i := 1; i < len(b); i++ {
		if b[i] == '(' && (b[i-1] == '$' || b[i-1] == '%') {
			b[i] = ')'
		}
	}
	return b
}

func vc02GenCfg(r *vRand) *vc02Cfg {
	switch r.intn(8) {
	case 0:
		s := vc02Backend{id: "compat", secret: vc02Secret(r)}
		return &vc02Cfg{mode: "compat", compat: &s}
	case 1:
		s := vc02Backend{id: "compat", secret: vc02Secret(r)}
		return &vc02Cfg{mode: "allowall", compat: &s}
	}
	c := &vc02Cfg{mode: "backends"}
	n := 1 + r.intn(3)
	// url prefixes are never nested (which prefix wins is C13's subject) — but they may be siblings of which
	// one is a string prefix of the other without being its parent (/one/ and /one2/), in either order,
	// and may be configured without the final slash; the backends come from the configuration file (which
	// stores urls '/'-terminated) or from etcd (which stores them as given)
	layouts := [][]string{
		{"http://H1/", "http://H2/", "http://H2/"},                  // distinct hosts, roots (n <= 2)
		{"http://H1/one/", "http://H1/two/", "http://H1/three/"},    // one shared host
		{"http://H1/one/", "http://H2/", "http://H1/three/"},        // mixed
		{"https://H1/one/", "http://H1/two/", "http://H2/sub/dir/"}, // schemes, deeper paths
	}
	siblings := [][]string{
		{"http://H1/one/", "http://H1/one2/", "http://H1/on/"},
		{"http://H1/cloud", "http://H1/cloud2", "http://H1/cloud-test/"},
		{"http://H2/sub/dir/", "http://H2/sub/dir2", "http://H2/sub/d/"},
		{"http://H1/a/", "http://H1/ab/", "http://H2/a/"},
		{"https://H1/nc", "https://H1/nc.old/", "http://H1/nc_1/"},
		{"http://H1/foo", "http://H1/foobar", "http://H2/foo/"},
		{"https://H2/foo", "http://H2/foo", "http://H2/fo"},
	}
	var layout []string
	if r.chance(1, 2) {
		layout = append([]string{}, siblings[r.intn(len(siblings))]...)
		for i := len(layout) - 1; i > 0; i-- { // the order of the configuration decides which entry is tried first
			j := r.intn(i + 1)
			layout[i], layout[j] = layout[j], layout[i]
		}
	} else {
		layout = layouts[r.intn(len(layouts))]
		if n == 3 && layout[1] == layout[2] {
			layout = layouts[1]
		}
	}
	var secrets [][]byte
	for i := 0; i < n; i++ {
		sec := vc02Secret(r)
		switch {
		case i > 0 && r.chance(1, 4):
			sec = secrets[r.intn(len(secrets))] // equal secrets
		case i > 0 && r.chance(1, 4):
			sec = append([]byte{}, secrets[0]...) // differing in one character
			sec[r.intn(len(sec))] ^= 1
			sec = vc02PlainSecret(sec)
		}
		secrets = append(secrets, sec)
		u := layout[i]
		if r.chance(1, 3) {
			// the same backend url, written the other way: with / without the final slash
			if strings.HasSuffix(u, "/") {
				u = strings.TrimSuffix(u, "/")
			} else {
				u += "/"
			}
		}
		c.backends = append(c.backends, vc02Backend{id: fmt.Sprintf("b%d", i+1), url: u, secret: sec})
	}
	c.pool = layout
	if r.chance(2, 5) {
		// the same backends, announced through etcd (keys b1, b2, …) instead of the configuration file
		c.mode = "etcd"
	} else if r.chance(1, 3) {
		// a common `[backend] secret`; some sections have no own secret and use it
		if !r.chance(1, 8) {
			c.common = vc02Secret(r)
		} // else: there is none, and a section without own secret is not a backend
		for i := range c.backends {
			c.backends[i].common = r.chance(1, 2)
		}
		c.fix()
		if len(c.configured()) == 0 {
			c.backends[0].common, c.backends[0].secret = false, secrets[0]
		}
	}
	return c
}

// vc02Mutate: the configuration an administrator might load next — secrets rotated (the common one, a backend's own),
// a backend switched between own and common secret, backends removed, added, re-ordered, their secrets or urls swapped.
func vc02Mutate(r *vRand, c *vc02Cfg) *vc02Cfg {
	d := c.clone()
	static := d.mode == "backends"
	for n := 1 + r.intn(2); n > 0; n-- {
		nb := len(d.backends)
		switch r.intn(12) {
		case 0, 11:
			if static {
				d.common = vc02Secret(r)
				uses := false
				for _, b := range d.backends {
					uses = uses || b.common
				}
				if !uses && nb > 0 {
					d.backends[r.intn(nb)].common = true
				}
			}
		case 1:
			if nb > 0 {
				i := r.intn(nb)
				d.backends[i].common, d.backends[i].secret = false, vc02Secret(r)
			}
		case 2:
			if static && nb > 0 {
				i := r.intn(nb)
				if d.backends[i].common {
					d.backends[i].common, d.backends[i].secret = false, vc02Secret(r)
				} else {
					d.backends[i].common = true
					if len(d.common) == 0 && r.chance(3, 4) {
						d.common = vc02Secret(r)
					}
				}
			}
		case 3:
			if nb > 0 {
				i := r.intn(nb)
				d.backends = append(d.backends[:i:i], d.backends[i+1:]...)
			}
		case 4:
			if nb < 3 {
				var free []string
				for _, u := range d.pool {
					used := false
					for _, b := range d.backends {
						used = used || strings.TrimSuffix(b.url, "/") == strings.TrimSuffix(u, "/")
					}
					if !used {
						free = append(free, u)
					}
				}
				id := ""
				for k := 1; id == ""; k++ {
					id = fmt.Sprintf("b%d", k)
					for _, b := range d.backends {
						if b.id == id {
							id = ""
							break
						}
					}
				}
				if len(free) > 0 {
					nbk := vc02Backend{id: id, url: free[r.intn(len(free))], secret: vc02Secret(r)}
					i := r.intn(nb + 1)
					d.backends = append(d.backends[:i:i], append([]vc02Backend{nbk}, d.backends[i:]...)...)
				}
			}
		case 5:
			if nb >= 2 {
				i, j := r.intn(nb), r.intn(nb)
				bi, bj := d.backends[i], d.backends[j]
				d.backends[i].secret, d.backends[i].common = bj.secret, bj.common
				d.backends[j].secret, d.backends[j].common = bi.secret, bi.common
			}
		case 6:
			if static {
				for i := nb - 1; i > 0; i-- {
					j := r.intn(i + 1)
					d.backends[i], d.backends[j] = d.backends[j], d.backends[i]
				}
			}
		case 7:
			if static {
				d.common = nil
			}
		case 8:
			// the same file again
		case 9:
			if r.chance(1, 3) {
				d.backends = nil
			}
		case 10:
			if nb >= 2 {
				i, j := r.intn(nb), r.intn(nb)
				d.backends[i].url, d.backends[j].url = d.backends[j].url, d.backends[i].url
			}
		}
	}
	if !static {
		d.backends = vc02KeyOrder(d.backends) // the etcd storage holds the backends of a host in key order
	}
	return d.fix()
}

// vc02Legal reports whether b may appear in an HTTP header field value as Go's server accepts it.
func vc02Legal(b byte) bool { return b == '\t' || (b >= 0x20 && b != 0x7f) }

// vc02FlipHeader flips one bit of a header value such that the result is still a legal
// header value that is not touched by the trimming of optional white space.
func vc02FlipHeader(r *vRand, s string) string {
	if len(s) == 0 {
		return "x"
	}
	for try := 0; try < 100; try++ {
		i := r.intn(len(s))
		c := s[i] ^ (1 << uint(r.intn(8)))
		if !vc02Legal(c) || c == ' ' || c == '\t' {
			continue
		}
		return s[:i] + string([]byte{c}) + s[i+1:]
	}
	return s + "0"
}

func vc02Body(r *vRand) []byte {
	lead := ""
	if r.chance(1, 6) {
		lead = r.pick([]string{" ", "\n", "\t ", "  "})
	}
	data := fmt.Sprintf(`{"n":%d,"s":"%s"}`, r.intn(1000000), strings.Repeat("x", r.intn(40)))
	if r.chance(1, 20) {
		data = `"` + strings.Repeat("y", 2000+r.intn(3000)) + `"`
	}
	return []byte(lead + `{"type":"message","message":{"data":` + data + `}}`)
}

func vc02BodyOk(body []byte) string {
	var req BackendServerRoomRequest
	if err := json.Unmarshal(body, &req); err != nil {
		return "0"
	}
	if err := req.CheckValid(); err != nil || req.Type != "message" {
		return "0"
	}
	return "1"
}

// vc02Trim = what Go's server leaves of a header value (leading/trailing SP and HT removed).
func vc02Trim(s string) string { return strings.Trim(s, " \t") }

type vc02Req struct {
	label    string
	hdrTok   string // - | ? | b:<id>
	hdrVal   string // literal header value (placeholder hosts), "" = no header
	random   string // as written on the wire
	checksum string
	body     []byte
	ct       string
	chunked  bool
	room     string
	tag      string
}

func (q *vc02Req) op() string {
	ctFlag := "0"
	if strings.HasPrefix(q.ct, "application/json") {
		ctFlag = "1"
	}
	l := strconv.Itoa(len(q.body))
	if q.chunked {
		l = "-"
	}
	return fmt.Sprintf("req %s %s %s %s %s %s %s %s %s u=%s wr=%s wc=%s ct=%s #%s", q.label, q.hdrTok,
		vx([]byte(vc02Trim(q.random))), vx([]byte(vc02Trim(q.checksum))), vx(q.body), vc02BodyOk(q.body), ctFlag, l,
		vEnc(q.room), vEnc(q.hdrVal), vEnc(q.random), vEnc(q.checksum), vEnc(q.ct), q.tag)
}

func vc02Hex(r *vRand, n int) string { return hex.EncodeToString(vc02Bytes(r, n)) }

func vc02Bytes(r *vRand, n int) []byte {
	b := make([]byte, n)
	for i := range b {
		b[i] = byte(r.u64())
	}
	return b
}

// vc02Components: the pieces of a URL between the slashes (scheme, "", host, path segments); one
// trailing slash is not a component.
func vc02Components(u string) []string { return strings.Split(strings.TrimSuffix(u, "/"), "/") }

// vc02Owner is the generator's own reading of "the backend a URL belongs to" (mode backends): the
// backend whose URL components are the leading components of u (the first such backend in the order the
// server holds them: configuration order, key order for etcd — the generator's ids are in that order).  Returns a header token.
func vc02Owner(c *vc02Cfg, u string) string {
	if u == "" {
		return "-"
	}
	uc := vc02Components(u)
	for _, b := range c.configured() {
		bc := vc02Components(b.url)
		if len(bc) > len(uc) {
			continue
		}
		same := true
		for i := range bc {
			if bc[i] != uc[i] {
				same = false
			}
		}
		if same {
			return "b:" + b.id
		}
	}
	return "?"
}

// vc02UrlVariants: URLs that belong to the same backend as `u` (same), and URLs in its neighbourhood
// that do not (near): longer and shorter siblings, other case, other scheme, other host, the parent.
func vc02UrlVariants(u string) (same, near []string) {
	t := strings.TrimSuffix(u, "/")
	i := strings.Index(t, "://")
	scheme, rest := t[:i], t[i+3:]
	host, path := rest, ""
	if j := strings.IndexByte(rest, '/'); j >= 0 {
		host, path = rest[:j], rest[j:]
	}
	same = []string{t, t + "/", t + "/index.php/apps/spreed/", t + "//x"}
	if path != "" {
		near = append(near, t+"x/", t+"2/", t+"2", t+"-test/sub/", t+".old/")
		k := strings.LastIndexByte(t, '/')
		if len(t)-k > 2 {
			near = append(near, t[:len(t)-1]+"/", t[:len(t)-1])
		}
		near = append(near, t[:k+1]) // the parent
		if up := strings.ToUpper(path); up != path {
			near = append(near, scheme+"://"+host+up+"/")
		}
	}
	other := map[string]string{"http": "https", "https": "http"}[scheme]
	near = append(near, other+"://"+host+path+"/")
	if strings.HasPrefix(host, "H1") {
		near = append(near, scheme+"://H2"+host[2:]+path+"/")
	} else if strings.HasPrefix(host, "H2") {
		near = append(near, scheme+"://H1"+host[2:]+path+"/")
	}
	return
}

const vc02BackendPath = "/ocs/v2.php/apps/spreed/api/v1/signaling/backend"

func vC02Gen(e *vEnv, r *vRand) []vCase {
	var cases []vCase
	n := e.scale(60, 600)
	nshift := e.scale(4, 12)
	for i := 0; i < n+nshift; i++ {
		rr := r.fork()
		c := vc02GenCfg(rr)
		shiftCase := i >= n
		ops := []string{c.op()}
		var refs []vc02Ref
		all := c.configured()
		if c.compat != nil {
			all = append(all, *c.compat)
		}
		hdrFor := func(b vc02Backend) (string, string) { // token, literal value
			if c.compat != nil {
				return "b:compat", "http://H1/nextcloud/"
			}
			return "b:" + b.id, b.url
		}
		nref := 2 + rr.intn(3)
		for k := 0; k < nref; k++ {
			signer := all[rr.intn(len(all))]
			random := vc02Hex(rr, 32)
			switch rr.intn(10) {
			case 0:
				random = vc02Hex(rr, 1+rr.intn(8))
			case 1:
				random = "r-" + strings.Repeat("z", rr.intn(80)) // not hex: the server does not care
			}
			body := vc02Body(rr)
			label := fmt.Sprintf("L%d", k)
			// the checksum is computed by the generator with the real function (and again by `sign` at execution)
			sum := CalculateBackendChecksum(random, body, signer.secret)
			ops = append(ops, fmt.Sprintf("sign %s %s %s %s", label, signer.id, vx([]byte(random)), vx(body)))
			refs = append(refs, vc02Ref{label: label, signer: signer, random: random, body: body, sum: sum})
			ht, hv := hdrFor(signer)
			base := vc02Req{label: label, hdrTok: ht, hdrVal: hv, random: random, checksum: sum, body: body,
				ct: "application/json", room: "room1", tag: "valid"}
			add := func(q vc02Req) { ops = append(ops, q.op()) }
			add(base)
			// without the backend header (compat / search)
			q := base
			q.hdrTok, q.hdrVal, q.tag = "-", "", "valid-noheader"
			add(q)
			// single-bit flips
			for j := 0; j < e.scale(6, 20); j++ {
				q = base
				m := append([]byte{}, body...)
				m[rr.intn(len(m))] ^= 1 << uint(rr.intn(8))
				q.body, q.tag = m, "flip-body"
				if rr.chance(1, 3) {
					q.hdrTok, q.hdrVal = "-", ""
				}
				add(q)
				q = base
				q.random, q.tag = vc02FlipHeader(rr, random), "flip-random"
				if rr.chance(1, 3) {
					q.hdrTok, q.hdrVal = "-", ""
				}
				add(q)
				q = base
				q.checksum, q.tag = vc02FlipHeader(rr, sum), "flip-checksum"
				if rr.chance(1, 3) {
					q.hdrTok, q.hdrVal = "-", ""
				}
				add(q)
			}
			// truncation / extension / case of the checksum, empty values
			for _, cs := range []string{sum[:len(sum)-1], sum + "0", strings.ToUpper(sum), sum[:32], "", sum + " " + sum} {
				q = base
				q.checksum, q.tag = cs, "checksum-shape"
				add(q)
			}
			for _, rs := range []string{random[:len(random)-1], random + "0", "", strings.ToUpper(random)} {
				q = base
				q.random, q.tag = rs, "random-shape"
				add(q)
			}
			q = base
			q.body, q.tag = body[:len(body)-1], "trunc-body"
			add(q)
			q = base
			q.body, q.tag = append(append([]byte{}, body...), ' '), "ext-body"
			add(q)
			q = base
			q.body, q.tag = []byte{}, "empty-body"
			add(q)
			// boundary shifts: random||body unchanged, the boundary moved.  They reproduce the known
			// finding C02-boundary-shift-authenticates, so they live in a few dedicated cases at the
			// end of the run: the orchestrator looks at the first issue of each case only.
			if shiftCase {
				for _, k := range []int{1, 2, 5} {
					if len(random) > k {
						q = base
						q.random, q.body, q.tag = random[:len(random)-k], append([]byte(random[len(random)-k:]), body...), "shift-to-body"
						add(q)
					}
					if len(body) > k && vc02HeaderLegal(body[:k]) {
						q = base
						q.random, q.body, q.tag = random+string(body[:k]), body[k:], "shift-to-random"
						add(q)
					}
				}
				// everything into the random
				if vc02HeaderLegal(body) {
					q = base
					q.random, q.body, q.tag = random+string(body), []byte{}, "shift-all-to-random"
					add(q)
				}
			}
			// the secret of another backend
			for _, o := range all {
				if o.id == signer.id {
					continue
				}
				// claims `o`, signed with the signer's secret
				q = base
				q.hdrTok, q.hdrVal = hdrFor(o)
				q.tag = "claims-other-backend"
				add(q)
				// claims the signer, signed with o's secret
				q = base
				q.checksum, q.tag = CalculateBackendChecksum(random, body, o.secret), "other-secret"
				add(q)
			}
			// a section without any secret is not a backend
			for _, o := range c.backends {
				if len(o.secret) == 0 {
					q = base
					q.hdrTok, q.hdrVal, q.tag = vc02Owner(c, o.url), o.url, "claims-section-without-secret"
					add(q)
					q.checksum = CalculateBackendChecksum(random, body, nil)
					q.tag = "claims-section-without-secret-empty-key"
					add(q)
				}
			}
			// unknown / malformed backend header
			for _, hv := range []string{"http://H3.invalid/", "::not a url::", "http://H1/other/", "ftp://H1/one/"} {
				if c.mode == "allowall" {
					break
				}
				if c.mode == "compat" && strings.Contains(hv, "H1") && strings.HasPrefix(hv, "http") {
					continue
				}
				q = base
				q.hdrTok, q.hdrVal, q.tag = "?", hv, "unknown-backend"
				if c.byUrl() && strings.HasPrefix(hv, "http") {
					q.hdrTok = vc02Owner(c, hv)
				}
				add(q)
			}
			// other spellings of the signer's backend url, and urls next to it that belong to another backend or to none
			if c.byUrl() {
				same, near := vc02UrlVariants(signer.url)
				for _, hv := range append(same, near...) {
					q = base
					q.hdrTok, q.hdrVal = vc02Owner(c, hv), hv
					q.tag = "backend-url-variant"
					if q.hdrTok != "b:"+signer.id {
						q.tag = "backend-url-near-miss"
					}
					add(q)
				}
			}
			// envelope: content type, unknown length, size limit
			q = base
			q.ct, q.tag = rr.pick([]string{"text/plain", "", "application/x-www-form-urlencoded"}), "content-type"
			add(q)
			q = base
			q.ct, q.tag = "application/json; charset=utf-8", "content-type-ok"
			add(q)
			q = base
			q.chunked, q.tag = true, "chunked"
			add(q)
			if k == 0 && (e.thorough() || i%10 == 0) {
				big := append([]byte(`{"type":"message","message":{"data":"`), bytes.Repeat([]byte("A"), maxBodySize)...)
				big = append(big, []byte(`"}}`)...)
				q = base
				q.body = big
				q.checksum, q.tag = CalculateBackendChecksum(random, big, signer.secret), "too-large"
				q.label = "-"
				add(q)
			}
		}
		// function level: ValidateBackendChecksumValue on arbitrary bytes
		for j := 0; j < e.scale(10, 40); j++ {
			sec := vc02Bytes(rr, []int{0, 1, 32, 64, 65, 200}[rr.intn(6)])
			rnd := vc02Bytes(rr, rr.intn(70))
			body := vc02Bytes(rr, rr.intn(300))
			sum := CalculateBackendChecksum(string(rnd), body, sec)
			switch rr.intn(4) {
			case 0:
				ops = append(ops, fmt.Sprintf("fn %s %s %s %s #fn-valid", vx([]byte(sum)), vx(rnd), vx(body), vx(sec)))
			case 1:
				k := rr.intn(len(rnd) + 1)
				ops = append(ops, fmt.Sprintf("fn %s %s %s %s #fn-shift", vx([]byte(sum)), vx(rnd[:k]), vx(append(append([]byte{}, rnd[k:]...), body...)), vx(sec)))
			case 2:
				m := []byte(sum)
				m[rr.intn(len(m))] ^= 1 << uint(rr.intn(8))
				ops = append(ops, fmt.Sprintf("fn %s %s %s %s #fn-flip", vx(m), vx(rnd), vx(body), vx(sec)))
			case 3:
				ops = append(ops, fmt.Sprintf("fn %s %s %s %s #fn-prefix", vx([]byte(sum[:rr.intn(len(sum))])), vx(rnd), vx(body), vx(sec)))
			}
		}
		// outgoing: every request kind to every backend; in mode backends also to urls next to a backend's
		if c.mode != "allowall" {
			for _, b := range c.backends {
				for _, k := range vc02Kinds {
					if e.thorough() || rr.chance(1, 2) {
						ops = append(ops, vc02OutOp(k, vc02OutOwner(c, b.url), b.url, nil))
					}
				}
				_, near := vc02UrlVariants(b.url)
				for _, nu := range near {
					if e.thorough() || rr.chance(1, 2) {
						ops = append(ops, vc02OutOp(vc02Kinds[rr.intn(len(vc02Kinds))], vc02OutOwner(c, nu), nu, nil))
					}
				}
			}
			if c.compat != nil {
				for _, k := range vc02Kinds {
					if e.thorough() || rr.chance(1, 2) {
						ops = append(ops, vc02OutOp(k, c.compat.id, "http://H1/nextcloud", nil))
					}
				}
			}
			ops = append(ops, "out auth -")
		}
		// the running server loads other configurations
		if c.byUrl() && !shiftCase && rr.chance(1, 2) {
			lab := len(refs)
			cur := c
			for round := 1 + rr.intn(3); round > 0; round-- {
				next := vc02Mutate(rr, cur)
				ops = append(ops, vc02AfterReload(e, rr, cur, next, &refs, &lab)...)
				cur = next
			}
		}
		cases = append(cases, vCase{Ops: ops})
	}
	// redirects answered by the backends; those that reproduce the known finding (a redirect within scheme and host
	// that leaves the backend's url) in dedicated cases at the end
	nrd, nrdf := e.scale(10, 80), e.scale(2, 6)
	for i := 0; i < nrd+nrdf; i++ {
		cases = append(cases, vc02RedirectCase(e, r.fork(), i >= nrd))
	}
	return cases
}

var vc02Kinds = []string{"auth", "room-join", "room-leave", "ping", "session-add", "session-remove"}

// vc02OutOwner: the id of the backend an outgoing request to `base`/ocs/… is for (`-` = none).
func vc02OutOwner(c *vc02Cfg, base string) string {
	if c.compat != nil {
		return c.compat.id
	}
	if t := vc02Owner(c, strings.TrimSuffix(base, "/")+vc02BackendPath); t != "?" {
		return t[2:]
	}
	return "-"
}

func vc02OutOp(kind, id, base string, hops []vc02Hop) string {
	op := fmt.Sprintf("out %s %s u=%s", kind, id, vEnc(strings.TrimSuffix(base, "/")+vc02BackendPath))
	if len(hops) > 0 {
		var hs []string
		for _, h := range hops {
			hs = append(hs, fmt.Sprintf("%d %s", h.code, h.loc))
		}
		op += " rd=" + vEnc(strings.Join(hs, ";"))
	}
	return op
}

// vc02Ref: a request that was valid when it was made.
type vc02Ref struct {
	label  string
	signer vc02Backend
	random string
	body   []byte
	sum    string
}

// vc02AfterReload: the reload op and what is tried after it — requests that were valid before, requests of the
// backends as configured now (also signed with what was their secret, or the common secret, before), requests in the
// name of sections that are no backends any more, outgoing requests to every url of the old and the new configuration.
func vc02AfterReload(e *vEnv, rr *vRand, old, c *vc02Cfg, refs *[]vc02Ref, lab *int) []string {
	ops := []string{c.opAs("reload")}
	add := func(q vc02Req) { ops = append(ops, q.op()) }
	stale := append([]vc02Ref{}, *refs...)
	for len(stale) > 3 {
		i := rr.intn(len(stale))
		stale = append(stale[:i], stale[i+1:]...)
	}
	for _, rf := range stale {
		q := vc02Req{label: rf.label, hdrTok: vc02Owner(c, rf.signer.url), hdrVal: rf.signer.url, random: rf.random, checksum: rf.sum,
			body: rf.body, ct: "application/json", room: "room1", tag: "old-signature-after-reload"}
		add(q)
		if rr.chance(1, 2) {
			q.hdrTok, q.hdrVal, q.tag = "-", "", "old-signature-after-reload-noheader"
			add(q)
		}
	}
	conf := c.configured()
	for k := 1 + rr.intn(2); k > 0 && len(conf) > 0; k-- {
		signer := conf[rr.intn(len(conf))]
		random, body, label := vc02Hex(rr, 32), vc02Body(rr), fmt.Sprintf("L%d", *lab)
		*lab++
		sum := CalculateBackendChecksum(random, body, signer.secret)
		ops = append(ops, fmt.Sprintf("sign %s %s %s %s", label, signer.id, vx([]byte(random)), vx(body)))
		*refs = append(*refs, vc02Ref{label: label, signer: signer, random: random, body: body, sum: sum})
		base := vc02Req{label: label, hdrTok: vc02Owner(c, signer.url), hdrVal: signer.url, random: random, checksum: sum, body: body,
			ct: "application/json", room: "room1", tag: "valid-after-reload"}
		add(base)
		q := base
		q.hdrTok, q.hdrVal, q.tag = "-", "", "valid-after-reload-noheader"
		add(q)
		for j := 0; j < 2; j++ {
			q = base
			m := append([]byte{}, body...)
			m[rr.intn(len(m))] ^= 1 << uint(rr.intn(8))
			q.body, q.tag = m, "flip-body"
			add(q)
		}
		q = base
		q.checksum, q.tag = vc02FlipHeader(rr, sum), "flip-checksum"
		add(q)
		for _, o := range conf {
			if o.id == signer.id {
				continue
			}
			q = base
			q.hdrTok, q.hdrVal, q.tag = vc02Owner(c, o.url), o.url, "claims-other-backend"
			add(q)
			q = base
			q.checksum, q.tag = CalculateBackendChecksum(random, body, o.secret), "other-secret"
			add(q)
		}
		// signed with what was this backend's secret before the reload, with what was the common secret before
		var before [][]byte
		for _, ob := range old.configured() {
			if ob.id == signer.id || strings.TrimSuffix(ob.url, "/") == strings.TrimSuffix(signer.url, "/") {
				before = append(before, ob.secret)
			}
		}
		if len(old.common) > 0 {
			before = append(before, old.common)
		}
		for _, sec := range before {
			if bytes.Equal(sec, signer.secret) {
				continue
			}
			q = base
			q.checksum, q.tag = CalculateBackendChecksum(random, body, sec), "rotated-out-secret"
			add(q)
			if rr.chance(1, 2) {
				// without the header it is a request of whichever backend has that secret now, if any
				q.label, q.hdrTok, q.hdrVal, q.tag = "-", "-", "", "rotated-out-secret-noheader"
				add(q)
			}
		}
	}
	// in the name of what was a backend before the reload
	for _, ob := range old.configured() {
		random, body := vc02Hex(rr, 32), vc02Body(rr)
		add(vc02Req{label: "-", hdrTok: vc02Owner(c, ob.url), hdrVal: ob.url, random: random,
			checksum: CalculateBackendChecksum(random, body, ob.secret), body: body, ct: "application/json", room: "room1",
			tag: "backend-as-before-reload"})
	}
	// a section that has no secret (any more)
	for _, b := range c.backends {
		if len(b.secret) == 0 {
			random, body := vc02Hex(rr, 32), vc02Body(rr)
			for _, sec := range [][]byte{nil, old.common} {
				add(vc02Req{label: "-", hdrTok: vc02Owner(c, b.url), hdrVal: b.url, random: random,
					checksum: CalculateBackendChecksum(random, body, sec), body: body, ct: "application/json", room: "room1",
					tag: "section-without-secret"})
			}
		}
	}
	seen := map[string]bool{}
	for _, b := range append(append([]vc02Backend{}, old.backends...), c.backends...) {
		t := strings.TrimSuffix(b.url, "/")
		if seen[t] {
			continue
		}
		seen[t] = true
		ops = append(ops, vc02OutOp(vc02Kinds[rr.intn(len(vc02Kinds))], vc02OutOwner(c, b.url), b.url, nil))
	}
	return ops
}

// vc02RedirectCase: backends on origins that differ in one respect only (port, host name, scheme), every backend answering a
// request with redirects (301/302/303/307/308; one hop or two) to a url of itself, of every other backend, and to its own
// path on every other origin.  finding: two backends on one origin, redirects to the other's url and to urls of no backend.
func vc02RedirectCase(e *vEnv, rr *vRand, finding bool) vCase {
	layouts := [][]string{
		{"http://H1/one/", "http://H2/one/", "http://N1/one/"},    // other port; other name
		{"http://H1/one/", "https://H1/one/", "http://H2/two/"},   // other scheme on the same host and port
		{"https://H1/", "https://H2/", "http://H1/"},              // roots
		{"http://H1/one/", "http://N2/one/", "https://N1/one/"},   // other name and port; other name and scheme
		{"https://N1/nc/", "https://N2/nc/", "https://H1/nc/"},
		{"http://H2/one", "http://H1/one", "https://H2/one"},
	}
	if finding {
		layouts = [][]string{{"http://H1/one/", "http://H1/two/"}, {"https://H2/nc/", "https://H2/nc2"}, {"http://N1/a/b/", "http://N1/a/c/"}}
	}
	layout := layouts[rr.intn(len(layouts))]
	c := &vc02Cfg{mode: "backends", pool: layout}
	n := 2 + rr.intn(len(layout)-1)
	for i := 0; i < n; i++ {
		sec := vc02Secret(rr)
		if i > 0 && rr.chance(1, 6) {
			sec = c.backends[0].secret
		}
		c.backends = append(c.backends, vc02Backend{id: fmt.Sprintf("b%d", i+1), url: layout[i], secret: sec})
	}
	if rr.chance(1, 3) {
		c.mode = "etcd"
	}
	ops := []string{c.op()}
	codes := []int{301, 302, 303, 307, 308}
	origins := []string{"http://H1", "http://H2", "http://N1", "http://N2", "https://H1", "https://H2", "https://N1", "https://N2"}
	for _, b := range c.backends {
		t := strings.TrimSuffix(b.url, "/")
		i := strings.Index(t, "://")
		path := ""
		if j := strings.IndexByte(t[i+3:], '/'); j >= 0 {
			path = t[i+3+j:]
		}
		origin := t[:len(t)-len(path)]
		within := []string{t + "/index.php" + vc02BackendPath, t + vc02BackendPath + "/v2"}
		var away []string
		if finding {
			// same scheme and host, outside the backend's url
			away = append(away, origin+path+"x"+vc02BackendPath, origin+"/other"+vc02BackendPath)
			if path != "" {
				away = append(away, origin+vc02BackendPath)
			}
			for _, o := range c.backends {
				if o.id != b.id {
					away = append(away, strings.TrimSuffix(o.url, "/")+vc02BackendPath)
				}
			}
		} else {
			for _, o := range c.backends {
				if o.id != b.id {
					away = append(away, strings.TrimSuffix(o.url, "/")+vc02BackendPath)
				}
			}
			for _, og := range origins {
				if og != origin {
					away = append(away, og+path+vc02BackendPath)
				}
			}
		}
		pick := func() int { return codes[rr.intn(len(codes))] }
		emit := func(hops []vc02Hop) {
			ops = append(ops, vc02OutOp(vc02Kinds[rr.intn(len(vc02Kinds))], vc02OutOwner(c, b.url), b.url, hops))
		}
		for _, loc := range append(append([]string{}, within...), away...) {
			if e.thorough() || finding {
				for _, code := range codes {
					emit([]vc02Hop{{code, loc}})
				}
			} else {
				emit([]vc02Hop{{pick(), loc}})
				emit([]vc02Hop{{[]int{307, 308}[rr.intn(2)], loc}})
			}
		}
		// two hops: within the backend first, then away; and twice within
		for _, loc := range away {
			if e.thorough() || finding || rr.chance(1, 3) {
				emit([]vc02Hop{{pick(), within[rr.intn(2)]}, {pick(), loc}})
				emit([]vc02Hop{{[]int{307, 308}[rr.intn(2)], within[rr.intn(2)]}, {[]int{307, 308}[rr.intn(2)], loc}})
			}
		}
		emit([]vc02Hop{{pick(), within[0]}, {pick(), within[1]}})
		emit([]vc02Hop{{307, within[0]}, {308, within[1]}, {pick(), within[0]}})
	}
	return vCase{Ops: ops}
}

// vc02HeaderLegal: can these bytes be appended to a header value without the request being
// rejected by the HTTP server?  (Trailing blanks are legal; the server trims them, and the op
// carries the trimmed value.)
func vc02HeaderLegal(b []byte) bool {
	if len(b) == 0 {
		return false
	}
	for _, c := range b {
		if !vc02Legal(c) {
			return false
		}
	}
	return true
}

// ---------- execution ----------

func vc02ParseCfg(f []string, cs string) *vc02Cfg {
	c := &vc02Cfg{}
	if cs != "" {
		b, ok := vunx(cs)
		if !ok {
			return nil
		}
		c.common = b
	}
	var urls = map[string]string{}
	for _, t := range f {
		if strings.HasPrefix(t, "u=") {
			parts := strings.Split(vDec(t[2:]), ";")
			c.mode = parts[0]
			for _, p := range parts[1:] {
				if i := strings.IndexByte(p, '='); i > 0 {
					urls[p[:i]] = p[i+1:]
				}
			}
		}
	}
	parse := func(tok string) (vc02Backend, bool) {
		i := strings.IndexByte(tok, ':')
		if i < 0 {
			return vc02Backend{}, false
		}
		s, ok := vunx(tok[i+1:])
		return vc02Backend{id: tok[:i], secret: s, url: urls[tok[:i]], common: len(s) == 0}, ok
	}
	if len(f) < 3 {
		return nil
	}
	if f[1] != "-" {
		b, ok := parse(f[1])
		if !ok {
			return nil
		}
		c.compat = &b
	}
	if f[2] != "-" {
		for _, t := range strings.Split(f[2], ",") {
			b, ok := parse(t)
			if !ok {
				return nil
			}
			c.backends = append(c.backends, b)
		}
	}
	if c.mode == "" {
		return nil
	}
	if c.mode != "backends" {
		c.common = nil
		for i := range c.backends {
			c.backends[i].common = false
		}
	}
	return c.fix()
}

func (w *vc02World) backendById(id string) *vc02Backend {
	if w.cfg.compat != nil && w.cfg.compat.id == id {
		return w.cfg.compat
	}
	for i := range w.cfg.backends {
		if w.cfg.backends[i].id == id {
			return &w.cfg.backends[i]
		}
	}
	return nil
}

// canon maps a backend id to the smallest id among the configured backends with the same secret.
func (w *vc02World) canon(id string) string {
	b := w.backendById(id)
	if b == nil {
		return id
	}
	ids := []string{id}
	for _, o := range w.cfg.backends {
		if bytes.Equal(o.secret, b.secret) {
			ids = append(ids, o.id)
		}
	}
	sort.Strings(ids)
	return ids[0]
}

func vC02Exec(t *testing.T, c *vCase) {
	var w *vc02World
	defer func() {
		if w != nil {
			w.close()
		}
	}()
	for _, line := range c.Ops {
		var f []string
		kv := map[string]string{}
		for _, tok := range strings.Fields(line) {
			switch {
			case strings.HasPrefix(tok, "#"):
			case strings.HasPrefix(tok, "cs="):
				kv["cs"] = tok[3:]
			case strings.HasPrefix(tok, "u="), strings.HasPrefix(tok, "wr="), strings.HasPrefix(tok, "wc="), strings.HasPrefix(tok, "ct="),
				strings.HasPrefix(tok, "rd="):
				i := strings.IndexByte(tok, '=')
				kv[tok[:i]] = vDec(tok[i+1:])
				if tok[:i] == "u" {
					f = append(f, tok) // kept for the cfg op
				}
			default:
				f = append(f, tok)
			}
		}
		out := "bad-op"
		switch {
		case len(f) >= 3 && f[0] == "cfg":
			if cfg := vc02ParseCfg(f, kv["cs"]); cfg != nil {
				if w != nil {
					w.close()
				}
				w = newVC02World(cfg)
				out = "-"
			}
		case len(f) >= 3 && f[0] == "reload" && w != nil:
			if cfg := vc02ParseCfg(f, kv["cs"]); cfg != nil && cfg.mode == w.cfg.mode && cfg.byUrl() && cfg.compat == nil {
				w.reload(cfg)
				out = "-"
			}
		case len(f) == 5 && f[0] == "sign" && w != nil:
			b := w.backendById(f[2])
			rnd, ok1 := vunx(f[3])
			body, ok2 := vunx(f[4])
			if b != nil && ok1 && ok2 {
				out = "sum " + vx([]byte(CalculateBackendChecksum(string(rnd), body, b.secret)))
			}
		case len(f) == 5 && f[0] == "fn":
			sum, ok1 := vunx(f[1])
			rnd, ok2 := vunx(f[2])
			body, ok3 := vunx(f[3])
			sec, ok4 := vunx(f[4])
			if ok1 && ok2 && ok3 && ok4 {
				if ValidateBackendChecksumValue(string(sum), string(rnd), body, sec) {
					out = "1"
				} else {
					out = "0"
				}
			}
		case len(f) == 11 && f[0] == "req" && w != nil:
			body, ok := vunx(f[5])
			if !ok {
				break
			}
			var headers [][2]string
			lookupNote := ""
			if hv := kv["u"]; hv != "" {
				headers = append(headers, [2]string{HeaderBackendServer, w.subst(hv)})
				// the op's claim about what the header resolves to, checked with the lookup called directly
				want := f[2]
				var got string
				if u, err := url.Parse(w.subst(hv)); err != nil {
					got = "?"
				} else if b := w.hub.backend.GetBackend(u); b == nil {
					got = "?"
				} else {
					got = "b:" + b.Id()
				}
				if got != want {
					lookupNote = " lookup=" + got // reported, and the request is made all the same: the judge decides
				}
			}
			if kv["wr"] != "" {
				headers = append(headers, [2]string{HeaderBackendSignalingRandom, kv["wr"]})
			}
			if kv["wc"] != "" {
				headers = append(headers, [2]string{HeaderBackendSignalingChecksum, kv["wc"]})
			}
			w.events.take()
			w.thr.take()
			var status int
			if len(body) > maxBodySize {
				// over a socket the early 413 races with the upload of the body: hand it to the router directly
				req, err := http.NewRequest("POST", "/api/v1/room/"+url.PathEscape(vDec(f[9])), bytes.NewReader(body))
				if err != nil {
					break
				}
				req.RemoteAddr = "127.0.0.1:9"
				if kv["ct"] != "" {
					req.Header.Set("Content-Type", kv["ct"])
				}
				for _, h := range headers {
					req.Header.Set(h[0], h[1])
				}
				rec := httptest.NewRecorder()
				w.srv.Config.Handler.ServeHTTP(rec, req)
				status = rec.Code
			} else {
				status = w.post(vDec(f[9]), headers, body, f[8] == "-", kv["ct"])
			}
			evs := w.events.take()
			searched := f[2] == "-" && w.cfg.compat == nil
			for i, e := range evs {
				if j := strings.LastIndexByte(e, '@'); j >= 0 && searched {
					evs[i] = e[:j+1] + w.canon(e[j+1:])
				}
			}
			es := "-"
			if len(evs) > 0 {
				es = strings.Join(evs, ",")
			}
			tn := w.thr.take()
			if tn > 1 {
				tn = 1
			}
			out = fmt.Sprintf("%d t%d %s%s", status, tn, es, lookupNote)
		case (len(f) == 3 || len(f) == 4) && f[0] == "out" && w != nil:
			w.take()
			var target string
			if tu := kv["u"]; tu != "" {
				target = tu // the url the request goes to, literally
			} else {
				target = "http://H3.invalid/x" + vc02BackendPath
			}
			u, err := url.Parse(w.subst(target))
			if err != nil {
				break
			}
			var hops []vc02Hop
			badHops := false
			if rd := kv["rd"]; rd != "" {
				for _, h := range strings.Split(rd, ";") {
					p := strings.Split(h, " ")
					code, err := strconv.Atoi(p[0])
					if len(p) != 2 || err != nil || code < 0 {
						badHops = true
						break
					}
					hops = append(hops, vc02Hop{code, p[1]})
				}
			}
			if badHops {
				break
			}
			var request *BackendClientRequest
			switch f[1] {
			case "auth":
				request = NewBackendClientAuthRequest(json.RawMessage(`{"userid":"u1","ticket":"t"}`))
			case "room-join":
				request = NewBackendClientRoomRequest("room1", "user1", "sess1")
			case "room-leave":
				request = NewBackendClientRoomRequest("room1", "user1", "sess1")
				request.Room.Action = "leave"
			case "ping":
				request = NewBackendClientPingRequest("room1", []BackendPingEntry{{UserId: "u1", SessionId: "s1"}, {SessionId: "s2"}})
			case "session-add":
				request = NewBackendClientSessionRequest("room1", "add", "sess1", &AddSessionInternalClientMessage{UserId: "u9"})
			case "session-remove":
				request = NewBackendClientSessionRequest("room1", "remove", "sess1", nil)
			}
			if request == nil {
				break
			}
			w.mu.Lock()
			w.script = hops
			w.mu.Unlock()
			ctx, cancel := context.WithTimeout(context.Background(), 10*time.Second)
			var response json.RawMessage
			w.hub.backend.PerformJSONRequest(ctx, u, request, &response) // nolint
			cancel()
			w.mu.Lock()
			w.script = nil
			w.mu.Unlock()
			got := w.take()
			if len(got) == 0 {
				out = "none"
			} else {
				out = "out"
				for _, g := range got {
					m := "G"
					if g.post {
						m = "P"
					}
					out += " " + vEnc(g.url) + " " + m + " " + vx([]byte(g.random)) + " " + vx(g.body) + " " + vx([]byte(g.checksum))
				}
			}
		}
		c.Impl = append(c.Impl, out)
	}
}

func TestVerifC02(t *testing.T) {
	// the server logs refused bodies verbatim (arbitrary bytes): keep them out of the test output
	log.SetOutput(io.Discard)
	vRun(t, vC02Gen, vC02Exec)
}
