package signaling

import (
	"encoding/json"
	"fmt"
	"io"
	"log"
	"sort"
	"strconv"
	"strings"
	"sync"
	"sync/atomic"
	"testing"
	"testing/synctest"
	"time"
	"unsafe"
)

// C14: TransientData (transient_data.go) against Model/Transient.lean, under the
// virtual clock of testing/synctest (go1.26): the real time.AfterFunc timers of
// the code fire deterministically when the harness sleeps inside the bubble.
//
// Op lines (tokens are opaque to the Lean side; `~` is Go's nil):
//   set  <key> <val|~> <ttl_ns>          SetTTL            set0 <key> <val|~>        Set
//   cas  <key> <old|~> <val|~> <ttl_ns>  CompareAndSetTTL  cas0 <key> <old|~> <val|~> CompareAndSet
//   rm   <key>                           Remove            casrm <key> <old|~>       CompareAndRemove
//   add  <listener>   del <listener>     AddListener / RemoveListener
//   adv  <dt_ns>                         time passes (Sleep + synctest.Wait: every due timer has run)
//   get                                  observation only
//   late <key> <val> <ttl_ns> <op...>    see vC14Late: the expiry callback of a fresh timer overlaps <op>
//
// Implementation output per op:
//   r=<0|1|-> [L<id>:<msg>;<msg>...]... d={k=v,...} t={k,...}
// (listeners ascending, data and timer-map keys sorted by token).

const vC14Nil = "~"

// vC14Enc is vEnc restricted further so that `=`, `,` never appear in a token.
func vC14Enc(s string) string {
	if s == "" {
		return "%"
	}
	var sb strings.Builder
	for i := 0; i < len(s); i++ {
		b := s[i]
		if vSafeByte(b) && b != '=' && b != ',' {
			sb.WriteByte(b)
		} else {
			fmt.Fprintf(&sb, "%%%02x", b)
		}
	}
	return sb.String()
}

// Value tokens: <kind>:<payload>, kinds exercise reflect.DeepEqual over the
// dynamic types that reach TransientData (strings in tests, json.RawMessage
// from clients, decoded JSON from the backend).
func vC14Value(tok string) interface{} {
	if tok == vC14Nil {
		return nil
	}
	raw := vDec(tok)
	if len(raw) >= 2 && raw[1] == ':' {
		p := raw[2:]
		switch raw[0] {
		case 's':
			return p
		case 'j':
			return json.RawMessage(p)
		case 'n':
			f, _ := strconv.ParseFloat(p, 64)
			return f
		case 'm':
			return map[string]interface{}{"status": p}
		case 'l':
			return []interface{}{p}
		}
	}
	return raw
}

func vC14ValueToken(v interface{}) string {
	switch x := v.(type) {
	case nil:
		return vC14Nil
	case string:
		return vC14Enc("s:" + x)
	case json.RawMessage:
		return vC14Enc("j:" + string(x))
	case float64:
		return vC14Enc("n:" + strconv.FormatFloat(x, 'g', -1, 64))
	case map[string]interface{}:
		if s, ok := x["status"].(string); ok && len(x) == 1 {
			return vC14Enc("m:" + s)
		}
	case []interface{}:
		if len(x) == 1 {
			if s, ok := x[0].(string); ok {
				return vC14Enc("l:" + s)
			}
		}
	}
	return vC14Enc(fmt.Sprintf("?:%#v", v))
}

func vC14DataString(m map[string]interface{}) string {
	items := make([]string, 0, len(m))
	for k, v := range m {
		items = append(items, vC14Enc(k)+"="+vC14ValueToken(v))
	}
	sort.Strings(items)
	return "{" + strings.Join(items, ",") + "}"
}

type vC14Listener struct {
	id   int
	msgs []string
}

// SendMessage is called with the store mutex held; the message is rendered at
// once (the "initial" message aliases the live map).
func (l *vC14Listener) SendMessage(message *ServerMessage) bool {
	s := "?"
	if message != nil && message.Type == "transient" && message.TransientData != nil {
		td := message.TransientData
		switch td.Type {
		case "set":
			s = "set(" + vC14Enc(td.Key) + "," + vC14ValueToken(td.Value) + "," + vC14ValueToken(td.OldValue) + ")"
		case "remove":
			s = "rm(" + vC14Enc(td.Key) + "," + vC14ValueToken(td.OldValue) + ")"
		case "initial":
			s = "init" + vC14DataString(td.Data)
		default:
			s = "?" + vC14Enc(td.Type)
		}
	}
	l.msgs = append(l.msgs, s)
	return true
}

type vC14World struct {
	td        *TransientData
	listeners map[int]*vC14Listener
	lateScale int // attempt number of a real-clock case: lengthens the fuse of `late`
}

func (w *vC14World) listener(id int) *vC14Listener {
	l := w.listeners[id]
	if l == nil {
		l = &vC14Listener{id: id}
		w.listeners[id] = l
	}
	return l
}

// observe renders what happened since the previous observation.
func (w *vC14World) observe(ret string) string {
	parts := []string{"r=" + ret}
	ids := make([]int, 0, len(w.listeners))
	for id := range w.listeners {
		ids = append(ids, id)
	}
	sort.Ints(ids)
	w.td.mu.Lock()
	for _, id := range ids {
		l := w.listeners[id]
		if len(l.msgs) > 0 {
			parts = append(parts, fmt.Sprintf("L%d:%s", id, strings.Join(l.msgs, ";")))
			l.msgs = nil
		}
	}
	keys := make([]string, 0, len(w.td.timers))
	for k := range w.td.timers {
		keys = append(keys, vC14Enc(k))
	}
	w.td.mu.Unlock()
	sort.Strings(keys)
	parts = append(parts, "d="+vC14DataString(w.td.GetData()), "t={"+strings.Join(keys, ",")+"}")
	return strings.Join(parts, " ")
}

func vC14Bool(b bool) string {
	if b {
		return "1"
	}
	return "0"
}

func vC14Dur(tok string) time.Duration {
	v, _ := strconv.ParseInt(tok, 10, 64)
	return time.Duration(v)
}

// prep parses one API op (not adv/late); the returned closure performs it on the
// real store and yields the return-value token.  Every such op takes the store
// mutex exactly once.
func (w *vC14World) prep(f []string) (func() string, bool) {
	td := w.td
	if len(f) == 0 {
		return nil, false
	}
	switch {
	case f[0] == "set" && len(f) == 4:
		return func() string { return vC14Bool(td.SetTTL(vDec(f[1]), vC14Value(f[2]), vC14Dur(f[3]))) }, true
	case f[0] == "set0" && len(f) == 3:
		return func() string { return vC14Bool(td.Set(vDec(f[1]), vC14Value(f[2]))) }, true
	case f[0] == "cas" && len(f) == 5:
		return func() string {
			return vC14Bool(td.CompareAndSetTTL(vDec(f[1]), vC14Value(f[2]), vC14Value(f[3]), vC14Dur(f[4])))
		}, true
	case f[0] == "cas0" && len(f) == 4:
		return func() string { return vC14Bool(td.CompareAndSet(vDec(f[1]), vC14Value(f[2]), vC14Value(f[3]))) }, true
	case f[0] == "rm" && len(f) == 2:
		return func() string { return vC14Bool(td.Remove(vDec(f[1]))) }, true
	case f[0] == "casrm" && len(f) == 3:
		return func() string { return vC14Bool(td.CompareAndRemove(vDec(f[1]), vC14Value(f[2]))) }, true
	case (f[0] == "add" || f[0] == "del") && len(f) == 2:
		id, err := strconv.Atoi(f[1])
		if err != nil || id < 0 {
			return nil, false
		}
		l := w.listener(id)
		if f[0] == "add" {
			return func() string { td.AddListener(l); return "-" }, true
		}
		return func() string { td.RemoveListener(l); return "-" }, true
	case f[0] == "get" && len(f) == 1:
		return func() string { td.GetData(); return "-" }, true
	}
	return nil, false
}

// vC14Waiters reads the number of goroutines queued on a sync.Mutex (state >> mutexWaiterShift).
func vC14Waiters(mu *sync.Mutex) int32 {
	return atomic.LoadInt32((*int32)(unsafe.Pointer(mu))) >> 3
}

func vC14WaitWaiters(mu *sync.Mutex, n int32) bool {
	deadline := time.Now().Add(5 * time.Second)
	for vC14Waiters(mu) < n {
		if time.Now().After(deadline) {
			return false
		}
		time.Sleep(100 * time.Microsecond)
	}
	return true
}

// late realises the one timing that virtual time cannot produce: the expiry
// callback of a timer has already been started by the runtime (Stop() comes too
// late) but runs only after another API call <a>, because that call got the
// store mutex first.  Real clock, real timer:
//
//	SetTTL(key, val, ttl); the harness takes t.mu; <a> is started and queues on
//	t.mu; the timer fires, its callback queues behind <a>; the harness releases
//	t.mu (FIFO: <a> runs, then the callback).
//
// Model: the ops  set key val ttl ; fire ttl ; <a> ; runCb <that timer>.
func (w *vC14World) late(f []string) string {
	if len(f) < 5 || f[2] == vC14Nil {
		return "bad-op"
	}
	ttl := vC14Dur(f[3])
	if ttl <= 0 || ttl > 50*time.Millisecond {
		return "bad-op"
	}
	td := w.td
	op, ok := w.prep(f[4:])
	if !ok {
		return "bad-op"
	}
	// (a case that is run again because the machine was too busy for the timing gets a longer fuse; the model
	// uses the ttl only to tell the timers apart)
	if ttl *= time.Duration(1 + 4*w.lateScale); ttl > 50*time.Millisecond {
		ttl = 50 * time.Millisecond
	}
	t0 := time.Now()
	td.SetTTL(vDec(f[1]), vC14Value(f[2]), ttl)
	td.mu.Lock()
	if td.data[vDec(f[1])] == nil || vC14Waiters(&td.mu) >= 1 || time.Since(t0) >= ttl {
		// the harness was descheduled for longer than the ttl (the callback has run, or is already queued on
		// the mutex ahead of <a>): not the timing asked for
		td.mu.Unlock()
		return "late-failed:callback-ran-early"
	}
	ch := make(chan struct{}, 64)
	td.ttlCh = ch
	done := make(chan string, 1)
	go func() { done <- op() }()
	// <a> queues on t.mu — or completes at once if it does not need t.mu (RemoveListener)
	r, aDone := "", false
	deadline := time.Now().Add(5 * time.Second)
	for !aDone && vC14Waiters(&td.mu) < 1 {
		select {
		case r = <-done:
			aDone = true
		default:
			if time.Now().After(deadline) {
				td.mu.Unlock()
				<-done
				return "late-failed:op-not-queued"
			}
			time.Sleep(100 * time.Microsecond)
		}
	}
	if time.Since(t0) >= ttl {
		// the timer may have fired before <a> was seen queued: who is first on the mutex is not known
		td.mu.Unlock()
		if !aDone {
			<-done
		}
		return "late-failed:callback-ran-early"
	}
	want := int32(2)
	if aDone {
		want = 1
	}
	if !vC14WaitWaiters(&td.mu, want) { // the callback has fired and is queued behind <a>
		td.mu.Unlock()
		if !aDone {
			<-done
		}
		return "late-failed:timer-did-not-fire"
	}
	td.mu.Unlock()
	if !aDone {
		r = <-done
	}
	select {
	case <-ch: // the callback has done its work (it signals before releasing the mutex)
	case <-time.After(5 * time.Second):
		return "late-failed:callback-did-not-run"
	}
	td.mu.Lock()
	td.ttlCh = nil
	td.mu.Unlock()
	return w.observe(r)
}

func vC14Exec(t *testing.T, c *vCase) {
	for _, line := range c.Ops {
		if vC14IsRoomOp(line) {
			// room level (zz_verif_c14_rooms_test.go): real hub, rooms and sessions
			vC14RExec(t, c)
			return
		}
	}
	for _, line := range c.Ops {
		if strings.HasPrefix(line, "late ") || strings.HasPrefix(line, "conc ") {
			vC14ExecReal(c)
			return
		}
	}
	synctest.Test(t, func(t *testing.T) {
		w := &vC14World{td: NewTransientData(), listeners: map[int]*vC14Listener{}}
		for _, line := range c.Ops {
			f := strings.Fields(line)
			out := "bad-op"
			if len(f) > 0 {
				switch {
				case f[0] == "adv" && len(f) == 2:
					if d := vC14Dur(f[1]); d > 0 {
						time.Sleep(d)
					}
					synctest.Wait()
					out = w.observe("-")
				default:
					if op, ok := w.prep(f); ok {
						r := op()
						synctest.Wait()
						out = w.observe(r)
					}
				}
			}
			c.Impl = append(c.Impl, out)
		}
		// let every leftover timer run so that the bubble ends without pending work
		time.Sleep(1000 * time.Hour)
		synctest.Wait()
	})
}

// vC14ExecReal runs a case containing `late` ops on the real clock.  Such cases
// have no `adv` and every other ttl is zero, negative or at least an hour, so
// the only timers that ever fire are those of the `late` ops.
func vC14ExecReal(c *vCase) {
	// the choreography of `late` depends on the harness not being descheduled for
	// longer than the ttl right after SetTTL; if that happens the case is run again
	for attempt := 0; ; attempt++ {
		w := &vC14World{td: NewTransientData(), listeners: map[int]*vC14Listener{}, lateScale: attempt}
		var impl []string
		failed := false
		for _, line := range c.Ops {
			f := strings.Fields(line)
			out := "bad-op"
			if len(f) > 0 {
				if f[0] == "late" {
					out = w.late(f)
					if strings.HasPrefix(out, "late-failed:") {
						failed = true
					}
				} else if f[0] == "conc" && len(f) == 3 {
					out = vC14Conc(f)
				} else if op, ok := w.prep(f); ok {
					out = w.observe(op())
				}
			}
			impl = append(impl, out)
			if failed {
				break
			}
		}
		w.td.mu.Lock()
		for _, tm := range w.td.timers {
			tm.Stop()
		}
		w.td.mu.Unlock()
		if !failed || attempt >= 19 {
			c.Impl = impl
			return
		}
	}
}

// ---------- real goroutines ----------

// vC14LockedListener is a listener whose SendMessage takes a mutex of its own
// (as ClientSession.SendMessage takes the session mutex).
type vC14LockedListener struct {
	mu   sync.Mutex
	msgs []string
	rec  vC14Listener
}

func (l *vC14LockedListener) SendMessage(message *ServerMessage) bool {
	l.mu.Lock()
	defer l.mu.Unlock()
	l.rec.msgs = nil
	l.rec.SendMessage(message)
	l.msgs = append(l.msgs, l.rec.msgs...)
	return true
}

// vC14Conc: `conc <seed> <n>` — on a fresh store two writers issue n random
// requests each (no ttl that could fire) while a third goroutine makes a
// listener leave and re-join the way a session does (RemoveListener is called
// with the listener's own mutex held).  Listeners 1 and 3 stay registered from
// before the first request: the sequence each of them received, applied to
// nothing, must give the final data (judged by the Lean spec, not here).
// A watchdog reports a hang.
func vC14Conc(f []string) string {
	seed, err1 := strconv.ParseUint(f[1], 10, 64)
	n, err2 := strconv.Atoi(f[2])
	if err1 != nil || err2 != nil || n < 0 || n > 5000 {
		return "bad-op"
	}
	td := NewTransientData()
	ls := []*vC14LockedListener{{}, {}, {}}
	td.AddListener(ls[0])
	td.AddListener(ls[2])
	var wg sync.WaitGroup
	writer := func(r *vRand) {
		defer wg.Done()
		for i := 0; i < n; i++ {
			k := vC14Keys[r.intn(2)]
			v := vC14Value(vC14Enc(vC14Vals[r.intn(3)]))
			var ttl time.Duration
			if r.chance(1, 3) {
				ttl = time.Hour + time.Duration(r.intn(1000))
			}
			switch r.intn(6) {
			case 0, 1, 2:
				td.SetTTL(k, v, ttl)
			case 3:
				td.Remove(k)
			case 4:
				td.CompareAndSetTTL(k, vC14Value(vC14Enc(vC14Vals[r.intn(3)])), v, ttl)
			default:
				td.CompareAndRemove(k, v)
			}
		}
	}
	churn := func(r *vRand) {
		defer wg.Done()
		l := ls[1]
		for i := 0; i < n; i++ {
			td.AddListener(l)
			if r.chance(1, 2) {
				td.GetData()
			}
			l.mu.Lock() // LeaveRoom: session mutex held while the listener is removed
			td.RemoveListener(l)
			l.mu.Unlock()
		}
	}
	base := newVRand(seed)
	wg.Add(3)
	go writer(base.fork())
	go writer(base.fork())
	go churn(base.fork())
	fin := make(chan struct{})
	go func() { wg.Wait(); close(fin) }()
	select {
	case <-fin:
	case <-time.After(20 * time.Second):
		return "conc hang"
	}
	td.mu.Lock()
	for _, tm := range td.timers {
		tm.Stop()
	}
	td.mu.Unlock()
	parts := []string{"conc"}
	for _, i := range []int{0, 2} {
		ls[i].mu.Lock()
		if len(ls[i].msgs) > 0 {
			parts = append(parts, fmt.Sprintf("L%d:%s", i+1, strings.Join(ls[i].msgs, ";")))
		}
		ls[i].mu.Unlock()
	}
	parts = append(parts, "d="+vC14DataString(td.GetData()))
	return strings.Join(parts, " ")
}

// ---------- generator ----------

var vC14Keys = []string{"a", "b", "callstatus_1", "", "k=1,x;y"}
var vC14Vals = []string{"s:v0", "s:v1", "j:{\"x\":1}", "n:7", "m:cleared", "l:v0", "s:"}

const (
	vC14Short = int64(20 * time.Millisecond)
	vC14Long  = int64(500 * time.Millisecond)
)

func vC14Gen(e *vEnv, r *vRand) []vCase {
	var cases []vCase
	n := e.scale(600, 6000)
	maxOps := e.scale(25, 80)
	for i := 0; i < n; i++ {
		rr := r.fork()
		var ops []string
		serial := int64(0)
		nk := 1 + rr.intn(3)
		if rr.chance(1, 5) {
			nk = 1 + rr.intn(len(vC14Keys))
		}
		nv := 2 + rr.intn(3)
		if rr.chance(1, 5) {
			nv = 2 + rr.intn(len(vC14Vals)-1)
		}
		key := func() string { return vC14Enc(vC14Keys[rr.intn(nk)]) }
		val := func() string { return vC14Enc(vC14Vals[rr.intn(nv)]) }
		valOrNil := func(p int) string {
			if rr.chance(p, 100) {
				return vC14Nil
			}
			return val()
		}
		// virtual clock of the generator: deadlines requested so far (some of them
		// are superseded later — the interesting ones), to aim the passages of time
		now := int64(0)
		var dues []int64
		ttl := func() int64 {
			serial++
			var d int64
			switch rr.intn(10) {
			case 0, 1, 2:
				return 0
			case 3:
				return -int64(rr.intn(3)) * int64(time.Millisecond)
			case 4, 5, 6, 7:
				d = vC14Short + serial*1000 // unique low-order part: no two deadlines coincide
			default:
				d = vC14Long + serial*1000
			}
			// ... also not after the clock was advanced to an odd instant (aimed one nanosecond beside a
			// deadline): two timers due at the same instant fire in an order the runtime does not fix
			for again := true; again; {
				again = false
				for _, x := range dues {
					if x == now+d {
						d += 1000
						again = true
					}
				}
			}
			dues = append(dues, now+d)
			return d
		}
		nops := 4 + rr.intn(maxOps)
		for len(ops) < nops {
			switch k := rr.intn(100); {
			case k < 30:
				ops = append(ops, fmt.Sprintf("set %s %s %d", key(), valOrNil(6), ttl()))
			case k < 36:
				ops = append(ops, fmt.Sprintf("set0 %s %s", key(), valOrNil(6)))
			case k < 46:
				ops = append(ops, fmt.Sprintf("cas %s %s %s %d", key(), valOrNil(25), valOrNil(10), ttl()))
			case k < 49:
				ops = append(ops, fmt.Sprintf("cas0 %s %s %s", key(), valOrNil(25), valOrNil(10)))
			case k < 55:
				ops = append(ops, "rm "+key())
			case k < 59:
				ops = append(ops, fmt.Sprintf("casrm %s %s", key(), valOrNil(10)))
			case k < 68:
				ops = append(ops, fmt.Sprintf("add %d", 1+rr.intn(4)))
			case k < 73:
				ops = append(ops, fmt.Sprintf("del %d", 1+rr.intn(4)))
			case k < 75:
				ops = append(ops, "get")
			default:
				var dt int64
				var pending []int64
				for _, d := range dues {
					if d > now {
						pending = append(pending, d)
					}
				}
				switch k := rr.intn(10); {
				case k == 0:
					dt = 0
				case k == 1:
					dt = int64(rr.intn(5)) * int64(time.Millisecond)
				case k < 7 && len(pending) > 0:
					// just before / exactly on / just after a requested deadline
					d := pending[rr.intn(len(pending))]
					dt = d - now + int64(rr.intn(3)-1)
				case k < 8:
					dt = vC14Short + int64(rr.intn(3))*int64(time.Millisecond)
				case k < 9:
					dt = vC14Long + int64(rr.intn(3))*int64(time.Millisecond)
				default:
					dt = int64(rr.intn(600)) * int64(time.Millisecond)
				}
				if dt < 0 {
					dt = 0
				}
				now += dt
				ops = append(ops, fmt.Sprintf("adv %d", dt))
			}
		}
		ops = append(ops, fmt.Sprintf("adv %d", 2*vC14Long), "get")
		cases = append(cases, vCase{Ops: ops})
	}
	// callbacks that have fired but run only after another call (real clock, see vC14World.late)
	nl := e.scale(40, 400)
	for i := 0; i < nl; i++ {
		rr := r.fork()
		var ops []string
		serial := int64(0)
		nk := 1 + rr.intn(2)
		key := func() string { return vC14Enc(vC14Keys[rr.intn(nk)]) }
		val := func() string { return vC14Enc(vC14Vals[rr.intn(3)]) }
		valOrNil := func(p int) string {
			if rr.chance(p, 100) {
				return vC14Nil
			}
			return val()
		}
		ttl := func() int64 { // never fires within the case
			serial++
			switch rr.intn(4) {
			case 0:
				return 0
			case 1:
				return -1
			default:
				return int64(time.Hour) + serial*1000
			}
		}
		api := func(k string) string {
			switch x := rr.intn(100); {
			case x < 40:
				return fmt.Sprintf("set %s %s %d", k, valOrNil(8), ttl())
			case x < 50:
				return fmt.Sprintf("set0 %s %s", k, val())
			case x < 65:
				return fmt.Sprintf("cas %s %s %s %d", k, valOrNil(20), valOrNil(10), ttl())
			case x < 73:
				return "rm " + k
			case x < 80:
				return fmt.Sprintf("casrm %s %s", k, val())
			case x < 88:
				return fmt.Sprintf("add %d", 1+rr.intn(2))
			case x < 94:
				return fmt.Sprintf("del %d", 1+rr.intn(2))
			default:
				return "get"
			}
		}
		nops := 2 + rr.intn(e.scale(8, 16))
		lates := 0
		for len(ops) < nops {
			if rr.chance(2, 5) || (len(ops) == nops-1 && lates == 0) {
				k := key()
				ak := k
				if rr.chance(1, 4) {
					ak = key()
				}
				lates++
				ops = append(ops, fmt.Sprintf("late %s %s %d %s", k, val(), 3*int64(time.Millisecond), api(ak)))
			} else {
				ops = append(ops, api(key()))
			}
		}
		ops = append(ops, "get")
		cases = append(cases, vCase{Ops: ops, Tags: []string{"late"}})
	}
	// real goroutines: writers against a listener that leaves and re-joins like a session
	nc := e.scale(20, 300)
	for i := 0; i < nc; i++ {
		cases = append(cases, vCase{Ops: []string{fmt.Sprintf("conc %d %d", r.u64()%1000000, 20+r.intn(e.scale(60, 400)))},
			Tags: []string{"conc"}})
	}
	// the embedding: real rooms and sessions, ttls pending across leave / re-join / room switch
	cases = append(cases, vC14RoomsGen(e, r.fork())...)
	return cases
}

func TestVerifC14(t *testing.T) {
	log.SetOutput(io.Discard)
	vRun(t, vC14Gen, vC14Exec)
}
