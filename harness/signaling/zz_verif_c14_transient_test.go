package signaling

import (
	"encoding/json"
	"fmt"
	"sort"
	"strconv"
	"strings"
	"testing"
	"testing/synctest"
	"time"
)

// C14: TransientData (transient_data.go) against Model/Transient.lean, under the
// virtual clock of testing/synctest (go1.26): the real time.AfterFunc timers of
// the code fire deterministically when the harness sleeps inside the bubble.
//
// Op lines (tokens are opaque to the Lean side; `~` is Go's nil):
//   set  <key> <val|~> <ttl_ns>          SetTTL            set0 <key> <val|~>        Set
//   cas  <key> <old|~> <val|~> <ttl_ns>  CompareAndSetTTL  cas0 <key> <old|~> <val|~> CompareAndSet
//   rm   <key>                           Remove            casrm <key> <old|~>       CompareAndRemove
//   add  <listener>   del <listener>     AddListener / RemoveListener
//   adv  <dt_ns>                         time passes (Sleep + synctest.Wait: every due timer has run)
//   get                                  observation only
//   late <key> <val> <ttl_ns> <op...>    see vC14Late: the expiry callback of a fresh timer overlaps <op>
//
// Implementation output per op:
//   r=<0|1|-> [L<id>:<msg>;<msg>...]... d={k=v,...} t={k,...}
// (listeners ascending, data and timer-map keys sorted by token).

const vC14Nil = "~"

// vC14Enc is vEnc restricted further so that `=`, `,` never appear in a token.
func vC14Enc(s string) string {
	if s == "" {
		return "%"
	}
	var sb strings.Builder
	for i := 0; i < len(s); i++ {
		b := s[i]
		if vSafeByte(b) && b != '=' && b != ',' {
			sb.WriteByte(b)
		} else {
			fmt.Fprintf(&sb, "%%%02x", b)
		}
	}
	return sb.String()
}

// Value tokens: <kind>:<payload>, kinds exercise reflect.DeepEqual over the
// dynamic types that reach TransientData (strings in tests, json.RawMessage
// from clients, decoded JSON from the backend).
func vC14Value(tok string) interface{} {
	if tok == vC14Nil {
		return nil
	}
	raw := vDec(tok)
	if len(raw) >= 2 && raw[1] == ':' {
		p := raw[2:]
		switch raw[0] {
		case 's':
			return p
		case 'j':
			return json.RawMessage(p)
		case 'n':
			f, _ := strconv.ParseFloat(p, 64)
			return f
		case 'm':
			return map[string]interface{}{"status": p}
		case 'l':
			return []interface{}{p}
		}
	}
	return raw
}

func vC14ValueToken(v interface{}) string {
	switch x := v.(type) {
	case nil:
		return vC14Nil
	case string:
		return vC14Enc("s:" + x)
	case json.RawMessage:
		return vC14Enc("j:" + string(x))
	case float64:
		return vC14Enc("n:" + strconv.FormatFloat(x, 'g', -1, 64))
	case map[string]interface{}:
		if s, ok := x["status"].(string); ok && len(x) == 1 {
			return vC14Enc("m:" + s)
		}
	case []interface{}:
		if len(x) == 1 {
			if s, ok := x[0].(string); ok {
				return vC14Enc("l:" + s)
			}
		}
	}
	return vC14Enc(fmt.Sprintf("?:%#v", v))
}

func vC14DataString(m map[string]interface{}) string {
	items := make([]string, 0, len(m))
	for k, v := range m {
		items = append(items, vC14Enc(k)+"="+vC14ValueToken(v))
	}
	sort.Strings(items)
	return "{" + strings.Join(items, ",") + "}"
}

type vC14Listener struct {
	id   int
	msgs []string
}

// SendMessage is called with the store mutex held; the message is rendered at
// once (the "initial" message aliases the live map).
func (l *vC14Listener) SendMessage(message *ServerMessage) bool {
	s := "?"
	if message != nil && message.Type == "transient" && message.TransientData != nil {
		td := message.TransientData
		switch td.Type {
		case "set":
			s = "set(" + vC14Enc(td.Key) + "," + vC14ValueToken(td.Value) + "," + vC14ValueToken(td.OldValue) + ")"
		case "remove":
			s = "rm(" + vC14Enc(td.Key) + "," + vC14ValueToken(td.OldValue) + ")"
		case "initial":
			s = "init" + vC14DataString(td.Data)
		default:
			s = "?" + vC14Enc(td.Type)
		}
	}
	l.msgs = append(l.msgs, s)
	return true
}

type vC14World struct {
	td        *TransientData
	listeners map[int]*vC14Listener
}

func (w *vC14World) listener(id int) *vC14Listener {
	l := w.listeners[id]
	if l == nil {
		l = &vC14Listener{id: id}
		w.listeners[id] = l
	}
	return l
}

// observe renders what happened since the previous observation.
func (w *vC14World) observe(ret string) string {
	parts := []string{"r=" + ret}
	ids := make([]int, 0, len(w.listeners))
	for id := range w.listeners {
		ids = append(ids, id)
	}
	sort.Ints(ids)
	w.td.mu.Lock()
	for _, id := range ids {
		l := w.listeners[id]
		if len(l.msgs) > 0 {
			parts = append(parts, fmt.Sprintf("L%d:%s", id, strings.Join(l.msgs, ";")))
			l.msgs = nil
		}
	}
	keys := make([]string, 0, len(w.td.timers))
	for k := range w.td.timers {
		keys = append(keys, vC14Enc(k))
	}
	w.td.mu.Unlock()
	sort.Strings(keys)
	parts = append(parts, "d="+vC14DataString(w.td.GetData()), "t={"+strings.Join(keys, ",")+"}")
	return strings.Join(parts, " ")
}

func vC14Bool(b bool) string {
	if b {
		return "1"
	}
	return "0"
}

func vC14Dur(tok string) time.Duration {
	v, _ := strconv.ParseInt(tok, 10, 64)
	return time.Duration(v)
}

// apply runs one API op (not adv/late) and returns the return-value token.
func (w *vC14World) apply(f []string) (string, bool) {
	td := w.td
	switch {
	case f[0] == "set" && len(f) == 4:
		return vC14Bool(td.SetTTL(vDec(f[1]), vC14Value(f[2]), vC14Dur(f[3]))), true
	case f[0] == "set0" && len(f) == 3:
		return vC14Bool(td.Set(vDec(f[1]), vC14Value(f[2]))), true
	case f[0] == "cas" && len(f) == 5:
		return vC14Bool(td.CompareAndSetTTL(vDec(f[1]), vC14Value(f[2]), vC14Value(f[3]), vC14Dur(f[4]))), true
	case f[0] == "cas0" && len(f) == 4:
		return vC14Bool(td.CompareAndSet(vDec(f[1]), vC14Value(f[2]), vC14Value(f[3]))), true
	case f[0] == "rm" && len(f) == 2:
		return vC14Bool(td.Remove(vDec(f[1]))), true
	case f[0] == "casrm" && len(f) == 3:
		return vC14Bool(td.CompareAndRemove(vDec(f[1]), vC14Value(f[2]))), true
	case f[0] == "add" && len(f) == 2:
		id, err := strconv.Atoi(f[1])
		if err != nil {
			return "", false
		}
		td.AddListener(w.listener(id))
		return "-", true
	case f[0] == "del" && len(f) == 2:
		id, err := strconv.Atoi(f[1])
		if err != nil {
			return "", false
		}
		td.RemoveListener(w.listener(id))
		return "-", true
	case f[0] == "get" && len(f) == 1:
		return "-", true
	}
	return "", false
}

func vC14Exec(t *testing.T, c *vCase) {
	synctest.Test(t, func(t *testing.T) {
		w := &vC14World{td: NewTransientData(), listeners: map[int]*vC14Listener{}}
		for _, line := range c.Ops {
			f := strings.Fields(line)
			out := "bad-op"
			if len(f) > 0 {
				switch {
				case f[0] == "adv" && len(f) == 2:
					if d := vC14Dur(f[1]); d > 0 {
						time.Sleep(d)
					}
					synctest.Wait()
					out = w.observe("-")
				default:
					if r, ok := w.apply(f); ok {
						synctest.Wait()
						out = w.observe(r)
					}
				}
			}
			c.Impl = append(c.Impl, out)
		}
		// let every leftover timer run so that the bubble ends without pending work
		time.Sleep(1000 * time.Hour)
		synctest.Wait()
	})
}

// ---------- generator ----------

var vC14Keys = []string{"a", "b", "callstatus_1"}
var vC14Vals = []string{"s:v0", "s:v1", "j:{\"x\":1}", "n:7"}

const (
	vC14Short = int64(20 * time.Millisecond)
	vC14Long  = int64(500 * time.Millisecond)
)

func vC14Gen(e *vEnv, r *vRand) []vCase {
	var cases []vCase
	n := e.scale(300, 6000)
	maxOps := e.scale(25, 80)
	for i := 0; i < n; i++ {
		rr := r.fork()
		var ops []string
		serial := int64(0)
		nk := 1 + rr.intn(len(vC14Keys))
		nv := 2 + rr.intn(len(vC14Vals)-1)
		key := func() string { return vC14Enc(vC14Keys[rr.intn(nk)]) }
		val := func() string { return vC14Enc(vC14Vals[rr.intn(nv)]) }
		valOrNil := func(p int) string {
			if rr.chance(p, 100) {
				return vC14Nil
			}
			return val()
		}
		// virtual clock of the generator: deadlines requested so far (some of them
		// are superseded later — the interesting ones), to aim the passages of time
		now := int64(0)
		var dues []int64
		ttl := func() int64 {
			serial++
			var d int64
			switch rr.intn(10) {
			case 0, 1, 2:
				return 0
			case 3:
				return -int64(rr.intn(3)) * int64(time.Millisecond)
			case 4, 5, 6, 7:
				d = vC14Short + serial*1000 // unique low-order part: no two deadlines coincide
			default:
				d = vC14Long + serial*1000
			}
			dues = append(dues, now+d)
			return d
		}
		nops := 4 + rr.intn(maxOps)
		for len(ops) < nops {
			switch k := rr.intn(100); {
			case k < 30:
				ops = append(ops, fmt.Sprintf("set %s %s %d", key(), valOrNil(6), ttl()))
			case k < 36:
				ops = append(ops, fmt.Sprintf("set0 %s %s", key(), valOrNil(6)))
			case k < 46:
				ops = append(ops, fmt.Sprintf("cas %s %s %s %d", key(), valOrNil(25), valOrNil(10), ttl()))
			case k < 49:
				ops = append(ops, fmt.Sprintf("cas0 %s %s %s", key(), valOrNil(25), valOrNil(10)))
			case k < 55:
				ops = append(ops, "rm "+key())
			case k < 59:
				ops = append(ops, fmt.Sprintf("casrm %s %s", key(), valOrNil(10)))
			case k < 68:
				ops = append(ops, fmt.Sprintf("add %d", 1+rr.intn(3)))
			case k < 73:
				ops = append(ops, fmt.Sprintf("del %d", 1+rr.intn(3)))
			case k < 75:
				ops = append(ops, "get")
			default:
				var dt int64
				var pending []int64
				for _, d := range dues {
					if d > now {
						pending = append(pending, d)
					}
				}
				switch k := rr.intn(10); {
				case k == 0:
					dt = 0
				case k == 1:
					dt = int64(rr.intn(5)) * int64(time.Millisecond)
				case k < 7 && len(pending) > 0:
					// just before / exactly on / just after a requested deadline
					d := pending[rr.intn(len(pending))]
					dt = d - now + int64(rr.intn(3)-1)
				case k < 8:
					dt = vC14Short + int64(rr.intn(3))*int64(time.Millisecond)
				case k < 9:
					dt = vC14Long + int64(rr.intn(3))*int64(time.Millisecond)
				default:
					dt = int64(rr.intn(600)) * int64(time.Millisecond)
				}
				if dt < 0 {
					dt = 0
				}
				now += dt
				ops = append(ops, fmt.Sprintf("adv %d", dt))
			}
		}
		ops = append(ops, fmt.Sprintf("adv %d", 2*vC14Long), "get")
		cases = append(cases, vCase{Ops: ops})
	}
	return cases
}

func TestVerifC14(t *testing.T) {
	vRun(t, vC14Gen, vC14Exec)
}
