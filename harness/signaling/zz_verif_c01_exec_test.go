package signaling

// C01 harness, part 2: executing a case on a real Hub.

import (
	"context"
	"crypto/hmac"
	"crypto/sha256"
	"encoding/base64"
	"encoding/hex"
	"encoding/json"
	"fmt"
	"net"
	"net/http"
	"runtime"
	"sort"
	"strconv"
	"strings"
	"sync"
	"sync/atomic"
	"testing"
	"testing/synctest"
	"time"
	"unsafe"

	"github.com/dlintw/goconf"
	"github.com/golang-jwt/jwt/v5"
	"github.com/gorilla/mux"
	"github.com/gorilla/websocket"
)

const c01InternalSecret = "the-internal-clients-secret"

type c01Client struct {
	n      int
	conn   *websocket.Conn
	mu     sync.Mutex
	inbox  []string
	closed bool
	done   chan struct{}
}

func (c *c01Client) take() []string {
	c.mu.Lock()
	defer c.mu.Unlock()
	m := c.inbox
	c.inbox = nil
	return m
}

func (c *c01Client) isClosed() bool {
	c.mu.Lock()
	defer c.mu.Unlock()
	return c.closed
}

type c01Run struct {
	tenants   []*c01Tenant
	cfgKV     c01KV
	backendKV []c01KV
	// mode etcd: the storage the hub was created with
	startStorage BackendStorage
	hub          *Hub
	events       AsyncEvents
	hubL         *c01Listener
	backendL     *c01Listener
	hubSrv       *http.Server
	backSrv      *http.Server
	lg           *c01BackendLog
	clients      map[int]*c01Client
	sessions     []string          // public ids in creation order (index+1 = symbol)
	private      map[string]string // public id -> private id
	bySid        map[uint64]string // Hub.sessions key -> public id
	foreign      string
	msgId        int
}

func (r *c01Run) sym(publicId string) int {
	for i, p := range r.sessions {
		if p == publicId {
			return i + 1
		}
	}
	r.sessions = append(r.sessions, publicId)
	return len(r.sessions)
}

func c01B(x bool) string {
	if x {
		return "1"
	}
	return "0"
}

// start builds the hub from the cfg/backend/tenant lines seen so far and returns the
// digest of the backend table the hub actually holds.
func (r *c01Run) start() string {
	config := goconf.NewConfigFile()
	sec := r.cfgKV.b("sec")
	switch r.cfgKV.raw("mode") {
	case "allowall":
		config.AddOption("backend", "allowall", "true")
		config.AddOption("backend", "secret", "compat-secret")
		if r.cfgKV.b("aa.http") {
			config.AddOption("backend", "allowhttp", "true")
		}
		if l := r.cfgKV.raw("aa.limit"); l != "" && l != "0" {
			config.AddOption("backend", "sessionlimit", l)
		}
	case "allowed":
		// the allowed hosts are those of the `backend` lines (one per host), so that a shrunk op list
		// configures the hub and the model alike
		var hosts []string
		for _, b := range r.backendKV {
			hosts = append(hosts, b.s("host"))
		}
		config.AddOption("backend", "allowed", strings.Join(hosts, ", "))
		config.AddOption("backend", "secret", "compat-secret")
		if r.cfgKV.b("aa.http") {
			config.AddOption("backend", "allowhttp", "true")
		}
		if l := r.cfgKV.raw("aa.limit"); l != "" && l != "0" {
			config.AddOption("backend", "sessionlimit", l)
		}
	case "etcd":
		// no backend in the configuration file: they arrive as etcd keys once the hub exists (below)
	default:
		var ids []string
		for _, b := range r.backendKV {
			id := b.s("id")
			ids = append(ids, id)
			config.AddOption(id, "url", b.s("raw"))
			config.AddOption(id, "secret", "secret-"+id)
			if l := b.raw("limit"); l != "" && l != "0" {
				config.AddOption(id, "sessionlimit", l)
			}
		}
		config.AddOption("backend", "backends", strings.Join(ids, ", "))
	}
	config.AddOption("sessions", "hashkey", "12345678901234567890123456789012")
	config.AddOption("sessions", "blockkey", "09876543210987654321098765432109")
	if sec {
		config.AddOption("clients", "internalsecret", c01InternalSecret)
	}
	config.AddOption("geoip", "url", "none")

	events, err := NewAsyncEvents(NatsLoopbackUrl)
	if err != nil {
		panic(err)
	}
	r.events = events
	router := mux.NewRouter()
	hub, err := NewHub(config, events, nil, nil, nil, router, "verif")
	if err != nil {
		panic(err)
	}
	r.hub = hub

	if r.cfgKV.raw("mode") == "etcd" {
		// The real etcd backend storage, fed the way the etcd client feeds a starting server (no etcd server
		// needed): one EtcdKeyUpdated per key, in key order.
		st := &backendStorageEtcd{
			backendStorageCommon: backendStorageCommon{backends: make(map[string][]*Backend)},
			keyInfos:             make(map[string]*BackendInformationEtcd),
		}
		kvs := append([]c01KV{}, r.backendKV...)
		sort.SliceStable(kvs, func(i, j int) bool { return kvs[i].s("id") < kvs[j].s("id") })
		for _, b := range kvs {
			id := b.s("id")
			info := map[string]any{"url": b.s("raw"), "secret": "secret-" + id}
			if l, err := strconv.Atoi(b.raw("limit")); err == nil && l > 0 {
				info["sessionlimit"] = l
			}
			val, err := json.Marshal(info)
			if err != nil {
				panic(err)
			}
			st.EtcdKeyUpdated(nil, id, val, nil)
		}
		r.startStorage = hub.backend.backends.storage
		hub.backend.backends.storage = st
	}

	// the server's own throttler, without real sleeping
	hub.throttler.Close()
	hub.throttler = &memoryThrottler{
		getNow:  time.Now,
		doDelay: func(ctx context.Context, d time.Duration) {},
		clients: make(map[string]map[string][]throttleEntry),
		closer:  NewCloser(),
	}

	r.lg = &c01BackendLog{}
	r.backendL = newC01Listener("203.0.113.1:443")
	r.backSrv = &http.Server{Handler: c01BackendHandler(r.tenants, r.lg)}
	go r.backSrv.Serve(r.backendL)
	dial := func(ctx context.Context, network, addr string) (net.Conn, error) {
		return r.backendL.Dial("203.0.113.9:40000")
	}
	tr := hub.backend.pool.transport
	tr.DialContext = dial
	tr.DialTLSContext = dial
	tr.Proxy = nil

	go hub.Run()
	r.hubL = newC01Listener("203.0.113.2:443")
	r.hubSrv = &http.Server{Handler: router}
	go r.hubSrv.Serve(r.hubL)

	other := NewSessionIdCodec([]byte("abcdefghijklmnopqrstuvwxyzabcdef"), []byte("0123456789abcdef0123456789abcdef"))
	r.foreign, _ = other.EncodePrivate(&SessionIdData{Sid: 1, BackendId: "b1"})

	// digest of the table the hub holds
	var st struct {
		backends      map[string][]*Backend
		allowAll      bool
		compatBackend *Backend
	}
	switch s := hub.backend.backends.storage.(type) {
	case *backendStorageStatic:
		st.backends, st.allowAll, st.compatBackend = s.backends, s.allowAll, s.compatBackend
	case *backendStorageEtcd:
		st.backends = s.backends
	default:
		return "cfg unexpected-storage"
	}
	showB := func(b *Backend) string {
		return fmt.Sprintf("%s|%s|%s|%d", vEnc(b.id), vEnc(b.url), c01B(b.allowHttp), b.sessionLimit)
	}
	aa := "-"
	if st.allowAll && st.compatBackend != nil {
		aa = showB(st.compatBackend)
	}
	out := []string{"cfg", "sec=" + c01B(len(hub.internalClientsSecret) > 0), "aa=" + aa}
	seen := map[string]bool{}
	for _, b := range r.backendKV {
		h := b.s("host")
		if seen[h] {
			continue
		}
		seen[h] = true
		if entries, found := st.backends[h]; found {
			var es []string
			for _, e := range entries {
				es = append(es, showB(e))
			}
			out = append(out, "h:"+vEnc(h)+"="+strings.Join(es, ";"))
		} else {
			out = append(out, "h:"+vEnc(h)+"=<missing>")
		}
	}
	var extra []string
	for h := range st.backends {
		if !seen[h] {
			extra = append(extra, h)
		}
	}
	sort.Strings(extra)
	for _, h := range extra {
		out = append(out, "extra:"+vEnc(h))
	}
	return strings.Join(out, " ")
}

func (r *c01Run) stop() {
	for _, c := range r.clients {
		c.conn.Close()
	}
	synctest.Wait()
	if r.hub != nil {
		r.hub.mu.Lock()
		var ss []Session
		for _, s := range r.hub.sessions {
			ss = append(ss, s)
		}
		r.hub.mu.Unlock()
		for _, s := range ss {
			s.Close()
		}
		if r.startStorage != nil {
			// Hub.Run closes the backend storage on its way out; the stand-alone etcd storage has no client to detach from
			r.hub.backend.backends.storage = r.startStorage
		}
		r.hub.Stop()
		r.hubSrv.Close()
		r.backSrv.Close()
		r.hub.backend.pool.transport.CloseIdleConnections()
		r.events.Close()
	}
	for _, c := range r.clients {
		<-c.done
	}
	synctest.Wait()
}

func (r *c01Run) connect(n int, addr string) string {
	if _, found := r.clients[n]; found || r.hub == nil {
		return "closed"
	}
	d := websocket.Dialer{NetDialContext: func(ctx context.Context, network, a string) (net.Conn, error) {
		return r.hubL.Dial(net.JoinHostPort(addr, strconv.Itoa(4000+n)))
	}}
	hdr := http.Header{}
	hdr.Set("User-Agent", fmt.Sprintf("conn-%d", n))
	conn, _, err := d.Dial("ws://signaling.example/spreed", hdr)
	if err != nil {
		return "dial-error " + vEnc(err.Error())
	}
	c := &c01Client{n: n, conn: conn, done: make(chan struct{})}
	r.clients[n] = c
	go func() {
		defer close(c.done)
		for {
			_, data, err := conn.ReadMessage()
			if err != nil {
				c.mu.Lock()
				c.closed = true
				c.mu.Unlock()
				return
			}
			c.mu.Lock()
			c.inbox = append(c.inbox, string(data))
			c.mu.Unlock()
		}
	}()
	synctest.Wait()
	for _, m := range c.take() {
		var sm ServerMessage
		if json.Unmarshal([]byte(m), &sm) == nil && sm.Type == "welcome" {
			return "welcome"
		}
	}
	return "none"
}

// reply classifies what a connection received since the last op.
func (r *c01Run) reply(c *c01Client) string {
	res := "none"
	for _, m := range c.take() {
		var sm ServerMessage
		if err := json.Unmarshal([]byte(m), &sm); err != nil {
			res = "garbled"
			continue
		}
		switch sm.Type {
		case "hello":
			if sm.Hello == nil {
				res = "garbled"
				continue
			}
			n := r.sym(sm.Hello.SessionId)
			r.private[sm.Hello.SessionId] = sm.Hello.ResumeId
			backend, kind := "?", "?"
			if s := r.hub.GetSessionByPublicId(sm.Hello.SessionId); s != nil {
				backend, kind = s.Backend().Id(), s.ClientType()
			}
			res = fmt.Sprintf("hello %d %s %s %s", n, vEnc(backend), vEnc(kind), vEnc(sm.Hello.UserId))
		case "error":
			code := "?"
			if sm.Error != nil {
				code = sm.Error.Code
			}
			res = "error " + vEnc(code)
		case "bye":
			res = "bye"
		}
	}
	return res
}

func (r *c01Run) digest() string {
	type row struct {
		n int
		s string
	}
	var rows []row
	r.hub.mu.Lock()
	var ss []Session
	for _, s := range r.hub.sessions {
		ss = append(ss, s)
	}
	r.hub.mu.Unlock()
	for _, s := range ss {
		n := r.sym(s.PublicId())
		if d := s.Data(); d != nil {
			r.bySid[d.Sid] = s.PublicId()
		}
		conn := "-"
		if cs, ok := s.(*ClientSession); ok {
			if cl := cs.GetClient(); cl != nil {
				conn = strings.TrimPrefix(cl.UserAgent(), "conn-")
			}
		}
		rows = append(rows, row{n, fmt.Sprintf("%d:%s:%s:%s:%s", n, vEnc(s.Backend().Id()), vEnc(s.ClientType()), vEnc(s.UserId()), conn)})
	}
	sort.Slice(rows, func(i, j int) bool { return rows[i].n < rows[j].n })
	out := "S=-"
	if len(rows) > 0 {
		var xs []string
		for _, x := range rows {
			xs = append(xs, x.s)
		}
		out = "S=" + strings.Join(xs, ",")
	}
	return out + " ; " + r.tables(-1)
}

// tables reports the hub's two connection tables at rest:
//
//	K=<conn>:<session>[!],…  Hub.clients (session id -> connection); `!` = the entry's session is not (or no longer)
//	                         the live session of that id in Hub.sessions, or the connection itself points elsewhere
//	E=<conn>,…               Hub.expectHelloClients (connections that still have to say hello)
//
// `skip` (a connection number) is left out of E (the step that raced on it decides nothing about it).
func (r *c01Run) tables(skip int) string {
	connOf := func(cl HandlerClient) int {
		n, err := strconv.Atoi(strings.TrimPrefix(cl.UserAgent(), "conn-"))
		if err != nil {
			return -1
		}
		return n
	}
	type krow struct {
		conn int
		s    string
	}
	var ks []krow
	var es []int
	type kent struct {
		sid  uint64
		cl   HandlerClient
		live Session
	}
	var ents []kent
	r.hub.mu.Lock()
	for sid, cl := range r.hub.clients {
		ents = append(ents, kent{sid, cl, r.hub.sessions[sid]})
	}
	for cl := range r.hub.expectHelloClients {
		if n := connOf(cl); n != skip {
			es = append(es, n)
		}
	}
	r.hub.mu.Unlock()
	for _, e := range ents {
		mine := e.cl.GetSession()
		pub, bad := "", false
		switch {
		case e.live != nil:
			pub = e.live.PublicId()
			bad = mine != e.live
		case mine != nil:
			pub, bad = mine.PublicId(), true
		default:
			pub, bad = r.bySid[e.sid], true
		}
		row := fmt.Sprintf("%d:%d", connOf(e.cl), r.sym(pub))
		if bad {
			row += "!"
		}
		ks = append(ks, krow{connOf(e.cl), row})
	}
	sort.Slice(ks, func(i, j int) bool { return ks[i].s < ks[j].s })
	sort.Slice(ks, func(i, j int) bool { return ks[i].conn < ks[j].conn })
	sort.Ints(es)
	k, e := "K=-", "E=-"
	if len(ks) > 0 {
		var xs []string
		for _, x := range ks {
			xs = append(xs, x.s)
		}
		k = "K=" + strings.Join(xs, ",")
	}
	if len(es) > 0 {
		var xs []string
		for _, x := range es {
			xs = append(xs, strconv.Itoa(x))
		}
		e = "E=" + strings.Join(xs, ",")
	}
	return k + " ; " + e
}

// ---------- building the hello from its attributes ----------

func c01B64(b []byte) string { return base64.RawURLEncoding.EncodeToString(b) }

// buildToken makes the compact token and the signing input / signature bytes the
// low-level verification oracle uses.
func (r *c01Run) buildToken(kv c01KV) (token string, signingInput string, sig []byte, haveSig bool) {
	hdr := map[string]interface{}{"typ": "JWT"}
	if kv.raw("t.alg") != "-" {
		hdr["alg"] = kv.s("t.alg")
	}
	hb, _ := json.Marshal(hdr)
	claims := map[string]interface{}{}
	now := time.Now().Unix()
	for _, k := range []string{"iat", "nbf", "exp"} {
		if v := kv.raw("t." + k); v != "-" && v != "" {
			off, _ := strconv.ParseInt(v, 10, 64)
			claims[k] = now + off
		}
	}
	if s := kv.s("t.sub"); s != "" {
		claims["sub"] = s
	}
	claims["iss"] = kv.s("u.raw")
	claims["userdata"] = map[string]string{"displayname": "D"}
	mut := kv.raw("x.mut")
	if mut == "iatstr" {
		claims["iat"] = "yesterday"
	}
	cb, _ := json.Marshal(claims)
	h64, c64 := c01B64(hb), c01B64(cb)
	if mut == "hdrjunk" {
		h64 = c01B64([]byte("{not json"))
	}
	if mut == "claimsjunk" {
		c64 = c01B64([]byte("[1,2"))
	}
	signingInput = h64 + "." + c64

	// signature
	var key interface{}
	kname := kv.s("x.key")
	switch {
	case strings.HasPrefix(kname, "pem:"):
		for _, t := range r.tenants {
			if t.Name == kname[4:] {
				if p, ok := t.published(); ok {
					key = []byte(p)
				}
			}
		}
	case kname == "none":
		key = jwt.UnsafeAllowNoneSignatureType
	default:
		if k := c01Keys[kname]; k != nil {
			key = k.priv
		}
	}
	sign := kv.s("x.sign")
	if m := jwt.GetSigningMethod(sign); m != nil && key != nil {
		s, err := m.Sign(signingInput, key)
		if err == nil {
			sig = s
		}
	}
	if sig == nil && sign != "none" {
		sig = []byte("0123456789abcdef0123456789abcdef0123456789abcdef0123456789abcdef")
	}
	switch {
	case strings.HasPrefix(mut, "flip:"):
		i, _ := strconv.Atoi(mut[5:])
		if len(sig) > 0 {
			sig = append([]byte{}, sig...)
			sig[i%len(sig)] ^= 1 << uint(i%8)
		}
	case strings.HasPrefix(mut, "trunc:"):
		k, _ := strconv.Atoi(mut[6:])
		if k > len(sig) {
			k = len(sig)
		}
		sig = sig[:len(sig)-k]
	case mut == "empty":
		sig = nil
	}
	s64 := c01B64(sig)
	haveSig = true
	switch mut {
	case "badb64":
		s64 = s64 + "*"
		haveSig = false
	case "seg2":
		return signingInput, "", nil, false
	case "seg4":
		return signingInput + "." + s64 + ".x", "", nil, false
	}
	return signingInput + "." + s64, signingInput, sig, haveSig
}

// verifyBits: under which tenants' published keys the signature verifies with the
// scheme named in the header — jwt.SigningMethod.Verify only, no hub code.
func (r *c01Run) verifyBits(kv c01KV, signingInput string, sig []byte, haveSig bool) string {
	var ok []string
	if !haveSig || kv.raw("t.alg") == "-" {
		return ""
	}
	m := jwt.GetSigningMethod(kv.s("t.alg"))
	if m == nil {
		return ""
	}
	for _, t := range r.tenants {
		pubStr, has := t.published()
		if !has {
			continue
		}
		var key interface{}
		switch m.(type) {
		case *jwt.SigningMethodHMAC:
			key = []byte(pubStr)
		case *jwt.SigningMethodRSA, *jwt.SigningMethodRSAPSS:
			if k := c01Keys[t.Kid]; k != nil && k.fam == "rsa" && t.keyFam() == "rsa" {
				key = k.pub
			}
		case *jwt.SigningMethodECDSA:
			if k := c01Keys[t.Kid]; k != nil && k.fam == "ecdsa" && t.keyFam() == "ecdsa" {
				key = k.pub
			}
		case *jwt.SigningMethodEd25519:
			if k := c01Keys[t.Kid]; k != nil && k.fam == "ed25519" && t.keyFam() == "ed25519" {
				key = k.pub
			}
		default:
			key = jwt.UnsafeAllowNoneSignatureType
		}
		if key == nil {
			continue
		}
		if err := m.Verify(signingInput, sig, key); err == nil {
			ok = append(ok, vEnc(t.Name))
		}
	}
	return strings.Join(ok, ",")
}

func (r *c01Run) resumeId(spec string) string {
	switch {
	case spec == "foreign":
		return r.foreign
	case strings.HasPrefix(spec, "junk:"):
		return vDec(spec[5:])
	}
	parts := strings.Split(spec, ":")
	n := 0
	if len(parts) >= 2 {
		n, _ = strconv.Atoi(parts[1])
	}
	if n < 1 || n > len(r.sessions) {
		return "unknown-session-" + spec
	}
	pub := r.sessions[n-1]
	priv := r.private[pub]
	switch parts[0] {
	case "priv":
		return priv
	case "pub":
		return pub
	case "mut":
		k := 0
		if len(parts) >= 3 {
			k, _ = strconv.Atoi(parts[2])
		}
		b := []byte(priv)
		if len(b) == 0 {
			return "x"
		}
		i := k % len(b)
		if b[i] == 'A' {
			b[i] = 'B'
		} else {
			b[i] = 'A'
		}
		return string(b)
	}
	return "unknown-" + spec
}

func (r *c01Run) hello(kv c01KV) (string, string) {
	n, _ := strconv.Atoi(kv.raw("c"))
	c := r.clients[n]
	if c == nil || c.isClosed() {
		return "closed", ""
	}
	hello := map[string]interface{}{"version": kv.s("ver")}
	var oracle []string
	if rid := kv.raw("rid"); rid != "-" && rid != "" {
		id := r.resumeId(rid)
		hello["resumeid"] = id
		_, err := r.hub.cookie.DecodePrivate(id)
		oracle = append(oracle, "dec="+c01B(err == nil && id != ""))
	}
	if kv.b("auth") {
		auth := map[string]interface{}{}
		if t := kv.s("type"); t != "" {
			auth["type"] = t
		}
		if kv.raw("x.url") != "omit" {
			auth["url"] = kv.s("u.raw")
		}
		if kv.b("params") {
			switch kv.raw("x.params") {
			case "v1":
				auth["params"] = map[string]string{"ticket": kv.s("x.ticket"), "userid": kv.s("x.userid"), "mode": kv.s("x.mode")}
			case "tok":
				tok, input, sig, have := r.buildToken(kv)
				auth["params"] = map[string]string{"token": tok}
				oracle = append(oracle, "vf="+r.verifyBits(kv, input, sig, have))
			case "notoken":
				auth["params"] = map[string]string{"foo": "bar"}
			case "null":
				auth["params"] = nil
			case "str":
				auth["params"] = "just-a-string"
			case "internal":
				rnd := kv.s("rnd")
				mac := func(secret, data string) string {
					m := hmac.New(sha256.New, []byte(secret))
					m.Write([]byte(data))
					return hex.EncodeToString(m.Sum(nil))
				}
				var tok string
				switch kv.raw("x.tok") {
				case "good":
					tok = mac(c01InternalSecret, rnd)
				case "wrongsecret":
					tok = mac("another-secret", rnd)
				case "emptysecret":
					tok = mac("", rnd)
				case "trunc":
					tok = mac(c01InternalSecret, rnd)
					tok = tok[:len(tok)-2]
				case "upper":
					tok = strings.ToUpper(mac(c01InternalSecret, rnd))
				case "otherrandom":
					tok = mac(c01InternalSecret, rnd+"x")
				case "empty":
					tok = ""
				}
				auth["params"] = map[string]string{"random": rnd, "token": tok, "backend": kv.s("b.raw")}
				// independent of the code under test: crypto/hmac with the configured secret
				secret := ""
				if r.cfgKV.b("sec") {
					secret = c01InternalSecret
				}
				oracle = append(oracle, "tokok="+c01B(tok == mac(secret, rnd)))
			}
		}
		hello["auth"] = auth
	}
	r.msgId++
	msg := map[string]interface{}{"id": strconv.Itoa(r.msgId), "type": "hello", "hello": hello}
	data, _ := json.Marshal(msg)
	r.lg.take()
	if err := c.conn.WriteMessage(websocket.TextMessage, data); err != nil {
		return "closed", ""
	}
	synctest.Wait()
	res := r.reply(c)
	// cross-check the environment: the server that answered is the one the generator predicted
	for _, e := range r.lg.take() {
		f := strings.Fields(e)
		if len(f) >= 2 && (f[0] == "caps" || f[0] == "auth") && f[1] != kv.s("u.srv") {
			res += " ENV-MISMATCH:" + vEnc(e)
		}
		if len(f) >= 3 && f[0] == "auth" && f[2] != kv.raw("v1") {
			res += " ENV-MISMATCH:" + vEnc(e)
		}
		if f[0] == "any" || f[0] == "post" {
			if kv.s("u.srv") != "" {
				res += " ENV-MISMATCH:" + vEnc(e)
			}
		}
	}
	return res, strings.Join(oracle, " ")
}

var c01Messages = []struct{ ty, shape, text string }{
	{"bye", "valid", `{"type":"bye"}`},
	{"bye", "valid", `{"id":"77","type":"bye","bye":{}}`},
	{"room", "valid", `{"type":"room","room":{"roomid":"room1","sessionid":"nc1"}}`},
	{"room", "valid", `{"type":"room","room":{"roomid":""}}`},
	{"message", "valid", `{"type":"message","message":{"recipient":{"type":"room"},"data":{"hi":1}}}`},
	{"message", "valid", `{"type":"message","message":{"recipient":{"type":"session","sessionid":"abc"},"data":{"type":"offer"}}}`},
	{"control", "valid", `{"type":"control","control":{"recipient":{"type":"user","userid":"u1"},"data":{"mute":1}}}`},
	{"internal", "valid", `{"type":"internal","internal":{"type":"incall","incall":{"incall":1}}}`},
	{"internal", "valid", `{"type":"internal","internal":{"type":"addsession","addsession":{"sessionid":"v1","roomid":"room1"}}}`},
	{"transient", "valid", `{"type":"transient","transient":{"type":"set","key":"k","value":1}}`},
	{"foo", "valid", `{"type":"foo"}`},
	{"welcome", "valid", `{"type":"welcome","hello":{"version":"1.0"}}`},
	{"Hello", "valid", `{"type":"Hello","hello":{"version":"1.0","resumeid":"x"}}`},
	{"", "invalid", `{}`},
	{"", "invalid", `{"type":""}`},
	{"", "invalid", `{"hello":{"version":"1.0","resumeid":"x"}}`},
	{"hello", "invalid", `{"type":"hello"}`},
	{"hello", "invalid", `{"type":"hello","hello":null}`},
	{"room", "invalid", `{"type":"room"}`},
	{"message", "invalid", `{"type":"message"}`},
	{"message", "invalid", `{"type":"message","message":{}}`},
	{"message", "invalid", `{"type":"message","message":{"recipient":{"type":"session"},"data":{}}}`},
	{"control", "invalid", `{"type":"control"}`},
	{"control", "invalid", `{"type":"control","control":{"recipient":{"type":"nobody"},"data":1}}`},
	{"internal", "invalid", `{"type":"internal"}`},
	{"internal", "invalid", `{"type":"internal","internal":{"type":"addsession"}}`},
	{"transient", "invalid", `{"type":"transient"}`},
	{"transient", "invalid", `{"type":"transient","transient":{"type":"set"}}`},
	{"?", "undecodable", `not json at all`},
	{"?", "undecodable", `[]`},
	{"?", "undecodable", `"hello"`},
	{"?", "undecodable", `{"type":5}`},
	{"?", "undecodable", `{"type":"hello","hello":"1.0"}`},
	{"?", "undecodable", `{"type":"room","room":[1]}`},
	{"?", "undecodable", `{"type":"hello","hello":{"version":"1.0","auth":{"url":7}}}`},
	{"?", "undecodable", ``},
	{"?", "undecodable", `{"type":"bye"`},
	{"?", "undecodable", "BINARY"},
}

func (r *c01Run) attached(n int) bool {
	for _, f := range strings.Split(strings.TrimPrefix(strings.SplitN(r.digest(), " ; ", 2)[0], "S="), ",") {
		p := strings.Split(f, ":")
		if len(p) == 5 && p[4] == strconv.Itoa(n) {
			return true
		}
	}
	return false
}

func (r *c01Run) msg(kv c01KV) string {
	n, _ := strconv.Atoi(kv.raw("c"))
	c := r.clients[n]
	if c == nil || c.isClosed() {
		return "closed"
	}
	if r.attached(n) {
		return "none" // authenticated connection: outside C01, not sent
	}
	i, _ := strconv.Atoi(kv.raw("i"))
	if i < 0 || i >= len(c01Messages) {
		return "bad-op"
	}
	m := c01Messages[i]
	if _, has := kv["raw"]; has {
		m.text = kv.s("raw")
	}
	var err error
	if m.text == "BINARY" {
		err = c.conn.WriteMessage(websocket.BinaryMessage, []byte{0, 1, 2, 3})
	} else {
		err = c.conn.WriteMessage(websocket.TextMessage, []byte(m.text))
	}
	if err != nil {
		return "closed"
	}
	synctest.Wait()
	return r.reply(c)
}

func (r *c01Run) bye(kv c01KV) string {
	n, _ := strconv.Atoi(kv.raw("c"))
	c := r.clients[n]
	if c == nil || c.isClosed() {
		return "closed"
	}
	if err := c.conn.WriteMessage(websocket.TextMessage, []byte(`{"id":"b","type":"bye","bye":{}}`)); err != nil {
		return "closed"
	}
	synctest.Wait()
	return r.reply(c)
}

func (r *c01Run) disconnect(kv c01KV) string {
	n, _ := strconv.Atoi(kv.raw("c"))
	c := r.clients[n]
	if c == nil || c.isClosed() {
		return "closed"
	}
	c.conn.Close()
	synctest.Wait()
	<-c.done
	synctest.Wait()
	return "done"
}

// ---------- a resume racing with the end of the session ----------

// c01Waiting: goroutines queued on a sync.RWMutex that is held for writing — writers asleep on the inner
// mutex (state >> mutexWaiterShift) plus readers that announced themselves (readerCount + rwmutexMaxReaders).
// Layout of go1.26: w{state int32; sema uint32}; writerSem, readerSem uint32; readerCount, readerWait int32.
func c01Waiting(mu *sync.RWMutex) int {
	base := unsafe.Pointer(mu)
	writers := atomic.LoadInt32((*int32)(base)) >> 3
	readers := atomic.LoadInt32((*int32)(unsafe.Add(base, 16)))
	if readers < 0 {
		readers += 1 << 30
	}
	return int(writers) + int(readers)
}

func c01SpinUntil(cond func() bool) bool {
	// no sleeping: the clock of the bubble is frozen and a goroutine queued on a mutex is not durably blocked
	for i := 0; i < 3000000; i++ {
		if cond() {
			return true
		}
		runtime.Gosched()
	}
	return false
}

// replies lists what a connection received since the last op, in order.
func (r *c01Run) replies(c *c01Client) string {
	var out []string
	for _, m := range c.take() {
		var sm ServerMessage
		if err := json.Unmarshal([]byte(m), &sm); err != nil {
			out = append(out, "garbled")
			continue
		}
		switch sm.Type {
		case "hello":
			if sm.Hello == nil {
				out = append(out, "garbled")
				continue
			}
			r.private[sm.Hello.SessionId] = sm.Hello.ResumeId
			out = append(out, fmt.Sprintf("hello:%d", r.sym(sm.Hello.SessionId)))
		case "error":
			code := "?"
			if sm.Error != nil {
				code = sm.Error.Code
			}
			out = append(out, "error:"+vEnc(code))
		default:
			out = append(out, vEnc(sm.Type))
		}
	}
	if len(out) == 0 {
		return "none"
	}
	return strings.Join(out, "+")
}

// rrace c=<new connection> rid=priv:<k> end=<bye|expire> o=<connection of session k|-> first=<resume|end|free>
//
// Connection c sends a hello with the resume id of session k while the session ends (`bye` on the connection
// that has it, or Session.Close() as the expiry / a kick does).  With first=resume|end the harness holds Hub.mu
// for writing until both are queued on it in that order (read from the mutex itself), then lets go; `free`
// just issues both at once.  Whatever order the hub takes them in, at rest the tables must be those of "the
// session has ended" — in particular no entry of Hub.clients for a session that is not in Hub.sessions — and
// the reply to c one of: hello k (it was attached before the end), no_such_session (after), nothing.
func (r *c01Run) rrace(kv c01KV) (string, string) {
	n, _ := strconv.Atoi(kv.raw("c"))
	c := r.clients[n]
	rid := kv.raw("rid")
	var sess *ClientSession
	k := 0
	if strings.HasPrefix(rid, "priv:") {
		k, _ = strconv.Atoi(rid[5:])
	}
	if k >= 1 && k <= len(r.sessions) {
		sess, _ = r.hub.GetSessionByPublicId(r.sessions[k-1]).(*ClientSession)
	}
	if c == nil || c.isClosed() || r.attached(n) || sess == nil {
		return "skip", ""
	}
	var old *c01Client
	holder := -1
	if cl := sess.GetClient(); cl != nil {
		holder, _ = strconv.Atoi(strings.TrimPrefix(cl.UserAgent(), "conn-"))
	}
	switch kv.raw("end") {
	case "bye":
		o, _ := strconv.Atoi(kv.raw("o"))
		old = r.clients[o]
		if old == nil || old.isClosed() || holder != o || o == n {
			return "skip", ""
		}
	case "expire":
		if holder != -1 {
			return "skip", ""
		}
	default:
		return "bad-op", ""
	}
	id := r.private[r.sessions[k-1]]
	_, err := r.hub.cookie.DecodePrivate(id)
	oracle := "dec=" + c01B(err == nil && id != "")

	r.msgId++
	data, _ := json.Marshal(map[string]interface{}{"id": strconv.Itoa(r.msgId), "type": "hello",
		"hello": map[string]interface{}{"version": "1.0", "resumeid": id}})
	resume := func() { c.conn.WriteMessage(websocket.TextMessage, data) } // nolint
	var wg sync.WaitGroup
	end := func() {
		if old != nil {
			old.conn.WriteMessage(websocket.TextMessage, []byte(`{"id":"b","type":"bye","bye":{}}`)) // nolint
			return
		}
		wg.Add(1)
		go func() {
			defer wg.Done()
			sess.Close()
		}()
	}
	mu := &r.hub.mu
	queued := true
	switch kv.raw("first") {
	case "resume", "end":
		mu.Lock()
		one, two := resume, end
		if kv.raw("first") == "end" {
			one, two = end, resume
		}
		one()
		ok1 := c01SpinUntil(func() bool { return c01Waiting(mu) >= 1 })
		two()
		ok2 := c01SpinUntil(func() bool { return c01Waiting(mu) >= 2 })
		mu.Unlock()
		queued = ok1 && ok2 // a throttled resume, for one, never comes to the hub's mutex
	default:
		wg.Add(1)
		go func() {
			defer wg.Done()
			resume()
		}()
		end()
	}
	wg.Wait()
	synctest.Wait()
	if old != nil {
		// the connection that said bye is closed by its owner, whatever the server did with it
		old.conn.Close()
		synctest.Wait()
		<-old.done
		synctest.Wait()
	}
	return r.replies(c), oracle + " queued=" + c01B(queued)
}

func vC01Exec(t *testing.T, c *vCase) {
	c01InitKeys()
	synctest.Test(t, func(t *testing.T) {
		r := &c01Run{clients: map[int]*c01Client{}, private: map[string]string{}, bySid: map[uint64]string{}, cfgKV: c01KV{}}
		defer r.stop()
		t0 := time.Now()
		for _, line := range c.Ops {
			f := strings.Fields(line)
			if len(f) == 0 {
				c.Impl = append(c.Impl, "bad-op")
				continue
			}
			kv := c01ParseKV(f[1:])
			out := "bad-op"
			switch f[0] {
			case "cfg", "backend", "tenant":
				if r.hub != nil {
					break
				}
				out = "ok"
				if f[0] == "cfg" {
					r.cfgKV = kv
					break
				}
				if f[0] == "backend" {
					r.backendKV = append(r.backendKV, kv)
					break
				}
				r.tenants = append(r.tenants, &c01Tenant{Name: kv.s("name"), Hosts: strings.Split(kv.s("hosts"), ","), Prefix: kv.s("prefix"),
					Kid: kv.s("kid"), Kfmt: kv.raw("kfmt"), Fed: kv.b("fed"), V3: kv.b("v3")})
				out = "ok"
			case "start":
				if r.hub == nil {
					out = r.start()
				}
			default:
				if r.hub == nil {
					break
				}
				oracle := ""
				skipE := -1
				switch f[0] {
				case "connect":
					n, _ := strconv.Atoi(kv.raw("c"))
					out = r.connect(n, kv.s("addr"))
				case "disconnect":
					out = r.disconnect(kv)
				case "hello":
					out, oracle = r.hello(kv)
				case "msg":
					out = r.msg(kv)
				case "bye":
					out = r.bye(kv)
				case "rrace":
					out, oracle = r.rrace(kv)
					if out != "skip" && out != "bad-op" {
						skipE, _ = strconv.Atoi(kv.raw("c"))
					}
				default:
					out = "bad-op"
				}
				if out != "bad-op" {
					// a connection the server closed is closed for the following ops
					synctest.Wait()
					if !time.Now().Equal(t0) {
						// the case is meant to run at one instant of the virtual clock
						out += " CLOCK-MOVED"
					}
					d := r.digest()
					if skipE >= 0 {
						d = strings.SplitN(d, " ; ", 2)[0] + " ; " + r.tables(skipE)
					}
					out = out + " ; " + d
					if oracle != "" {
						out += " || " + oracle
					}
				}
			}
			c.Impl = append(c.Impl, out)
		}
	})
}

func TestVerifC01(t *testing.T) {
	vRun(t, vC01Gen, vC01Exec)
}
