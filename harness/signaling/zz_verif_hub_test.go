package signaling

// Shared harness of the hub properties (C03–C07, C19): executes op histories
// (protocol in lean/SigModel/Driver/HubCommon.lean) on a real Hub with real
// websocket clients, a fake Nextcloud backend and the loopback event bus, and
// reports per step the messages every connection received plus a digest of the
// hub's tables.

import (
	"bytes"
	"context"
	"encoding/base64"
	"encoding/json"
	"fmt"
	"io"
	"net/http"
	"net/http/httptest"
	"os"
	"sort"
	"strconv"
	"strings"
	"sync"
	"sync/atomic"
	"testing"
	"time"

	"github.com/dlintw/goconf"
	"github.com/gorilla/mux"
	"github.com/gorilla/websocket"
)

const vHubInternalSecret = "verif-internal-secret"

type vNoThrottle struct{}

func (vNoThrottle) Close() {}
func (vNoThrottle) CheckBruteforce(ctx context.Context, client string, action string) (ThrottleFunc, error) {
	return func(context.Context) {}, nil
}

type vConn struct {
	id     int
	ws     *websocket.Conn
	mu     sync.Mutex
	msgs   []*ServerMessage
	closed bool
}

type vRoomReply struct {
	kind     string // ok | err | fail
	code     string
	perms    []string
	hasPerms bool
	sessUser string
}

type vHub struct {
	t        *testing.T
	hub      *Hub
	server   *httptest.Server
	secrets  []string
	conns    map[int]*vConn
	activity atomic.Int64

	mu        sync.Mutex
	symOf     map[string]int // public id -> symbol
	pubOf     map[int]string
	privOf    map[int]string
	nextSym   int
	roomReply *vRoomReply
	sessionOk bool
	msgId     int
	clientIds map[*Client]int
	// "remove" requests for virtual sessions the fake backend received in the current step: (room, public id)
	told [][2]string
	// barrier of a concurrent step: the fake backend answers the auth / room requests of the racing
	// sub-ops only once all of them have arrived, so that their registrations / joins really overlap
	barN    int
	barSeen int
	barCh   chan struct{}
	// a room join request whose answer is held back (joinrace)
	roomHold    chan struct{}
	roomArrived chan struct{}
	// the same for a virtual session "add" request (vaddrace)
	addHold    chan struct{}
	addArrived chan struct{}
	raceDelayMs int
}

// barrier holds a backend request of a concurrent step until all its competitors have arrived.
func (h *vHub) barrier() {
	h.mu.Lock()
	if h.barN <= 1 || h.barCh == nil {
		h.mu.Unlock()
		return
	}
	ch := h.barCh
	h.barSeen++
	if h.barSeen >= h.barN {
		close(ch)
		h.barCh = nil
		h.mu.Unlock()
		return
	}
	h.mu.Unlock()
	select {
	case <-ch:
	case <-time.After(500 * time.Millisecond):
	}
}

func vHubBackendUrl(h *vHub, b int) string { return fmt.Sprintf("%s/b%d", h.server.URL, b) }

func newVHub(t *testing.T, nBackends int) *vHub {
	h := &vHub{t: t, clientIds: map[*Client]int{}, conns: map[int]*vConn{}, symOf: map[string]int{}, pubOf: map[int]string{}, privOf: map[int]string{}, nextSym: 1, sessionOk: true, raceDelayMs: 60}
	r := mux.NewRouter()
	h.server = httptest.NewServer(r)
	config := goconf.NewConfigFile()
	var ids []string
	for b := 0; b < nBackends; b++ {
		id := fmt.Sprintf("b%d", b)
		ids = append(ids, id)
		secret := fmt.Sprintf("secret-%d", b)
		h.secrets = append(h.secrets, secret)
		config.AddOption(id, "url", vHubBackendUrl(h, b))
		config.AddOption(id, "secret", secret)
		prefix := "/" + id
		bb := b
		handler := func(w http.ResponseWriter, req *http.Request) { h.backendHandler(bb, w, req) }
		r.HandleFunc(prefix, handler)
		r.HandleFunc(prefix+"/ocs/v2.php/apps/spreed/api/v1/signaling/backend", handler)
		r.HandleFunc(prefix+"/ocs/v2.php/cloud/capabilities", h.capabilitiesHandler)
	}
	config.AddOption("backend", "backends", strings.Join(ids, ", "))
	config.AddOption("backend", "allowhttp", "true")
	config.AddOption("sessions", "hashkey", "12345678901234567890123456789012")
	config.AddOption("sessions", "blockkey", "09876543210987654321098765432109")
	config.AddOption("clients", "internalsecret", vHubInternalSecret)
	config.AddOption("geoip", "url", "none")
	nc, err := NewLoopbackNatsClient()
	if err != nil {
		t.Fatal(err)
	}
	events, err := NewAsyncEventsNats(nc)
	if err != nil {
		t.Fatal(err)
	}
	hub, err := NewHub(config, events, nil, nil, nil, r, "no-version")
	if err != nil {
		t.Fatal(err)
	}
	hub.throttler.Close()
	hub.throttler = vNoThrottle{}
	bs, err := NewBackendServer(config, hub, "no-version")
	if err != nil {
		t.Fatal(err)
	}
	if err := bs.Start(r); err != nil {
		t.Fatal(err)
	}
	go hub.Run()
	h.hub = hub
	return h
}

func (h *vHub) close() {
	for _, c := range h.conns {
		c.ws.Close()
	}
	h.hub.Stop()
	h.server.CloseClientConnections()
	h.server.Close()
}

func (h *vHub) capabilitiesHandler(w http.ResponseWriter, req *http.Request) {
	spreed, _ := json.Marshal(map[string]interface{}{"features": []string{"foo"}, "config": map[string]interface{}{"signaling": map[string]interface{}{}}})
	data, _ := json.Marshal(&CapabilitiesResponse{Version: CapabilitiesVersion{Major: 20}, Capabilities: map[string]json.RawMessage{"spreed": spreed}})
	ocs, _ := json.Marshal(&OcsResponse{Ocs: &OcsBody{Meta: OcsMeta{Status: "ok", StatusCode: 200, Message: "OK"}, Data: data}})
	w.Header().Add("Content-Type", "application/json")
	w.Write(ocs) // nolint
}

func (h *vHub) backendHandler(b int, w http.ResponseWriter, req *http.Request) {
	h.activity.Add(1)
	defer h.activity.Add(1)
	body, _ := io.ReadAll(req.Body)
	var request BackendClientRequest
	if err := json.Unmarshal(body, &request); err != nil {
		http.Error(w, "bad", http.StatusBadRequest)
		return
	}
	var response *BackendClientResponse
	switch request.Type {
	case "auth":
		h.barrier()
		var params struct {
			UserId string `json:"userid"`
		}
		json.Unmarshal(request.Auth.Params, &params) // nolint
		response = &BackendClientResponse{Type: "auth", Auth: &BackendClientAuthResponse{Version: BackendVersion, UserId: params.UserId}}
	case "room":
		if request.Room.Action == "leave" {
			response = &BackendClientResponse{Type: "room", Room: &BackendClientRoomResponse{Version: BackendVersion, RoomId: request.Room.RoomId}}
			break
		}
		h.barrier()
		h.mu.Lock()
		reply := h.roomReply
		h.roomReply = nil
		hold, arrived := h.roomHold, h.roomArrived
		h.mu.Unlock()
		if hold != nil {
			select {
			case arrived <- struct{}{}:
			default:
			}
			select {
			case <-hold:
			case <-time.After(5 * time.Second):
			}
		}
		if reply == nil {
			reply = &vRoomReply{kind: "ok"}
		}
		switch reply.kind {
		case "fail":
			http.Error(w, "backend down", http.StatusInternalServerError)
			return
		case "err":
			response = &BackendClientResponse{Type: "error", Error: NewError(reply.code, "denied")}
		default:
			rr := &BackendClientRoomResponse{Version: BackendVersion, RoomId: request.Room.RoomId}
			if reply.hasPerms {
				perms := make([]Permission, 0, len(reply.perms))
				for _, p := range reply.perms {
					perms = append(perms, Permission(p))
				}
				rr.Permissions = &perms
			}
			if reply.sessUser != "" {
				rr.Session, _ = json.Marshal(map[string]string{"userid": reply.sessUser})
			}
			response = &BackendClientResponse{Type: "room", Room: rr}
		}
	case "session":
		h.mu.Lock()
		ok := h.sessionOk
		ahold, aarrived := h.addHold, h.addArrived
		h.mu.Unlock()
		if ahold != nil && request.Session != nil && request.Session.Action == "add" {
			select {
			case aarrived <- struct{}{}:
			default:
			}
			select {
			case <-ahold:
			case <-time.After(5 * time.Second):
			}
		}
		if !ok && request.Session != nil && request.Session.Action == "add" {
			http.Error(w, "backend down", http.StatusInternalServerError)
			return
		}
		if request.Session != nil && request.Session.Action == "remove" {
			h.mu.Lock()
			h.told = append(h.told, [2]string{request.Session.RoomId, string(request.Session.SessionId)})
			h.mu.Unlock()
		}
		response = &BackendClientResponse{Type: "session", Session: &BackendClientSessionResponse{Version: BackendVersion, RoomId: request.Session.RoomId}}
	default:
		response = &BackendClientResponse{Type: request.Type}
		if request.Type == "ping" {
			response.Ping = &BackendClientRingResponse{Version: BackendVersion, RoomId: request.Ping.RoomId}
		}
	}
	data, _ := json.Marshal(response)
	if req.Header.Get("OCS-APIRequest") != "" {
		data, _ = json.Marshal(&OcsResponse{Ocs: &OcsBody{Meta: OcsMeta{Status: "ok", StatusCode: 200, Message: "OK"}, Data: data}})
	}
	w.Header().Set("Content-Type", "application/json")
	w.Write(data) // nolint
}

// ---------- connections ----------

func (h *vHub) connect(id int) {
	if c, ok := h.conns[id]; ok && !c.isClosed() {
		return
	}
	u := "ws" + strings.TrimPrefix(h.server.URL, "http") + "/spreed"
	ws, _, err := websocket.DefaultDialer.Dial(u, nil)
	if err != nil {
		h.t.Fatalf("dial: %v", err)
	}
	c := &vConn{id: id, ws: ws}
	h.conns[id] = c
	go func() {
		for {
			_, data, err := ws.ReadMessage()
			if err != nil {
				c.mu.Lock()
				c.closed = true
				c.mu.Unlock()
				h.activity.Add(1)
				return
			}
			var m ServerMessage
			if err := json.Unmarshal(data, &m); err == nil {
				c.mu.Lock()
				c.msgs = append(c.msgs, &m)
				c.mu.Unlock()
			}
			h.activity.Add(1)
		}
	}()
}

func (c *vConn) isClosed() bool {
	c.mu.Lock()
	defer c.mu.Unlock()
	return c.closed
}

func (c *vConn) take() []*ServerMessage {
	c.mu.Lock()
	defer c.mu.Unlock()
	m := c.msgs
	c.msgs = nil
	return m
}

func (h *vHub) send(conn int, msg interface{}) {
	c := h.conns[conn]
	if c == nil || c.isClosed() {
		return
	}
	data, _ := json.Marshal(msg)
	c.mu.Lock()
	c.ws.WriteMessage(websocket.TextMessage, data) // nolint
	c.mu.Unlock()
	h.activity.Add(1)
}

// waitReply waits until a message answering request `id` arrived on the connection
// (or the connection was closed); replies may need a backend round trip.
func (h *vHub) waitReply(conn int, id string) {
	c := h.conns[conn]
	if c == nil {
		return
	}
	deadline := time.Now().Add(5 * time.Second)
	for time.Now().Before(deadline) {
		c.mu.Lock()
		done := c.closed
		for _, m := range c.msgs {
			if m.Id == id {
				done = true
			}
		}
		c.mu.Unlock()
		if done {
			return
		}
		time.Sleep(time.Millisecond)
	}
}

// busIdle reports whether the loopback bus has nothing queued.
func (h *vHub) busIdle() bool {
	ev, ok := h.hub.events.(*asyncEventsNats)
	if !ok {
		return true
	}
	if lc, ok := ev.client.(*LoopbackNatsClient); ok {
		lc.mu.Lock()
		n := lc.incoming.Len()
		lc.mu.Unlock()
		if n > 0 {
			return false
		}
	}
	return len(h.hub.roomUpdated) == 0 && len(h.hub.roomDeleted) == 0 && len(h.hub.roomInCall) == 0 && len(h.hub.roomParticipants) == 0
}

// settle waits until nothing has happened for a while.
func (h *vHub) settle() {
	idle := vHubIdle()
	deadline := time.Now().Add(5 * time.Second)
	last := h.activity.Load()
	quietSince := time.Now()
	for time.Now().Before(deadline) {
		time.Sleep(2 * time.Millisecond)
		cur := h.activity.Load()
		if cur != last || !h.busIdle() {
			last = cur
			quietSince = time.Now()
			continue
		}
		if time.Since(quietSince) >= idle {
			return
		}
	}
}

var vHubIdleOnce sync.Once
var vHubIdleDur time.Duration

func vHubIdle() time.Duration {
	vHubIdleOnce.Do(func() {
		vHubIdleDur = 40 * time.Millisecond
		if s := strings.TrimSpace(getenvDefault("VERIF_IDLE_MS", "")); s != "" {
			if v, err := strconv.Atoi(s); err == nil && v > 0 {
				vHubIdleDur = time.Duration(v) * time.Millisecond
			}
		}
	})
	return vHubIdleDur
}

// ---------- symbols ----------

func (h *vHub) sym(pub string) string {
	h.mu.Lock()
	defer h.mu.Unlock()
	if s, ok := h.symOf[pub]; ok {
		return fmt.Sprintf("s%d", s)
	}
	return "s?" + vEnc(pub)
}

func (h *vHub) learn(pub, priv string) {
	h.mu.Lock()
	defer h.mu.Unlock()
	if _, ok := h.symOf[pub]; ok {
		if priv != "" {
			h.privOf[h.symOf[pub]] = priv
		}
		return
	}
	s := h.nextSym
	h.nextSym++
	h.symOf[pub] = s
	h.pubOf[s] = pub
	if priv != "" {
		h.privOf[s] = priv
	}
}

func (h *vHub) learnFromHub() {
	h.hub.mu.RLock()
	type ent struct {
		sid uint64
		pub string
		prv string
	}
	var es []ent
	for sid, s := range h.hub.sessions {
		es = append(es, ent{sid, s.PublicId(), s.PrivateId()})
	}
	h.hub.mu.RUnlock()
	sort.Slice(es, func(i, j int) bool { return es[i].sid < es[j].sid })
	for _, e := range es {
		h.learn(e.pub, e.prv)
	}
}

func (h *vHub) pub(tok string) string {
	if !strings.HasPrefix(tok, "s") {
		return "not-a-valid-session-id"
	}
	n, err := strconv.Atoi(tok[1:])
	if err != nil {
		return "not-a-valid-session-id"
	}
	h.mu.Lock()
	defer h.mu.Unlock()
	if p, ok := h.pubOf[n]; ok {
		return p
	}
	return "not-a-valid-session-id"
}

// rsid maps the model's room-session ids to what travels on the wire: "pub:sN" is the
// public id of session N (the server's own fallback), anything else is literal.
func (h *vHub) rsTok(rs string) string {
	h.mu.Lock()
	defer h.mu.Unlock()
	if s, ok := h.symOf[rs]; ok {
		return vEnc(fmt.Sprintf("pub:%d", s))
	}
	return vEnc(rs)
}

// connSym names the harness connection behind a server-side client.
func (h *vHub) connSym(c HandlerClient) string {
	cl, ok := c.(*Client)
	if !ok || cl == nil {
		return "-"
	}
	cl.mu.Lock()
	addr := ""
	if cl.conn != nil {
		addr = cl.conn.RemoteAddr().String()
	}
	cl.mu.Unlock()
	h.mu.Lock()
	defer h.mu.Unlock()
	if id, ok := h.clientIds[cl]; ok {
		return fmt.Sprintf("c%d", id)
	}
	if addr == "" {
		return "c?closed"
	}
	for id, vc := range h.conns {
		if vc.ws.LocalAddr().String() == addr {
			h.clientIds[cl] = id
			return fmt.Sprintf("c%d", id)
		}
	}
	return "c?" + vEnc(addr)
}

func getenvDefault(k, d string) string {
	if v := os.Getenv(k); v != "" {
		return v
	}
	return d
}

// vSplitSubject decodes "<prefix>.<base64(name|backendid)>" into (backend number, name).
func vSplitSubject(key string) (string, string, bool) {
	i := strings.IndexByte(key, '.')
	if i < 0 {
		return "", "", false
	}
	raw, err := base64.StdEncoding.DecodeString(key[i+1:])
	if err != nil {
		return "", "", false
	}
	j := bytes.LastIndexByte(raw, '|')
	if j < 0 {
		return "", "", false
	}
	return strings.TrimPrefix(string(raw[j+1:]), "b"), string(raw[:j]), true
}

// ---------- canonical messages ----------

func (h *vHub) canonUsers(users []map[string]interface{}) string {
	var es []string
	for _, u := range users {
		sid, _ := u["sessionId"].(string)
		ic := 0
		switch v := u["inCall"].(type) {
		case float64:
			ic = int(v)
		case bool:
			if v {
				ic = 1
			}
		}
		tag := 0
		if b, _ := u["internal"].(bool); b {
			tag = 1
		}
		if b, _ := u["virtual"].(bool); b {
			tag = 2
		}
		es = append(es, fmt.Sprintf("%s:%d:%d", h.sym(sid), ic, tag))
	}
	sort.Strings(es)
	return "part[" + strings.Join(es, ",") + "]"
}

func vDataToken(raw json.RawMessage) string {
	var d map[string]interface{}
	if err := json.Unmarshal(raw, &d); err != nil {
		return vEnc(string(raw))
	}
	if t, _ := d["type"].(string); t == "chat" {
		return "chat-refresh"
	}
	if t, _ := d["type"].(string); t == "hangup" {
		return "hangup"
	}
	if v, ok := d["v"].(string); ok {
		return vEnc(v)
	}
	return vEnc(string(raw))
}

func (h *vHub) canon(m *ServerMessage) string {
	symList := func(ids []string) string {
		var es []string
		for _, id := range ids {
			es = append(es, h.sym(id))
		}
		sort.Slice(es, func(i, j int) bool {
			a, _ := strconv.Atoi(strings.TrimPrefix(es[i], "s"))
			b, _ := strconv.Atoi(strings.TrimPrefix(es[j], "s"))
			return a < b
		})
		return strings.Join(es, ",")
	}
	switch m.Type {
	case "welcome":
		return ""
	case "hello":
		h.learn(m.Hello.SessionId, m.Hello.ResumeId)
		return fmt.Sprintf("hello(%s,%s)", h.sym(m.Hello.SessionId), vEnc(m.Hello.UserId))
	case "error":
		return fmt.Sprintf("error(%s)", vEnc(m.Error.Code))
	case "bye":
		reason := ""
		if m.Bye != nil {
			reason = m.Bye.Reason
		}
		return fmt.Sprintf("bye(%s)", vEnc(reason))
	case "room":
		return fmt.Sprintf("room(%s)", vEnc(m.Room.RoomId))
	case "message", "control":
		k := "m"
		var sender *MessageServerMessageSender
		var rcpt *MessageClientMessageRecipient
		var data json.RawMessage
		if m.Type == "message" {
			sender, rcpt, data = m.Message.Sender, m.Message.Recipient, m.Message.Data
		} else {
			k = "c"
			sender, rcpt, data = m.Control.Sender, m.Control.Recipient, m.Control.Data
		}
		if sender == nil {
			if vDataToken(data) == "hangup" && rcpt != nil {
				return fmt.Sprintf("hangup(%s)", vEnc(rcpt.SessionId))
			}
			return fmt.Sprintf("msg(%s,nosender,%s)", k, vDataToken(data))
		}
		rt := map[string]string{"session": "s", "user": "u", "room": "r", "call": "c"}[sender.Type]
		vr := "-"
		if rcpt != nil {
			vr = vEnc(rcpt.SessionId)
		}
		return fmt.Sprintf("msg(%s,%s,%s,%s,%s,%s)", k, rt, h.sym(sender.SessionId), vEnc(sender.UserId), vr, vDataToken(data))
	case "event":
		e := m.Event
		switch e.Target {
		case "room":
			switch e.Type {
			case "join":
				var ids []string
				for _, j := range e.Join {
					ids = append(ids, j.SessionId)
				}
				return "join[" + symList(ids) + "]"
			case "leave":
				return "leave[" + symList(e.Leave) + "]"
			case "message":
				return fmt.Sprintf("roommsg(%s)", vDataToken(e.Message.Data))
			case "switchto":
				return fmt.Sprintf("switchto(%s)", vEnc(e.SwitchTo.RoomId))
			case "delete":
				return "roomdeleted"
			}
		case "roomlist":
			room := ""
			switch e.Type {
			case "invite":
				room = e.Invite.RoomId
			case "disinvite":
				room = e.Disinvite.RoomId
			case "update":
				room = e.Update.RoomId
			}
			return fmt.Sprintf("roomlist(%s,%s)", vEnc(e.Type), vEnc(room))
		case "participants":
			if e.Type == "update" {
				if e.Update.All {
					n, _ := strconv.Atoi(string(e.Update.InCall))
					return fmt.Sprintf("partall(%d)", n)
				}
				users := append([]map[string]interface{}{}, e.Update.Users...)
				seen := map[string]bool{}
				for _, u := range users {
					if s, ok := u["sessionId"].(string); ok {
						seen[s] = true
					}
				}
				for _, c := range e.Update.Changed {
					if s, ok := c["sessionId"].(string); ok && !seen[s] {
						users = append(users, c)
					}
				}
				return h.canonUsers(users)
			}
		}
		return fmt.Sprintf("event(%s,%s)", vEnc(e.Target), vEnc(e.Type))
	}
	return "other(" + vEnc(m.Type) + ")"
}

// ---------- digest ----------

func (h *vHub) digest() string {
	hub := h.hub
	var toks []string
	add := func(f string, a ...interface{}) { toks = append(toks, fmt.Sprintf(f, a...)) }

	hub.mu.RLock()
	sessions := make([]Session, 0, len(hub.sessions))
	for _, s := range hub.sessions {
		sessions = append(sessions, s)
	}
	var expired, anon, dial []Session
	for s := range hub.expiredSessions {
		expired = append(expired, s)
	}
	for s := range hub.anonymousSessions {
		anon = append(anon, s)
	}
	for s := range hub.dialoutSessions {
		dial = append(dial, s)
	}
	type vte struct {
		key string
		sid uint64
	}
	var vts []vte
	for k, sid := range hub.virtualSessions {
		vts = append(vts, vte{k, sid})
	}
	sidPub := map[uint64]string{}
	for sid, s := range hub.sessions {
		sidPub[sid] = s.PublicId()
	}
	expect := make([]HandlerClient, 0)
	for c := range hub.expectHelloClients {
		expect = append(expect, c)
	}
	hub.mu.RUnlock()

	for _, s := range sessions {
		sym := h.sym(s.PublicId())
		bid := strings.TrimPrefix(s.Backend().Id(), "b")
		switch cs := s.(type) {
		case *ClientSession:
			kind := "c"
			if cs.ClientType() == HelloClientTypeInternal {
				kind = "i"
			}
			room := "-"
			if r := cs.GetRoom(); r != nil {
				room = vEnc(r.Id())
			}
			conn := "-"
			if c := cs.GetClient(); c != nil {
				conn = h.connSym(c)
			}
			cs.mu.Lock()
			npending := len(cs.pendingClientMessages)
			perms := "-"
			if cs.supportsPermissions {
				var ps []string
				for p, v := range cs.permissions {
					if v {
						ps = append(ps, vEnc(string(p)))
					}
				}
				sort.Strings(ps)
				perms = "[" + strings.Join(ps, "+") + "]"
			}
			var children []string
			for v := range cs.virtualSessions {
				children = append(children, h.sym(v.PublicId()))
			}
			cs.mu.Unlock()
			ic := 0
			if kind == "i" {
				ic = cs.GetInCall()
			}
			add("se:%s:b%s:%s:%s:%s:%s:%s:%d:%s:%d", sym, bid, kind, vEnc(cs.AuthUserId()), room, h.rsTok(cs.RoomSessionId()), conn, npending, perms, ic)
			for _, ch := range children {
				add("ch:%s:%s", sym, ch)
			}
		case *VirtualSession:
			room := "-"
			if r := cs.GetRoom(); r != nil {
				room = vEnc(r.Id())
			}
			add("se:%s:b%s:v:%s:%s:%s:-:0:-:%d", sym, bid, vEnc(cs.UserId()), room, vEnc(""), cs.GetInCall())
		}
	}
	for _, s := range expired {
		add("ex:%s", h.sym(s.PublicId()))
	}
	for _, s := range anon {
		add("an:%s", h.sym(s.PublicId()))
	}
	for _, s := range dial {
		add("do:%s", h.sym(s.PublicId()))
	}
	for _, v := range vts {
		parts := strings.SplitN(v.key, "|", 2)
		vs := "s?gone"
		if p, ok := sidPub[v.sid]; ok {
			vs = h.sym(p)
		}
		if len(parts) == 2 {
			add("vt:%s:%s:%s", h.sym(parts[0]), vEnc(parts[1]), vs)
		}
	}
	for _, c := range expect {
		add("eh:%s", h.connSym(c))
	}

	// rooms
	hub.ru.RLock()
	rooms := make([]*Room, 0, len(hub.rooms))
	for _, r := range hub.rooms {
		rooms = append(rooms, r)
	}
	hub.ru.RUnlock()
	for _, r := range rooms {
		bid := strings.TrimPrefix(r.Backend().Id(), "b")
		add("ro:b%s:%s", bid, vEnc(r.Id()))
		r.mu.RLock()
		for pub := range r.sessions {
			add("rm:b%s:%s:%s", bid, vEnc(r.Id()), h.sym(pub))
		}
		for s := range r.inCallSessions {
			add("ic:b%s:%s:%s", bid, vEnc(r.Id()), h.sym(s.PublicId()))
		}
		r.mu.RUnlock()
	}

	// room sessions
	if rs, ok := hub.roomSessions.(*BuiltinRoomSessions); ok {
		rs.mu.RLock()
		for k, v := range rs.roomSessionToSessionid {
			add("rs:%s:%s", h.rsTok(k), h.sym(v))
		}
		for k, v := range rs.sessionIdToRoomSession {
			add("sr:%s:%s", h.sym(k), h.rsTok(v))
		}
		rs.mu.RUnlock()
	}

	// per-backend counts
	for _, b := range hub.backend.GetBackends() {
		bid := strings.TrimPrefix(b.Id(), "b")
		b.sessionsLock.Lock()
		for pub := range b.sessions {
			add("ct:b%s:%s", bid, h.sym(pub))
		}
		b.sessionsLock.Unlock()
	}

	// bus listeners
	if ev, ok := hub.events.(*asyncEventsNats); ok {
		ev.mu.Lock()
		for key, sub := range ev.roomSubscriptions {
			sub.asyncRoomSubscriber.mu.Lock()
			for l := range sub.listeners {
				if cs, ok := l.(*ClientSession); ok {
					if b, room, ok := vSplitSubject(key); ok {
						add("rl:b%s:%s:%s", b, vEnc(room), h.sym(cs.PublicId()))
					}
				}
			}
			sub.asyncRoomSubscriber.mu.Unlock()
		}
		for key, sub := range ev.userSubscriptions {
			sub.asyncUserSubscriber.mu.Lock()
			for l := range sub.listeners {
				if cs, ok := l.(*ClientSession); ok {
					if b, user, ok := vSplitSubject(key); ok {
						add("ul:b%s:%s:%s", b, vEnc(user), h.sym(cs.PublicId()))
					}
				}
			}
			sub.asyncUserSubscriber.mu.Unlock()
		}
		for _, sub := range ev.sessionSubscriptions {
			sub.asyncSessionSubscriber.mu.Lock()
			for l := range sub.listeners {
				switch s := l.(type) {
				case *ClientSession:
					add("sl:%s", h.sym(s.PublicId()))
				case *VirtualSession:
					add("sl:%s", h.sym(s.PublicId()))
				}
			}
			sub.asyncSessionSubscriber.mu.Unlock()
		}
		ev.mu.Unlock()
	}

	// connections
	for id, c := range h.conns {
		if !c.isClosed() {
			add("co:c%d", id)
		}
	}
	hub.mu.RLock()
	for _, c := range hub.clients {
		if cl, ok := c.(*Client); ok {
			if s := cl.GetSession(); s != nil {
				add("cs:%s:%s", h.connSym(cl), h.sym(s.PublicId()))
			}
		}
	}
	hub.mu.RUnlock()

	sort.Strings(toks)
	// dedupe
	out := toks[:0]
	for i, t := range toks {
		if i == 0 || toks[i-1] != t {
			out = append(out, t)
		}
	}
	return "T=" + strings.Join(out, ";")
}
