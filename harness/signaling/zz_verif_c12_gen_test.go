package signaling

// C12 harness, part 2: runner, decoded-shape serialisation, generator.

import (
	"bufio"
	"encoding/json"
	"fmt"
	"os"
	"strings"
	"testing"
)

// vC12Run is vRun with one difference: the case is written to VERIF_OUT
// *before* it is executed (ops only) and rewritten afterwards.  A panic in a
// goroutine of the server kills the whole process; the last line of the file
// is then the case that was running, which is what tools/check.py blames.
func vC12Run(t *testing.T, gen func(e *vEnv, r *vRand) []vCase, exec func(t *testing.T, c *vCase)) {
	e := verifEnv(t)
	var cases []vCase
	if e.replay != "" {
		f, err := os.Open(e.replay)
		if err != nil {
			t.Fatal(err)
		}
		sc := bufio.NewScanner(f)
		sc.Buffer(make([]byte, 1<<20), 1<<28)
		for sc.Scan() {
			line := strings.TrimSpace(sc.Text())
			if line == "" {
				continue
			}
			var c vCase
			if err := json.Unmarshal([]byte(line), &c); err != nil {
				t.Fatalf("replay file: %v", err)
			}
			c.Impl = nil
			c.Crash = ""
			cases = append(cases, c)
		}
		f.Close()
	} else {
		cases = gen(e, newVRand(e.seed))
	}
	out, err := os.Create(e.out)
	if err != nil {
		t.Fatal(err)
	}
	defer out.Close()
	var off int64
	put := func(c *vCase) {
		data, err := json.Marshal(c)
		if err != nil {
			t.Fatal(err)
		}
		if err := out.Truncate(off); err != nil {
			t.Fatal(err)
		}
		if _, err := out.WriteAt(append(data, '\n'), off); err != nil {
			t.Fatal(err)
		}
	}
	for i := range cases {
		c := &cases[i]
		put(c) // provisional: ops without observations
		func() {
			defer func() {
				if r := recover(); r != nil {
					c.Crash = "harness:" + fmt.Sprint(r)
				}
			}()
			exec(t, c)
		}()
		put(c)
		data, _ := json.Marshal(c)
		off += int64(len(data)) + 1
	}
}

func vC12Gen(e *vEnv, r *vRand) []vCase {
	w := `{"type":"welcome","welcome":{"version":"1.0","features":["federation"]}}`
	h := `{"id":"$HID1","type":"hello","hello":{"version":"2.0","sessionid":"remote-sid","resumeid":"remote-resume","userid":"u"}}`
	rm := `{"id":"join1","type":"room","room":{"roomid":"room-L"}}`
	return []vCase{
		{Ops: []string{"start rid=0 hide=0 feat=1", "peer " + vEnc(w), "peer " + vEnc(h), "peer " + vEnc(rm), "local msg", "probe", "drop tcp", "peer " + vEnc(w), "probe"}},
		{Ops: []string{"start rid=0 hide=0 feat=0", "probe"}},
		{Ops: []string{"start rid=0 hide=0 feat=1", "peerwf " + vEnc(w), "probe"}},
		{Ops: []string{"start rid=0 hide=0 feat=1", "peer " + vEnc(w), "peerwf " + vEnc(`{"type":"bogus"}`), "probe", "expire"}},
		{Ops: []string{"start rid=0 hide=0 feat=1", "peer " + vEnc(w), "peerwf " + vEnc(`{"id":"$HID1","type":"error","error":{"code":"x","message":"y"}}`), "probe"}},
		{Ops: []string{"start rid=0 hide=0 feat=1", "peer " + vEnc(`{"type":"welcome"}`), "probe"}},
	}
}

func TestVerifC12(t *testing.T) {
	vC12Run(t, vC12Gen, vC12Exec)
}
