package signaling

// C12 harness, part 2: runner, decoded-shape serialisation, generator.

import (
	"bufio"
	"encoding/json"
	"fmt"
	"os"
	"sort"
	"strings"
	"testing"
)

// vC12Run is vRun with one difference: the case is written to VERIF_OUT
// *before* it is executed (ops only) and rewritten afterwards.  A panic in a
// goroutine of the server kills the whole process; the last line of the file
// is then the case that was running, which is what tools/check.py blames.
var vC12Progress func()

func vC12Run(t *testing.T, gen func(e *vEnv, r *vRand) []vCase, exec func(t *testing.T, c *vCase)) {
	e := verifEnv(t)
	var cases []vCase
	if e.replay != "" {
		f, err := os.Open(e.replay)
		if err != nil {
			t.Fatal(err)
		}
		sc := bufio.NewScanner(f)
		sc.Buffer(make([]byte, 1<<20), 1<<28)
		for sc.Scan() {
			line := strings.TrimSpace(sc.Text())
			if line == "" {
				continue
			}
			var c vCase
			if err := json.Unmarshal([]byte(line), &c); err != nil {
				t.Fatalf("replay file: %v", err)
			}
			c.Impl = nil
			c.Crash = ""
			cases = append(cases, c)
		}
		f.Close()
	} else {
		cases = gen(e, newVRand(e.seed))
	}
	out, err := os.Create(e.out)
	if err != nil {
		t.Fatal(err)
	}
	defer out.Close()
	var off int64
	put := func(c *vCase) {
		data, err := json.Marshal(c)
		if err != nil {
			t.Fatal(err)
		}
		// the line only ever grows: overwrite first, then cut what may be left of a longer previous version
		if _, err := out.WriteAt(append(data, '\n'), off); err != nil {
			t.Fatal(err)
		}
		if err := out.Truncate(off + int64(len(data)) + 1); err != nil {
			t.Fatal(err)
		}
	}
	for i := range cases {
		c := &cases[i]
		put(c) // provisional: ops without observations
		// … rewritten after every op, so that the op during which the process died is the first one without an observation
		vC12Progress = func() { put(c) }
		func() {
			defer func() {
				if r := recover(); r != nil {
					c.Crash = "harness:" + fmt.Sprint(r)
				}
			}()
			exec(t, c)
		}()
		put(c)
		data, _ := json.Marshal(c)
		off += int64(len(data)) + 1
	}
	if vC12Stalled.Load() {
		// Every case has run and is written with its observations (the stall is in the line of the case that
		// caused it and is judged there).  The hub's own shutdown in the test cleanup would now wait for the
		// blocked goroutine and fail the test binary, which tools/check.py would read as "the process died
		// during the last case" — the wrong case.
		out.Sync() // nolint
		out.Close()
		os.Exit(0)
	}
}

// ---------- the decoded shape of a document (input of the Lean model) ----------
//
// The document is decoded by the real decoder (json.Unmarshal into ServerMessage,
// i.e. the easyjson code the federation client uses); the blobs are viewed the way
// the code views them.  Token grammar: see Driver/C12.lean.

func vC12B(b bool) string {
	if b {
		return "1"
	}
	return "0"
}

func vC12OptStr(v interface{}) []string {
	if s, ok := v.(string); ok {
		return []string{"+", vEnc(s)}
	}
	return []string{"-"}
}

func vC12Generic(raw json.RawMessage) map[string]interface{} {
	var v interface{}
	if len(raw) == 0 || json.Unmarshal(raw, &v) != nil {
		return nil
	}
	m, _ := v.(map[string]interface{})
	return m
}

func vC12Party(typ string, sid string, present bool) []string {
	if !present {
		return []string{"-"}
	}
	return []string{"P", vEnc(typ), vEnc(sid)}
}

func vC12BodyShape(sender *MessageServerMessageSender, recipient *MessageClientMessageRecipient, data json.RawMessage, control bool) []string {
	t := []string{"B"}
	if sender != nil {
		t = append(t, vC12Party(sender.Type, sender.SessionId, true)...)
	} else {
		t = append(t, "-")
	}
	if recipient != nil {
		t = append(t, vC12Party(recipient.Type, recipient.SessionId, true)...)
	} else {
		t = append(t, "-")
	}
	t = append(t, vC12B(len(data) == 0))
	var ao AnswerOfferMessage
	aoOk := len(data) > 0 && json.Unmarshal(data, &ao) == nil
	if !aoOk {
		ao = AnswerOfferMessage{}
	}
	t = append(t, vC12B(aoOk), vEnc(ao.Type), vEnc(ao.From), vEnc(ao.To))
	var md MessageServerMessageData
	t = append(t, vC12B(len(data) > 0 && json.Unmarshal(data, &md) == nil && md.Type == "nickChanged"))
	fmOk := false
	var peer interface{}
	if len(data) > 0 && data[0] == '{' {
		var mm map[string]interface{}
		if json.Unmarshal(data, &mm) == nil {
			if a, found := mm["action"]; found && a == "forceMute" {
				fmOk = true
				peer = mm["peerId"]
			}
		}
	}
	t = append(t, vC12B(fmOk))
	t = append(t, vC12OptStr(peer)...)
	g := vC12Generic(data)
	if g == nil {
		t = append(t, "~", "~")
	} else if control {
		t = append(t, vC12Str(g, "peerId"), "~")
	} else {
		t = append(t, vC12Str(g, "from"), vC12Str(g, "to"))
	}
	return t
}

func vC12Entries(l []map[string]interface{}) []string {
	t := []string{fmt.Sprint(len(l))}
	for _, e := range l {
		t = append(t, "e")
		t = append(t, vC12OptStr(e["sessionId"])...)
		t = append(t, vC12OptStr(e["sessionid"])...)
	}
	return t
}

func vC12RoomEvShape(r *RoomEventServerMessage) []string {
	if r == nil {
		return []string{"-"}
	}
	t := []string{"U", vEnc(r.RoomId)}
	t = append(t, vC12Entries(r.Users)...)
	return append(t, vC12Entries(r.Changed)...)
}

func vC12Shape(doc string) []string {
	var m ServerMessage
	if err := json.Unmarshal([]byte(doc), &m); err != nil {
		return []string{"X"}
	}
	t := []string{"M", vEnc(m.Id), vEnc(m.Type)}
	if e := m.Error; e != nil {
		t = append(t, "E", vEnc(e.Code), vC12B(len(e.Details) == 0))
		var d RoomErrorDetails
		derr := json.Unmarshal(e.Details, &d)
		t = append(t, vC12B(len(e.Details) > 0 && derr == nil))
		if len(e.Details) > 0 && derr == nil && d.Room != nil {
			t = append(t, "+", vEnc(d.Room.RoomId))
		} else {
			t = append(t, "-")
		}
		if g := vC12Generic(e.Details); g != nil {
			t = append(t, vC12Str(g, "room", "roomid"))
		} else {
			t = append(t, "~")
		}
	} else {
		t = append(t, "-")
	}
	if w := m.Welcome; w != nil {
		t = append(t, "W", fmt.Sprint(len(w.Features)))
		for _, f := range w.Features {
			t = append(t, vEnc(f))
		}
	} else {
		t = append(t, "-")
	}
	if h := m.Hello; h != nil {
		t = append(t, "H", vEnc(h.SessionId), vEnc(h.ResumeId))
	} else {
		t = append(t, "-")
	}
	t = append(t, vC12B(m.Bye != nil))
	if r := m.Room; r != nil {
		t = append(t, "R", vEnc(r.RoomId))
	} else {
		t = append(t, "-")
	}
	if b := m.Message; b != nil {
		t = append(t, vC12BodyShape(b.Sender, b.Recipient, b.Data, false)...)
	} else {
		t = append(t, "-")
	}
	if b := m.Control; b != nil {
		t = append(t, vC12BodyShape(b.Sender, b.Recipient, b.Data, true)...)
	} else {
		t = append(t, "-")
	}
	if e := m.Event; e != nil {
		t = append(t, "V", vEnc(e.Target), vEnc(e.Type), fmt.Sprint(len(e.Join)))
		for _, j := range e.Join {
			if j == nil {
				t = append(t, "-")
			} else {
				t = append(t, "J", vEnc(j.SessionId))
			}
		}
		t = append(t, fmt.Sprint(len(e.Leave)))
		for _, x := range e.Leave {
			t = append(t, vEnc(x))
		}
		changeNil := false
		for _, x := range e.Change {
			changeNil = changeNil || x == nil
		}
		t = append(t, vC12B(changeNil), vC12B(e.SwitchTo != nil), vC12B(e.Resumed != nil && *e.Resumed))
		t = append(t, vC12RoomEvShape(e.Invite)...)
		if e.Disinvite != nil {
			t = append(t, vC12RoomEvShape(&e.Disinvite.RoomEventServerMessage)...)
		} else {
			t = append(t, "-")
		}
		t = append(t, vC12RoomEvShape(e.Update)...)
		if f := e.Flags; f != nil {
			t = append(t, "F", vEnc(f.RoomId), vEnc(f.SessionId))
		} else {
			t = append(t, "-")
		}
		if g := e.Message; g != nil {
			t = append(t, "G", vEnc(g.RoomId))
		} else {
			t = append(t, "-")
		}
	} else {
		t = append(t, "-")
	}
	return append(t, vC12B(m.TransientData != nil), vC12B(m.Internal != nil), vC12B(m.Dialout != nil))
}

func vC12PeerOp(kind, doc string) string {
	return kind + " " + vEnc(doc) + " " + strings.Join(vC12Shape(doc), " ")
}

// ---------- generator ----------

type vC12Obj = map[string]interface{}

func vC12JSON(v interface{}) string {
	data, err := json.Marshal(v)
	if err != nil {
		panic(err)
	}
	return string(data)
}

var (
	vC12Sids  = []string{vC12RemoteSid, vC12RemoteSid, "other-sid", "@LSID@", "", "third-sid"}
	vC12Rooms = []string{vC12RemoteRoom, vC12RemoteRoom, vC12LocalRoom, vC12LocalRoom, "other-room", ""}
)

func vC12User(r *vRand) vC12Obj {
	u := vC12Obj{"userId": "u" + fmt.Sprint(r.intn(3)), "inCall": r.intn(8)}
	switch r.intn(8) {
	case 0:
		u["sessionid"] = r.pick(vC12Sids)
	case 1:
	case 2:
		u["sessionId"] = r.intn(5)
	default:
		u["sessionId"] = r.pick(vC12Sids)
	}
	if r.chance(1, 3) {
		u["actorType"] = r.pick([]string{"users", "federated_users", "guests"})
		u["actorId"] = "actor" + r.pick([]string{"", "@127.0.0.1", "@example.com"})
	}
	return u
}

func vC12Users(r *vRand) []interface{} {
	n := r.intn(4)
	l := make([]interface{}, 0, n)
	for i := 0; i < n; i++ {
		l = append(l, vC12User(r))
	}
	return l
}

func vC12Entry(r *vRand) vC12Obj {
	e := vC12Obj{"sessionid": r.pick(vC12Sids), "userid": "u"}
	if r.chance(1, 2) {
		e["user"] = vC12Obj{"displayname": "Name", "x": 1}
	}
	if r.chance(1, 4) {
		e["user"] = vC12Obj{"displayname": "Name"}
	}
	return e
}

// vC12Valid returns a well-formed message of a random kind.
func vC12Valid(r *vRand) vC12Obj {
	id := func(m vC12Obj) vC12Obj {
		switch r.intn(6) {
		case 0:
			m["id"] = "@HID1@"
		case 1:
			m["id"] = "@HID2@"
		case 2:
			m["id"] = "join1"
		case 3:
			m["id"] = "x" + fmt.Sprint(r.intn(100))
		}
		return m
	}
	party := func() vC12Obj {
		p := vC12Obj{"type": r.pick([]string{"session", "session", "user", "room"})}
		if r.chance(5, 6) {
			p["sessionid"] = r.pick(vC12Sids)
		}
		return p
	}
	body := func(control bool) vC12Obj {
		b := vC12Obj{}
		if r.chance(9, 10) {
			b["sender"] = party()
		}
		if r.chance(2, 3) {
			b["recipient"] = party()
		}
		switch k := r.intn(9); {
		case k == 0:
		case k == 1:
			b["data"] = "text"
		case k == 2:
			b["data"] = []interface{}{1, 2}
		case k == 3:
			b["data"] = vC12Obj{"type": "nickChanged", "payload": vC12Obj{"name": "x"}}
		case k == 4:
			b["data"] = vC12Obj{"type": "chat", "chat": vC12Obj{"refresh": true}}
		case control || k == 5:
			d := vC12Obj{"action": r.pick([]string{"forceMute", "forceMute", "other"})}
			switch r.intn(4) {
			case 0:
			case 1:
				d["peerId"] = r.intn(9)
			default:
				d["peerId"] = r.pick(vC12Sids)
			}
			b["data"] = d
		default:
			d := vC12Obj{"type": r.pick([]string{"offer", "answer", "candidate", "offer"}), "roomType": "video", "payload": vC12Obj{"sdp": "v=0"}}
			if r.chance(4, 5) {
				d["from"] = r.pick(vC12Sids)
			}
			if r.chance(4, 5) {
				d["to"] = r.pick(vC12Sids)
			}
			if r.chance(1, 10) {
				d["from"] = 7
			}
			b["data"] = d
		}
		return b
	}
	roomEv := func() vC12Obj {
		e := vC12Obj{"roomid": r.pick(vC12Rooms)}
		if r.chance(1, 2) {
			e["properties"] = vC12Obj{"name": "n"}
		}
		return e
	}
	switch r.intn(26) {
	case 0:
		return vC12Obj{"type": "welcome", "welcome": vC12Obj{"version": "1.0", "features": [][]string{
			{"federation"}, {" federation\t"}, {"audio", "federation"}, {}, {"other"}, {"federationx"}}[r.intn(6)]}}
	case 1, 2:
		return id(vC12Obj{"type": "hello", "hello": vC12Obj{"version": "2.0", "sessionid": r.pick([]string{vC12RemoteSid, vC12RemoteSid, ""}),
			"resumeid": r.pick([]string{vC12RemoteRes, vC12RemoteRes, ""}), "userid": "u"}})
	case 3, 4:
		e := vC12Obj{"code": r.pick([]string{"no_such_session", "already_joined", "already_joined", "not_allowed", ""}), "message": "m"}
		switch r.intn(5) {
		case 0:
			e["details"] = vC12Obj{"room": vC12Obj{"roomid": r.pick(vC12Rooms), "properties": vC12Obj{}}}
		case 1:
			e["details"] = vC12Obj{"room": vC12Obj{"roomid": r.pick(vC12Rooms)}}
		case 2:
			e["details"] = r.pick([]string{"str", ""})
		case 3:
			e["details"] = vC12Obj{"room": nil}
		}
		return id(vC12Obj{"type": "error", "error": e})
	case 5:
		m := vC12Obj{"type": "bye"}
		if r.chance(1, 2) {
			m["bye"] = vC12Obj{"reason": "room_join_timeout"}
		}
		return m
	case 6, 7:
		return id(vC12Obj{"type": "room", "room": roomEv()})
	case 8, 9, 10:
		return id(vC12Obj{"type": "message", "message": body(false)})
	case 11, 12:
		return id(vC12Obj{"type": "control", "control": body(true)})
	case 13, 14:
		u := roomEv()
		if r.chance(3, 4) {
			u["users"] = vC12Users(r)
		}
		if r.chance(3, 4) {
			u["changed"] = vC12Users(r)
		}
		if r.chance(1, 4) {
			u["incall"] = 3
			u["all"] = true
		}
		return vC12Obj{"type": "event", "event": vC12Obj{"target": "participants", "type": "update", "update": u}}
	case 15:
		return vC12Obj{"type": "event", "event": vC12Obj{"target": "participants", "type": "flags",
			"flags": vC12Obj{"roomid": r.pick(vC12Rooms), "sessionid": r.pick(vC12Sids), "flags": r.intn(4)}}}
	case 16:
		return vC12Obj{"type": "event", "event": vC12Obj{"target": r.pick([]string{"room", "participants"}), "type": "message",
			"message": vC12Obj{"roomid": r.pick(vC12Rooms), "data": vC12Obj{"type": "chat", "chat": vC12Obj{"comment": vC12Obj{"actorDisplayName": "x", "message": "hi"}}}}}}
	case 17, 18:
		n := 1 + r.intn(3)
		l := make([]interface{}, 0, n)
		for i := 0; i < n; i++ {
			l = append(l, vC12Entry(r))
		}
		return vC12Obj{"type": "event", "event": vC12Obj{"target": "room", "type": r.pick([]string{"join", "join", "join", "change"}),
			r.pick([]string{"join", "join", "join", "change"}): l}}
	case 19:
		n := r.intn(3)
		l := make([]interface{}, 0, n)
		for i := 0; i <= n; i++ {
			l = append(l, r.pick(vC12Sids))
		}
		return vC12Obj{"type": "event", "event": vC12Obj{"target": "room", "type": "leave", "leave": l}}
	case 20:
		t := r.pick([]string{"invite", "disinvite", "update"})
		ev := roomEv()
		if t == "disinvite" {
			ev["reason"] = "disinvited"
		}
		return vC12Obj{"type": "event", "event": vC12Obj{"target": "roomlist", "type": t, t: ev}}
	case 21:
		switch r.intn(4) {
		case 0:
			return vC12Obj{"type": "event", "event": vC12Obj{"target": "room", "type": "switchto", "switchto": vC12Obj{"roomid": "x"}}}
		case 1:
			return vC12Obj{"type": "event", "event": vC12Obj{"target": "room", "type": "federation_resumed", "resumed": r.chance(1, 2)}}
		case 2:
			return vC12Obj{"type": "event", "event": vC12Obj{"target": "room", "type": "delete"}}
		}
		return vC12Obj{"type": "event", "event": vC12Obj{"target": r.pick([]string{"other", "", "room"}), "type": r.pick([]string{"x", ""})}}
	case 22:
		return vC12Obj{"type": "transient", "transient": vC12Obj{"type": "set", "key": "k", "value": 1}}
	case 23:
		return r.pickObj([]vC12Obj{
			{"type": "internal", "internal": vC12Obj{"type": "dialout", "dialout": vC12Obj{"roomid": "r", "backend": "b", "request": vC12Obj{}}}},
			{"type": "dialout", "dialout": vC12Obj{"type": "status", "roomid": "r", "status": vC12Obj{"status": "accepted", "callid": "c"}}},
		})
	case 24:
		return id(vC12Obj{"type": r.pick([]string{"foo", "WELCOME", "Hello", " room", "event "})})
	}
	return vC12Obj{"welcome": vC12Obj{"version": "1.0", "features": []string{"federation"}}}
}

func (r *vRand) pickObj(xs []vC12Obj) vC12Obj { return xs[r.intn(len(xs))] }

// vC12Paths lists the paths to every member / element of a JSON tree.
func vC12Paths(v interface{}, cur []interface{}, out *[][]interface{}) {
	switch x := v.(type) {
	case map[string]interface{}:
		keys := make([]string, 0, len(x))
		for k := range x {
			keys = append(keys, k)
		}
		sort.Strings(keys)
		for _, k := range keys {
			p := append(append([]interface{}{}, cur...), k)
			*out = append(*out, p)
			vC12Paths(x[k], p, out)
		}
	case []interface{}:
		for i := range x {
			p := append(append([]interface{}{}, cur...), i)
			*out = append(*out, p)
			vC12Paths(x[i], p, out)
		}
	}
}

var vC12Wrong = []interface{}{nil, nil, nil, 5, "x", "", []interface{}{}, []interface{}{nil}, map[string]interface{}{}, true, 1.5,
	[]interface{}{map[string]interface{}{}}, map[string]interface{}{"sessionId": 1}}

// vC12Mutate removes a member, or replaces it by null / a value of another type.
func vC12Mutate(r *vRand, doc interface{}) interface{} {
	var paths [][]interface{}
	vC12Paths(doc, nil, &paths)
	if len(paths) == 0 {
		return doc
	}
	// shallow paths (the sub-objects) are the interesting ones
	sort.SliceStable(paths, func(i, j int) bool { return len(paths[i]) < len(paths[j]) })
	k := r.intn(len(paths))
	if r.chance(1, 2) {
		k = r.intn(1 + len(paths)/2)
	}
	p := paths[k]
	del := r.chance(1, 3)
	var repl interface{}
	if !del {
		repl = vC12Normalize(vC12Wrong[r.intn(len(vC12Wrong))]) // a private copy: later mutations must not alias
	}
	var apply func(v interface{}, p []interface{}) interface{}
	apply = func(v interface{}, p []interface{}) interface{} {
		switch x := v.(type) {
		case map[string]interface{}:
			key := p[0].(string)
			if len(p) == 1 {
				if del {
					delete(x, key)
				} else {
					x[key] = repl
				}
			} else {
				x[key] = apply(x[key], p[1:])
			}
			return x
		case []interface{}:
			idx := p[0].(int)
			if len(p) == 1 {
				if del {
					return append(x[:idx], x[idx+1:]...)
				}
				x[idx] = repl
			} else {
				x[idx] = apply(x[idx], p[1:])
			}
			return x
		}
		return v
	}
	return apply(doc, p)
}

func vC12Normalize(v interface{}) interface{} {
	var out interface{}
	json.Unmarshal([]byte(vC12JSON(v)), &out) // nolint
	return out
}

var vC12Garbage = []string{"", " ", "null", "true", "0", "\"str\"", "[]", "{}", "[{}]", "{\"type\":5}", "{\"type\":null}", "{\"type\":[\"welcome\"]}",
	"{\"type\":\"welcome\",\"welcome\":5}", "{\"type\":\"welcome\",\"welcome\":\"x\"}", "{\"type\":\"welcome\",\"welcome\":[]}",
	"{\"type\":\"event\",\"event\":{\"target\":\"room\",\"type\":\"join\",\"join\":[null]}}",
	"{\"type\":\"event\",\"event\":{\"target\":\"room\",\"type\":\"join\",\"join\":{}}}",
	"{\"type\":\"event\",\"event\":{\"target\":\"participants\",\"type\":\"update\",\"update\":{\"roomid\":\"r\",\"users\":[null,{\"sessionId\":null},{\"sessionId\":{}}]}}}",
	"{\"type\":\"event\",\"event\":{\"target\":\"participants\",\"type\":\"update\",\"update\":{\"roomid\":\"r\",\"changed\":[{}]}}}",
	"{\"type\":\"welcome\",\"type\":\"hello\"}", "{\"TYPE\":\"welcome\"}", "\xff\xfe{\"type\":\"welcome\"}", "{\"type\":\"wel\xffcome\"}",
	"{\"type\":\"message\",\"message\":{\"data\":nul}}", "{\"type\":\"message\",\"message\":{\"sender\":null,\"data\":null}}",
	"{\"type\":\"room\",\"room\":{\"roomid\":5}}", "{\"type\":\"room\",\"room\":null,\"room\":{\"roomid\":\"room-R\"}}",
	"{\"id\":5,\"type\":\"bye\"}", "{\"type\":\"error\",\"error\":{\"code\":\"already_joined\",\"details\":{\"room\":{\"roomid\":5}}}}"}

// vC12Hostile produces one document a hostile peer might send.
func vC12Hostile(r *vRand) string {
	switch k := r.intn(100); {
	case k < 22:
		return vC12JSON(vC12Valid(r))
	case k < 70:
		doc := vC12Normalize(vC12Valid(r))
		for i := 0; i <= r.intn(2); i++ {
			doc = vC12Mutate(r, doc)
		}
		return vC12JSON(doc)
	case k < 80:
		s := vC12JSON(vC12Valid(r))
		return s[:r.intn(len(s))] // truncated
	case k < 86:
		b := []byte(vC12JSON(vC12Valid(r)))
		for i := 0; i <= r.intn(3); i++ {
			b[r.intn(len(b))] = byte(r.intn(256))
		}
		return string(b)
	case k < 90:
		s := vC12JSON(vC12Valid(r))
		return r.pick([]string{"[", "{\"x\":", " ", "\n"}) + s + r.pick([]string{"]", "}", "x", " "})
	case k < 92:
		return strings.Repeat("[", 200+r.intn(2000)) + strings.Repeat("]", r.intn(2200))
	}
	return r.pick(vC12Garbage)
}

var vC12T *testing.T

func vC12Gen(e *vEnv, r *vRand) []vCase {
	welcome := `{"type":"welcome","welcome":{"version":"1.0","features":["audio","federation"]}}`
	hello := func(n int) string {
		return fmt.Sprintf(`{"id":"@HID%d@","type":"hello","hello":{"version":"2.0","sessionid":%q,"resumeid":%q,"userid":"u"}}`, n, vC12RemoteSid, vC12RemoteRes)
	}
	room := func(rid bool) string {
		rm := vC12LocalRoom
		if rid {
			rm = vC12RemoteRoom
		}
		return fmt.Sprintf(`{"id":"join1","type":"room","room":{"roomid":%q,"properties":{"a":1}}}`, rm)
	}
	n := e.scale(480, 4000)
	var cases []vCase
	// regression cases first: the minimal inputs of the three defects found on the pinned tree
	// (known_findings.json C12-shape-crash, C12-hello-write-deadlock, C12-bye-write-nil-conn)
	{
		pre := []string{"start rid=1 hide=1 feat=1"}
		hel := append(append([]string{}, pre...), vC12PeerOp("peer", welcome))
		joi := append(append([]string{}, hel...), vC12PeerOp("peer", hello(1)), vC12PeerOp("peer", room(true)))
		add := func(prefix []string, kind, doc string, tail ...string) {
			ops := append(append([]string{}, prefix...), vC12PeerOp(kind, doc))
			ops = append(ops, "probe")
			cases = append(cases, vCase{Ops: append(ops, tail...), Tags: []string{"regression"}})
		}
		add(pre, "peer", `{"type":"welcome"}`)
		add(hel, "peer", `{"id":"@HID1@","type":"hello"}`)
		add(hel, "peer", `{"id":"@HID1@","type":"error"}`)
		for _, t := range []string{"control", "event", "error", "room", "message"} {
			add(joi, "peer", `{"type":"`+t+`"}`)
		}
		for _, tt := range [][2]string{{"participants", "update"}, {"participants", "flags"}, {"participants", "message"}, {"room", "message"},
			{"roomlist", "invite"}, {"roomlist", "disinvite"}, {"roomlist", "update"}} {
			add(joi, "peer", `{"type":"event","event":{"target":"`+tt[0]+`","type":"`+tt[1]+`"}}`)
		}
		add(joi, "peer", `{"type":"event","event":{"target":"room","type":"join","join":[null]}}`)
		add(joi, "peer", `{"type":"event","event":{"target":"room","type":"join","join":[{"sessionid":"a","user":{"displayname":"x"}},null]}}`)
		add(joi, "peer", `{"type":"event","event":{"target":"participants","type":"update","update":{"roomid":"r","users":[{"userId":"u"}]}}}`)
		add(joi, "peer", `{"type":"event","event":{"target":"participants","type":"update","update":{"roomid":"r","changed":[{"sessionId":5}]}}}`)
		add(joi, "peer", `{"type":"event","event":{"target":"participants","type":"update","update":{"roomid":"r","users":[null]}}}`)
		add(pre, "peerwf", welcome, "expire")
		add(hel, "peerwf", `{"type":"unexpected"}`, "expire")
		add(hel, "peerwf", hello(1), "expire")
		add(hel, "peerwf", `{"id":"@HID1@","type":"error","error":{"code":"no_such_session"}}`, "expire")
		add(hel, "peerwf", `{"id":"@HID1@","type":"error","error":{"code":"invalid_token","message":"no"}}`, "expire")
		add(pre, "peerwf", `{"type":"welcome","welcome":{"version":"1.0","features":["other"]}}`, "expire")
		add(joi, "peerwf", `{"type":"room","room":{"roomid":""}}`, "expire")
		// a local message for a client that was closed with an error after it could resume: queued
		cases = append(cases, vCase{Ops: append(append([]string{}, joi...), "drop close",
			vC12PeerOp("peerwf", `{"type":"welcome","welcome":{"version":"1.0"}}`), "local msg", "local msg", "probe"), Tags: []string{"regression"}})
	}
	// deterministic batteries: nested payloads of every raw member the handlers decode; faults at every point of the handshake
	cases = append(cases, vC12NestedBattery(vC12T, e, welcome, hello, room)...)
	cases = append(cases, vC12FaultBattery(e, r.fork(), welcome, hello, room)...)
	for i := 0; i < n; i++ {
		rr := r.fork()
		rid, hide := rr.chance(1, 2), rr.chance(1, 3)
		ops := []string{fmt.Sprintf("start rid=%s hide=%s feat=1", vC12B(rid), vC12B(hide))}
		joined := []string{vC12PeerOp("peer", welcome), vC12PeerOp("peer", hello(1)), vC12PeerOp("peer", room(rid))}
		stage := rr.intn(20)
		switch {
		case stage < 3: // before welcome
		case stage < 6: // hello sent, no answer yet
			ops = append(ops, joined[0])
		case stage < 13: // joined
			ops = append(ops, joined...)
		case stage < 14: // leaving
			ops = append(ops, joined...)
			ops = append(ops, "local leave")
		case stage < 15: // reconnecting, resume hello pending
			ops = append(ops, joined...)
			ops = append(ops, "drop "+rr.pick([]string{"tcp", "close", "rst"}), vC12PeerOp("peer", welcome))
		case stage < 16: // resumed
			ops = append(ops, joined...)
			if rr.chance(1, 2) {
				ops = append(ops, "drop tcp", "local msg", vC12PeerOp("peer", welcome), vC12PeerOp("peer", hello(2)))
			} else {
				// the remote server was away for a while: messages are queued and sent with the resume
				// (sometimes with the connection breaking right then)
				ops = append(ops, "drop hold", "local msg", "local msg", "up", vC12PeerOp("peer", welcome),
					vC12PeerOp(rr.pick([]string{"peer", "peer", "peerwf"}), hello(2)))
			}
		case stage < 17: // resume refused, new session
			ops = append(ops, joined...)
			ops = append(ops, "drop tcp", vC12PeerOp("peer", welcome),
				vC12PeerOp("peer", `{"id":"@HID2@","type":"error","error":{"code":"no_such_session","message":"gone"}}`), vC12PeerOp("peer", hello(3)))
		case stage < 18: // joined, hello without session ids
			ops = append(ops, joined[0], vC12PeerOp("peer", `{"id":"@HID1@","type":"hello","hello":{"version":"2.0","sessionid":"","resumeid":""}}`), joined[2])
		case stage < 19: // not a federation server
			ops[0] = fmt.Sprintf("start rid=%s hide=%s feat=0", vC12B(rid), vC12B(hide))
		default: // the hello was refused: client closed with an error
			ops = append(ops, joined[0], vC12PeerOp("peer", `{"id":"@HID1@","type":"error","error":{"code":"invalid_token","message":"no"}}`))
		}
		k := 1 + rr.intn(3)
		if stage >= 6 && stage < 13 {
			k += 1 + rr.intn(3) // joined: the stage with the most code behind it
		}
		slow := 0
		for j := 0; j < k; j++ {
			switch x := rr.intn(100); {
			case x < 74:
				ops = append(ops, vC12PeerOp("peer", vC12Hostile(rr)))
			case x < 82 && slow < 2:
				ops = append(ops, vC12PeerOp("peerwf", vC12Hostile(rr)))
				slow++
			case x < 84 && slow < 2:
				// the messages whose handling writes to the peer, with the write failing
				ops = append(ops, vC12PeerOp("peerwf", rr.pick([]string{welcome, hello(1), hello(2), `{"type":"unexpected"}`,
					`{"id":"@HID1@","type":"error","error":{"code":"no_such_session"}}`, `{"id":"@HID1@","type":"error","error":{"code":"other"}}`,
					`{"type":"welcome","welcome":{"version":"1.0"}}`, `{"type":"room","room":{"roomid":""}}`, `{"type":"bye"}`})))
				slow++
			case x < 87 && slow < 2:
				ops = append(ops, "drop "+rr.pick([]string{"tcp", "close", "rst"}))
				slow++
			case x < 88 && slow < 1:
				ops = append(ops, "drop hold")
				for q := rr.intn(3); q > 0; q-- {
					ops = append(ops, rr.pick([]string{"local msg", "local msg", "local leave", "probe"}))
				}
				ops = append(ops, "up")
				slow += 2
			case x < 90:
				ops = append(ops, "bin "+vEnc(vC12Hostile(rr)))
			case x < 91 && slow < 2:
				ops = append(ops, fmt.Sprintf("big %d", 65537+rr.intn(3000)))
				slow++
			case x < 94:
				ops = append(ops, "local msg")
			case x < 96:
				ops = append(ops, "local leave")
			default:
				// follow the protocol
				ops = append(ops, vC12PeerOp("peer", rr.pick([]string{welcome, hello(1), hello(2), room(rid), room(!rid)})))
			}
		}
		ops = append(ops, "probe")
		if rr.chance(1, 12) {
			ops = append(ops, "expire")
		}
		cases = append(cases, vCase{Ops: ops})
	}
	return cases
}

func TestVerifC12(t *testing.T) {
	vC12T = t
	vC12Run(t, vC12Gen, vC12Exec)
}
