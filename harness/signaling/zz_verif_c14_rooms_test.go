package signaling

// C14, room level: the *embedding* of TransientData — who is registered as
// listener of which room's data, and when.  Real ClientSessions in a real Hub
// with a real BackendServer, an in-memory Nextcloud, everything inside a
// testing/synctest bubble (go1.26): the TTL timers of every Room object (also of
// rooms that are closed meanwhile) run on the virtual clock, synctest.Wait() is
// the quiescence point of every op.
//
// Sessions 0..3 are ordinary clients (the fake Nextcloud grants every join the
// `transient-data` permission; the permission gate is C08's).  Rooms are 1 and 2.
//
// Op lines (Driver/C14.lean, `parseROp`):
//   rjoin S R            Hub.processRoom: room request to the fake Nextcloud, then Hub.processJoinRoom
//   rleave S             Hub.processRoom with an empty room id
//   rclose S             ClientSession.Close
//   rset S K W TTL       client message transient/set of S: value = JSON string "W" (`~`: no value), ttl in ns
//   rrm S K              client message transient/remove
//   rbset R K W TTL      "transient" room request on the bus (what a dialout status becomes): value = Go string W
//   rbrm R K             same with action delete
//   rdel R               signed "delete" request for room R to the BackendServer
//   radv DT              time passes (Sleep + synctest.Wait)
//   rget                 observation only
//
// Implementation output:
//   <outcome> [L<s>:<msg>;<msg>…]… in=<c0><c1><c2><c3> [D<r>={k=v,…} T<r>={k,…} A<r>=<s>,<s>…]… Z=<s>,<s>…
// outcome  ok | closed | noroom | already | failed | err.<code> | <http status>
// L<s>     the transient messages session s received in this step (same syntax as the store level)
// in=      per session: the room it is in (`-` none, `x` session closed, `!r` a Room object the hub no longer knows)
// D/T/A    per room the hub knows: GetData(), keys of t.timers, registered listeners (session numbers, sorted)
// Z=       listeners still registered with the TransientData of Room objects the hub no longer knows (`-`: none)

import (
	"bytes"
	"context"
	"encoding/json"
	"errors"
	"fmt"
	"io"
	"log"
	"net"
	"net/http"
	"net/http/httptest"
	"net/url"
	"sort"
	"strconv"
	"strings"
	"sync"
	"testing"
	"testing/synctest"
	"time"

	"github.com/dlintw/goconf"
	"github.com/gorilla/mux"
)

// ---------- in-memory network (the hub's requests to Nextcloud) ----------

type vC14RAddr struct{ s string }

func (a vC14RAddr) Network() string { return "tcp" }
func (a vC14RAddr) String() string  { return a.s }

type vC14RConn struct {
	net.Conn
	local, remote vC14RAddr
}

func (c *vC14RConn) LocalAddr() net.Addr  { return c.local }
func (c *vC14RConn) RemoteAddr() net.Addr { return c.remote }

type vC14RListener struct {
	ch     chan net.Conn
	closed chan struct{}
	once   sync.Once
}

func (l *vC14RListener) Accept() (net.Conn, error) {
	select {
	case c := <-l.ch:
		return c, nil
	case <-l.closed:
		return nil, net.ErrClosed
	}
}

func (l *vC14RListener) Close() error {
	l.once.Do(func() { close(l.closed) })
	return nil
}

func (l *vC14RListener) Addr() net.Addr { return vC14RAddr{"192.0.2.10:80"} }

func (l *vC14RListener) dial(ctx context.Context, network, addr string) (net.Conn, error) {
	c1, c2 := net.Pipe()
	cl := vC14RAddr{"192.0.2.1:20000"}
	sv := vC14RAddr{"192.0.2.10:80"}
	select {
	case l.ch <- &vC14RConn{Conn: c2, local: sv, remote: cl}:
		return &vC14RConn{Conn: c1, local: cl, remote: sv}, nil
	case <-l.closed:
		c1.Close()
		c2.Close()
		return nil, errors.New("listener closed")
	case <-ctx.Done():
		c1.Close()
		c2.Close()
		return nil, ctx.Err()
	}
}

// ---------- world of one case ----------

const (
	vC14RNcUrl    = "http://nextcloud.test/"
	vC14RSigUrl   = "http://signaling.test"
	vC14RSessions = 4
	vC14RRooms    = 2
)

var vC14RSecret = []byte("c14-backend-secret")

type vC14RWorld struct {
	t        *testing.T
	hub      *Hub
	events   AsyncEvents
	bs       *BackendServer
	router   *mux.Router
	backend  *Backend
	ncL      *vC14RListener
	ncSrv    *http.Server
	sessions []*ClientSession
	closed   []bool
	byPtr    map[TransientListener]int
	seen     []*Room // every Room object the hub ever had, in order of appearance
	msgId    int
}

// the fake Nextcloud: capabilities, room join / leave, ping
func (w *vC14RWorld) nextcloud(rw http.ResponseWriter, r *http.Request) {
	if r.Method == "GET" {
		spreed, _ := json.Marshal(map[string]interface{}{"features": []string{"verif"}, "config": map[string]interface{}{}})
		resp := &CapabilitiesResponse{Version: CapabilitiesVersion{Major: 20}, Capabilities: map[string]json.RawMessage{"spreed": spreed}}
		data, _ := json.Marshal(resp)
		var ocs OcsResponse
		ocs.Ocs = &OcsBody{Meta: OcsMeta{Status: "ok", StatusCode: 200, Message: "OK"}, Data: data}
		data, _ = json.Marshal(ocs)
		rw.Header().Set("Content-Type", "application/json")
		rw.Write(data) // nolint
		return
	}
	body, _ := io.ReadAll(r.Body)
	var request BackendClientRequest
	if err := json.Unmarshal(body, &request); err != nil {
		http.Error(rw, "bad", http.StatusBadRequest)
		return
	}
	var response BackendClientResponse
	switch request.Type {
	case "room":
		response.Type = "room"
		response.Room = &BackendClientRoomResponse{Version: BackendVersion, RoomId: request.Room.RoomId, Properties: json.RawMessage(`{}`)}
		if request.Room.Action == "" || request.Room.Action == "join" {
			perms := []Permission{PERMISSION_TRANSIENT_DATA}
			response.Room.Permissions = &perms
		}
	case "ping":
		response.Type = "ping"
		response.Ping = &BackendClientRingResponse{Version: BackendVersion, RoomId: request.Ping.RoomId}
	default:
		response.Type = request.Type
	}
	data, _ := json.Marshal(&response)
	if r.Header.Get("OCS-APIRequest") != "" {
		var ocs OcsResponse
		ocs.Ocs = &OcsBody{Meta: OcsMeta{Status: "ok", StatusCode: 200, Message: "OK"}, Data: data}
		data, _ = json.Marshal(ocs)
	}
	rw.Header().Set("Content-Type", "application/json")
	rw.Write(data) // nolint
}

func vC14RNewWorld(t *testing.T) *vC14RWorld {
	w := &vC14RWorld{t: t, ncL: &vC14RListener{ch: make(chan net.Conn), closed: make(chan struct{})},
		byPtr: map[TransientListener]int{}, closed: make([]bool, vC14RSessions)}
	r := mux.NewRouter()
	config := goconf.NewConfigFile()
	config.AddOption("backend", "backends", "backend1")
	config.AddOption("backend1", "url", vC14RNcUrl)
	config.AddOption("backend1", "secret", string(vC14RSecret))
	config.AddOption("backend", "allowhttp", "true")
	config.AddOption("sessions", "hashkey", "12345678901234567890123456789012")
	config.AddOption("sessions", "blockkey", "09876543210987654321098765432109")
	config.AddOption("clients", "internalsecret", "c14-internal-secret")
	config.AddOption("geoip", "url", "none")
	var err error
	w.events, err = NewAsyncEvents(NatsLoopbackUrl)
	if err != nil {
		t.Fatal(err)
	}
	rpcClients, err := NewGrpcClients(config, nil, nil, "verif")
	if err != nil {
		t.Fatal(err)
	}
	w.hub, err = NewHub(config, w.events, nil, rpcClients, nil, r, "verif")
	if err != nil {
		t.Fatal(err)
	}
	w.bs, err = NewBackendServer(config, w.hub, "verif")
	if err != nil {
		t.Fatal(err)
	}
	if err := w.bs.Start(r); err != nil {
		t.Fatal(err)
	}
	w.router = r
	w.hub.backend.pool.transport.DialContext = w.ncL.dial
	w.hub.backend.pool.transport.Proxy = nil
	w.ncSrv = &http.Server{Handler: http.HandlerFunc(w.nextcloud), ErrorLog: log.New(io.Discard, "", 0)}
	go w.ncSrv.Serve(w.ncL) // nolint
	go w.hub.Run()

	u, _ := url.Parse(vC14RNcUrl)
	w.backend = w.hub.backend.GetBackend(u)
	if w.backend == nil {
		t.Fatal("verif: backend not configured")
	}
	for i := 0; i < vC14RSessions; i++ {
		data := w.hub.newSessionIdData(w.backend)
		priv, err := w.hub.cookie.EncodePrivate(data)
		if err != nil {
			t.Fatal(err)
		}
		pub, err := w.hub.cookie.EncodePublic(data)
		if err != nil {
			t.Fatal(err)
		}
		hello := &HelloClientMessage{Version: HelloVersionV1, Auth: &HelloClientMessageAuth{Type: HelloClientTypeClient, Url: vC14RNcUrl, parsedUrl: u}}
		auth := &BackendClientAuthResponse{Version: BackendVersion, UserId: "user" + strconv.Itoa(i)}
		s, err := NewClientSession(w.hub, priv, pub, data, w.backend, hello, auth)
		if err != nil {
			t.Fatal(err)
		}
		if err := w.backend.AddSession(s); err != nil {
			t.Fatal(err)
		}
		w.hub.mu.Lock()
		w.hub.sessions[data.Sid] = s
		w.hub.mu.Unlock()
		w.hub.setDecodedSessionId(priv, privateSessionName, data)
		w.hub.setDecodedSessionId(pub, publicSessionName, data)
		w.sessions = append(w.sessions, s)
		w.byPtr[s] = i
	}
	synctest.Wait()
	return w
}

func (w *vC14RWorld) shutdown() {
	synctest.Wait()
	for _, s := range w.sessions {
		s.Close()
	}
	synctest.Wait()
	w.hub.Stop()
	w.hub.rpcClients.Close()
	w.hub.backend.pool.transport.CloseIdleConnections()
	w.ncSrv.Close()
	w.hub.backend.Close()
	w.events.Close()
	synctest.Wait()
	// no timer of any room (open or closed) is left behind in the bubble
	w.note()
	for _, room := range w.seen {
		td := room.transientData
		td.mu.Lock()
		for _, tm := range td.timers {
			tm.Stop()
		}
		td.mu.Unlock()
	}
	synctest.Wait()
}

// note records the Room objects the hub knows now; returns them by room number.
func (w *vC14RWorld) note() map[int]*Room {
	live := map[int]*Room{}
	w.hub.ru.RLock()
	for _, room := range w.hub.rooms {
		known := false
		for _, s := range w.seen {
			if s == room {
				known = true
			}
		}
		if !known {
			w.seen = append(w.seen, room)
		}
		if n, err := strconv.Atoi(strings.TrimPrefix(room.Id(), "room")); err == nil {
			live[n] = room
		}
	}
	w.hub.ru.RUnlock()
	return live
}

func (w *vC14RWorld) listenersOf(td *TransientData) []string {
	var ids []string
	td.listenersMu.Lock()
	for l := range td.listeners {
		if i, ok := w.byPtr[l]; ok {
			ids = append(ids, strconv.Itoa(i))
		} else {
			ids = append(ids, "?")
		}
	}
	td.listenersMu.Unlock()
	sort.Strings(ids)
	return ids
}

func (w *vC14RWorld) sess(tok string) (int, bool) {
	i, err := strconv.Atoi(tok)
	if err != nil || i < 0 || i >= vC14RSessions {
		return 0, false
	}
	return i, true
}

func vC14RRoom(tok string) (string, bool) {
	n, err := strconv.Atoi(tok)
	if err != nil || n < 1 || n > vC14RRooms {
		return "", false
	}
	return "room" + tok, true
}

// vC14RWord: the value words of the room level are plain (safe) tokens.
func vC14RWord(tok string) bool {
	if tok == "" {
		return false
	}
	for i := 0; i < len(tok); i++ {
		b := tok[i]
		if !(b >= '0' && b <= '9' || b >= 'a' && b <= 'z' || b >= 'A' && b <= 'Z') {
			return false
		}
	}
	return true
}

// post sends a signed room API request to the BackendServer (in process).
func (w *vC14RWorld) post(room string, request map[string]interface{}) string {
	body, err := json.Marshal(request)
	if err != nil {
		return "badreq"
	}
	req, err := http.NewRequest("POST", vC14RSigUrl+"/api/v1/room/"+url.PathEscape(room), bytes.NewReader(body))
	if err != nil {
		return "badreq"
	}
	req.Header.Set("Content-Type", "application/json")
	rnd := newRandomString(64)
	req.Header.Set(HeaderBackendSignalingRandom, rnd)
	req.Header.Set(HeaderBackendSignalingChecksum, CalculateBackendChecksum(rnd, body, vC14RSecret))
	req.Header.Set(HeaderBackendServer, vC14RNcUrl)
	req.RemoteAddr = "192.0.2.1:1234"
	rec := httptest.NewRecorder()
	w.router.ServeHTTP(rec, req)
	synctest.Wait()
	return strconv.Itoa(rec.Code)
}

// observe drains what the (connection-less) sessions were sent and renders the rooms.
func (w *vC14RWorld) observe(outcome string) string {
	synctest.Wait()
	parts := []string{outcome}
	errCode := ""
	for i, s := range w.sessions {
		s.mu.Lock()
		pending := s.pendingClientMessages
		s.pendingClientMessages = nil
		s.hasPendingChat = false
		s.hasPendingParticipantsUpdate = false
		s.mu.Unlock()
		rec := &vC14Listener{id: i}
		for _, m := range pending {
			switch {
			case m.Type == "transient":
				rec.SendMessage(m)
			case m.Type == "error" && m.Error != nil && errCode == "":
				errCode = m.Error.Code
			}
		}
		if len(rec.msgs) > 0 {
			parts = append(parts, fmt.Sprintf("L%d:%s", i, strings.Join(rec.msgs, ";")))
		}
	}
	if errCode != "" && outcome == "ok" {
		parts[0] = "err." + vC14Enc(errCode)
	}
	live := w.note()
	in := "in="
	for i, s := range w.sessions {
		room := s.GetRoom()
		switch {
		case w.closed[i]:
			in += "x"
		case room == nil:
			in += "-"
		default:
			n := strings.TrimPrefix(room.Id(), "room")
			if k, err := strconv.Atoi(n); err != nil || live[k] != room {
				in += "!"
			}
			in += n
		}
	}
	parts = append(parts, in)
	for n := 1; n <= vC14RRooms; n++ {
		room := live[n]
		if room == nil {
			continue
		}
		td := room.transientData
		td.mu.Lock()
		keys := make([]string, 0, len(td.timers))
		for k := range td.timers {
			keys = append(keys, vC14Enc(k))
		}
		td.mu.Unlock()
		sort.Strings(keys)
		ls := w.listenersOf(td)
		a := "-"
		if len(ls) > 0 {
			a = strings.Join(ls, ",")
		}
		parts = append(parts, fmt.Sprintf("D%d=%s", n, vC14DataString(td.GetData())),
			fmt.Sprintf("T%d={%s}", n, strings.Join(keys, ",")), fmt.Sprintf("A%d=%s", n, a))
	}
	var z []string
	for _, room := range w.seen {
		isLive := false
		for _, l := range live {
			if l == room {
				isLive = true
			}
		}
		if !isLive {
			z = append(z, w.listenersOf(room.transientData)...)
		}
	}
	sort.Strings(z)
	if len(z) == 0 {
		parts = append(parts, "Z=-")
	} else {
		parts = append(parts, "Z="+strings.Join(z, ","))
	}
	return strings.Join(parts, " ")
}

func (w *vC14RWorld) transient(i int, td *TransientDataClientMessage) string {
	if w.closed[i] {
		return w.observe("closed")
	}
	w.msgId++
	msg := &ClientMessage{Id: "m" + strconv.Itoa(w.msgId), Type: "transient", TransientData: td}
	if err := msg.CheckValid(); err != nil {
		return w.observe("invalid")
	}
	w.hub.processTransientMsg(w.sessions[i], msg)
	return w.observe("ok")
}

func (w *vC14RWorld) exec(line string) string {
	f := strings.Fields(line)
	bad := "bad-op"
	if len(f) == 0 {
		return bad
	}
	switch f[0] {
	case "rjoin":
		if len(f) != 3 {
			return bad
		}
		i, ok := w.sess(f[1])
		room, ok2 := vC14RRoom(f[2])
		if !ok || !ok2 {
			return bad
		}
		if w.closed[i] {
			return w.observe("closed")
		}
		w.hub.processRoom(w.sessions[i], &ClientMessage{Id: "j", Type: "room", Room: &RoomClientMessage{RoomId: room, SessionId: "nc" + f[1]}})
		synctest.Wait()
		out := w.observe("ok")
		if strings.HasPrefix(out, "err.already_joined") {
			return "already" + strings.TrimPrefix(out, "err.already_joined")
		}
		if r := w.sessions[i].GetRoom(); (r == nil || r.Id() != room) && strings.HasPrefix(out, "ok") {
			return "failed" + strings.TrimPrefix(out, "ok")
		}
		return out
	case "rleave":
		if len(f) != 2 {
			return bad
		}
		i, ok := w.sess(f[1])
		if !ok {
			return bad
		}
		if w.closed[i] {
			return w.observe("closed")
		}
		had := w.sessions[i].GetRoom() != nil
		w.hub.processRoom(w.sessions[i], &ClientMessage{Id: "l", Type: "room", Room: &RoomClientMessage{RoomId: ""}})
		if !had {
			return w.observe("noroom")
		}
		return w.observe("ok")
	case "rclose":
		if len(f) != 2 {
			return bad
		}
		i, ok := w.sess(f[1])
		if !ok {
			return bad
		}
		if w.closed[i] {
			return w.observe("closed")
		}
		w.closed[i] = true
		w.sessions[i].Close()
		return w.observe("ok")
	case "rset":
		if len(f) != 5 {
			return bad
		}
		i, ok := w.sess(f[1])
		ttl, err := strconv.ParseInt(f[4], 10, 64)
		if !ok || err != nil || !(f[3] == vC14Nil || vC14RWord(f[3])) {
			return bad
		}
		td := &TransientDataClientMessage{Type: "set", Key: vDec(f[2]), TTL: time.Duration(ttl)}
		if f[3] != vC14Nil {
			td.Value, _ = json.Marshal(f[3])
		}
		return w.transient(i, td)
	case "rrm":
		if len(f) != 3 {
			return bad
		}
		i, ok := w.sess(f[1])
		if !ok {
			return bad
		}
		return w.transient(i, &TransientDataClientMessage{Type: "remove", Key: vDec(f[2])})
	case "rbset", "rbrm":
		if (f[0] == "rbset" && len(f) != 5) || (f[0] == "rbrm" && len(f) != 3) {
			return bad
		}
		room, ok := vC14RRoom(f[1])
		if !ok {
			return bad
		}
		tr := &BackendRoomTransientRequest{Action: TransientActionDelete, Key: vDec(f[2])}
		if f[0] == "rbset" {
			ttl, err := strconv.ParseInt(f[4], 10, 64)
			if err != nil || !vC14RWord(f[3]) {
				return bad
			}
			tr.Action, tr.Value, tr.TTL = TransientActionSet, f[3], time.Duration(ttl)
		}
		if err := w.events.PublishBackendRoomMessage(room, w.backend, &AsyncMessage{Type: "room",
			Room: &BackendServerRoomRequest{Type: "transient", Transient: tr, ReceivedTime: time.Now().UnixNano()}}); err != nil {
			return w.observe("error")
		}
		return w.observe("ok")
	case "rdel":
		if len(f) != 2 {
			return bad
		}
		room, ok := vC14RRoom(f[1])
		if !ok {
			return bad
		}
		return w.observe(w.post(room, map[string]interface{}{"type": "delete",
			"delete": map[string]interface{}{"userids": []interface{}{"nobody"}}}))
	case "radv":
		if len(f) != 2 {
			return bad
		}
		dt, err := strconv.ParseInt(f[1], 10, 64)
		if err != nil || dt < 0 || dt > int64(10*time.Minute) {
			return bad
		}
		if dt > 0 {
			time.Sleep(time.Duration(dt))
		}
		return w.observe("ok")
	case "rget":
		if len(f) != 1 {
			return bad
		}
		return w.observe("ok")
	}
	return bad
}

func vC14IsRoomOp(line string) bool {
	f := strings.Fields(line)
	if len(f) == 0 {
		return false
	}
	switch f[0] {
	case "rjoin", "rleave", "rclose", "rset", "rrm", "rbset", "rbrm", "rdel", "radv", "rget":
		return true
	}
	return false
}

func vC14RExec(t *testing.T, c *vCase) {
	synctest.Test(t, func(t *testing.T) {
		w := vC14RNewWorld(t)
		defer w.shutdown()
		for _, line := range c.Ops {
			c.Impl = append(c.Impl, w.exec(line))
		}
	})
}

// ---------- generator ----------
//
//   witness   fixed histories: ttl pending across last-leave + re-join of the same room, across a switch to
//             the other room, across a session close, with a second session staying behind
//   scripted  an opening that arms ttls in a room, then a leave / switch / close / re-join pattern of every
//             member, then sets of the same keys in the rooms the sessions are in now, then the old deadlines
//             pass — followed by a random continuation
//   random    PRNG histories over all ops
// The backend's room deletion (`rdel`) appears in every group: in the movement phase of the scripted openings
// (a member "leaves" by the room being deleted under it) and in the random parts.

var vC14RKeys = []string{"a", "b", "callstatus_1"}
var vC14RWords = []string{"v0", "v1", "v2"}

type vC14RGen struct {
	r      *vRand
	ops    []string
	now    int64
	serial int64
	dues   []int64
}

func (g *vC14RGen) add(format string, args ...interface{}) {
	g.ops = append(g.ops, fmt.Sprintf(format, args...))
}

func (g *vC14RGen) key() string  { return vC14Enc(vC14RKeys[g.r.intn(len(vC14RKeys))]) }
func (g *vC14RGen) word() string { return vC14RWords[g.r.intn(len(vC14RWords))] }

// ttl: zero / negative / short / long; positive ones are unique in their low-order part, so that no two
// deadlines (of any room) coincide
func (g *vC14RGen) ttl(mustArm bool) int64 {
	g.serial++
	var d int64
	switch k := g.r.intn(10); {
	case k < 2 && !mustArm:
		return 0
	case k == 2 && !mustArm:
		return -int64(g.r.intn(3)) * int64(time.Millisecond)
	case k < 7:
		d = vC14Short + g.serial*1000
	default:
		d = vC14Long + g.serial*1000
	}
	g.dues = append(g.dues, g.now+d)
	return d
}

func (g *vC14RGen) adv() {
	var dt int64
	var pending []int64
	for _, d := range g.dues {
		if d > g.now {
			pending = append(pending, d)
		}
	}
	switch k := g.r.intn(10); {
	case k == 0:
		dt = int64(g.r.intn(5)) * int64(time.Millisecond)
	case k < 7 && len(pending) > 0:
		d := pending[g.r.intn(len(pending))]
		dt = d - g.now + int64(g.r.intn(3)-1)
	case k < 8:
		dt = vC14Short + int64(g.r.intn(3))*int64(time.Millisecond)
	case k < 9:
		dt = vC14Long + int64(g.r.intn(3))*int64(time.Millisecond)
	default:
		dt = int64(g.r.intn(600)) * int64(time.Millisecond)
	}
	if dt < 0 {
		dt = 0
	}
	g.now += dt
	g.add("radv %d", dt)
}

func (g *vC14RGen) random(n int, withDelete bool) {
	for i := 0; i < n; i++ {
		s := g.r.intn(vC14RSessions)
		if g.r.chance(3, 4) {
			s = g.r.intn(2) // mostly two sessions: rooms become empty often
		}
		room := 1 + g.r.intn(vC14RRooms)
		switch k := g.r.intn(100); {
		case k < 18:
			g.add("rjoin %d %d", s, room)
		case k < 28:
			g.add("rleave %d", s)
		case k < 30:
			g.add("rclose %d", 2+g.r.intn(2))
		case k < 55:
			w := g.word()
			if g.r.chance(1, 12) {
				w = vC14Nil
			}
			g.add("rset %d %s %s %d", s, g.key(), w, g.ttl(false))
		case k < 61:
			g.add("rrm %d %s", s, g.key())
		case k < 69:
			g.add("rbset %d %s %s %d", room, g.key(), g.word(), g.ttl(false))
		case k < 72:
			g.add("rbrm %d %s", room, g.key())
		case k < 78 && withDelete:
			g.add("rdel %d", room)
		case k < 80:
			g.add("rget")
		default:
			g.adv()
		}
	}
}

// scripted: ttls pending in room 1 (and perhaps 2) across a movement of every member
func (g *vC14RGen) scripted(withDelete bool) {
	r := g.r
	members := 1 + r.intn(2)
	if r.chance(1, 6) {
		members = 3
	}
	for s := 0; s < members; s++ {
		g.add("rjoin %d 1", s)
	}
	if r.chance(1, 3) {
		g.add("rjoin 3 2")
	}
	var keys []string
	for i, n := 0, 1+r.intn(2); i < n; i++ {
		k := g.key()
		keys = append(keys, k)
		if r.chance(1, 4) {
			g.add("rbset 1 %s %s %d", k, g.word(), g.ttl(true))
		} else {
			g.add("rset %d %s %s %d", r.intn(members), k, g.word(), g.ttl(true))
		}
	}
	if r.chance(1, 4) {
		g.adv()
	}
	// every member moves (the last one out closes the room), in a random order
	order := []int{0, 1, 2}[:members]
	for i := len(order) - 1; i > 0; i-- {
		j := r.intn(i + 1)
		order[i], order[j] = order[j], order[i]
	}
	stay := -1
	if members > 1 && r.chance(1, 3) {
		stay = order[len(order)-1] // one stays behind: the room is not closed
	}
	for _, s := range order {
		if s == stay {
			continue
		}
		switch k := r.intn(10); {
		case k < 4:
			g.add("rleave %d", s)
		case k < 8:
			g.add("rjoin %d 2", s)
		case k < 9 && withDelete:
			g.add("rdel 1")
		default:
			if s >= 2 {
				g.add("rclose %d", s)
			} else {
				g.add("rleave %d", s)
			}
		}
	}
	if withDelete && r.chance(1, 6) {
		g.add("rdel 1")
	}
	// … and is somewhere again
	for _, s := range order {
		if s == stay || (s >= 2 && r.chance(1, 2)) {
			continue
		}
		switch k := r.intn(10); {
		case k < 6:
			g.add("rjoin %d 1", s)
		case k < 9:
			g.add("rjoin %d 2", s)
		}
	}
	// the same keys in the rooms of now, mostly without a ttl
	for _, k := range keys {
		for room := 1; room <= vC14RRooms; room++ {
			if r.chance(2, 3) {
				ttl := int64(0)
				if r.chance(1, 4) {
					ttl = g.ttl(true)
				}
				if r.chance(1, 3) {
					g.add("rbset %d %s %s %d", room, k, g.word(), ttl)
				} else {
					g.add("rset %d %s %s %d", r.intn(members), k, g.word(), ttl)
				}
			}
		}
	}
	// the deadlines of the opening pass
	g.now += vC14Short + 200*1000
	g.add("radv %d", vC14Short+200*1000)
	g.random(r.intn(8), withDelete)
	g.add("radv %d", 2*vC14Long)
	g.add("rget")
}

func vC14RoomsGen(e *vEnv, r *vRand) []vCase {
	var cases []vCase
	short, long := vC14Short+1000, vC14Long+2000
	witness := [][]string{
		// alone: ttl pending, last leave, same room again, same key without ttl, old deadline passes
		{"rjoin 0 1", fmt.Sprintf("rset 0 a v0 %d", short), "rleave 0", "rjoin 0 1", "rset 0 a v0 0", fmt.Sprintf("radv %d", short+5), "rget"},
		// … the other room instead
		{"rjoin 0 1", fmt.Sprintf("rset 0 a v0 %d", short), "rjoin 0 2", "rset 0 a v1 0", fmt.Sprintf("radv %d", short+5), "rget"},
		// … the key is not in the new room at all
		{"rjoin 0 1", fmt.Sprintf("rset 0 a v0 %d", short), "rjoin 0 2", "rset 0 b v1 0", fmt.Sprintf("radv %d", short+5), "rget"},
		// somebody stays behind: the room lives on, the expiry reaches the one who stayed only
		{"rjoin 0 1", "rjoin 1 1", fmt.Sprintf("rset 0 a v0 %d", short), "rjoin 0 2", "rset 0 a v1 0", fmt.Sprintf("radv %d", short+5), "rget"},
		// a late joiner gets the snapshot, the value expires for both
		{"rjoin 0 1", fmt.Sprintf("rset 0 a v0 %d", long), "rbset 1 b v1 0", "rjoin 1 1", fmt.Sprintf("radv %d", long+5), "rget"},
		// close instead of leave
		{"rjoin 2 1", fmt.Sprintf("rset 2 a v0 %d", short), "rclose 2", "rjoin 0 1", "rset 0 a v0 0", fmt.Sprintf("radv %d", short+5), "rget"},
		// both leave, one after the other, both come back
		{"rjoin 0 1", "rjoin 1 1", fmt.Sprintf("rset 1 a v0 %d", short), "rleave 0", "rleave 1", "rjoin 1 1", "rjoin 0 1", "rset 0 a v2 0", fmt.Sprintf("radv %d", short+5), "rget"},
		// the backend deletes the room with a ttl pending; same room again; other room
		{"rjoin 0 1", fmt.Sprintf("rset 0 a v0 %d", short), "rdel 1", "rjoin 0 1", "rset 0 a v0 0", fmt.Sprintf("radv %d", short+5), "rget"},
		{"rjoin 0 1", "rjoin 1 1", fmt.Sprintf("rbset 1 a v0 %d", short), "rdel 1", "rjoin 1 2", "rset 1 a v1 0", fmt.Sprintf("radv %d", short+5), "rget"},
		// not in a room / closed session / unknown room
		{"rset 0 a v0 0", "rjoin 0 1", "rjoin 0 1", "rbset 2 a v0 0", "rclose 3", "rjoin 3 1", "rset 3 a v0 0", "rleave 1", "rget"},
	}
	for _, ops := range witness {
		cases = append(cases, vCase{Ops: ops, Tags: []string{"rooms", "witness"}})
	}
	ns := e.scale(550, 4300)
	for i := 0; i < ns; i++ {
		g := &vC14RGen{r: r.fork()}
		g.scripted(true)
		cases = append(cases, vCase{Ops: g.ops, Tags: []string{"rooms", "scripted"}})
	}
	nr := e.scale(550, 4300)
	maxOps := e.scale(25, 60)
	for i := 0; i < nr; i++ {
		g := &vC14RGen{r: r.fork()}
		g.random(6+g.r.intn(maxOps), true)
		g.add("radv %d", 2*vC14Long)
		g.add("rget")
		cases = append(cases, vCase{Ops: g.ops, Tags: []string{"rooms", "random"}})
	}
	return cases
}
