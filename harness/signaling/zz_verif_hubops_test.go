package signaling

import (
	"bytes"
	"crypto/hmac"
	"crypto/sha256"
	"encoding/hex"
	"encoding/json"
	"fmt"
	"net/http"
	"sort"
	"strconv"
	"strings"
	"sync"
	"testing"
	"time"
)

var vHubVarsOnce sync.Once

func vHubSetVars() {
	vHubVarsOnce.Do(func() {
		initialHelloTimeout = 1 * time.Hour
		anonmyousJoinRoomTimeout = 2 * time.Hour
		sessionExpireDuration = 3 * time.Hour
		housekeepingInterval = 24 * time.Hour
		updateActiveSessionsInterval = 24 * time.Hour
	})
}

func vList(tok string) []string {
	if tok == "-" || tok == "" {
		return nil
	}
	parts := strings.Split(tok, ",")
	out := make([]string, 0, len(parts))
	for _, p := range parts {
		out = append(out, p)
	}
	return out
}

func vDecList(tok string) []string {
	var out []string
	for _, p := range vList(tok) {
		out = append(out, vDec(p))
	}
	return out
}

// sessionConn finds the harness connection a session symbol is attached to (-1: none).
func (h *vHub) sessionConn(tok string) (int, *ClientSession) {
	sess := h.hub.GetSessionByPublicId(h.pub(tok))
	cs, ok := sess.(*ClientSession)
	if !ok || cs == nil {
		return -1, nil
	}
	c := cs.GetClient()
	if c == nil {
		return -1, cs
	}
	sym := h.connSym(c)
	if strings.HasPrefix(sym, "c") {
		if n, err := strconv.Atoi(sym[1:]); err == nil {
			return n, cs
		}
	}
	return -1, cs
}

func (h *vHub) clientOfConn(id int) *Client {
	want := fmt.Sprintf("c%d", id)
	h.hub.mu.RLock()
	var cands []*Client
	for _, c := range h.hub.clients {
		if cl, ok := c.(*Client); ok {
			cands = append(cands, cl)
		}
	}
	for c := range h.hub.expectHelloClients {
		if cl, ok := c.(*Client); ok {
			cands = append(cands, cl)
		}
	}
	h.hub.mu.RUnlock()
	for _, cl := range cands {
		if h.connSym(cl) == want {
			return cl
		}
	}
	h.mu.Lock()
	defer h.mu.Unlock()
	for cl, cid := range h.clientIds {
		if cid == id {
			return cl
		}
	}
	return nil
}

func vDataJSON(tok string) json.RawMessage {
	d := vDec(tok)
	if d == "chat-refresh" {
		return json.RawMessage(`{"type":"chat","chat":{"refresh":true}}`)
	}
	data, _ := json.Marshal(map[string]string{"v": d})
	return data
}

func (h *vHub) nextId() string {
	h.mu.Lock()
	defer h.mu.Unlock()
	h.msgId++
	return strconv.Itoa(h.msgId)
}

func (h *vHub) postApi(b int, room string, body interface{}) {
	data, _ := json.Marshal(body)
	rnd := newRandomString(32)
	mac := hmac.New(sha256.New, []byte(h.secrets[b]))
	mac.Write([]byte(rnd)) // nolint
	mac.Write(data)        // nolint
	req, _ := http.NewRequest("POST", h.server.URL+"/api/v1/room/"+room, bytes.NewReader(data))
	req.Header.Set("Content-Type", "application/json")
	req.Header.Set(HeaderBackendSignalingRandom, rnd)
	req.Header.Set(HeaderBackendSignalingChecksum, hex.EncodeToString(mac.Sum(nil)))
	req.Header.Set(HeaderBackendServer, vHubBackendUrl(h, b))
	resp, err := http.DefaultClient.Do(req)
	if err == nil {
		resp.Body.Close()
	}
	h.activity.Add(1)
}

// exec runs one op and reports what was observed.  "par a ;; b [;; c]" issues its sub-ops from concurrent
// goroutines; only the tables at rest are reported for it (whichever order the server took them in).
func (h *vHub) exec(op string) string {
	par := strings.HasPrefix(op, "par ")
	if strings.HasPrefix(op, "joinrace ") || strings.HasPrefix(op, "vaddrace ") {
		h.issue(op)
		return h.collect(true)
	}
	if par {
		var wg sync.WaitGroup
		subs := strings.Split(strings.TrimPrefix(op, "par "), ";;")
		n := 0
		for _, sub := range subs {
			f := strings.Fields(sub)
			if len(f) > 3 && ((f[0] == "hello" && f[3] == "c") || (f[0] == "join" && vDec(f[2]) != "")) {
				n++
			}
		}
		h.mu.Lock()
		h.barN, h.barSeen, h.barCh = n, 0, make(chan struct{})
		h.mu.Unlock()
		defer func() {
			h.mu.Lock()
			h.barN, h.barCh = 0, nil
			h.mu.Unlock()
		}()
		for _, sub := range subs {
			sub := strings.TrimSpace(sub)
			if sub == "" {
				continue
			}
			wg.Add(1)
			go func() {
				defer wg.Done()
				h.issue(sub)
			}()
		}
		wg.Wait()
	} else {
		h.issue(op)
	}
	return h.collect(par)
}

func (h *vHub) issue(op string) {
	f := strings.Fields(op)
	atoi := func(s string) int { n, _ := strconv.Atoi(s); return n }
	switch f[0] {
	case "connect":
		h.connect(atoi(f[1]))
	case "hello":
		c, b := atoi(f[1]), atoi(f[2])
		var features []string
		if f[5] == "1" {
			features = append(features, ClientFeatureStartDialout)
		}
		if f[6] == "1" {
			features = append(features, ClientFeatureInternalInCall)
		}
		var auth map[string]interface{}
		if f[3] == "i" {
			rnd := newRandomString(48)
			mac := hmac.New(sha256.New, []byte(vHubInternalSecret))
			mac.Write([]byte(rnd)) // nolint
			auth = map[string]interface{}{"type": "internal", "params": map[string]string{
				"random": rnd, "token": hex.EncodeToString(mac.Sum(nil)), "backend": vHubBackendUrl(h, b)}}
		} else {
			auth = map[string]interface{}{"url": vHubBackendUrl(h, b), "params": map[string]string{"userid": vDec(f[4])}}
		}
		id := h.nextId()
		h.send(c, map[string]interface{}{"id": id, "type": "hello",
			"hello": map[string]interface{}{"version": "1.0", "auth": auth, "features": features}})
		h.waitReply(c, id)
	case "resume":
		c := atoi(f[1])
		id := "this-is-not-a-resume-id"
		if strings.HasPrefix(f[2], "s") {
			h.mu.Lock()
			if p, ok := h.privOf[atoi(f[2][1:])]; ok {
				id = p
			}
			h.mu.Unlock()
		} else if strings.HasPrefix(f[2], "pub") {
			// the public id of the most recent session
			h.mu.Lock()
			if p, ok := h.pubOf[h.nextSym-1]; ok {
				id = p
			}
			h.mu.Unlock()
		}
		mid := h.nextId()
		h.send(c, map[string]interface{}{"id": mid, "type": "hello",
			"hello": map[string]interface{}{"version": "1.0", "resumeid": id}})
		h.waitReply(c, mid)
	case "disconnect":
		id := atoi(f[1])
		c := h.conns[id]
		if c != nil && !c.isClosed() {
			cl := h.clientOfConn(id)
			c.ws.Close()
			if cl != nil {
				deadline := time.Now().Add(3 * time.Second)
				for time.Now().Before(deadline) {
					h.hub.mu.RLock()
					_, waiting := h.hub.expectHelloClients[cl]
					h.hub.mu.RUnlock()
					if cl.GetSession() == nil && !waiting && cl.closed.Load() >= 2 {
						break
					}
					time.Sleep(time.Millisecond)
				}
			}
		}
	case "bye":
		mid := h.nextId()
		h.send(atoi(f[1]), map[string]interface{}{"id": mid, "type": "bye", "bye": map[string]interface{}{}})
		h.waitReply(atoi(f[1]), mid)
	case "hk":
		level := atoi(f[1])
		now := time.Now()
		if level > 0 {
			now = now.Add(time.Duration(level)*time.Hour + 30*time.Minute)
		}
		h.hub.performHousekeeping(now)
	case "join":
		c, _ := h.sessionConn(f[1])
		if c < 0 {
			break
		}
		reply := &vRoomReply{kind: "ok"}
		switch {
		case f[4] == "fail":
			reply.kind = "fail"
		case strings.HasPrefix(f[4], "err:"):
			reply.kind, reply.code = "err", vDec(f[4][4:])
		default:
			for _, part := range strings.Split(f[4], ":")[1:] {
				if strings.HasPrefix(part, "p=") {
					reply.hasPerms = true
					if part != "p=" {
						for _, p := range strings.Split(part[2:], "+") {
							reply.perms = append(reply.perms, vDec(p))
						}
					}
				} else if strings.HasPrefix(part, "u=") {
					reply.sessUser = vDec(part[2:])
				}
			}
		}
		h.mu.Lock()
		h.roomReply = reply
		h.mu.Unlock()
		mid := h.nextId()
		h.send(c, map[string]interface{}{"id": mid, "type": "room",
			"room": map[string]interface{}{"roomid": vDec(f[2]), "sessionid": vDec(f[3])}})
		if vDec(f[2]) != "" {
			h.waitReply(c, mid)
		}
	case "msg":
		c, _ := h.sessionConn(f[1])
		if c < 0 {
			break
		}
		rcpt := map[string]interface{}{}
		switch f[3] {
		case "s":
			rcpt["type"] = "session"
			rcpt["sessionid"] = h.pub(f[4])
		case "u":
			rcpt["type"] = "user"
			rcpt["userid"] = vDec(f[4])
		case "r":
			rcpt["type"] = "room"
		case "c":
			rcpt["type"] = "call"
		}
		typ := "message"
		if f[2] == "c" {
			typ = "control"
		}
		inner := map[string]interface{}{"recipient": rcpt, "data": vDataJSON(f[5]),
			// forged fields a client may add: ignored by the server
			"sender": map[string]string{"type": "session", "sessionid": "forged", "userid": "forged"}}
		h.send(c, map[string]interface{}{"id": h.nextId(), "type": typ, typ: inner})
	case "vadd":
		c, _ := h.sessionConn(f[1])
		if c < 0 {
			break
		}
		h.mu.Lock()
		h.sessionOk = f[6] == "1"
		h.mu.Unlock()
		add := map[string]interface{}{"sessionid": vDec(f[3]), "roomid": vDec(f[2]), "userid": vDec(f[4])}
		if f[5] != "-" {
			add["incall"] = atoi(f[5])
		}
		h.send(c, map[string]interface{}{"id": h.nextId(), "type": "internal",
			"internal": map[string]interface{}{"type": "addsession", "addsession": add}})
	case "vrm":
		c, _ := h.sessionConn(f[1])
		if c < 0 {
			break
		}
		h.send(c, map[string]interface{}{"id": h.nextId(), "type": "internal",
			"internal": map[string]interface{}{"type": "removesession",
				"removesession": map[string]interface{}{"sessionid": vDec(f[3]), "roomid": vDec(f[2])}}})
	case "iincall":
		c, _ := h.sessionConn(f[1])
		if c < 0 {
			break
		}
		h.send(c, map[string]interface{}{"id": h.nextId(), "type": "internal",
			"internal": map[string]interface{}{"type": "incall", "incall": map[string]interface{}{"incall": atoi(f[2])}}})
	case "joinrace":
		// joinrace sN room rsid c2: sN sends a join whose backend reply is held; the session is taken over by
		// connection c2 and says bye there; then the reply is released.
		c, _ := h.sessionConn(f[1])
		c2 := atoi(f[4])
		if c < 0 {
			break
		}
		hold := make(chan struct{})
		arrived := make(chan struct{}, 1)
		h.mu.Lock()
		h.roomReply = &vRoomReply{kind: "ok"}
		h.roomHold, h.roomArrived = hold, arrived
		priv := ""
		if n, err := strconv.Atoi(f[1][1:]); err == nil {
			priv = h.privOf[n]
		}
		h.mu.Unlock()
		h.send(c, map[string]interface{}{"id": h.nextId(), "type": "room",
			"room": map[string]interface{}{"roomid": vDec(f[2]), "sessionid": vDec(f[3])}})
		select {
		case <-arrived:
		case <-time.After(2 * time.Second):
		}
		mid := h.nextId()
		h.send(c2, map[string]interface{}{"id": mid, "type": "hello",
			"hello": map[string]interface{}{"version": "1.0", "resumeid": priv}})
		h.waitReply(c2, mid)
		mid = h.nextId()
		h.send(c2, map[string]interface{}{"id": mid, "type": "bye", "bye": map[string]interface{}{}})
		h.waitReply(c2, mid)
		// give the close a moment, then let the backend answer
		time.Sleep(time.Duration(h.raceDelayMs) * time.Millisecond)
		close(hold)
		h.mu.Lock()
		h.roomHold, h.roomArrived = nil, nil
		h.mu.Unlock()
	case "vaddrace":
		// vaddrace sN room key user c2: the internal session sN asks to add a virtual session; the backend's
		// answer is held; the session is taken over by connection c2 and says bye there; then the answer arrives.
		c, _ := h.sessionConn(f[1])
		c2 := atoi(f[5])
		if c < 0 {
			break
		}
		hold := make(chan struct{})
		arrived := make(chan struct{}, 1)
		h.mu.Lock()
		h.sessionOk = true
		h.addHold, h.addArrived = hold, arrived
		priv := ""
		if n, err := strconv.Atoi(f[1][1:]); err == nil {
			priv = h.privOf[n]
		}
		h.mu.Unlock()
		h.send(c, map[string]interface{}{"id": h.nextId(), "type": "internal",
			"internal": map[string]interface{}{"type": "addsession", "addsession": map[string]interface{}{
				"sessionid": vDec(f[3]), "roomid": vDec(f[2]), "userid": vDec(f[4])}}})
		select {
		case <-arrived:
		case <-time.After(2 * time.Second):
		}
		mid := h.nextId()
		h.send(c2, map[string]interface{}{"id": mid, "type": "hello",
			"hello": map[string]interface{}{"version": "1.0", "resumeid": priv}})
		h.waitReply(c2, mid)
		mid = h.nextId()
		h.send(c2, map[string]interface{}{"id": mid, "type": "bye", "bye": map[string]interface{}{}})
		h.waitReply(c2, mid)
		time.Sleep(time.Duration(h.raceDelayMs) * time.Millisecond)
		close(hold)
		h.mu.Lock()
		h.addHold, h.addArrived = nil, nil
		h.mu.Unlock()
	case "fed":
		// the bookkeeping of a join of a federated room (processRoom: h.federatedSessions[session] = true)
		// without a second hub to federate with: only the table C07 talks about is touched
		if _, cs := h.sessionConn(f[1]); cs != nil {
			h.hub.mu.Lock()
			h.hub.federatedSessions[cs] = true
			h.hub.mu.Unlock()
		}
	case "limit":
		for _, b := range h.hub.backend.GetBackends() {
			if b.Id() == "b"+f[1] {
				b.sessionLimit = uint64(atoi(f[2]))
			}
		}
	case "api":
		b, room := atoi(f[1]), vDec(f[2])
		pairs := func(tok string) []map[string]interface{} {
			out := []map[string]interface{}{}
			for _, e := range vList(tok) {
				p := strings.Split(e, ":")
				m := map[string]interface{}{"sessionId": vDec(p[0])}
				if len(p) > 1 {
					if strings.HasPrefix(p[1], "p=") {
						perms := []string{}
						if p[1] != "p=" {
							for _, x := range strings.Split(p[1][2:], "+") {
								perms = append(perms, vDec(x))
							}
						}
						m["permissions"] = perms
					} else {
						m["inCall"] = atoi(p[1])
					}
				}
				out = append(out, m)
			}
			return out
		}
		switch f[3] {
		case "invite":
			h.postApi(b, room, map[string]interface{}{"type": "invite", "invite": map[string]interface{}{
				"userids": vDecList(f[4]), "alluserids": vDecList(f[5])}})
		case "disinvite":
			h.postApi(b, room, map[string]interface{}{"type": "disinvite", "disinvite": map[string]interface{}{
				"userids": vDecList(f[4]), "sessionids": vDecList(f[5]), "alluserids": vDecList(f[6])}})
		case "delete":
			h.postApi(b, room, map[string]interface{}{"type": "delete", "delete": map[string]interface{}{"userids": []string{}}})
		case "message":
			h.postApi(b, room, map[string]interface{}{"type": "message", "message": map[string]interface{}{"data": vDataJSON(f[4])}})
		case "incallall":
			h.postApi(b, room, map[string]interface{}{"type": "incall", "incall": map[string]interface{}{"incall": atoi(f[4]), "all": true}})
		case "incall":
			h.postApi(b, room, map[string]interface{}{"type": "incall", "incall": map[string]interface{}{
				"incall": 0, "changed": pairs(f[4]), "users": pairs(f[5])}})
		case "participants":
			h.postApi(b, room, map[string]interface{}{"type": "participants", "participants": map[string]interface{}{
				"changed": pairs(f[4]), "users": pairs(f[5])}})
		case "switchto":
			h.postApi(b, room, map[string]interface{}{"type": "switchto", "switchto": map[string]interface{}{
				"roomid": vDec(f[4]), "sessions": vDecList(f[5])}})
		}
	}
}

func (h *vHub) collect(digestOnly bool) string {
	h.settle()
	h.learnFromHub()
	var toks []string
	ids := make([]int, 0, len(h.conns))
	for id := range h.conns {
		ids = append(ids, id)
	}
	sort.Ints(ids)
	// learn session ids from hello replies before canonicalising anything else
	taken := map[int][]*ServerMessage{}
	for _, id := range ids {
		taken[id] = h.conns[id].take()
		for _, m := range taken[id] {
			if m.Type == "hello" && m.Hello != nil {
				h.learn(m.Hello.SessionId, m.Hello.ResumeId)
			}
		}
	}
	for _, id := range ids {
		for _, m := range taken[id] {
			if tok := h.canon(m); tok != "" {
				toks = append(toks, fmt.Sprintf("c%d=%s", id, tok))
			}
		}
	}
	// what the backend was told about virtual sessions that went away
	h.mu.Lock()
	told := h.told
	h.told = nil
	h.mu.Unlock()
	for _, e := range told {
		toks = append(toks, fmt.Sprintf("B=told(%s,%s)", vEnc(e[0]), h.sym(e[1])))
	}
	// sessions on the list of federated sessions (not part of the model's tables: judged, not compared)
	h.hub.mu.RLock()
	var feds []string
	for cs := range h.hub.federatedSessions {
		feds = append(feds, cs.PublicId())
	}
	h.hub.mu.RUnlock()
	for _, pub := range feds {
		toks = append(toks, "F="+h.sym(pub))
	}
	if digestOnly {
		// a concurrent step reports the tables at rest and what the backend was told, not the deliveries
		var kept []string
		for _, t := range toks {
			if strings.HasPrefix(t, "B=") {
				kept = append(kept, t)
			}
		}
		toks = kept
	}
	sort.Strings(toks)
	return strings.Join(append(toks, h.digest()), " ")
}

func vHubExec(t *testing.T, c *vCase) {
	vHubSetVars()
	nb := 2
	var flat []string
	for _, op := range c.Ops {
		if strings.HasPrefix(op, "par ") {
			flat = append(flat, strings.Split(strings.TrimPrefix(op, "par "), ";;")...)
		} else {
			flat = append(flat, op)
		}
	}
	for _, op := range flat {
		f := strings.Fields(op)
		if len(f) > 2 && (f[0] == "hello" || f[0] == "api" || f[0] == "limit") {
			idx := 2
			if f[0] != "hello" {
				idx = 1
			}
			if b, err := strconv.Atoi(f[idx]); err == nil && b+1 > nb {
				nb = b + 1
			}
		}
	}
	h := newVHub(t, nb)
	defer h.close()
	for _, op := range c.Ops {
		c.Impl = append(c.Impl, h.exec(op))
	}
}

// ---------- generator ----------

type vGenSess struct {
	backend  int
	internal bool
	room     string
	conn     int
	user     string
	alive    bool
	virtual  bool
	parent   int
	vkey     string
}

type vGen struct {
	r        *vRand
	ops      []string
	connOpen map[int]bool
	connSess map[int]int
	sess     map[int]*vGenSess
	nextSym  int
	rooms    []string
	users    []string
	rsids    []string
	nb       int
}

func (g *vGen) emit(f string, a ...interface{}) { g.ops = append(g.ops, fmt.Sprintf(f, a...)) }

func (g *vGen) liveSessions(pred func(*vGenSess) bool) []int {
	var out []int
	for id, s := range g.sess {
		if s.alive && (pred == nil || pred(s)) {
			out = append(out, id)
		}
	}
	sort.Ints(out)
	return out
}

func (g *vGen) pickSess(pred func(*vGenSess) bool) int {
	l := g.liveSessions(pred)
	if len(l) == 0 {
		// sometimes reference a session that does not exist (any more)
		return 1 + g.r.intn(g.nextSym+1)
	}
	return l[g.r.intn(len(l))]
}

func (g *vGen) roomMembers(b int, room string) int {
	n := 0
	for _, s := range g.sess {
		if s.alive && s.backend == b && s.room == room {
			n++
		}
	}
	return n
}

func (g *vGen) closeSess(id int) {
	s := g.sess[id]
	if s == nil || !s.alive {
		return
	}
	s.alive = false
	if s.conn >= 0 {
		delete(g.connSess, s.conn)
	}
	for vid, v := range g.sess {
		if v.alive && v.virtual && v.parent == id {
			g.sess[vid].alive = false
		}
	}
}

func (g *vGen) step() {
	r := g.r
	connected := func(s *vGenSess) bool { return !s.virtual && s.conn >= 0 }
	switch k := r.intn(100); {
	case k < 8:
		c := 1 + r.intn(6)
		g.emit("connect %d", c)
		g.connOpen[c] = true
	case k < 20: // hello
		c := 1 + r.intn(6)
		if !g.connOpen[c] && r.chance(3, 4) {
			g.emit("connect %d", c)
			g.connOpen[c] = true
		}
		b := r.intn(g.nb)
		kind, user, d, i := "c", g.users[r.intn(len(g.users))], 0, 0
		if r.chance(1, 5) {
			kind, user = "i", ""
			d, i = r.intn(2), r.intn(2)
		}
		g.emit("hello %d %d %s %s %d %d", c, b, kind, vEnc(user), d, i)
		if g.connOpen[c] {
			if _, has := g.connSess[c]; !has {
				id := g.nextSym
				g.nextSym++
				g.sess[id] = &vGenSess{backend: b, internal: kind == "i", conn: c, user: user, alive: true}
				g.connSess[c] = id
			}
		}
	case k < 38: // join / leave
		s := g.pickSess(connected)
		room := g.rooms[r.intn(len(g.rooms))]
		if r.chance(1, 6) {
			room = ""
		}
		rs := g.rsids[r.intn(len(g.rsids))]
		if r.chance(1, 5) {
			rs = ""
		}
		if gs := g.sess[s]; gs != nil && gs.internal {
			// an internal session that is kicked through its room session id closes its virtual
			// sessions in a goroutine of its own, racing with the join that kicked it
			rs = ""
		}
		reply := "ok"
		switch r.intn(12) {
		case 0:
			reply = "fail"
		case 1:
			reply = "err:" + vEnc("not_allowed")
		case 2, 3:
			perms := []string{"control", "publish-media", "transient-data", "publish-audio"}
			var ps []string
			for _, p := range perms {
				if r.chance(1, 2) {
					ps = append(ps, vEnc(p))
				}
			}
			reply = "ok:p=" + strings.Join(ps, "+")
		case 4:
			reply = "ok:u=" + vEnc(g.users[r.intn(len(g.users))])
		}
		g.emit("join s%d %s %s %s", s, vEnc(room), vEnc(rs), reply)
		if gs := g.sess[s]; gs != nil && gs.alive && gs.conn >= 0 && (strings.HasPrefix(reply, "ok") || gs.internal) {
			gs.room = room
		}
	case k < 56: // message / control
		s := g.pickSess(connected)
		kind := "m"
		if r.chance(1, 3) {
			kind = "c"
		}
		data := fmt.Sprintf("d%d", r.intn(1000))
		if r.chance(1, 8) {
			data = "chat-refresh"
		}
		switch r.intn(4) {
		case 0:
			t := fmt.Sprintf("s%d", g.pickSess(nil))
			if r.chance(1, 10) {
				t = "bad"
			}
			g.emit("msg s%d %s s %s %s", s, kind, t, vEnc(data))
		case 1:
			g.emit("msg s%d %s u %s %s", s, kind, vEnc(g.users[r.intn(len(g.users))]), vEnc(data))
		case 2:
			g.emit("msg s%d %s r - %s", s, kind, vEnc(data))
		default:
			g.emit("msg s%d %s c - %s", s, kind, vEnc(data))
		}
	case k < 59: // a session is put on the list of federated sessions
		g.emit("fed s%d", g.pickSess(func(s *vGenSess) bool { return !s.virtual && !s.internal && s.conn >= 0 }))
	case k < 64: // disconnect
		c := 1 + r.intn(6)
		g.emit("disconnect %d", c)
		if id, ok := g.connSess[c]; ok {
			g.sess[id].conn = -1
			delete(g.connSess, c)
		}
		g.connOpen[c] = false
	case k < 69: // resume
		c := 1 + r.intn(6)
		if !g.connOpen[c] {
			g.emit("connect %d", c)
			g.connOpen[c] = true
		}
		var target string
		switch r.intn(8) {
		case 0:
			target = "bad"
		case 1:
			target = "pub"
		default:
			id := g.pickSess(func(s *vGenSess) bool { return !s.virtual && (s.conn < 0 || r.chance(1, 4)) })
			target = fmt.Sprintf("s%d", id)
			if _, busy := g.connSess[c]; !busy {
				if gs := g.sess[id]; gs != nil && gs.alive && !gs.virtual {
					if gs.conn >= 0 {
						delete(g.connSess, gs.conn)
						g.connOpen[gs.conn] = false
					}
					gs.conn = c
					g.connSess[c] = id
				}
			}
		}
		g.emit("resume %d %s", c, target)
	case k < 72: // bye
		c := 1 + r.intn(6)
		g.emit("bye %d", c)
		if id, ok := g.connSess[c]; ok {
			g.closeSess(id)
			g.connOpen[c] = false
		}
	case k < 75: // housekeeping
		level := r.intn(4)
		g.emit("hk %d", level)
		if level >= 3 {
			for _, id := range g.liveSessions(func(s *vGenSess) bool { return !s.virtual && s.conn < 0 }) {
				g.closeSess(id)
			}
		}
		if level >= 2 {
			for _, id := range g.liveSessions(func(s *vGenSess) bool { return !s.virtual && !s.internal && s.user == "" && s.room == "" }) {
				if c := g.sess[id].conn; c >= 0 {
					g.connOpen[c] = false
				}
				g.closeSess(id)
			}
		}
		if level >= 1 {
			for c, open := range g.connOpen {
				if _, has := g.connSess[c]; open && !has {
					g.connOpen[c] = false
				}
			}
		}
	case k < 83: // virtual sessions
		internal := func(s *vGenSess) bool { return s.internal && s.conn >= 0 }
		s := g.pickSess(internal)
		if r.chance(1, 6) {
			s = g.pickSess(connected) // an ordinary client tries
		}
		room := g.rooms[r.intn(len(g.rooms))]
		if gs := g.sess[s]; gs != nil && gs.room != "" && r.chance(3, 4) {
			room = gs.room
		}
		vkey := fmt.Sprintf("v%d", r.intn(3))
		switch r.intn(5) {
		case 0, 1, 2:
			ic := "-"
			if r.chance(1, 3) {
				ic = strconv.Itoa(r.intn(8))
			}
			ok := 1
			if r.chance(1, 10) {
				ok = 0
			}
			g.emit("vadd s%d %s %s %s %s %d", s, vEnc(room), vEnc(vkey), vEnc(g.users[r.intn(len(g.users))]), ic, ok)
			if gs := g.sess[s]; gs != nil && gs.alive && gs.internal && gs.conn >= 0 && ok == 1 && g.roomMembers(gs.backend, room) > 0 {
				id := g.nextSym
				g.nextSym++
				g.sess[id] = &vGenSess{backend: gs.backend, virtual: true, parent: s, vkey: vkey, room: room, conn: -1, alive: true}
			}
		case 3:
			g.emit("vrm s%d %s %s", s, vEnc(room), vEnc(vkey))
			for id, v := range g.sess {
				if v.alive && v.virtual && v.parent == s && v.vkey == vkey {
					if gs := g.sess[s]; gs != nil && g.roomMembers(gs.backend, room) > 0 {
						g.sess[id].alive = false
					}
				}
			}
		default:
			g.emit("iincall s%d %d", s, r.intn(8))
		}
	default: // backend API
		b := r.intn(g.nb)
		room := g.rooms[r.intn(len(g.rooms))]
		somelist := func(pool []string, max int) string {
			n := r.intn(max + 1)
			if n == 0 {
				return "-"
			}
			var out []string
			seen := map[string]bool{}
			for i := 0; i < n; i++ {
				x := pool[r.intn(len(pool))]
				if !seen[x] {
					seen[x] = true
					out = append(out, vEnc(x))
				}
			}
			return strings.Join(out, ",")
		}
		users := g.users[1:] // no anonymous user id in API calls
		switch r.intn(9) {
		case 0:
			g.emit("api %d %s invite %s %s", b, vEnc(room), somelist(users, 2), somelist(users, 3))
		case 1:
			// either by user or by Nextcloud session id: a session addressed both ways closes after the
			// first copy, racing with the second
			du, dr := somelist(users, 1), "-"
			if r.chance(1, 2) {
				du, dr = "-", somelist(g.rsids, 2)
			}
			g.emit("api %d %s disinvite %s %s %s", b, vEnc(room), du, dr, somelist(users, 2))
		case 2:
			g.emit("api %d %s delete", b, vEnc(room))
			for _, s := range g.sess {
				if s.alive && s.backend == b && s.room == room {
					s.room = ""
				}
			}
		case 3:
			g.emit("api %d %s message %s", b, vEnc(room), vEnc(fmt.Sprintf("bm%d", r.intn(100))))
		case 4:
			g.emit("api %d %s incallall %d", b, vEnc(room), r.intn(8))
		case 5, 6:
			pl := func(max int) string {
				n := r.intn(max + 1)
				if n == 0 {
					return "-"
				}
				var out []string
				seen := map[string]bool{}
				for i := 0; i < n; i++ {
					rs := g.rsids[r.intn(len(g.rsids))]
					if seen[rs] {
						continue
					}
					seen[rs] = true
					out = append(out, fmt.Sprintf("%s:%d", vEnc(rs), r.intn(8)))
				}
				return strings.Join(out, ",")
			}
			g.emit("api %d %s incall %s %s", b, vEnc(room), pl(2), pl(3))
		case 7:
			ch := func() string {
				n := r.intn(3)
				if n == 0 {
					return "-"
				}
				var out []string
				seen := map[string]bool{}
				for i := 0; i < n; i++ {
					rs := g.rsids[r.intn(len(g.rsids))]
					if seen[rs] {
						continue
					}
					seen[rs] = true
					e := vEnc(rs)
					if r.chance(2, 3) {
						var ps []string
						for _, p := range []string{"control", "publish-media", "transient-data"} {
							if r.chance(1, 2) {
								ps = append(ps, p)
							}
						}
						e += ":p=" + strings.Join(ps, "+")
					}
					out = append(out, e)
				}
				return strings.Join(out, ",")
			}
			us := func() string {
				n := r.intn(3)
				if n == 0 {
					return "-"
				}
				var out []string
				seen := map[string]bool{}
				for i := 0; i < n; i++ {
					rs := g.rsids[r.intn(len(g.rsids))]
					if !seen[rs] {
						seen[rs] = true
						out = append(out, vEnc(rs))
					}
				}
				return strings.Join(out, ",")
			}
			g.emit("api %d %s participants %s %s", b, vEnc(room), ch(), us())
		default:
			g.emit("api %d %s switchto %s %s", b, vEnc(room), vEnc(g.rooms[r.intn(len(g.rooms))]), somelist(g.rsids, 2))
		}
	}
}

// ---------- scripted openings ----------
//
// A purely random walk rarely builds the configurations the properties talk about (a virtual session
// addressed from another backend, the same Nextcloud session id on two backends, two interruptions of one
// session, ...).  Half of the cases therefore start with one of these openings -- parameters still drawn
// from the case's PRNG -- and continue with the random walk.

func (g *vGen) opConnect(c int) {
	g.emit("connect %d", c)
	g.connOpen[c] = true
}

func (g *vGen) freeConn() int {
	for c := 1; c <= 6; c++ {
		if _, busy := g.connSess[c]; !busy {
			return c
		}
	}
	return 1 + g.r.intn(6)
}

func (g *vGen) opHello(c, b int, kind, user string, d, i int) int {
	if !g.connOpen[c] {
		g.opConnect(c)
	}
	g.emit("hello %d %d %s %s %d %d", c, b, kind, vEnc(user), d, i)
	if _, has := g.connSess[c]; has {
		return -1
	}
	id := g.nextSym
	g.nextSym++
	g.sess[id] = &vGenSess{backend: b, internal: kind == "i", conn: c, user: user, alive: true}
	g.connSess[c] = id
	return id
}

func (g *vGen) opJoin(s int, room, rs, reply string) {
	g.emit("join s%d %s %s %s", s, vEnc(room), vEnc(rs), reply)
	if gs := g.sess[s]; gs != nil && gs.alive && gs.conn >= 0 && (strings.HasPrefix(reply, "ok") || gs.internal) {
		gs.room = room
	}
}

func (g *vGen) opVadd(s int, room, vkey, user, ic string, ok int) int {
	g.emit("vadd s%d %s %s %s %s %d", s, vEnc(room), vEnc(vkey), vEnc(user), ic, ok)
	if gs := g.sess[s]; gs != nil && gs.alive && gs.internal && gs.conn >= 0 && ok == 1 && g.roomMembers(gs.backend, room) > 0 {
		id := g.nextSym
		g.nextSym++
		g.sess[id] = &vGenSess{backend: gs.backend, virtual: true, parent: s, vkey: vkey, room: room, conn: -1, alive: true}
		return id
	}
	return -1
}

func (g *vGen) opVrm(s int, room, vkey string) {
	g.emit("vrm s%d %s %s", s, vEnc(room), vEnc(vkey))
	for id, v := range g.sess {
		if v.alive && v.virtual && v.parent == s && v.vkey == vkey {
			if gs := g.sess[s]; gs != nil && g.roomMembers(gs.backend, room) > 0 {
				g.sess[id].alive = false
			}
		}
	}
}

func (g *vGen) opDisconnect(c int) {
	g.emit("disconnect %d", c)
	if id, ok := g.connSess[c]; ok {
		g.sess[id].conn = -1
		delete(g.connSess, c)
	}
	g.connOpen[c] = false
}

func (g *vGen) opResume(c, id int) {
	if !g.connOpen[c] {
		g.opConnect(c)
	}
	if _, busy := g.connSess[c]; !busy {
		if gs := g.sess[id]; gs != nil && gs.alive && !gs.virtual {
			if gs.conn >= 0 {
				delete(g.connSess, gs.conn)
				g.connOpen[gs.conn] = false
			}
			gs.conn = c
			g.connSess[c] = id
		}
	}
	g.emit("resume %d s%d", c, id)
}

func (g *vGen) opBye(c int) {
	g.emit("bye %d", c)
	if id, ok := g.connSess[c]; ok {
		g.closeSess(id)
		g.connOpen[c] = false
	}
}

func (g *vGen) opHk(level int) {
	g.emit("hk %d", level)
	if level >= 3 {
		for _, id := range g.liveSessions(func(s *vGenSess) bool { return !s.virtual && s.conn < 0 }) {
			g.closeSess(id)
		}
	}
	if level >= 2 {
		for _, id := range g.liveSessions(func(s *vGenSess) bool { return !s.virtual && !s.internal && s.user == "" && s.room == "" }) {
			if c := g.sess[id].conn; c >= 0 {
				g.connOpen[c] = false
			}
			g.closeSess(id)
		}
	}
	if level >= 1 {
		for c, open := range g.connOpen {
			if _, has := g.connSess[c]; open && !has {
				g.connOpen[c] = false
			}
		}
	}
}

func (g *vGen) someData() string {
	if g.r.chance(1, 5) {
		return "chat-refresh"
	}
	return fmt.Sprintf("d%d", g.r.intn(1000))
}

func (g *vGen) someKind() string {
	if g.r.chance(1, 3) {
		return "c"
	}
	return "m"
}

// opMsgTo sends a message or control from `from` to the session `to` (by session id), to its user, the
// room or the call.
func (g *vGen) opMsgTo(from, to int) {
	r := g.r
	switch r.intn(6) {
	case 0:
		u := g.users[1+r.intn(len(g.users)-1)]
		if gs := g.sess[to]; gs != nil && gs.user != "" {
			u = gs.user
		}
		g.emit("msg s%d %s u %s %s", from, g.someKind(), vEnc(u), vEnc(g.someData()))
	case 1:
		g.emit("msg s%d %s r - %s", from, g.someKind(), vEnc(g.someData()))
	case 2:
		g.emit("msg s%d %s c - %s", from, g.someKind(), vEnc(g.someData()))
	default:
		g.emit("msg s%d %s s s%d %s", from, g.someKind(), to, vEnc(g.someData()))
	}
}

func (g *vGen) someUser() string { return g.users[1+g.r.intn(len(g.users)-1)] }
func (g *vGen) someRoom() string { return g.rooms[g.r.intn(len(g.rooms))] }
func (g *vGen) someRs() string   { return g.rsids[g.r.intn(len(g.rsids))] }

// opening plays one scripted opening; returns its name (for the case's tags).
func (g *vGen) opening(kind int) string {
	r := g.r
	other := func(b int) int { return (b + 1 + r.intn(g.nb-1)) % g.nb }
	switch kind % 12 {
	case 11:
		// an internal client's session ends (taken over by a second connection, bye there) while its request to
		// add a virtual session is still waiting for the backend
		b := r.intn(g.nb)
		i := g.opHello(1, b, "i", "", r.intn(2), r.intn(2))
		u := g.opHello(2, b, "c", g.someUser(), 0, 0)
		room := g.someRoom()
		g.opJoin(u, room, g.someRs(), "ok")
		if r.chance(1, 2) {
			g.opJoin(i, room, "", "ok")
		}
		if r.chance(1, 2) {
			g.opVadd(i, room, "v0", g.someUser(), "-", 1)
		}
		g.opConnect(3)
		g.emit("vaddrace s%d %s %s %s 3", i, vEnc(room), vEnc("v1"), vEnc(g.someUser()))
		g.closeSess(i)
		g.connOpen[1], g.connOpen[3] = false, false
		delete(g.connSess, 1)
		g.opMsgTo(u, u)
		return "internal-session-ends-while-adding"
	case 10:
		// a session that is in the call leaves the room (which lives on through another member) and comes back:
		// it is not in the call any more
		b := r.intn(g.nb)
		a := g.opHello(1, b, "c", g.someUser(), 0, 0)
		o := g.opHello(2, b, "c", g.someUser(), 0, 0)
		room := g.someRoom()
		rsA, rsO := "nc1", "nc2"
		g.opJoin(a, room, rsA, "ok")
		g.opJoin(o, room, rsO, "ok")
		g.emit("api %d %s incall %s:%d,%s:%d %s:%d,%s:%d", b, vEnc(room), rsA, 1+2*r.intn(4), rsO, 1+2*r.intn(4), rsA, 7, rsO, 7)
		g.emit("msg s%d m c - %s", o, vEnc(g.someData()))
		if r.chance(1, 2) {
			g.opJoin(a, "", "", "ok")
		} else {
			g.opJoin(a, "roomC", "nc3", "ok")
		}
		g.emit("msg s%d m c - %s", o, vEnc(g.someData()))
		g.opJoin(a, room, rsA, "ok")
		g.emit("msg s%d %s c - %s", o, g.someKind(), vEnc(g.someData()))
		g.emit("msg s%d m r - %s", o, vEnc(g.someData()))
		return "in-call-leave-rejoin"
	case 9:
		// a session ends (bye on a second connection that took it over) while its own join is still waiting
		// for the backend; then the held reply arrives: the join must not complete for a session that is gone
		b := r.intn(g.nb)
		a := g.opHello(1, b, "c", g.someUser(), 0, 0)
		o := g.opHello(2, b, "c", g.someUser(), 0, 0)
		// (the room of the pending join is not the one the session may be in already, and the Nextcloud session
		// ids differ, so that the join really goes to the backend and nobody is kicked on the way)
		room, elsewhere := g.rooms[0], g.rooms[1]
		if r.chance(1, 2) {
			room, elsewhere = elsewhere, room
		}
		if r.chance(1, 2) {
			g.opJoin(o, room, "nc2", "ok")
		}
		if r.chance(1, 3) {
			g.opJoin(a, elsewhere, "nc3", "ok")
		}
		g.opConnect(3)
		g.emit("joinrace s%d %s %s 3", a, vEnc(room), vEnc("nc1"))
		g.closeSess(a)
		g.connOpen[1], g.connOpen[3] = false, false
		delete(g.connSess, 1)
		return "session-ends-while-joining"
	case 8:
		// a session on the list of federated sessions ends (bye, expiry, kicked by a reconnect with its room
		// session id) or goes on to an ordinary room
		b := r.intn(g.nb)
		a := g.opHello(1, b, "c", g.someUser(), 0, 0)
		rs := g.someRs()
		if r.chance(1, 2) {
			g.opJoin(a, g.someRoom(), rs, "ok")
		}
		g.emit("fed s%d", a)
		switch r.intn(4) {
		case 0:
			g.opBye(1)
		case 1:
			g.opDisconnect(1)
			g.opHk(3)
		case 2:
			o := g.opHello(2, b, "c", g.someUser(), 0, 0)
			g.opJoin(o, g.someRoom(), rs, "ok")
		default:
			g.opJoin(a, g.someRoom(), g.someRs(), "ok")
			g.opBye(1)
		}
		return "federated-session-ends"
	case 0:
		// a virtual session, an ordinary member of its room, and a session of another backend in a room of
		// the same name: messages in all directions
		bI := r.intn(g.nb)
		i := g.opHello(1, bI, "i", "", r.intn(2), r.intn(2))
		u := g.opHello(2, bI, "c", g.someUser(), 0, 0)
		room := g.someRoom()
		g.opJoin(u, room, g.someRs(), "ok")
		g.opJoin(i, room, "", "ok")
		ic := "-"
		if r.chance(1, 2) {
			ic = strconv.Itoa(r.intn(8))
		}
		v := g.opVadd(i, room, "v0", g.someUser(), ic, 1)
		o := g.opHello(3, other(bI), "c", g.someUser(), 0, 0)
		g.opJoin(o, room, g.someRs(), "ok")
		// the probes the opening is for: the foreign session addresses the virtual session, its internal client
		// and the ordinary member by session id, with a message and a control message
		for _, to := range []int{v, i, u} {
			g.emit("msg s%d m s s%d %s", o, to, vEnc(g.someData()))
			if r.chance(1, 2) {
				g.emit("msg s%d c s s%d %s", o, to, vEnc(g.someData()))
			}
		}
		g.emit("msg s%d %s s s%d %s", u, g.someKind(), v, vEnc(g.someData()))
		for k := r.intn(4); k > 0; k-- {
			from := []int{o, o, u, i}[r.intn(4)]
			to := []int{v, v, i, u, o}[r.intn(5)]
			g.opMsgTo(from, to)
		}
		return "virtual-across-backends"
	case 1:
		// the same client-chosen id added twice (the second add may fail at the backend), then removed
		b := r.intn(g.nb)
		i := g.opHello(1, b, "i", "", r.intn(2), r.intn(2))
		u := g.opHello(2, b, "c", g.someUser(), 0, 0)
		room := g.someRoom()
		g.opJoin(u, room, g.someRs(), "ok")
		if r.chance(2, 3) {
			g.opJoin(i, room, "", "ok")
		}
		key := fmt.Sprintf("v%d", r.intn(2))
		v := g.opVadd(i, room, key, g.someUser(), "-", 1)
		room2 := room
		if r.chance(1, 4) {
			room2 = g.someRoom()
		}
		g.opVadd(i, room2, key, g.someUser(), "-", r.intn(2))
		if r.chance(1, 2) {
			g.opMsgTo(u, v)
		}
		g.opVrm(i, room, key)
		g.opMsgTo(u, v)
		if r.chance(1, 2) {
			g.opVrm(i, room, key)
		}
		return "duplicate-virtual-id"
	case 2:
		// virtual sessions that are still there when their internal client's session ends
		b := r.intn(g.nb)
		i := g.opHello(1, b, "i", "", r.intn(2), r.intn(2))
		u := g.opHello(2, b, "c", g.someUser(), 0, 0)
		room := g.someRoom()
		g.opJoin(u, room, g.someRs(), "ok")
		if r.chance(2, 3) {
			g.opJoin(i, room, "", "ok")
		}
		v := -1
		for k := 1 + r.intn(2); k > 0; k-- {
			v = g.opVadd(i, room, fmt.Sprintf("v%d", k), g.someUser(), strconv.Itoa(r.intn(8)), 1)
		}
		switch r.intn(4) {
		case 0:
			g.opBye(1)
		case 1:
			g.opDisconnect(1)
			g.opHk(3)
		case 2:
			g.emit("api %d %s delete", b, vEnc(room))
			for _, s := range g.sess {
				if s.alive && s.backend == b && s.room == room {
					s.room = ""
				}
			}
			g.opBye(1)
		default:
			g.opDisconnect(1)
			g.opMsgTo(u, v)
			g.opResume(g.freeConn(), i)
			g.opBye(g.sess[i].conn)
		}
		g.opMsgTo(u, v)
		return "internal-client-ends"
	case 3:
		// one session interrupted and resumed several times, with traffic for it in every gap
		b := r.intn(g.nb)
		a := g.opHello(1, b, "c", g.someUser(), 0, 0)
		o := g.opHello(2, b, "c", g.someUser(), 0, 0)
		room := g.someRoom()
		g.opJoin(a, room, g.someRs(), "ok")
		g.opJoin(o, room, g.someRs(), "ok")
		for round := 2 + r.intn(2); round > 0; round-- {
			g.opDisconnect(g.sess[a].conn)
			// every gap carries at least one chat-refresh notice (the merge flag must be reset by each resume);
			// the rest of the traffic is random
			k := 1 + r.intn(3)
			forced := r.intn(k)
			for ; k > 0; k-- {
				pick := r.intn(4)
				if k-1 == forced {
					pick = 1
				}
				switch pick {
				case 0:
					g.emit("api %d %s message %s", b, vEnc(room), vEnc(g.someData()))
				case 1:
					// chat-refresh notices (client messages; a room API message with the same data is none):
					// repeated ones may be merged while the session is away
					g.emit("msg s%d m %s %s", o, []string{fmt.Sprintf("s s%d", a), "r -"}[r.intn(2)], vEnc("chat-refresh"))
					if r.chance(1, 2) {
						g.emit("api %d %s message %s", b, vEnc(room), vEnc("chat-refresh"))
					}
					if r.chance(1, 3) {
						g.emit("msg s%d m s s%d %s", o, a, vEnc("chat-refresh"))
					}
				default:
					g.opMsgTo(o, a)
				}
			}
			if r.chance(1, 6) {
				g.opHk(r.intn(3))
			}
			g.opResume(g.freeConn(), a)
		}
		g.opMsgTo(o, a)
		return "repeated-resume"
	case 4:
		// an anonymous session that gets its user id from the room's backend reply
		b := r.intn(g.nb)
		user := g.someUser()
		a := g.opHello(1, b, "c", "", 0, 0)
		x := g.opHello(2, b, "c", user, 0, 0)
		room := g.someRoom()
		g.opJoin(a, room, g.someRs(), "ok:u="+vEnc(user))
		if r.chance(2, 3) {
			g.opJoin(x, room, g.someRs(), "ok")
		}
		for k := 2 + r.intn(3); k > 0; k-- {
			g.emit("msg s%d %s u %s %s", []int{a, a, x}[r.intn(3)], g.someKind(), vEnc(user), vEnc(g.someData()))
		}
		// ... which it has no longer once it left that room
		if r.chance(2, 3) {
			g.opJoin(a, "", "", "ok")
			g.emit("msg s%d m u %s %s", a, vEnc(user), vEnc(g.someData()))
			g.emit("msg s%d %s s s%d %s", a, g.someKind(), x, vEnc(g.someData()))
		}
		return "user-id-from-room"
	case 5:
		// the same Nextcloud session id (and room name) in use on two backends, then backend requests naming it
		b := r.intn(g.nb)
		b2 := other(b)
		room, rs := g.someRoom(), g.someRs()
		a := g.opHello(1, b, "c", g.someUser(), 0, 0)
		o := g.opHello(2, b2, "c", g.someUser(), 0, 0)
		if r.chance(1, 2) {
			g.opJoin(o, room, rs, "ok")
			g.opJoin(a, room, rs, "ok")
		} else {
			g.opJoin(a, room, rs, "ok")
			g.opJoin(o, room, rs, "ok")
		}
		if r.chance(1, 2) {
			c := g.opHello(3, b, "c", g.someUser(), 0, 0)
			g.opJoin(c, room, g.someRs(), "ok")
		}
		for k := 2 + r.intn(3); k > 0; k-- {
			tb := []int{b, b2}[r.intn(2)]
			switch r.intn(5) {
			case 0:
				g.emit("api %d %s participants %s:p=control %s", tb, vEnc(room), vEnc(rs), vEnc(rs))
			case 1:
				g.emit("api %d %s incall %s:%d %s:%d", tb, vEnc(room), vEnc(rs), 1+r.intn(7), vEnc(rs), 1+r.intn(7))
			case 2:
				g.emit("api %d %s disinvite - %s -", tb, vEnc(room), vEnc(rs))
			case 3:
				g.emit("api %d %s switchto %s %s", tb, vEnc(room), vEnc(g.someRoom()), vEnc(rs))
			default:
				g.emit("api %d %s participants %s %s:p=", tb, vEnc(room), vEnc(rs), vEnc(rs))
			}
		}
		return "shared-room-session-id"
	case 6:
		// a session limit with registrations, rejected registrations and freed slots
		b := r.intn(g.nb)
		g.emit("limit %d %d", b, 1+r.intn(2))
		for k := 2 + r.intn(3); k > 0; k-- {
			c := 1 + r.intn(5)
			switch r.intn(5) {
			case 0:
				g.opBye(c)
			case 1:
				g.opDisconnect(c)
				g.opHk(3)
			default:
				// the generator's own bookkeeping may be off by the rejected ones; the walk tolerates that
				g.opHello(c, b, "c", g.users[r.intn(len(g.users))], 0, 0)
			}
		}
		return "session-limit"
	default:
		// a session taken over by a second connection while the first is still open
		b := r.intn(g.nb)
		a := g.opHello(1, b, "c", g.someUser(), 0, 0)
		o := g.opHello(2, b, "c", g.someUser(), 0, 0)
		room := g.someRoom()
		g.opJoin(a, room, g.someRs(), "ok")
		g.opJoin(o, room, g.someRs(), "ok")
		g.opResume(3, a)
		g.opMsgTo(o, a)
		g.opDisconnect(1)
		g.opMsgTo(o, a)
		g.opDisconnect(3)
		g.opMsgTo(o, a)
		g.opResume(4, a)
		return "takeover"
	}
}

// finale ends a case with requests issued concurrently (connections 7.. are never used by the walk, "roomC"
// is a room nobody is in): registrations racing for the last free slot of a backend, first joins of one
// room, a registration racing with a slot being freed.
func (g *vGen) finale() string {
	r := g.r
	b := r.intn(g.nb)
	registered := len(g.liveSessions(func(s *vGenSess) bool { return !s.virtual && !s.internal && s.backend == b }))
	hello := func(c int) string {
		return fmt.Sprintf("hello %d %d c %s 0 0", c, b, vEnc(g.someUser()))
	}
	switch r.intn(3) {
	case 0:
		n := 2 + r.intn(5)
		g.emit("limit %d %d", b, registered+1+r.intn(2))
		var subs []string
		for c := 7; c < 7+n; c++ {
			g.opConnect(c)
			subs = append(subs, hello(c))
		}
		g.emit("par %s", strings.Join(subs, " ;; "))
		return "race-for-last-slot"
	case 1:
		n := 2 + r.intn(4)
		var subs []string
		for c := 7; c < 7+n; c++ {
			id := g.opHello(c, b, "c", g.someUser(), 0, 0)
			subs = append(subs, fmt.Sprintf("join s%d %s %s ok", id, vEnc("roomC"), vEnc("")))
		}
		g.emit("par %s", strings.Join(subs, " ;; "))
		return "concurrent-first-join"
	default:
		g.emit("limit %d %d", b, registered+1)
		g.opHello(7, b, "c", g.someUser(), 0, 0)
		g.opConnect(8)
		g.emit("par bye 7 ;; %s", hello(8))
		return "slot-freed-while-registering"
	}
}

func vHubGen(e *vEnv, r *vRand) []vCase {
	n := e.scale(60, 300)
	maxOps := e.scale(24, 50)
	var cases []vCase
	for i := 0; i < n; i++ {
		rr := r.fork()
		g := &vGen{r: rr, connOpen: map[int]bool{}, connSess: map[int]int{}, sess: map[int]*vGenSess{}, nextSym: 1,
			rooms: []string{"roomA", "roomB"}, users: []string{"", "alice", "bob"}, rsids: []string{"nc1", "nc2", "nc3"}, nb: 2}
		if rr.chance(1, 4) {
			g.nb = 3
		}
		var tags []string
		if i%2 == 1 {
			tags = append(tags, "opening:"+g.opening(i/2))
		} else {
			if rr.chance(1, 4) {
				g.emit("limit %d %d", rr.intn(g.nb), 1+rr.intn(2))
			}
			// warm-up: a few sessions so that the interesting ops have something to act on
			for c := 1; c <= 2+rr.intn(3); c++ {
				g.emit("connect %d", c)
				g.connOpen[c] = true
			}
		}
		nops := len(g.ops) + 6 + rr.intn(maxOps)
		if len(tags) == 0 {
			nops = 8 + rr.intn(maxOps)
		}
		for len(g.ops) < nops {
			g.step()
		}
		if rr.chance(3, 4) {
			tags = append(tags, "finale:"+g.finale())
		}
		cases = append(cases, vCase{Ops: g.ops, Tags: tags})
	}
	// a battery of short cases that are nothing but one race each: windows of a few instructions need many tries
	for i := e.scale(40, 300); i > 0; i-- {
		rr := r.fork()
		g := &vGen{r: rr, connOpen: map[int]bool{}, connSess: map[int]int{}, sess: map[int]*vGenSess{}, nextSym: 1,
			rooms: []string{"roomA", "roomB"}, users: []string{"", "alice", "bob"}, rsids: []string{"nc1", "nc2", "nc3"}, nb: 2}
		if rr.chance(1, 2) {
			g.opHello(1, rr.intn(g.nb), "c", g.someUser(), 0, 0)
		}
		cases = append(cases, vCase{Ops: g.ops, Tags: []string{"race-only", "finale:" + g.finale()}})
	}
	return cases
}

func TestVerifHub(t *testing.T) {
	vRunPar(t, vHubGen, vHubExec, 6)
}
