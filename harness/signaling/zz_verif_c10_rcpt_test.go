package signaling

// C10 harness, part 4: the *recipient's* side of a forwarded message, and a
// sender that is not a websocket of this hub.
//
// The `data` of a `message` / `control` is opaque to the handler of the sender's
// frame; it is decoded again later, on paths that depend on the state of the
// recipient: filterAsyncMessage (recipient in the call?), filterMessage
// (recipient has `hide-displaynames`), storePendingMessage -> IsChatRefresh
// (recipient's connection is gone, the session waits to be resumed), and the
// flush on resume.  Worlds `world mcu=<m> by=<flags>` put the bystander into
// these states (n = in no room, h = hide-displaynames, c = in the call), the ops
// `by drop` / `by resume` take its connection away and bring it back; while it
// is detached the harness reads what is *queued* for it instead of what arrives.
//
// Payloads are built from the declarations of the tree under test: the struct
// types the payload is decoded into (by reflection: every member absent / null /
// of another JSON type / present, pointer members in particular) and the string
// literals the sources compare a `.Type` with.

import (
	"go/ast"
	"go/parser"
	"go/token"
	"os"
	"reflect"
	"regexp"
	"sort"
	"strconv"
	"strings"
	"sync"
)

// ---------- vocabulary of the tree under test ----------

var vC10TypeLitOnce sync.Once
var vC10TypeLits []string

// vC10TypeLiterals: every string literal that clientsession.go, api_signaling.go or hub.go compare a
// `.Type` with (`x.Type == "lit"`, `!=`, or a `case "lit"`), read from the sources in the working
// directory (the tree under test).
func vC10TypeLiterals() []string {
	vC10TypeLitOnce.Do(func() {
		set := map[string]bool{}
		re := regexp.MustCompile(`(?:\.Type\s*[!=]=\s*|case\s+)"([A-Za-z][A-Za-z0-9_-]*)"`)
		for _, name := range []string{"clientsession.go", "api_signaling.go", "hub.go"} {
			data, err := os.ReadFile(name)
			if err != nil {
				continue
			}
			for _, m := range re.FindAllStringSubmatch(string(data), -1) {
				set[m[1]] = true
			}
		}
		for k := range set {
			vC10TypeLits = append(vC10TypeLits, k)
		}
		sort.Strings(vC10TypeLits)
		if len(vC10TypeLits) == 0 {
			vC10TypeLits = []string{"message"}
		}
	})
	return vC10TypeLits
}

// the types a forwarded payload is decoded into (Generated/ShapesDeferred.payloadParsers)
var vC10PayloadTypes = []reflect.Type{
	reflect.TypeOf(MessageServerMessageData{}),
	reflect.TypeOf(MessageServerMessageData{}),
	reflect.TypeOf(RoomEventMessageData{}),
	reflect.TypeOf(MessageClientMessageData{}),
}

var vC10VocabOnce sync.Once
var vC10Vocab map[string][]string

// vC10PayloadVocab: for every struct type that a function of clientsession.go, api_signaling.go or hub.go
// decodes raw bytes into (`json.Unmarshal(src, &x)` with a local `var x T`), the string literals that
// function compares `x.Type` with (==, !=, `switch x.Type { case … }`; also through `y = &x`).  Read
// from the sources in the working directory (the tree under test).
func vC10PayloadVocab() map[string][]string {
	vC10VocabOnce.Do(func() {
		sets := map[string]map[string]bool{}
		fset := token.NewFileSet()
		for _, name := range []string{"clientsession.go", "api_signaling.go", "hub.go"} {
			f, err := parser.ParseFile(fset, name, nil, 0)
			if err != nil {
				continue
			}
			for _, d := range f.Decls {
				fd, ok := d.(*ast.FuncDecl)
				if !ok || fd.Body == nil {
					continue
				}
				// locals by declared type, decode targets, aliases
				typ := map[string]string{}
				target := map[string]string{} // variable -> type it stands for
				ast.Inspect(fd.Body, func(n ast.Node) bool {
					switch x := n.(type) {
					case *ast.ValueSpec:
						if id, ok := x.Type.(*ast.Ident); ok {
							for _, nm := range x.Names {
								typ[nm.Name] = id.Name
							}
						}
					case *ast.CallExpr:
						if sel, ok := x.Fun.(*ast.SelectorExpr); ok && sel.Sel.Name == "Unmarshal" && len(x.Args) == 2 {
							if u, ok := x.Args[1].(*ast.UnaryExpr); ok && u.Op == token.AND {
								if id, ok := u.X.(*ast.Ident); ok && typ[id.Name] != "" {
									target[id.Name] = typ[id.Name]
								}
							}
						}
					case *ast.AssignStmt:
						if len(x.Lhs) == 1 && len(x.Rhs) == 1 {
							rhs := x.Rhs[0]
							if u, ok := rhs.(*ast.UnaryExpr); ok && u.Op == token.AND {
								rhs = u.X
							}
							if l, ok := x.Lhs[0].(*ast.Ident); ok {
								if r, ok := rhs.(*ast.Ident); ok && target[r.Name] != "" {
									target[l.Name] = target[r.Name]
								}
							}
						}
					}
					return true
				})
				isType := func(e ast.Expr) string {
					if sel, ok := e.(*ast.SelectorExpr); ok && sel.Sel.Name == "Type" {
						if id, ok := sel.X.(*ast.Ident); ok {
							return target[id.Name]
						}
					}
					return ""
				}
				add := func(t string, e ast.Expr) {
					if lit, ok := e.(*ast.BasicLit); ok && lit.Kind == token.STRING {
						if v, err := strconv.Unquote(lit.Value); err == nil {
							if sets[t] == nil {
								sets[t] = map[string]bool{}
							}
							sets[t][v] = true
						}
					}
				}
				ast.Inspect(fd.Body, func(n ast.Node) bool {
					switch x := n.(type) {
					case *ast.BinaryExpr:
						if x.Op == token.EQL || x.Op == token.NEQ {
							if t := isType(x.X); t != "" {
								add(t, x.Y)
							}
						}
					case *ast.SwitchStmt:
						if t := isType(x.Tag); t != "" {
							for _, cc := range x.Body.List {
								for _, e := range cc.(*ast.CaseClause).List {
									add(t, e)
								}
							}
						}
					}
					return true
				})
			}
		}
		vC10Vocab = map[string][]string{}
		for t, set := range sets {
			for k := range set {
				vC10Vocab[t] = append(vC10Vocab[t], k)
			}
			sort.Strings(vC10Vocab[t])
		}
	})
	return vC10Vocab
}

// vC10Battery: for every type a payload is decoded into and every literal its decoders compare the type
// with, the document that has only the type, and the one with every pointer / map / slice member null.
func vC10Battery() []*vJ {
	var docs []*vJ
	vocab := vC10PayloadVocab()
	seen := map[string]bool{}
	for _, t := range vC10PayloadTypes {
		if seen[t.Name()] {
			continue
		}
		seen[t.Name()] = true
		for _, lit := range vocab[t.Name()] {
			docs = append(docs, jO("type", lit))
			o := jO("type", lit)
			for i := 0; i < t.NumField(); i++ {
				f := t.Field(i)
				name := strings.Split(f.Tag.Get("json"), ",")[0]
				if name == "" || name == "-" || !f.IsExported() {
					continue
				}
				switch f.Type.Kind() {
				case reflect.Ptr, reflect.Map, reflect.Slice, reflect.Interface:
					o.kv = append(o.kv, vJKV{name, jL("null")})
				}
			}
			if len(o.kv) > 1 {
				docs = append(docs, o)
			}
		}
	}
	return docs
}

func vC10ReflectValue(r *vRand, t reflect.Type, name string, depth int) *vJ {
	return vC10ReflectValueOf(r, t, name, depth, "")
}

func vC10ReflectValueOf(r *vRand, t reflect.Type, name string, depth int, owner string) *vJ {
	if name == "type" && t.Kind() == reflect.String {
		// mostly a literal the decoders of the owning type compare it with
		if lits := vC10PayloadVocab()[owner]; len(lits) > 0 && !r.chance(1, 4) {
			return jV(r.pick(lits))
		}
	}
	switch t.Kind() {
	case reflect.Ptr:
		return vC10ReflectValue(r, t.Elem(), name, depth)
	case reflect.Struct:
		if depth > 3 {
			return jO()
		}
		return vC10ReflectDoc(r, t, depth+1)
	case reflect.String:
		if name == "type" {
			return jV(r.pick(vC10TypeLiterals()))
		}
		return jV(r.pick([]string{"", "x", "video", "1"}))
	case reflect.Bool:
		return jV(r.chance(1, 2))
	case reflect.Int, reflect.Int8, reflect.Int16, reflect.Int32, reflect.Int64, reflect.Uint, reflect.Uint8, reflect.Uint16,
		reflect.Uint32, reflect.Uint64, reflect.Float32, reflect.Float64:
		return jV(r.intn(5))
	case reflect.Map:
		if r.chance(1, 3) {
			return jO()
		}
		return jO("actorDisplayName", r.pickJ([]*vJ{jV("Name"), jV(""), jL("null"), jL("7")}), "sdp", vC10SdpOk, "k", vC10Hostile(r))
	case reflect.Slice, reflect.Array:
		a := &vJ{kind: 'a'}
		for i := r.intn(3); i > 0; i-- {
			a.arr = append(a.arr, vC10ReflectValue(r, t.Elem(), "", depth+1))
		}
		return a
	}
	return vC10Hostile(r)
}

// vC10ReflectDoc: a JSON object for the struct type t, every member independently absent, null, of
// another JSON type, or what the type says.
func vC10ReflectDoc(r *vRand, t reflect.Type, depth int) *vJ {
	o := jO()
	for i := 0; i < t.NumField(); i++ {
		f := t.Field(i)
		name := strings.Split(f.Tag.Get("json"), ",")[0]
		if name == "" || name == "-" || !f.IsExported() {
			continue
		}
		k := r.intn(8)
		if name == "type" && k < 4 && !r.chance(1, 3) {
			k = 4 // the discriminator is mostly there: the interesting part is what goes with it
		}
		switch k {
		case 0, 1:
			continue
		case 2:
			o.kv = append(o.kv, vJKV{name, jL("null")})
			continue
		case 3:
			o.kv = append(o.kv, vJKV{name, vC10Hostile(r)})
			continue
		}
		o.kv = append(o.kv, vJKV{name, vC10ReflectValueOf(r, f.Type, name, depth, t.Name())})
	}
	return o
}

// ---------- messages for a recipient ----------

var vC10RawNotJSON = []string{"01", "-", "1.", "1e", "-01", `"\q"`, `"\u12"`, "\"a\tb\"", "\"a\nb\"", `"\x41"`, `"\u12G4"`}

func vC10RcptRecipient(r *vRand) *vJ {
	switch r.intn(10) {
	case 0, 1, 2, 3:
		return jO("type", "session", "sessionid", phBy)
	case 4, 5:
		return jO("type", "user", "userid", "bystander")
	case 6, 7:
		return jO("type", "room")
	case 8:
		return jO("type", "call")
	}
	return vC10Recipient(r)
}

func vC10RcptDoc(r *vRand) *vJ {
	kind := "message"
	if r.chance(1, 4) {
		kind = "control"
	}
	var data *vJ
	switch k := r.intn(12); {
	case k == 0:
		// a raw member the decoder skips over without complaint although it is not JSON: one of every
		// lexical class (numbers, strings with a bad escape / truncated \u / raw control character)
		data = jL(r.pick(vC10RawNotJSON))
	case k < 9:
		data = vC10ReflectDoc(r, vC10PayloadTypes[r.intn(len(vC10PayloadTypes))], 0)
	default:
		data = vC10Data(r)
	}
	doc := jO("type", kind, kind, jO("recipient", vC10RcptRecipient(r), "data", data))
	if r.chance(1, 3) {
		doc.kv = append([]vJKV{{"id", jV("m" + strconv.Itoa(r.intn(1000)))}}, doc.kv...)
	}
	if r.chance(1, 6) {
		vC10Mutate(r, doc, true)
	}
	return doc
}

var vC10RcptStates = []string{"room", "room", "room", "session", "session", "internal", "internalroom", "roomr"}

// vC10GenRcpt: scripted opening (a few messages for the connected bystander, then its connection is
// dropped), a conversation for the detached bystander, a resume, and a random continuation of messages
// and further drops / resumes; sender states change in between.
func vC10GenRcpt(e *vEnv, r *vRand, ncases int) []vCase {
	var cases []vCase
	perPhase := e.scale(6, 9)
	for i := 0; i < ncases; i++ {
		rr := r.fork()
		flags := ""
		switch {
		case rr.chance(1, 5):
			flags = "n"
		default:
			if rr.chance(1, 3) {
				flags += "h"
			}
			if rr.chance(1, 2) {
				flags += "c"
			}
		}
		noroom := flags == "n"
		mcu := "0"
		if rr.chance(1, 5) {
			mcu = "1"
		}
		ops := []string{"world mcu=" + mcu + " by=" + flags}
		msgs := func(n int) {
			for k := 0; k < n; k++ {
				for try := 0; try < 20; try++ {
					if op, ok := vC10MsgOpW(vC10RcptDoc(rr).String(), 0, false, noroom); ok {
						ops = append(ops, op)
						break
					}
				}
			}
		}
		ops = append(ops, "state "+vC10RcptStates[rr.intn(len(vC10RcptStates))])
		msgs(rr.intn(3))
		ops = append(ops, "by drop")
		if rr.chance(1, 3) {
			// the battery: every decoded type x every literal its decoders know, optional members absent / null
			kind := rr.pick([]string{"message", "message", "control"})
			rcp := vC10RcptRecipient(rr)
			for _, data := range vC10Battery() {
				doc := jO("type", kind, kind, jO("recipient", rcp.clone(), "data", data))
				if op, ok := vC10MsgOpW(doc.String(), 0, false, noroom); ok {
					ops = append(ops, op)
				}
			}
		}
		msgs(2 + rr.intn(perPhase))
		if rr.chance(1, 3) {
			ops = append(ops, "state "+vC10RcptStates[rr.intn(len(vC10RcptStates))])
			msgs(1 + rr.intn(4))
		}
		ops = append(ops, "by resume")
		for phase := rr.intn(3); phase > 0; phase-- {
			switch rr.intn(4) {
			case 0:
				ops = append(ops, "state "+vC10RcptStates[rr.intn(len(vC10RcptStates))])
			case 1:
				ops = append(ops, "by drop")
			case 2:
				ops = append(ops, "by resume")
			}
			msgs(1 + rr.intn(perPhase))
		}
		cases = append(cases, vCase{Ops: ops})
	}
	return cases
}

// ---------- a sender that is not a websocket of this hub ----------

var vC10HelloBases = map[string]bool{"hello-v1": true, "hello-v2": true, "hello-internal": true, "hello-resume": true, "hello-odd": true}

// vC10GenRemote: frames of a connection without session that reaches the hub the way a connection
// proxied from another node of the cluster does (state `remote`): mostly hellos of every kind, some other
// messages.  Such frames have passed the other node's ReadPump: text, within the size limit.
func vC10GenRemote(e *vEnv, r *vRand, ncases int) []vCase {
	var cases []vCase
	for i := 0; i < ncases; i++ {
		rr := r.fork()
		ops := []string{"world mcu=0", "state remote"}
		n := 2 + rr.intn(e.scale(5, 8))
		for k := 0; k < n; k++ {
			for try := 0; try < 40; try++ {
				var doc string
				if rr.chance(3, 4) {
					var bases []vC10Base
					for _, b := range vC10Bases {
						if vC10HelloBases[b.name] {
							bases = append(bases, b)
						}
					}
					d := bases[rr.intn(len(bases))].doc(rr)
					if rr.chance(1, 3) {
						d.kv = append([]vJKV{{"id", jV("m" + strconv.Itoa(rr.intn(1000)))}}, d.kv...)
					}
					if rr.chance(1, 3) {
						vC10Mutate(rr, d, true)
					}
					doc = d.String()
				} else {
					var pad int
					var binary bool
					doc, pad, binary = vC10GenDoc(rr)
					if pad != 0 || binary {
						continue
					}
				}
				if len(doc) >= maxMessageSize || strings.Contains(doc, phDialout) || strings.Contains(doc, "@PAD@") {
					continue
				}
				if op, ok := vC10MsgOp(doc, 0, false); ok {
					ops = append(ops, op)
					break
				}
			}
		}
		cases = append(cases, vCase{Ops: ops})
	}
	return cases
}
