package signaling

import (
	"encoding/hex"
	"strings"
)

// Byte strings in op lines: `x<hex>` (shared by the C15 and C02 harnesses; listed in
// CONFIG["harness"]["files"] of both).

func vx(b []byte) string { return "x" + hex.EncodeToString(b) }

func vunx(tok string) ([]byte, bool) {
	if !strings.HasPrefix(tok, "x") {
		return nil, false
	}
	b, err := hex.DecodeString(tok[1:])
	return b, err == nil
}
