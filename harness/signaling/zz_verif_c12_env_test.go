package signaling

// C12 harness, part 1: a hostile remote signaling server (own websocket
// server) speaking to the real FederationClient of a real Hub with one real
// local client session and one bystander session.
//
// Op lines (see Driver/C12.lean):
//   start rid=<0|1> hide=<0|1> feat=<0|1>     local client says hello and joins a federated room at the peer
//   peer <doc> <shape…>                       the peer sends one text frame (doc percent-encoded, placeholders)
//   peerrst <doc> <shape…>                    the same, immediately followed by a TCP reset
//   bin <doc>                                 the peer sends a binary frame
//   drop <tcp|close|rst>                      the peer drops the connection
//   drop hold                                 the peer drops the connection and refuses new ones (every reconnect fails) …
//   up                                        … until it accepts connections again
//   local <leave|msg|bye>                     the local client acts
//   probe                                     liveness of the hub and of the bystander
//
// Implementation output per op: `L:<msgs> P:<msgs> B:<n>` — what the local
// client received, what the peer observed, how many frames the bystander got.

import (
	"encoding/json"
	"fmt"
	"io"
	"log"
	"net"
	"net/http"
	"net/http/httptest"
	"sort"
	"strconv"
	"strings"
	"sync"
	"sync/atomic"
	"testing"
	"time"

	"github.com/gorilla/websocket"
)

// ---------- a websocket endpoint whose frames arrive in one ordered channel ----------

type vC12Frame struct {
	kind byte // 't' text, 'b' binary, 'p' pong, 'x' closed
	data string
}

type vC12WS struct {
	conn   *websocket.Conn
	frames chan vC12Frame
	wmu    sync.Mutex
	nping  int
	dead   bool // a closed frame was consumed
}

func vC12Wrap(conn *websocket.Conn) *vC12WS {
	w := &vC12WS{conn: conn, frames: make(chan vC12Frame, 1024)}
	conn.SetReadLimit(1 << 22)
	conn.SetPongHandler(func(s string) error {
		w.frames <- vC12Frame{kind: 'p', data: s}
		return nil
	})
	go func() {
		for {
			mt, data, err := conn.ReadMessage()
			if err != nil {
				w.frames <- vC12Frame{kind: 'x', data: err.Error()}
				return
			}
			switch mt {
			case websocket.TextMessage:
				w.frames <- vC12Frame{kind: 't', data: string(data)}
			case websocket.BinaryMessage:
				w.frames <- vC12Frame{kind: 'b', data: string(data)}
			}
		}
	}()
	return w
}

func (w *vC12WS) send(mt int, s string) error {
	w.wmu.Lock()
	defer w.wmu.Unlock()
	w.conn.SetWriteDeadline(time.Now().Add(2 * time.Second)) // nolint
	return w.conn.WriteMessage(mt, []byte(s))
}

// barrier sends a ping and returns every text frame that arrived before the
// matching pong.  closed: the connection ended first; timedOut: neither.
func (w *vC12WS) barrier(timeout time.Duration) (texts []string, closed bool, timedOut bool) {
	if w.dead {
		return nil, true, false
	}
	w.nping++
	tag := fmt.Sprintf("b%d", w.nping)
	w.wmu.Lock()
	err := w.conn.WriteControl(websocket.PingMessage, []byte(tag), time.Now().Add(2*time.Second))
	w.wmu.Unlock()
	_ = err // a failed write shows up as a closed frame below
	deadline := time.After(timeout)
	for {
		select {
		case f := <-w.frames:
			switch f.kind {
			case 't':
				texts = append(texts, f.data)
			case 'p':
				if f.data == tag {
					return texts, false, false
				}
			case 'x':
				w.dead = true
				return texts, true, false
			}
		case <-deadline:
			return texts, false, true
		}
	}
}

// next waits for one text frame.
func (w *vC12WS) next(timeout time.Duration) (string, bool) {
	if w.dead {
		return "", false
	}
	deadline := time.After(timeout)
	for {
		select {
		case f := <-w.frames:
			switch f.kind {
			case 't':
				return f.data, true
			case 'x':
				w.dead = true
				return "", false
			}
		case <-deadline:
			return "", false
		}
	}
}

func (w *vC12WS) closeHard() {
	w.conn.Close()
}

func (w *vC12WS) reset() {
	if tc, ok := w.conn.UnderlyingConn().(*net.TCPConn); ok {
		tc.SetLinger(0) // nolint
	}
	w.conn.Close()
}

// ---------- the hostile peer ----------

type vC12Peer struct {
	server    *httptest.Server
	conns     chan *vC12WS
	advertise atomic.Bool
	refuse    atomic.Bool // the server is down: upgrade requests are answered with 503
}

func newVC12Peer() *vC12Peer {
	p := &vC12Peer{conns: make(chan *vC12WS, 64)}
	p.advertise.Store(true)
	up := websocket.Upgrader{}
	p.server = httptest.NewServer(http.HandlerFunc(func(w http.ResponseWriter, r *http.Request) {
		if !strings.HasSuffix(r.URL.Path, "/spreed") {
			http.NotFound(w, r)
			return
		}
		if p.refuse.Load() {
			http.Error(w, "down", http.StatusServiceUnavailable)
			return
		}
		h := http.Header{}
		if p.advertise.Load() {
			h.Set("X-Spreed-Signaling-Features", "audio-video-permissions, "+ServerFeatureFederation)
		}
		conn, err := up.Upgrade(w, r, h)
		if err != nil {
			return
		}
		p.conns <- vC12Wrap(conn)
	}))
	return p
}

func (p *vC12Peer) accept(timeout time.Duration) *vC12WS {
	select {
	case c := <-p.conns:
		return c
	case <-time.After(timeout):
		return nil
	}
}

// ---------- environment shared by the cases of one run ----------

type vC12Env struct {
	t         *testing.T
	hub       *Hub
	hubServer *httptest.Server
	peer      *vC12Peer
	byst      *vC12WS
	bystSid   string
	nprobe    int
	dirty     bool
}

const (
	vC12LocalRoom  = "room-L"
	vC12RemoteRoom = "room-R"
	vC12RemoteSid  = "remote-sid"
	vC12RemoteRes  = "remote-resume"
	vC12BystRoom   = "byst-room"
)

func vC12Dial(url string) (*vC12WS, error) {
	d := websocket.Dialer{HandshakeTimeout: 3 * time.Second}
	conn, _, err := d.Dial(getWebsocketUrl(url), nil)
	if err != nil {
		return nil, err
	}
	return vC12Wrap(conn), nil
}

// vC12Hello connects a local client and performs a v1 hello; returns the public session id.
func vC12Hello(e *vC12Env, user string) (*vC12WS, string, error) {
	ws, err := vC12Dial(e.hubServer.URL)
	if err != nil {
		return nil, "", err
	}
	if _, ok := ws.next(3 * time.Second); !ok {
		return nil, "", fmt.Errorf("no welcome")
	}
	hello := map[string]interface{}{
		"id": "hello1", "type": "hello",
		"hello": map[string]interface{}{
			"version": HelloVersionV1,
			"auth": map[string]interface{}{
				"url":    e.hubServer.URL,
				"params": map[string]interface{}{"userid": user},
			},
		},
	}
	data, _ := json.Marshal(hello)
	if err := ws.send(websocket.TextMessage, string(data)); err != nil {
		return nil, "", err
	}
	txt, ok := ws.next(5 * time.Second)
	if !ok {
		return nil, "", fmt.Errorf("no hello reply")
	}
	var m ServerMessage
	if err := json.Unmarshal([]byte(txt), &m); err != nil || m.Type != "hello" || m.Hello == nil {
		return nil, "", fmt.Errorf("unexpected hello reply %s", txt)
	}
	return ws, m.Hello.SessionId, nil
}

func newVC12Env(t *testing.T) *vC12Env {
	hub, _, _, server := CreateHubForTest(t)
	e := &vC12Env{t: t, hub: hub, hubServer: server, peer: newVC12Peer()}
	t.Cleanup(func() { e.peer.server.Close() })
	ws, sid, err := vC12Hello(e, "bystander")
	if err != nil {
		t.Fatalf("bystander: %v", err)
	}
	e.byst, e.bystSid = ws, sid
	join := fmt.Sprintf(`{"id":"bj","type":"room","room":{"roomid":%q,"sessionid":"byst-rs"}}`, vC12BystRoom)
	ws.send(websocket.TextMessage, join) // nolint
	// room reply + own join event
	for i := 0; i < 2; i++ {
		if _, ok := ws.next(5 * time.Second); !ok {
			t.Fatalf("bystander could not join its room")
		}
	}
	t.Cleanup(func() {
		ws.send(websocket.TextMessage, `{"type":"bye"}`) // nolint
		time.Sleep(20 * time.Millisecond)
		ws.closeHard()
	})
	return e
}

// ---------- one case ----------

type vC12State struct {
	e               *vC12Env
	local           *vC12WS
	lsid            string
	sess            *ClientSession
	pc              *vC12WS // current connection of the peer (nil: none)
	helloIds        []string
	base            int32 // hub.readPumpActive without federation read loops
	localClosedSeen bool
	cloud           string
	holding         bool          // the peer refuses connections ("drop hold" … "up")
	acceptWait      time.Duration // how long settle waits for the reconnect
}

func (s *vC12State) fed() *FederationClient {
	if s.sess == nil {
		return nil
	}
	return s.sess.GetFederationClient()
}

// subst replaces the symbols of an op line by this run's values.
func (s *vC12State) subst(doc string) string {
	doc = strings.ReplaceAll(doc, "@LSID@", s.lsid)
	for i := len(s.helloIds); i >= 1; i-- {
		doc = strings.ReplaceAll(doc, fmt.Sprintf("@HID%d@", i), s.helloIds[i-1])
	}
	return doc
}

// unsubst is the inverse, applied to everything observed.
func (s *vC12State) unsubst(x string) string {
	if s.lsid != "" {
		x = strings.ReplaceAll(x, s.lsid, "@LSID@")
	}
	for i, h := range s.helloIds {
		x = strings.ReplaceAll(x, h, fmt.Sprintf("@HID%d@", i+1))
	}
	return x
}

func vC12Str(m map[string]interface{}, path ...string) string {
	var cur interface{} = m
	for _, p := range path {
		mm, ok := cur.(map[string]interface{})
		if !ok {
			return "~"
		}
		cur, ok = mm[p]
		if !ok {
			return "~"
		}
	}
	switch v := cur.(type) {
	case string:
		return vEnc(v)
	case nil:
		return "~"
	}
	return "?"
}

func vC12SidList(v interface{}, key string) string {
	l, ok := v.([]interface{})
	if !ok {
		return "~"
	}
	var out []string
	for _, x := range l {
		switch y := x.(type) {
		case string:
			out = append(out, vEnc(y))
		case map[string]interface{}:
			if s, ok := y[key].(string); ok {
				out = append(out, vEnc(s))
			} else {
				out = append(out, "~")
			}
		default:
			out = append(out, "~")
		}
	}
	if len(out) == 0 {
		return "~"
	}
	return strings.Join(out, ",")
}

func vC12Get(m map[string]interface{}, path ...string) interface{} {
	var cur interface{} = m
	for _, p := range path {
		mm, ok := cur.(map[string]interface{})
		if !ok {
			return nil
		}
		cur = mm[p]
	}
	return cur
}

// canonLocal renders a message received by the local client: type and the
// identifiers the federation client may rewrite.
func (s *vC12State) canonLocal(txt string) string {
	var m map[string]interface{}
	if err := json.Unmarshal([]byte(txt), &m); err != nil {
		return "undecodable"
	}
	typ, _ := m["type"].(string)
	id := vC12Str(m, "id")
	var f []string
	switch typ {
	case "error":
		f = append(f, "code="+vC12Str(m, "error", "code"))
		if d, ok := vC12Get(m, "error", "details").(map[string]interface{}); ok {
			f = append(f, "droom="+vC12Str(d, "room", "roomid"))
		} else {
			f = append(f, "droom=~")
		}
	case "room":
		f = append(f, "room="+vC12Str(m, "room", "roomid"))
	case "message", "control":
		f = append(f, "snd="+vC12Str(m, typ, "sender", "sessionid"), "rcp="+vC12Str(m, typ, "recipient", "sessionid"))
		if d, ok := vC12Get(m, typ, "data").(map[string]interface{}); ok {
			if typ == "message" {
				f = append(f, "from="+vC12Str(d, "from"), "to="+vC12Str(d, "to"))
			} else {
				f = append(f, "peer="+vC12Str(d, "peerId"))
			}
		} else if typ == "message" {
			f = append(f, "from=~", "to=~")
		} else {
			f = append(f, "peer=~")
		}
	case "event":
		tgt, _ := vC12Get(m, "event", "target").(string)
		et, _ := vC12Get(m, "event", "type").(string)
		f = append(f, "t="+vEnc(tgt)+"/"+vEnc(et))
		switch tgt + "/" + et {
		case "participants/update", "roomlist/update":
			f = append(f, "room="+vC12Str(m, "event", "update", "roomid"))
			if tgt == "participants" {
				f = append(f, "users="+vC12SidList(vC12Get(m, "event", "update", "users"), "sessionId"),
					"changed="+vC12SidList(vC12Get(m, "event", "update", "changed"), "sessionId"))
			}
		case "participants/flags":
			f = append(f, "room="+vC12Str(m, "event", "flags", "roomid"), "sid="+vC12Str(m, "event", "flags", "sessionid"))
		case "participants/message", "room/message":
			f = append(f, "room="+vC12Str(m, "event", "message", "roomid"))
		case "room/join":
			f = append(f, "join="+vC12SidList(vC12Get(m, "event", "join"), "sessionid"))
		case "room/leave":
			f = append(f, "leave="+vC12SidList(vC12Get(m, "event", "leave"), ""))
		case "roomlist/invite":
			f = append(f, "room="+vC12Str(m, "event", "invite", "roomid"))
		case "roomlist/disinvite":
			f = append(f, "room="+vC12Str(m, "event", "disinvite", "roomid"))
		case "room/federation_resumed":
			if b, ok := vC12Get(m, "event", "resumed").(bool); ok && b {
				f = append(f, "resumed=1")
			} else {
				f = append(f, "resumed=0")
			}
		}
	}
	return s.unsubst(vEnc(typ) + "(" + id + ";" + strings.Join(f, ";") + ")")
}

// canonPeer renders a message the federation client wrote to the peer.
func (s *vC12State) canonPeer(txt string) string {
	var m map[string]interface{}
	if err := json.Unmarshal([]byte(txt), &m); err != nil {
		return "undecodable"
	}
	typ, _ := m["type"].(string)
	switch typ {
	case "hello":
		if id, ok := m["id"].(string); ok {
			known := false
			for _, h := range s.helloIds {
				known = known || h == id
			}
			if !known {
				s.helloIds = append(s.helloIds, id)
			}
		}
		kind := "auth"
		if r, ok := vC12Get(m, "hello", "resumeid").(string); ok && r != "" {
			kind = "resume=" + vEnc(r)
		}
		return s.unsubst("hello(" + vC12Str(m, "id") + ";" + kind + ")")
	case "room":
		return s.unsubst("room(" + vC12Str(m, "id") + ";" + vC12Str(m, "room", "roomid") + ")")
	case "message", "control":
		return s.unsubst(typ + "(" + vC12Str(m, typ, "recipient", "sessionid") + ")")
	}
	return s.unsubst(vEnc(typ) + "()")
}

func vC12Join(xs []string) string {
	if len(xs) == 0 {
		return "-"
	}
	return strings.Join(xs, "|")
}

// settle waits until the federation client has finished reacting to what the
// peer just did and collects the observations.
func (s *vC12State) settle(extraP []string) string {
	e := s.e
	var P []string
	P = append(P, extraP...)
	stuck := ""
	if s.pc != nil {
		texts, closed, timedOut := s.pc.barrier(3 * time.Second)
		for _, t := range texts {
			P = append(P, s.canonPeer(t))
		}
		if timedOut {
			stuck = s.diagnose("no-pong")
		} else if closed {
			P = append(P, "closed")
			s.pc = nil
		}
	}
	if s.pc == nil && stuck == "" {
		// the connection is gone: the read loop must end, then either the client is closed or it reconnects
		deadline := time.Now().Add(3 * time.Second)
		for e.hub.readPumpActive.Load() > s.base && time.Now().Before(deadline) {
			time.Sleep(200 * time.Microsecond)
		}
		if e.hub.readPumpActive.Load() > s.base {
			stuck = s.diagnose("read-loop-never-ended")
		} else if f := s.anyFed(); f != nil && !f.closer.IsClosed() && !s.holding {
			wait := 4 * time.Second
			if s.acceptWait > wait {
				wait = s.acceptWait
			}
			if c := e.peer.accept(wait); c != nil {
				s.pc = c
				P = append(P, "reconnect")
				// connect() stores the new connection and starts its read loop after the upgrade
				deadline := time.Now().Add(3 * time.Second)
				for time.Now().Before(deadline) {
					f.mu.Lock()
					ok := f.conn != nil
					f.mu.Unlock()
					if ok && e.hub.readPumpActive.Load() > s.base {
						break
					}
					time.Sleep(100 * time.Microsecond)
				}
			} else {
				stuck = s.diagnose("no-reconnect")
			}
		}
	}
	if stuck != "" {
		P = append(P, stuck)
		e.dirty = true
	}
	was := s.localClosedSeen
	out := s.collect(P)
	if !was && s.localClosedSeen && s.sess != nil {
		// the session was ended by a forwarded bye: it is closed in another goroutine, which asks
		// the federation client to leave; wait for that and look at the peer again
		deadline := time.Now().Add(3 * time.Second)
		for e.hub.GetSessionByPublicId(s.lsid) != nil && time.Now().Before(deadline) {
			time.Sleep(200 * time.Microsecond)
		}
		if s.pc != nil {
			texts, closed, _ := s.pc.barrier(3 * time.Second)
			var more []string
			for _, t := range texts {
				more = append(more, s.canonPeer(t))
			}
			if closed {
				more = append(more, "closed")
				s.pc = nil
			}
			if len(more) > 0 {
				i := strings.Index(out, " B:")
				p := strings.Index(out, " P:")
				cur := out[p+3 : i]
				if cur == "-" {
					cur = ""
				} else {
					cur += "|"
				}
				out = out[:p+3] + cur + strings.Join(more, "|") + out[i:]
			}
		}
	}
	return out
}

// collect gathers what the local client and the bystander received.
func (s *vC12State) collect(P []string, pre ...string) string {
	L := append([]string{}, pre...)
	if s.local != nil {
		texts, closed, timedOut := s.local.barrier(3 * time.Second)
		for _, t := range texts {
			L = append(L, s.canonLocal(t))
		}
		if closed {
			if !s.localClosedSeen {
				L = append(L, "closed")
				s.localClosedSeen = true
			}
		} else if timedOut {
			L = append(L, "local-stuck")
			s.e.dirty = true
		}
	}
	btexts, bclosed, btimed := s.e.byst.barrier(3 * time.Second)
	b := fmt.Sprint(len(btexts))
	if bclosed || btimed {
		b = "lost"
		s.e.dirty = true
	}
	return "L:" + vC12Join(L) + " P:" + vC12Join(P) + " B:" + b
}

var vC12LastFed atomic.Pointer[FederationClient]

// anyFed returns the federation client of this case even after the session dropped it.
func (s *vC12State) anyFed() *FederationClient {
	if f := s.fed(); f != nil {
		vC12LastFed.Store(f)
		return f
	}
	return vC12LastFed.Load()
}

// vC12Stalled: some goroutine of the server under test was found blocked or spinning.  The observation is in
// the case's output line; the process cannot be expected to shut down in an orderly way afterwards.
var vC12Stalled atomic.Bool

// diagnose tells a self-deadlock of the federation client from a slow run.
func (s *vC12State) diagnose(what string) string {
	vC12Stalled.Store(true)
	f := s.anyFed()
	if f == nil {
		return "stuck:" + what
	}
	held := func(mu *sync.Mutex) bool {
		for i := 0; i < 200; i++ {
			if mu.TryLock() {
				mu.Unlock()
				return false
			}
			time.Sleep(time.Millisecond)
		}
		return true
	}
	var l []string
	if held(&f.helloMu) {
		l = append(l, "helloMu")
	}
	if held(&f.mu) {
		l = append(l, "mu")
	}
	if len(l) > 0 {
		return "deadlock:" + strings.Join(l, "+")
	}
	return "stuck:" + what
}

func vC12Opt(f []string, key string) string {
	for _, x := range f {
		if strings.HasPrefix(x, key+"=") {
			return x[len(key)+1:]
		}
	}
	return ""
}

func (s *vC12State) start(f []string) string {
	e := s.e
	ws, sid, err := vC12Hello(e, "user1")
	if err != nil {
		e.dirty = true
		return "fail:" + err.Error()
	}
	s.local, s.lsid = ws, sid
	sess, _ := e.hub.GetSessionByPublicId(sid).(*ClientSession)
	if sess == nil {
		e.dirty = true
		return "fail:no-session"
	}
	s.sess = sess
	if vC12Opt(f, "hide") == "1" {
		sess.SetPermissions([]Permission{PERMISSION_HIDE_DISPLAYNAMES})
	}
	s.base = e.hub.readPumpActive.Load()
	vC12LastFed.Store(nil)
	e.peer.advertise.Store(vC12Opt(f, "feat") != "0")
	fedm := map[string]interface{}{
		"signaling": e.peer.server.URL + "/",
		"url":       e.peer.server.URL,
		"token":     "the-token",
	}
	if vC12Opt(f, "rid") == "1" {
		fedm["roomid"] = vC12RemoteRoom
	}
	join := map[string]interface{}{
		"id": "join1", "type": "room",
		"room": map[string]interface{}{"roomid": vC12LocalRoom, "sessionid": "rs-1", "federation": fedm},
	}
	data, _ := json.Marshal(join)
	if err := ws.send(websocket.TextMessage, string(data)); err != nil {
		e.dirty = true
		return "fail:" + err.Error()
	}
	var P []string
	if c := e.peer.accept(5 * time.Second); c != nil {
		P = append(P, "connected")
		if e.peer.advertise.Load() {
			s.pc = c
			// wait until processRoom has attached the client to the session
			deadline := time.Now().Add(3 * time.Second)
			for time.Now().Before(deadline) {
				e.hub.mu.Lock()
				ok := e.hub.federatedSessions[sess]
				e.hub.mu.Unlock()
				if ok {
					break
				}
				time.Sleep(200 * time.Microsecond)
			}
			s.anyFed()
			return s.settle(P)
		}
		// not a federation server: the client hangs up, the join is refused
		c.barrier(3 * time.Second)
		P = append(P, "closed")
		var pre []string
		if txt, ok := ws.next(3 * time.Second); ok {
			pre = append(pre, s.canonLocal(txt))
		}
		return s.collect(P, pre...)
	}
	e.dirty = true
	return "fail:no-connection-at-peer"
}

func (s *vC12State) step(line string) string {
	f := strings.Fields(line)
	if f[0] == "start" {
		if s.local != nil {
			return "bad-op"
		}
		return s.start(f[1:])
	}
	if s.local == nil {
		return "bad-op"
	}
	if s.localClosedSeen && f[0] != "probe" {
		return "session-gone"
	}
	switch f[0] {
	case "peer", "peerrst", "bin":
		if s.pc == nil {
			return "no-conn"
		}
		doc := s.subst(vDec(f[1]))
		mt := websocket.TextMessage
		if f[0] == "bin" {
			mt = websocket.BinaryMessage
		}
		if err := s.pc.send(mt, doc); err != nil {
			return "no-conn"
		}
		if f[0] == "peerrst" {
			s.pc.reset()
			s.pc = nil
			return s.settle([]string{"rst"})
		}
		return s.settle(nil)
	case "peerwf":
		// write fault: the outgoing direction of the client's connection is broken
		// (as after a reset by the peer) when the message is processed
		fed := s.anyFed()
		if s.pc == nil || fed == nil {
			return "no-conn"
		}
		fed.mu.Lock()
		conn := fed.conn
		fed.mu.Unlock()
		if conn == nil {
			return "no-conn"
		}
		if tc, ok := conn.UnderlyingConn().(*net.TCPConn); ok {
			tc.CloseWrite() // nolint
		}
		old := s.pc
		if err := old.send(websocket.TextMessage, s.subst(vDec(f[1]))); err != nil {
			return "no-conn"
		}
		old.closeHard()
		s.pc = nil
		return s.settle([]string{"wfault"})
	case "big":
		if s.pc == nil {
			return "no-conn"
		}
		n, _ := strconv.Atoi(f[1])
		pre, post := `{"type":"noop","pad":"`, `"}`
		if n < len(pre)+len(post) {
			n = len(pre) + len(post)
		}
		if err := s.pc.send(websocket.TextMessage, pre+strings.Repeat("a", n-len(pre)-len(post))+post); err != nil {
			return "no-conn"
		}
		return s.settle(nil)
	case "drop":
		if s.pc == nil {
			return "no-conn"
		}
		switch f[1] {
		case "hold":
			s.holding = true
			e := s.e
			e.peer.refuse.Store(true)
			s.pc.closeHard()
		case "close":
			s.pc.wmu.Lock()
			s.pc.conn.WriteControl(websocket.CloseMessage, websocket.FormatCloseMessage(websocket.CloseNormalClosure, ""), time.Now().Add(time.Second)) // nolint
			s.pc.wmu.Unlock()
			time.Sleep(2 * time.Millisecond)
			s.pc.closeHard()
		case "rst":
			s.pc.reset()
		default:
			s.pc.closeHard()
		}
		s.pc = nil
		return s.settle([]string{"dropped"})
	case "local":
		var msg string
		switch f[1] {
		case "leave":
			msg = `{"id":"leave1","type":"room","room":{"roomid":""}}`
		case "msg":
			msg = fmt.Sprintf(`{"id":"m1","type":"message","message":{"recipient":{"type":"session","sessionid":%q},"data":{"type":"hi"}}}`, s.lsid)
		default:
			return "bad-op"
		}
		if s.local.dead {
			// the session is gone (forwarded bye): nothing to do
			return s.settle(nil)
		}
		fed := s.anyFed()
		pend := -1
		if fed != nil {
			fed.pendingMu.Lock()
			pend = len(fed.pendingMessages)
			fed.pendingMu.Unlock()
		}
		if err := s.local.send(websocket.TextMessage, msg); err != nil {
			return "local-closed"
		}
		var P []string
		if s.pc != nil {
			if txt, ok := s.pc.next(1500 * time.Millisecond); ok {
				P = append(P, s.canonPeer(txt))
			} else if s.pc.dead {
				s.pc = nil
			}
		} else if fed != nil {
			// not connected: the message is either queued for the resume or dropped
			deadline := time.Now().Add(150 * time.Millisecond)
			for time.Now().Before(deadline) {
				fed.pendingMu.Lock()
				n := len(fed.pendingMessages)
				fed.pendingMu.Unlock()
				if n > pend {
					P = append(P, "queued")
					break
				}
				time.Sleep(500 * time.Microsecond)
			}
		}
		return s.settle(P)
	case "up":
		if s.holding {
			s.holding = false
			s.e.peer.refuse.Store(false)
			// the client doubles its delay with every refused attempt (at most maxFederationReconnectInterval)
			s.acceptWait = maxFederationReconnectInterval + 2*time.Second
			defer func() { s.acceptWait = 0 }()
		}
		return s.settle(nil)
	case "probe":
		return s.probe()
	case "expire":
		// the local client vanishes; the hub's housekeeping (as run by Hub.Run once
		// the session has expired) must be able to close the session
		s.local.closeHard()
		s.local.dead = true
		deadline := time.Now().Add(3 * time.Second)
		for time.Now().Before(deadline) {
			e := s.e
			e.hub.mu.Lock()
			_, found := e.hub.expiredSessions[s.sess]
			e.hub.mu.Unlock()
			if found || e.hub.GetSessionByPublicId(s.lsid) == nil {
				break
			}
			time.Sleep(200 * time.Microsecond)
		}
		done := make(chan struct{})
		go func() {
			s.e.hub.performHousekeeping(time.Now().Add(sessionExpireDuration + time.Second))
			close(done)
		}()
		select {
		case <-done:
			if s.e.hub.GetSessionByPublicId(s.lsid) != nil {
				return "session-still-there"
			}
			return "expired"
		case <-time.After(3 * time.Second):
			s.e.dirty = true
			return "housekeeping-stalled"
		}
	}
	return "bad-op"
}

// probe: the hub's main loop still serves a backend request that reaches the
// bystander, housekeeping returns, and the bystander saw nothing else.
func (s *vC12State) probe() string {
	e := s.e
	e.nprobe++
	var res []string
	done := make(chan struct{})
	go func() {
		e.hub.performHousekeeping(time.Now())
		close(done)
	}()
	select {
	case <-done:
	case <-time.After(3 * time.Second):
		res = append(res, "housekeeping-stalled")
		e.dirty = true
	}
	// stale frames first
	stale, closed, timedOut := e.byst.barrier(3 * time.Second)
	if closed || timedOut {
		e.dirty = true
		return "bystander-lost"
	}
	body := fmt.Sprintf(`{"type":"update","update":{"userids":[],"properties":{"n":%d}}}`, e.nprobe)
	resp, err := performBackendRequest(e.hubServer.URL+"/api/v1/room/"+vC12BystRoom, []byte(body))
	if err != nil {
		res = append(res, "backend-request-failed")
	} else {
		io.Copy(io.Discard, resp.Body) // nolint
		resp.Body.Close()
		if resp.StatusCode != http.StatusOK {
			res = append(res, fmt.Sprintf("backend-status-%d", resp.StatusCode))
		}
	}
	if txt, ok := e.byst.next(3 * time.Second); !ok {
		res = append(res, "main-loop-stalled")
		e.dirty = true
	} else if !strings.Contains(txt, fmt.Sprintf(`"n":%d`, e.nprobe)) {
		res = append(res, "bystander-got:"+vEnc(txt))
	}
	if len(stale) > 0 {
		res = append(res, fmt.Sprintf("bystander-disturbed:%d", len(stale)))
	}
	// the federated session's own connection still answers
	if s.local != nil && !s.local.dead {
		if _, closed, timedOut := s.local.barrier(3 * time.Second); timedOut {
			res = append(res, "local-stuck")
		} else if closed {
			res = append(res, "local-closed")
		}
	}
	sort.Strings(res)
	if len(res) == 0 {
		return "alive"
	}
	return strings.Join(res, ",")
}

// finish ends the case: the local client says bye; every read loop of the case must end.
func (s *vC12State) finish() {
	e := s.e
	e.peer.refuse.Store(false)
	if s.local != nil {
		if !s.local.dead {
			s.local.send(websocket.TextMessage, `{"type":"bye"}`) // nolint
			s.local.barrier(500 * time.Millisecond)
		}
		s.local.closeHard()
	}
	if s.pc != nil {
		s.pc.closeHard()
	}
	if s.sess != nil {
		// the bye closes the session asynchronously
		deadline := time.Now().Add(3 * time.Second)
		for time.Now().Before(deadline) {
			if e.hub.GetSessionByPublicId(s.lsid) == nil && e.hub.readPumpActive.Load() <= s.base-1 {
				break
			}
			time.Sleep(200 * time.Microsecond)
		}
		if e.hub.readPumpActive.Load() > s.base-1 {
			e.dirty = true
		}
	}
	if f := s.anyFed(); f != nil {
		// a peer that never answers the leave request would keep the client alive
		done := make(chan struct{})
		go func() {
			f.Close()
			close(done)
		}()
		select {
		case <-done:
			deadline := time.Now().Add(2 * time.Second)
			for e.hub.readPumpActive.Load() > s.base-1 && time.Now().Before(deadline) {
				time.Sleep(200 * time.Microsecond)
			}
		case <-time.After(time.Second):
			e.dirty = true // the client is deadlocked
		}
	}
	// connections that arrived but were never used
	for {
		select {
		case c := <-e.peer.conns:
			c.closeHard()
			continue
		default:
		}
		break
	}
}

var vC12EnvCur *vC12Env

func vC12Exec(t *testing.T, c *vCase) {
	if vC12EnvCur == nil || vC12EnvCur.dirty {
		log.SetOutput(io.Discard)
		vC12EnvCur = newVC12Env(t)
	}
	s := &vC12State{e: vC12EnvCur}
	defer s.finish()
	for _, line := range c.Ops {
		c.Impl = append(c.Impl, s.step(line))
		if vC12Progress != nil {
			vC12Progress()
		}
	}
}
