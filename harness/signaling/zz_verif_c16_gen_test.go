package signaling

// C16 — generator and tokeniser (no reference to the code under test).
//
// harness/proxy/zz_verif_c16_gen_test.go is a copy of this file with the package
// clause changed (tools/props/c16.py checks that the two stay identical).

import (
	"encoding/hex"
	"fmt"
	"net"
	"strconv"
	"strings"
	"unicode"
)

// ---------- tokeniser: standard library only ----------

type vC16Hdr struct{ Name, Value string }

type vC16Req struct {
	Remote string
	Hdrs   []vC16Hdr
}

// The header names of the property statement.
const (
	vC16RealIP    = "X-Real-IP"
	vC16Forwarded = "X-Forwarded-For"
)

func vC16Tok(text string) string {
	ip := net.ParseIP(text)
	if ip == nil {
		return vEnc(text) + ";-"
	}
	return vEnc(text) + ";" + hex.EncodeToString(ip)
}

// vC16SplitCommas cuts at every comma (own loop, no strings.Split/Join).
func vC16SplitCommas(s string) []string {
	var out []string
	start := 0
	for i := 0; i < len(s); i++ {
		if s[i] == ',' {
			out = append(out, s[start:i])
			start = i + 1
		}
	}
	return append(out, s[start:])
}

func vC16Trim(s string) string {
	return strings.TrimFunc(s, unicode.IsSpace)
}

// vC16ReqTokens: `<peer> X <n> <tok>… F <m> <tok>…`
func vC16ReqTokens(q vC16Req) string {
	host := q.Remote
	if h, _, err := net.SplitHostPort(q.Remote); err == nil {
		host = h
	}
	var xs, fs []string
	for _, h := range q.Hdrs {
		switch {
		case strings.EqualFold(h.Name, vC16RealIP):
			xs = append(xs, vC16Tok(h.Value))
		case strings.EqualFold(h.Name, vC16Forwarded):
			for _, piece := range vC16SplitCommas(h.Value) {
				piece = vC16Trim(piece)
				if hh, _, err := net.SplitHostPort(piece); err == nil {
					piece = hh
				}
				fs = append(fs, vC16Tok(piece))
			}
		}
	}
	var sb strings.Builder
	sb.WriteString(vC16Tok(host))
	fmt.Fprintf(&sb, " X %d", len(xs))
	for _, x := range xs {
		sb.WriteString(" " + x)
	}
	fmt.Fprintf(&sb, " F %d", len(fs))
	for _, x := range fs {
		sb.WriteString(" " + x)
	}
	return sb.String()
}

func vC16ReqRaw(q vC16Req) string {
	var sb strings.Builder
	fmt.Fprintf(&sb, "R %s %d", vEnc(q.Remote), len(q.Hdrs))
	for _, h := range q.Hdrs {
		sb.WriteString(" " + vEnc(h.Name) + " " + vEnc(h.Value))
	}
	return sb.String()
}

// vC16ParseRaw reads the part after `R` back; ok=false on a malformed line.
func vC16ParseRaw(f []string) (vC16Req, bool) {
	var q vC16Req
	if len(f) < 3 || f[0] != "R" {
		return q, false
	}
	q.Remote = vDec(f[1])
	n, err := strconv.Atoi(f[2])
	if err != nil || len(f) != 3+2*n {
		return q, false
	}
	for i := 0; i < n; i++ {
		q.Hdrs = append(q.Hdrs, vC16Hdr{vDec(f[3+2*i]), vDec(f[4+2*i])})
	}
	return q, true
}

// vC16EntryTok: one configured entry (trimmed, non-empty) as the operator wrote it:
// with a `/` it is a network, `<hex ip>/<hex mask>` of net.ParseCIDR; without, a single
// address, `h<hex>` of net.ParseIP; `!` if the standard library cannot read it.
func vC16EntryTok(p string) string {
	hasSlash := false
	for i := 0; i < len(p); i++ {
		if p[i] == '/' {
			hasSlash = true
		}
	}
	if hasSlash {
		_, n, err := net.ParseCIDR(p)
		if err != nil {
			return "!"
		}
		return vC16NetTok(n.IP, n.Mask)
	}
	ip := net.ParseIP(p)
	if ip == nil {
		return "!"
	}
	return "h" + hex.EncodeToString(ip)
}

// vC16CanonNet shows a network the way IPNet.Contains reads it: family, masked 16-byte
// network address, prefix length; `?raw` if it has no such form.
func vC16CanonNet(ip net.IP, m net.IPMask) string {
	raw := "?" + vC16NetTok(ip, m)
	a, fam := ip, "6"
	if v4 := ip.To4(); v4 != nil {
		a, fam = v4, "4"
		if len(m) == net.IPv6len {
			m = m[12:]
		}
	} else if len(ip) != net.IPv6len {
		return raw
	}
	if len(m) != len(a) {
		return raw
	}
	ones, bits := m.Size()
	if bits == 0 {
		return raw
	}
	masked := make(net.IP, len(a))
	for i := range a {
		masked[i] = a[i] & m[i]
	}
	return fam + ":" + hex.EncodeToString(masked.To16()) + "/" + strconv.Itoa(ones)
}

// vC16Net (generator only): the network a configured entry stands for — an entry without
// prefix length is that one address; ok=false if it is neither.
func vC16Net(s string) (net.IP, net.IPMask, bool) {
	if strings.ContainsRune(s, '/') {
		_, n, err := net.ParseCIDR(s)
		if err != nil {
			return nil, nil, false
		}
		return n.IP, n.Mask, true
	}
	ip := net.ParseIP(s)
	if ip == nil {
		return nil, nil, false
	}
	return ip, net.CIDRMask(8*len(ip), 8*len(ip)), true
}

func vC16NetTok(ip net.IP, m net.IPMask) string {
	return hex.EncodeToString(ip) + "/" + hex.EncodeToString(m)
}

// vC16ListTokens: `<n> <entry>…` for a configured comma-separated list.
func vC16ListTokens(s string) string {
	pieces := vC16SplitCommas(s)
	var sb strings.Builder
	fmt.Fprintf(&sb, "%d", len(pieces))
	for _, p := range pieces {
		p = vC16Trim(p)
		if p == "" {
			sb.WriteString(" _")
			continue
		}
		sb.WriteString(" " + vC16EntryTok(p))
	}
	return sb.String()
}

func vC16CfgOp(kind, server, trusted, allow string) string {
	return fmt.Sprintf("%s %s T %s A %s S %s %s", kind, server, vC16ListTokens(trusted), vC16ListTokens(allow), vEnc(trusted), vEnc(allow))
}

func vC16IpOp(mode string, q vC16Req) string {
	return "ip " + mode + " " + vC16ReqTokens(q) + " " + vC16ReqRaw(q)
}

func vC16GetOp(server, route string, q vC16Req) string {
	return "get " + server + " " + vEnc(route) + " " + vC16ReqTokens(q) + " " + vC16ReqRaw(q)
}

// vC16SplitOp separates the model part from the raw part at the first `S` / `R` marker
// (no token of the model part can be a bare letter other than T, A, X, F).
func vC16SplitOp(f []string, marker string) ([]string, []string) {
	for i := 0; i < len(f); i++ {
		if f[i] == marker {
			return f[:i], f[i:]
		}
	}
	return f, nil
}

// ---------- generator ----------

// configured entries: valid ones (with the share of odd but legal spellings) and invalid ones
var vC16Entries = []string{
	"127.0.0.1", "10.0.0.0/8", "192.168.0.0/16", "192.168.1.1/24", "172.16.0.0/12", "1.2.3.4", "1.2.3.4/32",
	"0.0.0.0/0", "::/0", "203.0.113.0/24", "198.51.100.7/31", "100.64.0.0/10",
	"2001:db8::/32", "2001:db8::1/128", "2001:db8::1", "2001:db8:1::/48", "fe80::/10", "::1", "::1/128",
	"::ffff:10.0.0.0/104", "::ffff:1.2.3.4", "::ffff:0.0.0.0/96", "::ffff:192.168.0.0/112", "::/96", "::/1", "128.0.0.0/1",
	"2001:DB8:0:0:0:0:0:1", "0:0:0:0:0:ffff:0a00:0001",
	// single addresses of either family, in every spelling
	"fe80::1", "fd00::1", "2001:db8:0:1::53", "::ffff:127.0.0.1", "10.0.0.1", "192.168.1.1", "::", "0.0.0.0",
	"255.255.255.255", "ff02::1", "64:ff9b::a00:1", "::10.0.0.1",
	"::ffff:10.0.0.1/128", "::ffff:10.0.0.0/120", "fe80::1/128", "fe80::/64", "2001:db8::1/127",
}

var vC16BadEntries = []string{"abc", "1.2.3.4/33", "1.2.3/8", "::/129", "10.0.0.0/8/8", "1.2.3.4:80", "01.2.3.4", "/", "1.2.3.4/", "fe80::1%eth0", "[::1]"}

func vC16GenList(r *vRand, allowBad bool) string {
	switch r.intn(12) {
	case 0:
		return ""
	case 1:
		return r.pick([]string{" ", ",", " , ,", "\t"})
	}
	n := 1 + r.intn(4)
	var parts []string
	for i := 0; i < n; i++ {
		e := r.pick(vC16Entries)
		if r.chance(1, 6) {
			// random IPv4 network
			bits := r.intn(33)
			e = fmt.Sprintf("%d.%d.%d.%d/%d", r.intn(256), r.intn(256), r.intn(256), r.intn(256), bits)
		}
		if r.chance(1, 6) {
			// random single address, either family, any spelling
			e = vC16Spell(r, vC16RandIP(r))
		}
		if allowBad && r.chance(1, 14) {
			e = r.pick(vC16BadEntries)
		}
		switch r.intn(8) {
		case 0:
			e = " " + e
		case 1:
			e = e + " "
		case 2:
			e = "\t" + e + "  "
		}
		parts = append(parts, e)
		if r.chance(1, 10) {
			parts = append(parts, r.pick([]string{"", " "}))
		}
	}
	return strings.Join(parts, ",")
}

// vC16Inside returns a pseudo-random address inside the given network.
func vC16Inside(r *vRand, ip net.IP, m net.IPMask) net.IP {
	base := ip
	if v4 := ip.To4(); v4 != nil && len(m) == 4 {
		base = v4
	} else if v4 != nil && len(m) == 16 {
		base = v4
		m = m[12:]
	}
	if len(base) != len(m) {
		return ip
	}
	out := make(net.IP, len(base))
	for i := range base {
		out[i] = (base[i] & m[i]) | (byte(r.intn(256)) &^ m[i])
	}
	return out
}

func vC16FlipBit(ip net.IP, k int) net.IP {
	out := append(net.IP{}, ip...)
	if k >= 0 && k < 8*len(out) {
		out[k/8] ^= byte(0x80 >> uint(k%8))
	}
	return out
}

// vC16Near returns addresses that a sloppy reading of the entry would take for members
// although they are not (or the other way round): the sibling just outside the prefix,
// the same address with one bit flipped at the usual prefix boundaries (what a wrong
// prefix length, or a prefix length counted in the wrong family, would cover), the
// ends of the network, and the look-alikes in the other address family.
func vC16Near(r *vRand, ip net.IP, m net.IPMask) []net.IP {
	a := ip
	if v4 := ip.To4(); v4 != nil {
		a = v4
		if len(m) == net.IPv6len {
			m = m[12:]
		}
	}
	if len(a) != len(m) {
		return nil
	}
	ones, bits := m.Size()
	if bits == 0 {
		return nil
	}
	var out []net.IP
	add := func(x net.IP) { out = append(out, x) }
	if ones > 0 {
		add(vC16FlipBit(a, ones-1))
		add(vC16FlipBit(a, r.intn(ones)))
		for _, b := range []int{8, 16, 24, 32, 48, 64, 96, 104, 112, 120, bits - 8, bits - 2, bits - 1} {
			if b >= 0 && b < ones && r.chance(1, 2) {
				// differs at bit b only below the boundary: inside any reading that stops at b
				x := vC16FlipBit(a, b)
				if r.chance(1, 2) {
					for i := b/8 + 1; i < len(x); i++ {
						x[i] = byte(r.intn(256))
					}
				}
				add(x)
			}
		}
	}
	if ones < bits {
		add(vC16FlipBit(a, ones))
		lo, hi := append(net.IP{}, a...), append(net.IP{}, a...)
		for i := range a {
			lo[i] &= m[i]
			hi[i] |= ^m[i]
		}
		add(lo)
		add(hi)
	}
	if len(a) == net.IPv4len {
		// the same four bytes read as (the start of) an IPv6 address
		x := make(net.IP, 16)
		copy(x, a)
		for i := 4; i < 16; i++ {
			if r.chance(1, 3) {
				x[i] = byte(r.intn(256))
			}
		}
		add(x)
		compat := make(net.IP, 16)
		copy(compat[12:], a)
		add(compat)
		sixToFour := make(net.IP, 16)
		sixToFour[0], sixToFour[1] = 0x20, 0x02
		copy(sixToFour[2:], a)
		add(sixToFour)
		nat64 := net.ParseIP("64:ff9b::")
		copy(nat64[12:], a)
		add(nat64)
	} else {
		add(net.IP(append([]byte{}, a[:4]...)))
		add(net.IP(append([]byte{}, a[12:]...)))
		mapped := append(net.IP{}, a...)
		copy(mapped[:12], []byte{0, 0, 0, 0, 0, 0, 0, 0, 0, 0, 0xff, 0xff})
		add(mapped)
	}
	// a handful of them
	for len(out) > 5 {
		i := r.intn(len(out))
		out = append(out[:i], out[i+1:]...)
	}
	return out
}

func vC16RandIP(r *vRand) net.IP {
	if r.chance(2, 3) {
		return net.IPv4(byte(1+r.intn(223)), byte(r.intn(256)), byte(r.intn(256)), byte(1+r.intn(254))).To4()
	}
	ip := make(net.IP, 16)
	copy(ip, []byte{0x20, 0x01, 0x0d, 0xb8})
	if r.chance(1, 2) {
		ip[1] = 0x02
	}
	for i := 4; i < 16; i++ {
		if r.chance(1, 3) {
			ip[i] = byte(r.intn(256))
		}
	}
	return ip
}

// vC16Spell writes an address in one of its textual forms.
func vC16Spell(r *vRand, ip net.IP) string {
	if v4 := ip.To4(); v4 != nil {
		switch r.intn(10) {
		case 0:
			return "::ffff:" + v4.String()
		case 1:
			return fmt.Sprintf("::ffff:%02x%02x:%02x%02x", v4[0], v4[1], v4[2], v4[3])
		case 2:
			return fmt.Sprintf("0:0:0:0:0:ffff:%x:%x", int(v4[0])<<8|int(v4[1]), int(v4[2])<<8|int(v4[3]))
		}
		return v4.String()
	}
	switch r.intn(6) {
	case 0:
		var parts []string
		for i := 0; i < 16; i += 2 {
			parts = append(parts, fmt.Sprintf("%02x%02x", ip[i], ip[i+1]))
		}
		return strings.Join(parts, ":")
	case 1:
		return strings.ToUpper(ip.String())
	}
	return ip.String()
}

var vC16Garbage = []string{
	"", " ", "unknown", "_hidden", "-", "1.2.3", "1.2.3.4.5", "01.2.3.4", "256.1.1.1", "1.2.3.4/24", "fe80::1%eth0",
	"[::1]", "[2001:db8::1]", "::1:80", "localhost", "1.2.3.4 5.6.7.8", "for=1.2.3.4", "\"1.2.3.4\"", "1.2.3.4;",
	"0x7f.0.0.1", "2001:db8::g", ":", "::", "[]:80", ":80", "é", " 1.2.3.4", "1.2.3.4 ",
}

// vC16Hop decorates an address the way proxies (or attackers) write hops.
func vC16Hop(r *vRand, s string) string {
	isV6 := strings.Contains(s, ":")
	switch r.intn(16) {
	case 0:
		if isV6 {
			return fmt.Sprintf("[%s]:%d", s, 1+r.intn(65535))
		}
		return fmt.Sprintf("%s:%d", s, 1+r.intn(65535))
	case 1:
		if isV6 {
			return "[" + s + "]"
		}
		return s + ":http"
	case 2:
		return " " + s
	case 3:
		return s + "  "
	case 4:
		return "\t" + s + "\t"
	case 5:
		return " " + s
	case 6:
		if isV6 {
			return s + "%eth0"
		}
		return s + " :80"
	case 7:
		return s + ":"
	case 8:
		// everything unicode.IsSpace accepts is trimmed from a hop
		return r.pick([]string{"\u00a0", "\u2003", "\u0085", "\v", "\f", "\r\n", "\u3000"}) + s + r.pick([]string{"", "\u00a0", "\u2028", " \t"})
	case 9:
		// … but not what merely looks like space
		return r.pick([]string{"\u200b", "\ufeff", "\x00"}) + s
	}
	return s
}

func vC16Remote(r *vRand, ip net.IP) string {
	s := vC16Spell(r, ip)
	isV6 := strings.Contains(s, ":")
	switch r.intn(14) {
	case 0: // no port
		return s
	case 1:
		if isV6 {
			return "[" + s + "]"
		}
		return s + ":"
	case 2:
		if isV6 {
			return "[" + s + "%eth0]:4711"
		}
		return s + ":0"
	case 3:
		return r.pick([]string{"@", "", "pipe", "garbage:12", "[::1", ":1234", "localhost:80", "1.2.3.4:5:6"})
	}
	if isV6 {
		return fmt.Sprintf("[%s]:%d", s, 1024+r.intn(60000))
	}
	return fmt.Sprintf("%s:%d", s, 1024+r.intn(60000))
}

func vC16HdrName(r *vRand, canonical string) string {
	switch r.intn(6) {
	case 0:
		return strings.ToLower(canonical)
	case 1:
		return strings.ToUpper(canonical)
	}
	return canonical
}

type vC16World struct {
	trusted, allowed, outside []net.IP
	// near-misses of the trusted entries / of the allow-list entries
	nearTrusted, nearAllowed []net.IP
	all                      []net.IP
}

func vC16NewWorld(r *vRand, trusted, allow string) *vC16World {
	w := &vC16World{}
	collect := func(list string, defaults []string) (out, near []net.IP) {
		n := 0
		for _, p := range vC16SplitCommas(list) {
			p = vC16Trim(p)
			if ip, m, ok := vC16Net(p); ok {
				n++
				out = append(out, vC16Inside(r, ip, m), vC16Inside(r, ip, m))
				near = append(near, vC16Near(r, ip, m)...)
			}
		}
		if n == 0 {
			for _, p := range defaults {
				if ip, m, ok := vC16Net(p); ok {
					out = append(out, vC16Inside(r, ip, m))
					if nn := vC16Near(r, ip, m); len(nn) > 2 {
						near = append(near, nn[:2]...)
					}
				}
			}
		}
		return out, near
	}
	// the defaults of the statement's world: private networks are trusted, 127.0.0.1 may read the statistics
	w.trusted, w.nearTrusted = collect(trusted, []string{"127.0.0.0/8", "10.0.0.0/8", "172.16.0.0/12", "192.168.0.0/16"})
	w.allowed, w.nearAllowed = collect(allow, []string{"127.0.0.1"})
	for i := 0; i < 4; i++ {
		w.outside = append(w.outside, vC16RandIP(r))
	}
	w.all = append(append(append([]net.IP{}, w.trusted...), w.allowed...), w.outside...)
	w.all = append(append(w.all, w.nearTrusted...), w.nearAllowed...)
	return w
}

func (w *vC16World) pick(r *vRand, from []net.IP) net.IP {
	if len(from) == 0 || r.chance(1, 8) {
		return w.all[r.intn(len(w.all))]
	}
	return from[r.intn(len(from))]
}

func (w *vC16World) hopText(r *vRand, from []net.IP) string {
	if r.chance(1, 7) {
		return r.pick(vC16Garbage)
	}
	return vC16Hop(r, vC16Spell(r, w.pick(r, from)))
}

// vC16PortHop writes a hop the way a proxy that records the socket address does:
// with the port, IPv6 in brackets.
func vC16PortHop(r *vRand, s string) string {
	isV6 := strings.Contains(s, ":")
	switch r.intn(5) {
	case 0:
		return s
	case 1, 2:
		if isV6 {
			return fmt.Sprintf("[%s]:%d", s, 1+r.intn(65535))
		}
		return fmt.Sprintf("%s:%d", s, 1+r.intn(65535))
	case 3:
		if isV6 {
			return fmt.Sprintf(" [%s]:%d ", s, 1+r.intn(65535))
		}
		return fmt.Sprintf("\t%s:%d", s, 1+r.intn(65535))
	}
	return vC16Hop(r, s)
}

// vC16GenChain: the situation the second half of the statement is about — a trusted
// proxy (or a chain of them) appended the address it saw, in whatever notation, to what
// the client sent along.
func vC16GenChain(r *vRand, w *vC16World) vC16Req {
	var q vC16Req
	q.Remote = vC16Remote(r, w.pick(r, w.trusted))
	if r.chance(1, 4) {
		v := r.pick(vC16Garbage)
		if v != "" || r.chance(1, 2) {
			q.Hdrs = append(q.Hdrs, vC16Hdr{vC16HdrName(r, vC16RealIP), v})
		}
	}
	var hops []string
	for i, n := 0, r.intn(3); i < n; i++ { // what the client made up
		from := w.allowed
		if r.chance(1, 3) {
			from = w.all
		}
		hops = append(hops, vC16Hop(r, vC16Spell(r, w.pick(r, from))))
	}
	clientFrom := w.outside
	if len(w.nearTrusted) > 0 && r.chance(1, 3) {
		clientFrom = w.nearTrusted
	}
	hops = append(hops, vC16PortHop(r, vC16Spell(r, clientFrom[r.intn(len(clientFrom))])))
	for i, n := 0, r.intn(3); i < n; i++ { // further trusted proxies
		if r.chance(1, 8) {
			hops = append(hops, r.pick(vC16Garbage))
			continue
		}
		hops = append(hops, vC16PortHop(r, vC16Spell(r, w.pick(r, w.trusted))))
	}
	name := vC16HdrName(r, vC16Forwarded)
	if r.chance(1, 3) {
		for _, h := range hops {
			q.Hdrs = append(q.Hdrs, vC16Hdr{name, h})
		}
	} else {
		sep := ","
		if r.chance(2, 3) {
			sep = ", "
		}
		q.Hdrs = append(q.Hdrs, vC16Hdr{name, strings.Join(hops, sep)})
	}
	return q
}

// vC16GenReq builds one request of one of the shapes the statement talks about.
func vC16GenReq(r *vRand, w *vC16World) vC16Req {
	var q vC16Req
	shape := r.intn(14)
	var peerFrom []net.IP
	forge := false
	switch {
	case shape < 3: // direct client, possibly forging headers
		peerFrom = w.outside
	case shape < 7: // behind a trusted proxy
		peerFrom = w.trusted
	case shape < 9: // direct client next door to a trusted proxy, forging headers
		peerFrom = w.nearTrusted
		forge = true
	case shape == 9: // direct client next door to an address that may read the statistics
		peerFrom = w.nearAllowed
	case shape < 12:
		return vC16GenChain(r, w)
	default:
		peerFrom = w.all
	}
	q.Remote = vC16Remote(r, w.pick(r, peerFrom))

	// X-Real-IP lines
	nx := 0
	switch r.intn(6) {
	case 0, 1:
		nx = 1
	case 2:
		nx = 1 + r.intn(2)
	}
	// X-Forwarded-For lines
	nf := r.intn(4)
	if forge && nx == 0 && nf == 0 {
		nx = 1
	}
	type line struct {
		name, value string
	}
	var lines []line
	for i := 0; i < nx; i++ {
		v := ""
		switch r.intn(8) {
		case 0:
			v = r.pick(vC16Garbage)
			if i == 0 && nx > 1 && r.chance(1, 2) {
				v = "" // Header.Get yields the first line only, also when it is empty
			}
		case 1:
			v = vC16Hop(r, vC16Spell(r, w.pick(r, w.all)))
		case 2, 3:
			from := w.allowed
			if !forge && r.chance(1, 2) {
				from = w.nearAllowed
			}
			v = vC16Spell(r, w.pick(r, from))
		default:
			v = vC16Spell(r, w.pick(r, w.all))
		}
		lines = append(lines, line{vC16HdrName(r, vC16RealIP), v})
	}
	for i := 0; i < nf; i++ {
		nh := r.intn(6)
		var hops []string
		for j := 0; j < nh; j++ {
			// towards the right end hops tend to be proxies
			from := w.all
			if i == nf-1 && j >= nh-2 && r.chance(2, 3) {
				from = w.trusted
			} else if r.chance(1, 2) {
				from = w.outside
			}
			hops = append(hops, w.hopText(r, from))
		}
		sep := ","
		if r.chance(2, 3) {
			sep = ", "
		}
		lines = append(lines, line{vC16HdrName(r, vC16Forwarded), strings.Join(hops, sep)})
	}
	// unrelated look-alike headers
	if r.chance(1, 5) {
		lines = append(lines, line{r.pick([]string{"Forwarded", "X-Forwarded-Host", "X-Real-IP-2", "X-Client-IP", "X-Forwarded", "True-Client-IP"}),
			vC16Spell(r, w.pick(r, w.allowed))})
	}
	// shuffle the header lines (order of lines of one name matters, interleaving does not)
	for i := len(lines) - 1; i > 0; i-- {
		j := r.intn(i + 1)
		lines[i], lines[j] = lines[j], lines[i]
	}
	for _, l := range lines {
		q.Hdrs = append(q.Hdrs, vC16Hdr{l.name, l.value})
	}
	return q
}

var vC16Configs = [][2]string{
	{"", ""},
	{"1.2.3.4", "127.0.0.1, 192.168.0.1, 192.168.1.1/24"},
	{"192.168.0.0/16", ""},
	{"0.0.0.0/0", "10.0.0.0/8"},
	{"::/0", "2001:db8::/32"},
	{"0.0.0.0/0, ::/0", "0.0.0.0/0, ::/0"},
	{"10.0.0.1/32, 2001:db8::1/128", "::ffff:10.0.0.0/104"},
	{"::ffff:192.168.0.0/112", "192.168.0.0/16"},
	{"1.2.3.4/32", "1.2.3.4"},
	{"2001:db8::1", "::1"},
	{"fe80::1, ::ffff:10.0.0.1, 2001:db8:0:1::53", "127.0.0.1, ::1, 2001:db8::1"},
	{"10.0.0.1, 192.168.1.1", "::ffff:127.0.0.1, fd00::1"},
	{"::1, 10.0.0.0/8", "2001:db8::1/128, 10.0.0.1"},
}

// vC16GenCases: `routes` lists the routes of this server (gated and open); `modes` the
// variants of the direct call.
func vC16GenCases(e *vEnv, r *vRand, server string, routes []string) []vCase {
	seen := map[string]bool{}
	var distinct []string
	for _, rt := range routes {
		if !seen[rt] {
			seen[rt] = true
			distinct = append(distinct, rt)
		}
	}
	cases := vC16Fixed(server, distinct)
	n := e.scale(160, 2500)
	perCase := e.scale(18, 40)
	for i := 0; i < n; i++ {
		rr := r.fork()
		var trusted, allow string
		if i < len(vC16Configs) || rr.chance(1, 6) {
			c := vC16Configs[(i+rr.intn(len(vC16Configs)))%len(vC16Configs)]
			if i < len(vC16Configs) {
				c = vC16Configs[i]
			}
			trusted, allow = c[0], c[1]
		} else {
			trusted, allow = vC16GenList(rr, true), vC16GenList(rr, true)
		}
		var ops []string
		ops = append(ops, vC16CfgOp("new", server, trusted, allow))
		w := vC16NewWorld(rr, trusted, allow)
		nreq := 4 + rr.intn(perCase)
		for j := 0; j < nreq; j++ {
			if rr.chance(1, 12) {
				trusted, allow = vC16GenList(rr, true), vC16GenList(rr, true)
				ops = append(ops, vC16CfgOp("reload", server, trusted, allow))
				if rr.chance(2, 3) {
					w = vC16NewWorld(rr, trusted, allow)
				}
				continue
			}
			q := vC16GenReq(rr, w)
			switch k := rr.intn(10); {
			case k < 5:
				mode := "srv"
				if rr.chance(1, 12) {
					mode = "nil"
				}
				ops = append(ops, vC16IpOp(mode, q))
			default:
				ops = append(ops, vC16GetOp(server, routes[rr.intn(len(routes))], q))
			}
		}
		cases = append(cases, vCase{Ops: ops})
	}
	return cases
}

// vC16Fixed: the textbook shapes, on every gated route.
func vC16Fixed(server string, routes []string) []vCase {
	type rq struct {
		remote string
		hdrs   []vC16Hdr
	}
	x := func(v string) vC16Hdr { return vC16Hdr{vC16RealIP, v} }
	f := func(v string) vC16Hdr { return vC16Hdr{vC16Forwarded, v} }
	reqs := []rq{
		{"10.11.12.13:234", nil},
		{"10.11.12.13:234", []vC16Hdr{x("127.0.0.1")}},
		{"10.11.12.13:234", []vC16Hdr{f("127.0.0.1")}},
		{"10.11.12.13:234", []vC16Hdr{f("127.0.0.1, 192.168.0.1"), x("192.168.0.1")}},
		{"192.168.1.2:23456", nil},
		{"192.168.1.2:23456", []vC16Hdr{x("10.11.12.13")}},
		{"192.168.1.2:23456", []vC16Hdr{x("127.0.0.1")}},
		{"192.168.1.2:23456", []vC16Hdr{x("2002:db8::1")}},
		{"192.168.1.2:23456", []vC16Hdr{x(" 127.0.0.1")}},
		{"192.168.1.2:23456", []vC16Hdr{x(""), x("127.0.0.1")}},
		{"192.168.1.2:23456", []vC16Hdr{x("127.0.0.1:80"), f("192.168.0.1")}},
		{"192.168.1.2:23456", []vC16Hdr{f("11.12.13.14, 192.168.30.32")}},
		{"192.168.1.2:23456", []vC16Hdr{f("127.0.0.1, 11.12.13.14, 192.168.30.32")}},
		{"192.168.1.2:23456", []vC16Hdr{f("127.0.0.1"), f("11.12.13.14"), f("192.168.30.32")}},
		{"192.168.1.2:23456", []vC16Hdr{f("192.168.0.1, 192.168.30.32")}},
		{"192.168.1.2:23456", []vC16Hdr{f("192.168.1.100,192.168.30.32, 192.168.1.77")}},
		{"192.168.1.2:23456", []vC16Hdr{f("[2001:db8::1]:1234, 192.168.30.32:80")}},
		{"192.168.1.2:23456", []vC16Hdr{f("127.0.0.1:99, unknown, 192.168.30.32")}},
		{"192.168.1.2:23456", []vC16Hdr{f("unknown, , _hidden")}},
		{"192.168.1.2:23456", []vC16Hdr{f("127.0.0.1, [::1]")}},
		{"192.168.1.2:23456", []vC16Hdr{x("garbage"), f("127.0.0.1")}},
		{"[::ffff:192.168.1.2]:23456", []vC16Hdr{x("127.0.0.1")}},
		{"192.168.1.2", []vC16Hdr{x("127.0.0.1")}},
		{"[fe80::1%eth0]:1234", []vC16Hdr{x("127.0.0.1")}},
		{"@", []vC16Hdr{x("127.0.0.1"), f("127.0.0.1")}},
		{"", []vC16Hdr{x("127.0.0.1")}},
		{"127.0.0.1:4711", nil},
		{"127.0.0.1:4711", []vC16Hdr{x("8.8.8.8")}},
		{"[::1]:4711", nil},
		// next door to a single configured address
		{"[2001:db8::1]:1234", []vC16Hdr{x("::1")}},
		{"[2001:db8::2]:1234", []vC16Hdr{x("::1")}},
		{"[2001:db8:ffff::1]:1234", []vC16Hdr{f("127.0.0.1")}},
		{"[::2]:4711", nil},
		{"[::1:0:0:1]:4711", nil},
		{"[::ffff:10.0.0.1]:55", []vC16Hdr{x("::1")}},
		{"10.0.0.2:55", []vC16Hdr{x("::1")}},
		{"[a00:1::]:55", []vC16Hdr{x("::1")}},
		{"10.0.0.1:55", []vC16Hdr{f("::1, [2002:db8::9]:51234")}},
		{"10.0.0.1:55", []vC16Hdr{f("::1, [2002:db8::9]:51234, [2001:db8::1]:443")}},
	}
	var cases []vCase
	for _, cfg := range [][2]string{{"", ""}, {"192.168.0.0/16", "127.0.0.1, 192.168.0.1, 192.168.1.1/24"}, {"192.168.1.2", "::1, 2002:db8::/32"},
		{"2001:db8::1, 10.0.0.1", "::1, 127.0.0.1"}} {
		ops := []string{vC16CfgOp("new", server, cfg[0], cfg[1])}
		for _, q := range reqs {
			req := vC16Req{Remote: q.remote, Hdrs: q.hdrs}
			ops = append(ops, vC16IpOp("srv", req), vC16IpOp("nil", req))
			for _, rt := range routes {
				ops = append(ops, vC16GetOp(server, rt, req))
			}
		}
		cases = append(cases, vCase{Ops: ops, Tags: []string{"fixed"}})
	}
	return cases
}

// vC16GenMem: membership of single addresses in lists of networks, including the byte
// lengths net.IPNet tolerates but the parsers never produce.
func vC16GenMem(e *vEnv, r *vRand) []vCase {
	var cases []vCase
	n := e.scale(30, 300)
	for i := 0; i < n; i++ {
		rr := r.fork()
		var ops []string
		for j := 0; j < 25; j++ {
			k := 1 + rr.intn(3)
			var nets []string
			var ins []net.IP
			for a := 0; a < k; a++ {
				ent := rr.pick(vC16Entries)
				if rr.chance(1, 3) {
					ent = fmt.Sprintf("%d.%d.%d.%d/%d", rr.intn(256), rr.intn(256), rr.intn(256), rr.intn(256), rr.intn(33))
				}
				ip, m, _ := vC16Net(ent)
				switch rr.intn(12) {
				case 0: // 16-byte form of an IPv4 network with a 4-byte mask (DefaultAllowedIps does this)
					if len(ip) == 4 {
						ip = ip.To16()
					}
				case 1: // 4-byte address with a 16-byte mask
					if len(ip) == 4 && len(m) == 4 {
						m = append(net.IPMask{255, 255, 255, 255, 255, 255, 255, 255, 255, 255, 255, 255}, m...)
					}
				case 2: // lengths that make networkNumberAndMask give up
					if rr.chance(1, 2) {
						m = m[:len(m)-1]
					} else {
						ip = ip[:len(ip)-1]
					}
				case 3: // non-contiguous mask
					m = append(net.IPMask{}, m...)
					m[rr.intn(len(m))] ^= byte(1 << uint(rr.intn(8)))
				}
				nets = append(nets, vC16NetTok(ip, m))
				ins = append(ins, vC16Inside(rr, ip, m))
			}
			var ip net.IP
			switch rr.intn(4) {
			case 0:
				ip = vC16RandIP(rr)
			default:
				ip = ins[rr.intn(len(ins))]
				if rr.chance(1, 4) && len(ip) > 0 { // flip one bit
					ip = append(net.IP{}, ip...)
					ip[rr.intn(len(ip))] ^= byte(1 << uint(rr.intn(8)))
				}
			}
			switch rr.intn(6) {
			case 0:
				if v4 := ip.To4(); v4 != nil {
					ip = v4
				}
			case 1:
				ip = ip.To16()
			}
			if len(ip) == 0 {
				ip = net.IPv4(9, 9, 9, 9)
			}
			ops = append(ops, fmt.Sprintf("mem %d %s %s", len(nets), strings.Join(nets, " "), hex.EncodeToString(ip)))
		}
		cases = append(cases, vCase{Ops: ops, Tags: []string{"mem"}})
	}
	return cases
}

// vC16ParseNetTok reads `hexip/hexmask`.
func vC16ParseNetTok(s string) (*net.IPNet, bool) {
	i := strings.IndexByte(s, '/')
	if i < 0 {
		return nil, false
	}
	ip, err1 := hex.DecodeString(s[:i])
	m, err2 := hex.DecodeString(s[i+1:])
	if err1 != nil || err2 != nil {
		return nil, false
	}
	return &net.IPNet{IP: net.IP(ip), Mask: net.IPMask(m)}, true
}
