package signaling

import (
	"context"
	"encoding/json"
	"errors"
	"fmt"
	"io"
	"log"
	"net/url"
	"os"
	"runtime"
	"sort"
	"strconv"
	"strings"
	"sync"
	"sync/atomic"
	"testing"
	"testing/synctest"

	"github.com/dlintw/goconf"
	"github.com/gorilla/mux"
)

// C09: publishers / subscribers of real ClientSessions inside a real Hub against
// Model/Mcu.lean, with a gate-controlled fake Mcu: the harness decides when each
// NewPublisher / NewSubscriber call returns and with what.  Every case runs in
// its own testing/synctest bubble (go1.26): synctest.Wait() is the quiescence
// point ("every goroutine of the server is blocked or done"), so each op line is
// executed until nothing can move any more and the schedule is the op order.
//
// Op lines:
//   join S R            hub.processJoinRoom (leaves the previous room first)
//   leave S             hub.processRoom with an empty room id
//   incall S 0|1        Room.PublishUsersInCallChanged for S in its current room
//   perms S <set|->     ClientSession.processAsyncMessage("permissions"); set ⊆ {m,a,v,s}
//   offer L S T M       client message "offer" of S for stream T (video|screen|audio) with m-lines M (a|v|av|n)
//   request L S P T     client message "requestoffer" of S for the stream T of P
//   sendoffer L P S T   client message "sendoffer" of P addressed to S (S subscribes to P)
//   end L ok|fail|timeout   the media-server call started by the request labelled L returns
//                       (labels are chosen by the generator, unique per case, and name the object created)
//   close S             ClientSession.Close
//   state               observation of the fake media server and the sessions' maps
//
// Implementation output:
//   join/leave/incall/perms/close : ok | noroom
//   offer/request/sendoffer       : pending | existing L' | denied | error | self | nosession
//   end                           : stored | closed <reply> | failed | bad      (reply: error code sent to the requester or `none`)
//   state                         : L/S/<p|s>/<stream>/<media|publisher>/<T|U> ... | -   followed by ` ; n=<entries in all session maps>`

// ---------- fake media server ----------

type vMcuOutcome int

const (
	vMcuOk vMcuOutcome = iota
	vMcuFail
	vMcuTimeout
)

type vMcuCall struct {
	id        int
	isPub     bool
	owner     string // listener.PublicId()
	publisher string // subscribers: public id of the publishing session
	stream    StreamType
	media     MediaType
	gate      chan vMcuOutcome
	done      bool
}

type vMcuObj struct {
	mcu  *vMcu
	call *vMcuCall

	listener McuListener
	mu       sync.Mutex
	media    MediaType
	closed   bool
	setMedia int
	messages int
}

type vMcu struct {
	mu      sync.Mutex
	streams map[StreamType]bool
	calls   []*vMcuCall
	objs    []*vMcuObj
	// stress mode: calls are answered after a few scheduler yields with a PRNG outcome
	auto *vRand
}

func newVMcu() *vMcu {
	// Same stream types as the Janus implementation accepts (streamTypeUserIds).
	streams := map[StreamType]bool{}
	for st := range streamTypeUserIds {
		streams[st] = true
	}
	return &vMcu{streams: streams}
}

func (m *vMcu) Start(ctx context.Context) error         { return nil }
func (m *vMcu) Stop()                                   {}
func (m *vMcu) Reload(config *goconf.ConfigFile)        {}
func (m *vMcu) SetOnConnected(f func())                 {}
func (m *vMcu) SetOnDisconnected(f func())              {}
func (m *vMcu) GetStats() interface{}                   { return nil }
func (m *vMcu) GetServerInfoSfu() *BackendServerInfoSfu { return nil }
func (m *vMcu) pendingCall(id int) *vMcuCall {
	m.mu.Lock()
	defer m.mu.Unlock()
	for _, c := range m.calls {
		if c.id == id && !c.done {
			return c
		}
	}
	return nil
}

func (m *vMcu) wait(call *vMcuCall, listener McuListener) (*vMcuObj, error) {
	m.mu.Lock()
	call.id = len(m.calls) + 1
	m.calls = append(m.calls, call)
	auto := m.auto != nil
	yields, pick := 0, 0
	if auto {
		yields, pick = m.auto.intn(6), m.auto.intn(20)
	}
	m.mu.Unlock()
	// The context is deliberately ignored: whether a cancelled / expired
	// request still succeeds at the media server is decided by the schedule.
	var out vMcuOutcome
	if auto {
		for i := 0; i < yields; i++ {
			runtime.Gosched()
		}
		switch {
		case pick < 14:
			out = vMcuOk
		case pick < 17:
			out = vMcuFail
		default:
			out = vMcuTimeout
		}
	} else {
		out = <-call.gate
	}
	m.mu.Lock()
	defer m.mu.Unlock()
	call.done = true
	switch out {
	case vMcuFail:
		return nil, errors.New("verif: media server refused")
	case vMcuTimeout:
		return nil, context.DeadlineExceeded
	}
	obj := &vMcuObj{mcu: m, call: call, listener: listener, media: call.media}
	m.objs = append(m.objs, obj)
	return obj, nil
}

func (m *vMcu) NewPublisher(ctx context.Context, listener McuListener, id string, sid string, streamType StreamType, settings NewPublisherSettings, initiator McuInitiator) (McuPublisher, error) {
	if !m.streams[streamType] {
		return nil, fmt.Errorf("unsupported stream type %s", streamType)
	}
	call := &vMcuCall{isPub: true, owner: listener.PublicId(), stream: streamType, media: settings.MediaTypes, gate: make(chan vMcuOutcome, 1)}
	obj, err := m.wait(call, listener)
	if err != nil {
		return nil, err
	}
	return obj, nil
}

func (m *vMcu) NewSubscriber(ctx context.Context, listener McuListener, publisher string, streamType StreamType, initiator McuInitiator) (McuSubscriber, error) {
	if !m.streams[streamType] {
		return nil, fmt.Errorf("unsupported stream type %s", streamType)
	}
	call := &vMcuCall{owner: listener.PublicId(), publisher: publisher, stream: streamType, gate: make(chan vMcuOutcome, 1)}
	obj, err := m.wait(call, listener)
	if err != nil {
		return nil, err
	}
	return obj, nil
}

func (o *vMcuObj) Id() string             { return "verif-" + strconv.Itoa(o.call.id) }
func (o *vMcuObj) Sid() string            { return strconv.Itoa(o.call.id) }
func (o *vMcuObj) StreamType() StreamType { return o.call.stream }
func (o *vMcuObj) MaxBitrate() int        { return 0 }
func (o *vMcuObj) Publisher() string      { return o.call.publisher }

// Close closes the object at the (fake) media server and notifies the owner
// like mcuJanusPublisher.Close / mcuJanusSubscriber.Close / the proxy variants do.
func (o *vMcuObj) Close(ctx context.Context) {
	o.mu.Lock()
	was := o.closed
	o.closed = true
	o.mu.Unlock()
	if was {
		return
	}
	if o.call.isPub {
		o.listener.PublisherClosed(o)
	} else {
		o.listener.SubscriberClosed(o)
	}
}

func (o *vMcuObj) isOpen() bool {
	o.mu.Lock()
	defer o.mu.Unlock()
	return !o.closed
}

func (o *vMcuObj) SendMessage(ctx context.Context, message *MessageClientMessage, data *MessageClientMessageData, callback func(error, map[string]interface{})) {
	o.mu.Lock()
	o.messages++
	o.mu.Unlock()
	go callback(nil, nil)
}

func (o *vMcuObj) HasMedia(mt MediaType) bool {
	o.mu.Lock()
	defer o.mu.Unlock()
	return (o.media & mt) == mt
}

func (o *vMcuObj) SetMedia(mt MediaType) {
	o.mu.Lock()
	defer o.mu.Unlock()
	o.media = mt
	o.setMedia++
}

func (o *vMcuObj) GetStreams(ctx context.Context) ([]PublisherStream, error) {
	return nil, errors.New("not implemented")
}

func (o *vMcuObj) PublishRemote(ctx context.Context, remoteId string, hostname string, port int, rtcpPort int) error {
	return errors.New("not implemented")
}

func (o *vMcuObj) UnpublishRemote(ctx context.Context, remoteId string, hostname string, port int, rtcpPort int) error {
	return errors.New("not implemented")
}

// ---------- world of one case ----------

const vC09BackendUrl = "https://verif.example/"

type vC09World struct {
	t        *testing.T
	hub      *Hub
	events   AsyncEvents
	mcu      *vMcu
	backend  *Backend
	sessions []*ClientSession
	byPublic map[string]int
	// requester (session index) of every media-server call, by call id
	requester map[int]int
	// label of the request that started a media-server call, by call id, and back
	labelOf map[int]int
	callOf  map[int]*vMcuCall
	msgId   atomic.Int64
	// zz_verif_c09_exits_test.go: in-memory backend / websocket servers, the far ends of the
	// connections (nil = session without connection), number of virtual sessions added
	net      *vC09Net
	peers    []*vC09Peer
	nvirtual int
}

func vC09Config() *goconf.ConfigFile {
	config := goconf.NewConfigFile()
	config.AddOption("backend", "allowed", "verif.example")
	config.AddOption("backend", "secret", "verif-secret")
	config.AddOption("sessions", "hashkey", "12345678901234567890123456789012")
	config.AddOption("sessions", "blockkey", "09876543210987654321098765432109")
	config.AddOption("clients", "internalsecret", "verif-internal")
	config.AddOption("geoip", "url", "none")
	return config
}

func vC09NewWorld(t *testing.T, nsess int) *vC09World {
	types := make([]string, nsess)
	for i := range types {
		types[i] = "c"
	}
	return vC09NewWorldTypes(t, types)
}

// vC09WorldTypes parses a `world` line; nil if it is not one.
func vC09WorldTypes(line string) []string {
	f := strings.Fields(line)
	if len(f) != 1+vC09Sessions || f[0] != "world" {
		return nil
	}
	for _, t := range f[1:] {
		if len(t) != 1 || !strings.Contains("cdifCDIF", t) {
			return nil
		}
	}
	return f[1:]
}

func vC09NewWorldTypes(t *testing.T, types []string) *vC09World {
	nsess := len(types)
	events, err := NewAsyncEvents(NatsLoopbackUrl)
	if err != nil {
		t.Fatal(err)
	}
	config := vC09Config()
	rpcClients, err := NewGrpcClients(config, nil, nil, "verif")
	if err != nil {
		t.Fatal(err)
	}
	hub, err := NewHub(config, events, nil, rpcClients, nil, mux.NewRouter(), "verif")
	if err != nil {
		t.Fatal(err)
	}
	w := &vC09World{t: t, hub: hub, events: events, mcu: newVMcu(), byPublic: map[string]int{}, requester: map[int]int{}, labelOf: map[int]int{}, callOf: map[int]*vMcuCall{}}
	hub.SetMcu(w.mcu)
	u, _ := url.Parse(vC09BackendUrl)
	w.backend = hub.backend.GetBackend(u)
	if w.backend == nil {
		t.Fatal("verif: backend not configured")
	}
	w.startNet()
	w.peers = make([]*vC09Peer, nsess)
	for i := 0; i < nsess; i++ {
		data := hub.newSessionIdData(w.backend)
		priv, err := hub.cookie.EncodePrivate(data)
		if err != nil {
			t.Fatal(err)
		}
		pub, err := hub.cookie.EncodePublic(data)
		if err != nil {
			t.Fatal(err)
		}
		hello := &HelloClientMessage{Version: HelloVersionV1, Auth: &HelloClientMessageAuth{Type: HelloClientTypeClient, Url: vC09BackendUrl, parsedUrl: u}}
		auth := &BackendClientAuthResponse{Version: BackendVersion, UserId: "user" + strconv.Itoa(i)}
		switch strings.ToLower(types[i]) {
		case "d":
			hello.Auth.Type = HelloClientTypeFederation
		case "i", "f":
			// Hub.processHelloInternal
			hello.Auth.Type = HelloClientTypeInternal
			hello.Auth.internalParams.Backend = vC09BackendUrl
			hello.Auth.internalParams.parsedBackend = u
			auth = &BackendClientAuthResponse{}
			if strings.ToLower(types[i]) == "f" {
				hello.Features = []string{ClientFeatureInternalInCall}
			}
		}
		s, err := NewClientSession(hub, priv, pub, data, w.backend, hello, auth)
		if err != nil {
			t.Fatal(err)
		}
		if err := w.backend.AddSession(s); err != nil {
			t.Fatal(err)
		}
		hub.mu.Lock()
		hub.sessions[data.Sid] = s
		hub.mu.Unlock()
		hub.setDecodedSessionId(priv, privateSessionName, data)
		hub.setDecodedSessionId(pub, publicSessionName, data)
		w.sessions = append(w.sessions, s)
		w.byPublic[pub] = i
		if types[i] == strings.ToUpper(types[i]) {
			w.connect(i)
		}
	}
	synctest.Wait()
	return w
}

func (w *vC09World) shutdown() {
	// let every pending media-server call fail, close everything, stop the hub
	w.mcu.mu.Lock()
	for _, c := range w.mcu.calls {
		if !c.done {
			select {
			case c.gate <- vMcuFail:
			default:
			}
		}
	}
	w.mcu.mu.Unlock()
	synctest.Wait()
	for _, s := range w.sessions {
		s.Close()
	}
	synctest.Wait()
	w.stopNet()
	w.hub.Stop()
	w.hub.rpcClients.Close()
	w.hub.backend.Close()
	w.events.Close()
	synctest.Wait()
	if os.Getenv("VERIF_DEBUG") != "" {
		buf := make([]byte, 1<<20)
		n := runtime.Stack(buf, true)
		os.Stderr.Write(buf[:n])
	}
}

func vC09Sdp(m string) string {
	var sb strings.Builder
	sb.WriteString("v=0\r\no=- 0 0 IN IP4 127.0.0.1\r\ns=-\r\nt=0 0\r\n")
	add := func(kind string, pt string) {
		sb.WriteString("m=" + kind + " 9 UDP/TLS/RTP/SAVPF " + pt + "\r\nc=IN IP4 0.0.0.0\r\n")
	}
	switch m {
	case "a":
		add("audio", "111")
	case "v":
		add("video", "96")
	case "av":
		add("audio", "111")
		add("video", "96")
	case "n":
		sb.WriteString("m=application 9 UDP/DTLS/SCTP webrtc-datachannel\r\nc=IN IP4 0.0.0.0\r\n")
	}
	return sb.String()
}

// drainErrors removes the messages queued for the (client-less) session and
// returns the codes of the error replies among them.
func (w *vC09World) drainErrors(i int) []string {
	s := w.sessions[i]
	s.mu.Lock()
	msgs := s.pendingClientMessages
	s.pendingClientMessages = nil
	s.hasPendingChat = false
	s.hasPendingParticipantsUpdate = false
	s.mu.Unlock()
	if p := w.peers[i]; p != nil {
		// what was written to the connection while the session had one
		msgs = append(p.take(), msgs...)
	}
	var codes []string
	for _, m := range msgs {
		if m.Type == "error" && m.Error != nil {
			codes = append(codes, m.Error.Code)
		}
	}
	return codes
}

func (w *vC09World) drainAll() {
	for i := range w.sessions {
		w.drainErrors(i)
	}
}

func (w *vC09World) mcuMessage(to int, data map[string]interface{}) *ClientMessage {
	raw, _ := json.Marshal(data)
	msg := &ClientMessage{
		Id:   "m" + strconv.FormatInt(w.msgId.Add(1), 10),
		Type: "message",
		Message: &MessageClientMessage{
			Recipient: MessageClientMessageRecipient{Type: RecipientTypeSession, SessionId: w.sessions[to].PublicId()},
			Data:      raw,
		},
	}
	if err := msg.CheckValid(); err != nil {
		panic(fmt.Sprintf("verif: invalid message: %v", err))
	}
	return msg
}

func (w *vC09World) sendMcu(from int, to int, data map[string]interface{}) {
	raw, _ := json.Marshal(data)
	msg := &ClientMessage{
		Id:   "m" + strconv.FormatInt(w.msgId.Add(1), 10),
		Type: "message",
		Message: &MessageClientMessage{
			Recipient: MessageClientMessageRecipient{Type: RecipientTypeSession, SessionId: w.sessions[to].PublicId()},
			Data:      raw,
		},
	}
	if err := msg.CheckValid(); err != nil {
		w.t.Fatalf("verif: invalid message: %v", err)
	}
	// "offer" is processed synchronously by the client's read loop.
	go w.hub.processMessageMsg(w.sessions[from], msg)
}

// callsAfter returns the calls registered at the fake media server with id > n.
func (w *vC09World) callsAfter(n int) []*vMcuCall {
	w.mcu.mu.Lock()
	defer w.mcu.mu.Unlock()
	if n >= len(w.mcu.calls) {
		return nil
	}
	return append([]*vMcuCall(nil), w.mcu.calls[n:]...)
}

func (w *vC09World) tracked(o *vMcuObj) bool {
	i, ok := w.byPublic[o.call.owner]
	if !ok {
		return false
	}
	s := w.sessions[i]
	s.mu.Lock()
	defer s.mu.Unlock()
	if o.call.isPub {
		p, found := s.publishers[o.call.stream]
		return found && p == McuPublisher(o)
	}
	p, found := s.subscribers[getStreamId(o.call.publisher, o.call.stream)]
	return found && p == McuSubscriber(o)
}

func vC09MediaToken(mt MediaType) string {
	s := ""
	if mt&MediaTypeAudio != 0 {
		s += "a"
	}
	if mt&MediaTypeVideo != 0 {
		s += "v"
	}
	if mt&MediaTypeScreen != 0 {
		s += "s"
	}
	if s == "" {
		s = "n"
	}
	return s
}

func (w *vC09World) state() string {
	w.mcu.mu.Lock()
	objs := append([]*vMcuObj(nil), w.mcu.objs...)
	w.mcu.mu.Unlock()
	sort.Slice(objs, func(i, j int) bool { return objs[i].call.id < objs[j].call.id })
	var toks []string
	for _, o := range objs {
		if !o.isOpen() {
			continue
		}
		owner := "?"
		if i, ok := w.byPublic[o.call.owner]; ok {
			owner = strconv.Itoa(i)
		}
		tr := "U"
		if w.tracked(o) {
			tr = "T"
		}
		if o.call.isPub {
			o.mu.Lock()
			media := o.media
			o.mu.Unlock()
			toks = append(toks, fmt.Sprintf("%d/%s/p/%s/%s/%s", w.labelOf[o.call.id], owner, o.call.stream, vC09MediaToken(media), tr))
		} else {
			pub := "?"
			if i, ok := w.byPublic[o.call.publisher]; ok {
				pub = strconv.Itoa(i)
			}
			toks = append(toks, fmt.Sprintf("%d/%s/s/%s/%s/%s", w.labelOf[o.call.id], owner, o.call.stream, pub, tr))
		}
	}
	n := 0
	for _, s := range w.sessions {
		s.mu.Lock()
		n += len(s.publishers) + len(s.subscribers)
		s.mu.Unlock()
	}
	res := "-"
	if len(toks) > 0 {
		res = strings.Join(toks, " ")
	}
	return res + " ; n=" + strconv.Itoa(n)
}

func (w *vC09World) sess(tok string) (int, bool) {
	i, err := strconv.Atoi(tok)
	if err != nil || i < 0 || i >= len(w.sessions) {
		return 0, false
	}
	return i, true
}

// existingFor reports the id of the object of `owner` whose SendMessage / SetMedia
// counters moved, i.e. the already existing object the request was routed to.
func (w *vC09World) touched(before map[*vMcuObj][2]int) *vMcuObj {
	w.mcu.mu.Lock()
	objs := append([]*vMcuObj(nil), w.mcu.objs...)
	w.mcu.mu.Unlock()
	for _, o := range objs {
		o.mu.Lock()
		cur := [2]int{o.messages, o.setMedia}
		o.mu.Unlock()
		if cur != before[o] {
			return o
		}
	}
	return nil
}

func (w *vC09World) counters() map[*vMcuObj][2]int {
	w.mcu.mu.Lock()
	objs := append([]*vMcuObj(nil), w.mcu.objs...)
	w.mcu.mu.Unlock()
	res := map[*vMcuObj][2]int{}
	for _, o := range objs {
		o.mu.Lock()
		res[o] = [2]int{o.messages, o.setMedia}
		o.mu.Unlock()
	}
	return res
}

// request runs one offer / requestoffer / sendoffer message until quiescence
// and classifies what happened.
func (w *vC09World) request(label, from, to int, data map[string]interface{}) string {
	w.drainAll()
	ncalls := len(w.callsAfter(0))
	before := w.counters()
	w.sendMcu(from, to, data)
	synctest.Wait()
	if calls := w.callsAfter(ncalls); len(calls) > 0 {
		c := calls[0]
		if !c.done {
			w.requester[c.id] = from
			w.labelOf[c.id] = label
			w.callOf[label] = c
			return "pending"
		}
	}
	if o := w.touched(before); o != nil {
		return "existing " + strconv.Itoa(w.labelOf[o.call.id])
	}
	codes := w.drainErrors(from)
	for _, c := range codes {
		switch c {
		case "not_allowed":
			return "denied"
		case "client_not_found":
			return "error"
		}
	}
	if len(codes) > 0 {
		return "reply:" + strings.Join(codes, ",")
	}
	return "none"
}

func (w *vC09World) exec(line string) string {
	f := strings.Fields(line)
	if len(f) == 0 {
		return "bad-op"
	}
	switch f[0] {
	case "join":
		if len(f) != 3 {
			return "bad-op"
		}
		i, ok := w.sess(f[1])
		if _, err := strconv.Atoi(f[2]); !ok || err != nil {
			return "bad-op"
		}
		roomId := "room" + f[2]
		// every session has a room session id of its own (`kick` refers to it)
		msg := &ClientMessage{Id: "j", Type: "room", Room: &RoomClientMessage{RoomId: roomId, SessionId: "rs" + f[1]}}
		resp := &BackendClientResponse{Type: "room", Room: &BackendClientRoomResponse{Version: BackendVersion, RoomId: roomId}}
		w.hub.processJoinRoom(w.sessions[i], msg, resp)
		synctest.Wait()
		return "ok"
	case "leave":
		if len(f) != 2 {
			return "bad-op"
		}
		i, ok := w.sess(f[1])
		if !ok {
			return "bad-op"
		}
		had := w.sessions[i].GetRoom() != nil
		w.hub.processRoom(w.sessions[i], &ClientMessage{Id: "l", Type: "room", Room: &RoomClientMessage{RoomId: ""}})
		synctest.Wait()
		if !had {
			return "noroom"
		}
		return "ok"
	case "incall":
		if len(f) != 3 {
			return "bad-op"
		}
		i, ok := w.sess(f[1])
		if !ok {
			return "bad-op"
		}
		room := w.sessions[i].GetRoom()
		if room == nil {
			return "noroom"
		}
		flags := 0
		if f[2] == "1" {
			flags = FlagInCall | FlagWithAudio | FlagWithVideo
		}
		entry := map[string]interface{}{"sessionId": w.sessions[i].PublicId(), "inCall": float64(flags)}
		room.PublishUsersInCallChanged([]map[string]interface{}{entry}, []map[string]interface{}{entry})
		synctest.Wait()
		return "ok"
	case "perms":
		if len(f) != 3 {
			return "bad-op"
		}
		i, ok := w.sess(f[1])
		if !ok {
			return "bad-op"
		}
		perms := []Permission{}
		if f[2] != "-" {
			for _, c := range f[2] {
				switch c {
				case 'm':
					perms = append(perms, PERMISSION_MAY_PUBLISH_MEDIA)
				case 'a':
					perms = append(perms, PERMISSION_MAY_PUBLISH_AUDIO)
				case 'v':
					perms = append(perms, PERMISSION_MAY_PUBLISH_VIDEO)
				case 's':
					perms = append(perms, PERMISSION_MAY_PUBLISH_SCREEN)
				}
			}
		}
		w.sessions[i].processAsyncMessage(&AsyncMessage{Type: "permissions", Permissions: perms})
		synctest.Wait()
		return "ok"
	case "offer":
		if len(f) != 5 {
			return "bad-op"
		}
		l, err := strconv.Atoi(f[1])
		i, ok := w.sess(f[2])
		if !ok || err != nil {
			return "bad-op"
		}
		return w.request(l, i, i, map[string]interface{}{
			"type": "offer", "sid": "1", "roomType": f[3],
			"payload": map[string]interface{}{"type": "offer", "sdp": vC09Sdp(f[4])},
		})
	case "request":
		if len(f) != 5 {
			return "bad-op"
		}
		l, err := strconv.Atoi(f[1])
		i, ok1 := w.sess(f[2])
		p, ok2 := w.sess(f[3])
		if !ok1 || !ok2 || err != nil {
			return "bad-op"
		}
		r := w.request(l, i, p, map[string]interface{}{"type": "requestoffer", "roomType": f[4]})
		if r == "none" && i == p {
			// processMcuMessage ignores it without reply
			return "self"
		}
		return r
	case "sendoffer":
		if len(f) != 5 {
			return "bad-op"
		}
		l, err := strconv.Atoi(f[1])
		p, ok1 := w.sess(f[2])
		i, ok2 := w.sess(f[3])
		if !ok1 || !ok2 || err != nil {
			return "bad-op"
		}
		r := w.request(l, p, i, map[string]interface{}{"type": "sendoffer", "roomType": f[4]})
		if r == "none" {
			if p == i {
				return "self"
			}
			return "nosession"
		}
		return r
	case "end":
		if len(f) != 3 {
			return "bad-op"
		}
		l, err := strconv.Atoi(f[1])
		if err != nil {
			return "bad-op"
		}
		var out vMcuOutcome
		switch f[2] {
		case "ok":
			out = vMcuOk
		case "fail":
			out = vMcuFail
		case "timeout":
			out = vMcuTimeout
		default:
			return "bad-op"
		}
		call := w.callOf[l]
		if call == nil || w.mcu.pendingCall(call.id) == nil {
			return "bad"
		}
		k := call.id
		w.drainAll()
		call.gate <- out
		synctest.Wait()
		if out != vMcuOk {
			return "failed"
		}
		var obj *vMcuObj
		w.mcu.mu.Lock()
		for _, o := range w.mcu.objs {
			if o.call == call {
				obj = o
			}
		}
		w.mcu.mu.Unlock()
		if obj == nil {
			return "failed"
		}
		if obj.isOpen() && w.tracked(obj) {
			return "stored"
		}
		reply := "none"
		if codes := w.drainErrors(w.requester[k]); len(codes) > 0 {
			reply = codes[0]
		}
		if obj.isOpen() {
			return "open-untracked " + reply
		}
		return "closed " + reply
	case "close":
		if len(f) != 2 {
			return "bad-op"
		}
		i, ok := w.sess(f[1])
		if !ok {
			return "bad-op"
		}
		w.sessions[i].Close()
		synctest.Wait()
		return "ok"
	case "state":
		synctest.Wait()
		return w.state()
	case "stress":
		if len(f) != 4 {
			return "bad-op"
		}
		seed, err1 := strconv.ParseUint(f[1], 10, 64)
		g, err2 := strconv.Atoi(f[2])
		n, err3 := strconv.Atoi(f[3])
		if err1 != nil || err2 != nil || err3 != nil || g < 1 || g > 64 || n < 1 || n > 1000 {
			return "bad-op"
		}
		return w.stress(seed, g, n)
	}
	if out, ok := w.execExit(f); ok {
		return out
	}
	return "bad-op"
}

// ---------- stress: real concurrency, judged by the state at quiescence ----------

func vC09PermsOf(s *ClientSession) string {
	s.mu.Lock()
	defer s.mu.Unlock()
	res := ""
	for _, p := range []struct {
		c string
		p Permission
	}{{"m", PERMISSION_MAY_PUBLISH_MEDIA}, {"a", PERMISSION_MAY_PUBLISH_AUDIO}, {"v", PERMISSION_MAY_PUBLISH_VIDEO}, {"s", PERMISSION_MAY_PUBLISH_SCREEN}} {
		if s.hasPermissionLocked(p.p) {
			res += p.c
		}
	}
	if res == "" {
		res = "-"
	}
	return res
}

// stress runs one client goroutine per session and G backend goroutines with N
// PRNG actions each against the hub, truly concurrently, the fake media server
// answering on its own; then observes.
//
//	impl: stress s0=<l|c>:<perms> s1=… s2=… open=<S/p/stream/media/T|U,…|-> final=<open objects after closing every session>
func (w *vC09World) stress(seed uint64, g, n int) string {
	w.mcu.mu.Lock()
	w.mcu.auto = newVRand(seed ^ 0x5bd1e995)
	w.mcu.mu.Unlock()
	root := newVRand(seed)
	var wg sync.WaitGroup
	var hubLoop sync.Mutex
	streamOf := func(rr *vRand) string {
		if rr.chance(1, 2) {
			return "screen"
		}
		return "video"
	}
	// One goroutine per session plays its client connection: the messages of one
	// client are handled one after the other by its read loop ("offer" inline,
	// "requestoffer" / "sendoffer" in goroutines of the hub).
	for ci := 0; ci < vC09Sessions; ci++ {
		rr := root.fork()
		wg.Add(1)
		go func(i int) {
			defer wg.Done()
			for k := 0; k < n; k++ {
				j := (i + 1 + rr.intn(vC09Sessions-1)) % vC09Sessions
				switch c := rr.intn(100); {
				case c < 40:
					w.hub.processMessageMsg(w.sessions[i], w.mcuMessage(i, map[string]interface{}{
						"type": "offer", "sid": "1", "roomType": streamOf(rr),
						"payload": map[string]interface{}{"type": "offer", "sdp": vC09Sdp(rr.pick(vC09Media))},
					}))
				case c < 65:
					w.hub.processMessageMsg(w.sessions[i], w.mcuMessage(j, map[string]interface{}{"type": "requestoffer", "roomType": streamOf(rr)}))
				case c < 75:
					w.hub.processMessageMsg(w.sessions[i], w.mcuMessage(j, map[string]interface{}{"type": "sendoffer", "roomType": streamOf(rr)}))
				case c < 88:
					w.hub.processRoom(w.sessions[i], &ClientMessage{Id: "l", Type: "room", Room: &RoomClientMessage{RoomId: ""}})
				default:
					// the session that may be closed concurrently never joins again
					if i != 2 {
						roomId := "room" + strconv.Itoa(1+rr.intn(2))
						msg := &ClientMessage{Id: "j", Type: "room", Room: &RoomClientMessage{RoomId: roomId}}
						resp := &BackendClientResponse{Type: "room", Room: &BackendClientRoomResponse{Version: BackendVersion, RoomId: roomId}}
						w.hub.processJoinRoom(w.sessions[i], msg, resp)
					}
				}
				if rr.chance(1, 3) {
					runtime.Gosched()
				}
			}
		}(ci)
	}
	// The other goroutines play the backend / the hub's housekeeping: in-call
	// changes, permission changes, and closing session 2.
	for gi := 0; gi < g; gi++ {
		rr := root.fork()
		wg.Add(1)
		go func() {
			defer wg.Done()
			for k := 0; k < n; k++ {
				i := rr.intn(vC09Sessions)
				switch c := rr.intn(100); {
				case c < 45:
					if room := w.sessions[i].GetRoom(); room != nil {
						flags := 0
						if rr.chance(1, 2) {
							flags = FlagInCall | FlagWithAudio
						}
						entry := map[string]interface{}{"sessionId": w.sessions[i].PublicId(), "inCall": float64(flags)}
						// backend room requests are handled one at a time by Hub.Run
						hubLoop.Lock()
						room.PublishUsersInCallChanged([]map[string]interface{}{entry}, []map[string]interface{}{entry})
						hubLoop.Unlock()
					}
				case c < 92:
					var perms []Permission
					for _, ch := range rr.pick(vC09PermSets) {
						switch ch {
						case 'm':
							perms = append(perms, PERMISSION_MAY_PUBLISH_MEDIA)
						case 'a':
							perms = append(perms, PERMISSION_MAY_PUBLISH_AUDIO)
						case 'v':
							perms = append(perms, PERMISSION_MAY_PUBLISH_VIDEO)
						case 's':
							perms = append(perms, PERMISSION_MAY_PUBLISH_SCREEN)
						}
					}
					w.sessions[i].processAsyncMessage(&AsyncMessage{Type: "permissions", Permissions: perms})
				default:
					w.sessions[2].Close()
				}
				if rr.chance(1, 3) {
					runtime.Gosched()
				}
			}
		}()
	}
	wg.Wait()
	synctest.Wait()

	var sb strings.Builder
	sb.WriteString("stress")
	for i, s := range w.sessions {
		st := "l"
		if s.ctx.Err() != nil {
			st = "c"
		}
		fmt.Fprintf(&sb, " s%d=%s:%s", i, st, vC09PermsOf(s))
	}
	w.mcu.mu.Lock()
	objs := append([]*vMcuObj(nil), w.mcu.objs...)
	w.mcu.mu.Unlock()
	var toks []string
	for _, o := range objs {
		if !o.isOpen() {
			continue
		}
		tr := "U"
		if w.tracked(o) {
			tr = "T"
		}
		owner := w.byPublic[o.call.owner]
		if o.call.isPub {
			o.mu.Lock()
			media := o.media
			o.mu.Unlock()
			toks = append(toks, fmt.Sprintf("%d/p/%s/%s/%s", owner, o.call.stream, vC09MediaToken(media), tr))
		} else {
			toks = append(toks, fmt.Sprintf("%d/s/%s/%d/%s", owner, o.call.stream, w.byPublic[o.call.publisher], tr))
		}
	}
	sort.Strings(toks)
	if len(toks) == 0 {
		sb.WriteString(" open=-")
	} else {
		sb.WriteString(" open=" + strings.Join(toks, ","))
	}
	for _, s := range w.sessions {
		s.Close()
	}
	synctest.Wait()
	final := 0
	for _, o := range objs {
		if o.isOpen() {
			final++
		}
	}
	w.mcu.mu.Lock()
	// objects created while the sessions were being closed
	for _, o := range w.mcu.objs {
		seen := false
		for _, x := range objs {
			seen = seen || x == o
		}
		if !seen && o.isOpen() {
			final++
		}
	}
	w.mcu.mu.Unlock()
	fmt.Fprintf(&sb, " final=%d", final)
	return sb.String()
}

// ---------- the assumption "Close() closes" against the repository's Janus test gateway ----------

// vC09Janus creates a publisher and a subscriber through the real mcuJanus
// (mcu_janus*.go) talking to the repository's TestJanusGateway, closes both and
// reports what the gateway got and what is left of it (rooms/handles):
//
//	created=<rooms>/<handles> left=<rooms>/<handles> publishers=<entries in mcuJanus.publishers>
func vC09Janus(t *testing.T, stream string) string {
	mcu, gateway := newMcuJanusForTesting(t)
	gateway.registerHandlers(map[string]TestJanusHandler{})
	ctx, cancel := context.WithTimeout(context.Background(), testTimeout)
	defer cancel()
	st := StreamType(stream)
	// the Janus client keeps one handle of its own
	gateway.mu.Lock()
	rooms0, handles0 := len(gateway.rooms), len(gateway.handles)
	gateway.mu.Unlock()
	pub, err := mcu.NewPublisher(ctx, &TestMcuListener{id: "verif-pub"}, "verif-pub", "sid", st, NewPublisherSettings{}, &TestMcuInitiator{country: "DE"})
	if err != nil {
		return "error"
	}
	sub, err := mcu.NewSubscriber(ctx, &TestMcuListener{id: "verif-sub"}, "verif-pub", st, &TestMcuInitiator{country: "DE"})
	if err != nil {
		pub.Close(context.Background())
		return "error"
	}
	gateway.mu.Lock()
	before := fmt.Sprintf("%d/%d", len(gateway.rooms)-rooms0, len(gateway.handles)-handles0)
	gateway.mu.Unlock()
	sub.Close(context.Background())
	pub.Close(context.Background())
	gateway.mu.Lock()
	rooms, handles := len(gateway.rooms)-rooms0, len(gateway.handles)-handles0
	gateway.mu.Unlock()
	mcu.mu.Lock()
	pubs := len(mcu.publishers)
	mcu.mu.Unlock()
	return fmt.Sprintf("created=%s left=%d/%d publishers=%d", before, rooms, handles, pubs)
}

const vC09Sessions = 3

func vC09Exec(t *testing.T, c *vCase) {
	if len(c.Ops) > 0 && strings.HasPrefix(c.Ops[0], "janus") {
		// not in a bubble: the Janus client uses real timers
		for _, line := range c.Ops {
			f := strings.Fields(line)
			if len(f) == 2 && f[0] == "janus" && (f[1] == "video" || f[1] == "screen") {
				c.Impl = append(c.Impl, vC09Janus(t, f[1]))
			} else if len(f) == 2 && f[0] == "janustimeout" && (f[1] == "video" || f[1] == "screen") {
				c.Impl = append(c.Impl, vC09JanusTimeout(t, f[1]))
			} else {
				c.Impl = append(c.Impl, "bad-op")
			}
		}
		return
	}
	synctest.Test(t, func(t *testing.T) {
		var types []string
		if len(c.Ops) > 0 {
			types = vC09WorldTypes(c.Ops[0])
		}
		var w *vC09World
		if types != nil {
			w = vC09NewWorldTypes(t, types)
		} else {
			w = vC09NewWorld(t, vC09Sessions)
		}
		defer w.shutdown()
		for i, line := range c.Ops {
			if i == 0 && types != nil {
				c.Impl = append(c.Impl, w.worldLine())
				continue
			}
			c.Impl = append(c.Impl, w.exec(line))
		}
	})
}

// ---------- generator ----------

var vC09PermSets = []string{"-", "m", "a", "v", "s", "av", "ms", "as", "vs", "avs", "mavs", "ma"}
var vC09Media = []string{"a", "v", "av", "av", "n"}
var vC09Outcomes = []string{"ok", "ok", "ok", "fail", "timeout"}

// vC09Interleavings returns every merge of the threads that keeps the order inside each thread.
func vC09Interleavings(threads [][]string) [][]string {
	total := 0
	for _, t := range threads {
		total += len(t)
	}
	var res [][]string
	pos := make([]int, len(threads))
	cur := make([]string, 0, total)
	var rec func()
	rec = func() {
		if len(cur) == total {
			res = append(res, append([]string(nil), cur...))
			return
		}
		for i, t := range threads {
			if pos[i] < len(t) {
				cur = append(cur, t[pos[i]])
				pos[i]++
				rec()
				pos[i]--
				cur = cur[:len(cur)-1]
			}
		}
	}
	rec()
	return res
}

// A creation thread: the request and the answer of the media server.
type vC09Creation struct {
	begin string // with %d for the label
}

var vC09Creations = []vC09Creation{
	{"offer %d 0 video av"},
	{"offer %d 0 screen av"},
	{"offer %d 0 video a"},
	{"request %d 0 1 video"},
	{"sendoffer %d 1 0 screen"},
}

// Plain concurrent actions of (or about) session 0.
var vC09Plain = []string{"leave 0", "incall 0 0", "close 0", "perms 0 -", "perms 0 a", "join 0 2"}

var vC09Setup = []string{"join 0 1", "join 1 1", "incall 0 1", "incall 1 1"}

// vC09Schedules builds the cases "all orders of the given concurrent threads".
func vC09Schedules(creations []int, outcomes []string, plain []int, prefix []string) [][]string {
	var threads [][]string
	for i, ci := range creations {
		label := i + 1
		threads = append(threads, []string{fmt.Sprintf(vC09Creations[ci].begin, label), fmt.Sprintf("end %d %s", label, outcomes[i])})
	}
	for _, pi := range plain {
		threads = append(threads, []string{vC09Plain[pi]})
	}
	var res [][]string
	for _, il := range vC09Interleavings(threads) {
		ops := append([]string(nil), vC09Setup...)
		ops = append(ops, prefix...)
		ops = append(ops, il...)
		ops = append(ops, "state")
		res = append(res, ops)
	}
	return res
}

func vC09Random(rr *vRand, maxOps int) []string {
	var ops []string
	label := 0
	var maybePending []int
	closed := map[int]bool{}
	exits := false
	if rr.chance(1, 2) {
		// client types / connections of the three sessions, and the ops of zz_verif_c09_exits_test.go
		exits = true
		line := "world"
		for i := 0; i < vC09Sessions; i++ {
			line += " " + rr.pick(vC09TypeMix)
		}
		ops = append(ops, line)
	}
	if rr.chance(3, 4) {
		ops = append(ops, vC09Setup...)
		if rr.chance(1, 2) {
			ops = append(ops, "join 2 1", "incall 2 1")
		}
	}
	nops := 4 + rr.intn(maxOps)
	sess := func() int {
		for tries := 0; tries < 4; tries++ {
			i := rr.intn(vC09Sessions)
			if !closed[i] || rr.chance(1, 6) {
				return i
			}
		}
		return rr.intn(vC09Sessions)
	}
	// mostly another session, sometimes the same one (answered `self`)
	other := func(a int) int {
		if rr.chance(1, 12) {
			return a
		}
		return (a + 1 + rr.intn(vC09Sessions-1)) % vC09Sessions
	}
	stream := func() string {
		switch k := rr.intn(20); {
		case k < 9:
			return "video"
		case k < 18:
			return "screen"
		default:
			return "audio"
		}
	}
	for len(ops) < nops {
		if exits && rr.chance(1, 5) {
			switch k := rr.intn(20); {
			case k < 4:
				ops = append(ops, fmt.Sprintf("incallall %d %d", 1+rr.intn(2), rr.intn(2)))
			case k < 8:
				ops = append(ops, fmt.Sprintf("intincall %d %d", sess(), rr.intn(8)))
			case k < 10:
				ops = append(ops, fmt.Sprintf("delroom %d", 1+rr.intn(2)))
			case k < 12:
				ops = append(ops, fmt.Sprintf("disinvite %d %d", sess(), 1+rr.intn(2)))
			case k < 14:
				ops = append(ops, fmt.Sprintf("kick %d", sess()))
			case k < 15:
				ops = append(ops, fmt.Sprintf("asyncbye %d", sess()))
			case k < 16:
				ops = append(ops, fmt.Sprintf("bye %d", sess()))
			case k < 18:
				ops = append(ops, fmt.Sprintf("drop %d", sess()))
			case k < 19:
				ops = append(ops, "expire")
			default:
				ops = append(ops, fmt.Sprintf("virtual %d %d", sess(), 1+rr.intn(2)))
			}
			continue
		}
		switch k := rr.intn(100); {
		case k < 10:
			ops = append(ops, fmt.Sprintf("join %d %d", sess(), 1+rr.intn(2)))
		case k < 17:
			ops = append(ops, fmt.Sprintf("leave %d", sess()))
		case k < 27:
			ops = append(ops, fmt.Sprintf("incall %d %d", sess(), rr.intn(2)))
		case k < 37:
			ops = append(ops, fmt.Sprintf("perms %d %s", sess(), rr.pick(vC09PermSets)))
		case k < 55:
			label++
			a, st := sess(), stream()
			ops = append(ops, fmt.Sprintf("offer %d %d %s %s", label, a, st, rr.pick(vC09Media)))
			maybePending = append(maybePending, label)
			if rr.chance(1, 5) {
				// answer at once and offer again: the second offer finds the publisher
				ops = append(ops, fmt.Sprintf("end %d ok", label))
				maybePending = maybePending[:len(maybePending)-1]
				label++
				ops = append(ops, fmt.Sprintf("offer %d %d %s %s", label, a, st, rr.pick(vC09Media)))
				maybePending = append(maybePending, label)
			}
		case k < 67:
			label++
			a := sess()
			b := other(a)
			ops = append(ops, fmt.Sprintf("request %d %d %d %s", label, a, b, stream()))
			maybePending = append(maybePending, label)
		case k < 72:
			label++
			a := sess()
			b := other(a)
			ops = append(ops, fmt.Sprintf("sendoffer %d %d %d %s", label, a, b, stream()))
			maybePending = append(maybePending, label)
		case k < 90:
			if len(maybePending) == 0 {
				continue
			}
			j := rr.intn(len(maybePending))
			ops = append(ops, fmt.Sprintf("end %d %s", maybePending[j], rr.pick(vC09Outcomes)))
			maybePending = append(maybePending[:j], maybePending[j+1:]...)
			if rr.chance(1, 2) {
				ops = append(ops, "state")
			}
		case k < 93:
			i := sess()
			ops = append(ops, fmt.Sprintf("close %d", i))
			closed[i] = true
		default:
			ops = append(ops, "state")
		}
	}
	// answer what is still pending (or not), then look
	for _, l := range maybePending {
		if rr.chance(2, 3) {
			ops = append(ops, fmt.Sprintf("end %d %s", l, rr.pick(vC09Outcomes)))
		}
	}
	ops = append(ops, "state")
	return ops
}

// Lines that are not well-formed ops (both sides must answer `bad-op`) and
// answers for labels that are not pending (`bad`).
var vC09TypeMix = []string{"c", "c", "c", "c", "C", "C", "C", "d", "D", "i", "I", "f", "f", "F", "F"}

var vC09Malformed = []string{
	"world c c", "world c c x", "world c c c", "incallall x 0", "intincall 0 -1", "intincall 7 1", "delroom", "disinvite 0",
	"kick 9", "bye", "drop x", "expire 1", "virtual 0",
	"offer 1 7 video av", "offer x 0 video av", "request 1 0 9 video", "end 99 ok", "end 1 maybe", "close 5",
	"join 0", "perms 0", "incall 3 1", "frobnicate 1 2", "leave", "end 1 ok", "sendoffer 1 0 3 video",
}

func vC09Gen(e *vEnv, r *vRand) []vCase {
	var cases []vCase
	add := func(ops []string, tag string) {
		cases = append(cases, vCase{Ops: ops, Tags: []string{tag}})
	}
	// the witness schedules of DESIGN §6 #6 (leave / leave call / close / revocation during the creation)
	for _, p := range []string{"leave 0", "incall 0 0", "close 0", "perms 0 -", "join 0 2"} {
		add(append(append([]string(nil), vC09Setup...), "offer 1 0 video av", p, "end 1 ok", "state"), "witness")
		add(append(append([]string(nil), vC09Setup...), "request 1 0 1 video", p, "end 1 ok", "state"), "witness")
	}
	// revocation of everything with both publishers stored (C08's finding seen from C09)
	add([]string{"join 0 1", "offer 1 0 video av", "offer 2 0 screen av", "end 1 ok", "end 2 ok", "perms 0 -", "state"}, "witness")

	// every way out of the call / the room / life, for every client type, with an object stored or in creation
	for _, ops := range vC09ExitCases(vC09Types) {
		add(ops, "exit")
	}

	// schedules: all orders of up to 4 concurrent threads
	var scheds [][]string
	nc := len(vC09Creations)
	np := len(vC09Plain)
	outs := []string{"ok", "fail", "timeout"}
	for c1 := 0; c1 < nc; c1++ {
		for p1 := 0; p1 < np; p1++ {
			for _, o1 := range outs {
				scheds = append(scheds, vC09Schedules([]int{c1}, []string{o1}, []int{p1}, nil)...)
				for p2 := p1 + 1; p2 < np; p2++ {
					scheds = append(scheds, vC09Schedules([]int{c1}, []string{o1}, []int{p1, p2}, nil)...)
				}
			}
		}
	}
	for c1 := 0; c1 < nc; c1++ {
		for c2 := c1; c2 < nc; c2++ {
			for _, o1 := range outs {
				for _, o2 := range outs {
					scheds = append(scheds, vC09Schedules([]int{c1, c2}, []string{o1, o2}, nil, nil)...)
					for p1 := 0; p1 < np; p1++ {
						scheds = append(scheds, vC09Schedules([]int{c1, c2}, []string{o1, o2}, []int{p1}, nil)...)
						if e.thorough() {
							for p2 := p1 + 1; p2 < np; p2++ {
								if (c1+c2+p1+p2+len(o1)+len(o2))%3 == int(e.seed%3) {
									scheds = append(scheds, vC09Schedules([]int{c1, c2}, []string{o1, o2}, []int{p1, p2}, nil)...)
								}
							}
						}
					}
				}
			}
		}
	}
	if e.thorough() {
		for _, ops := range scheds {
			add(ops, "schedule")
		}
	} else {
		rs := r.fork()
		n := e.scale(250, 0)
		for i := 0; i < n; i++ {
			add(scheds[rs.intn(len(scheds))], "schedule")
		}
	}

	// PRNG histories
	n := e.scale(250, 15000)
	maxOps := e.scale(30, 60)
	for i := 0; i < n; i++ {
		rr := r.fork()
		ops := vC09Random(rr, maxOps)
		if rr.chance(1, 10) {
			// malformed stream: sprinkle lines that are not ops
			k := 1 + rr.intn(3)
			for j := 0; j < k; j++ {
				at := rr.intn(len(ops) + 1)
				ops = append(ops[:at], append([]string{rr.pick(vC09Malformed)}, ops[at:]...)...)
			}
			add(ops, "malformed")
		} else {
			add(ops, "random")
		}
	}

	// the assumption about the real Janus client, once per stream type (last: the Janus client's keepalive
	// timer runs on the real clock until the test ends, and the test gateway does not answer keepalives)
	add([]string{"janus video", "janus screen", "janustimeout video", "janustimeout screen"}, "janus")
	return cases
}

func TestVerifC09(t *testing.T) {
	log.SetOutput(io.Discard)
	vRun(t, vC09Gen, vC09Exec)
}

// Stress variant (built with the race detector by the check): real goroutines,
// no gates; each case is one `stress` op after a fixed setup.
func vC09StressGen(e *vEnv, r *vRand) []vCase {
	var cases []vCase
	n := e.scale(40, 1500)
	for i := 0; i < n; i++ {
		rr := r.fork()
		ops := append([]string(nil), vC09Setup...)
		ops = append(ops, "join 2 1", "incall 2 1", fmt.Sprintf("stress %d %d %d", rr.u64()>>1, 2+rr.intn(7), 5+rr.intn(36)))
		cases = append(cases, vCase{Ops: ops, Tags: []string{"stress"}})
	}
	return cases
}

func TestVerifC09Stress(t *testing.T) {
	log.SetOutput(io.Discard)
	vRun(t, vC09StressGen, vC09Exec)
}
