package signaling

import (
	"fmt"
	"strconv"
)

// Generator of the C08 cases (all randomness from the PRNG handed in):
//   witness     the histories of the two defects (repaired in /repo) and a few fixed ones
//   matrix      permission set x stream type x m-line list x message kind, one session acting
//   revoke      permission set P0 -> P1 through every channel (participants request, bus message,
//               join reply of another room) with publishers of both stream types open
//   samecall    requestoffer for every combination of room / in-call state of both sides, internal clients
//   gates       control messages and transient data with and without the permissions
//   random      PRNG histories over all ops, 4 sessions, 2 rooms
//   malformed   random histories with lines that are not ops sprinkled in
//   storm       permission updates racing with offers, candidates and in-call changes of the same session

var vC08PublishSets = []string{"-", "m", "a", "v", "s", "av", "ma", "mv", "ms", "as", "vs", "mav", "mas", "mvs", "avs", "mavs"}
var vC08OtherSets = []string{"c", "t", "ct", "h", "x", "mavsct", "avct", "sc", "mt", "hx"}
var vC08MLines = []string{"-", "a", "v", "o", "av", "va", "ao", "ov", "avo", "aa", "vv", "aav", "oo", "avav", "voa"}
var vC08Streams = []string{"video", "screen", "audio", "%"}
var vC08Kinds = []string{"candidate", "answer", "endOfCandidates", "selectStream", "foo"}
var vC08Flags01 = []string{"0", "1", "7", "6"}

func vC08AnySet(r *vRand) string {
	if r.chance(3, 4) {
		return r.pick(vC08PublishSets)
	}
	return r.pick(vC08OtherSets)
}

func vC08Stream(r *vRand) string {
	switch k := r.intn(20); {
	case k < 9:
		return "video"
	case k < 17:
		return "screen"
	case k < 19:
		return "audio"
	}
	return "%"
}

// one session (0) with permission set p tries everything; session 1 is the peer
func vC08Matrix(r *vRand, p string, nml int) []string {
	ops := []string{"join 0 1 " + p, "join 1 1 mavs", "incall 0 . 1", "incall 1 . 1"}
	for _, st := range []string{"video", "screen"} {
		for k := 0; k < nml; k++ {
			ml := r.pick(vC08MLines)
			ops = append(ops, fmt.Sprintf("offer 0 %s %s", st, ml))
			if r.chance(1, 2) {
				// a second offer finds the publisher (if the first was accepted) and updates its media
				ops = append(ops, fmt.Sprintf("offer 0 %s %s", st, r.pick(vC08MLines)))
			}
			for _, kind := range vC08Kinds {
				if r.chance(2, 3) {
					ops = append(ops, fmt.Sprintf("mcu 0 0 %s %s", kind, st))
				}
			}
			ops = append(ops, fmt.Sprintf("sendoffer 0 1 %s", st), fmt.Sprintf("request 1 0 %s", st))
			if r.chance(1, 2) {
				ops = append(ops, fmt.Sprintf("mcu 1 0 %s %s", r.pick(vC08Kinds), st))
			}
			// start over without publishers
			ops = append(ops, "incall 0 . 0", "incall 0 . 1")
		}
	}
	ops = append(ops, fmt.Sprintf("offer 0 %s %s", r.pick([]string{"audio", "%"}), r.pick(vC08MLines)), "state")
	return ops
}

func vC08Revoke(r *vRand, p0, p1 string, channel int) []string {
	ops := []string{"join 0 1 " + p0}
	if r.chance(1, 2) {
		ops = append(ops, "join 1 1 mavs", "incall 0 . 1", "incall 1 . 1")
	}
	ops = append(ops, "offer 0 video "+r.pick([]string{"av", "a", "v", "av", "avo", "o", "-"}), "offer 0 screen "+r.pick([]string{"v", "av", "-"}))
	if r.chance(1, 3) {
		ops = append(ops, "request 1 0 video", "request 1 0 screen")
	}
	switch channel {
	case 0:
		ops = append(ops, "perms 0 "+p1)
	case 1:
		ops = append(ops, "permsd 0 "+p1)
	default:
		ops = append(ops, "join 0 2 "+p1)
	}
	ops = append(ops, "state", "mcu 0 0 candidate video", "mcu 0 0 candidate screen", "offer 0 video av", "offer 0 screen v", "state")
	return ops
}

func vC08SameCall(r *vRand) []string {
	var ops []string
	// rooms and in-call flags of the requester a and the publisher b
	a, b := r.intn(3), 0
	for b = r.intn(4); b == a; b = r.intn(4) {
	}
	if r.chance(1, 6) {
		a, b = 3, r.intn(3)
	}
	ra, rb := 1+r.intn(2), 1+r.intn(2)
	if r.chance(2, 3) {
		rb = ra
	}
	if r.chance(5, 6) {
		ops = append(ops, fmt.Sprintf("join %d %d mavs", b, rb))
	}
	if r.chance(5, 6) {
		ops = append(ops, fmt.Sprintf("join %d %d %s", a, ra, r.pick([]string{"-", "mavs", "=", "a"})))
	}
	for _, s := range []int{a, b} {
		switch r.intn(6) {
		case 0:
		case 1:
			ops = append(ops, fmt.Sprintf("incall %d . %s", s, r.pick(vC08Flags01)))
		case 2:
			ops = append(ops, fmt.Sprintf("incall %d %d 1", s, 1+r.intn(2)))
		default:
			ops = append(ops, fmt.Sprintf("incall %d . 1", s))
		}
	}
	if r.chance(1, 6) {
		ops = append(ops, fmt.Sprintf("incallall %d %s", ra, r.pick(vC08Flags01)))
	}
	st := r.pick([]string{"video", "screen"})
	ops = append(ops, fmt.Sprintf("offer %d %s av", b, st))
	if r.chance(1, 4) {
		ops = append(ops, fmt.Sprintf("incall %d . 1", b))
	}
	if r.chance(1, 8) {
		ops = append(ops, "any 1")
	}
	ops = append(ops, fmt.Sprintf("request %d %d %s", a, b, st))
	switch r.intn(6) {
	case 0:
		ops = append(ops, fmt.Sprintf("incall %d . 0", a), fmt.Sprintf("request %d %d %s", a, b, st))
	case 1:
		ops = append(ops, fmt.Sprintf("leave %d", a), fmt.Sprintf("request %d %d %s", a, b, st))
	case 2:
		ops = append(ops, fmt.Sprintf("join %d %d =", a, 3-ra), fmt.Sprintf("request %d %d %s", a, b, st))
	case 3:
		ops = append(ops, fmt.Sprintf("request %d %d %s", a, b, st), fmt.Sprintf("mcu %d %d selectStream %s", a, b, st))
	}
	ops = append(ops, fmt.Sprintf("request %d 9 %s", a, st), fmt.Sprintf("request %d %d %s", a, a, st), "state")
	return ops
}

func vC08Gates(r *vRand) []string {
	var ops []string
	for i := 0; i < 4; i++ {
		if r.chance(4, 5) {
			p := r.pick([]string{"-", "c", "t", "ct", "mavs", "mavsct", "=", "h", "x"})
			ops = append(ops, fmt.Sprintf("join %d %d %s", i, 1+r.intn(2), p))
		}
	}
	if r.chance(1, 2) {
		ops = append(ops, fmt.Sprintf("incallall %d 1", 1+r.intn(2)))
	}
	n := 6 + r.intn(10)
	keys := []string{"k1", "k2"}
	vals := []string{"v1", "v2"}
	for k := 0; k < n; k++ {
		s := r.intn(4)
		switch c := r.intn(100); {
		case c < 30:
			rc := r.pick([]string{"room", "call", "s0", "s1", "s2", "s3", "s9"})
			ops = append(ops, fmt.Sprintf("control %d %s", s, rc))
		case c < 55:
			ops = append(ops, fmt.Sprintf("tset %d %s %s", s, r.pick(keys), r.pick(vals)))
		case c < 70:
			ops = append(ops, fmt.Sprintf("tremove %d %s", s, r.pick(keys)))
		case c < 75:
			ops = append(ops, fmt.Sprintf("tother %d", s))
		case c < 87:
			ch := r.pick([]string{"perms", "permsd"})
			ops = append(ops, fmt.Sprintf("%s %d %s", ch, s, r.pick([]string{"-", "c", "t", "ct", "mavs", "h"})))
		case c < 92:
			ops = append(ops, fmt.Sprintf("leave %d", s))
		case c < 97:
			ops = append(ops, fmt.Sprintf("join %d %d %s", s, 1+r.intn(2), r.pick([]string{"-", "c", "t", "ct", "="})))
		default:
			ops = append(ops, fmt.Sprintf("mcu %d %d foo video", s, r.intn(4)))
		}
	}
	return append(ops, "state")
}

func vC08Random(r *vRand, maxOps int) []string {
	var ops []string
	if r.chance(3, 4) {
		for i := 0; i < 4; i++ {
			if r.chance(3, 4) {
				ops = append(ops, fmt.Sprintf("join %d %d %s", i, 1+r.intn(2), vC08AnySet(r)))
			}
		}
		if r.chance(1, 2) {
			ops = append(ops, fmt.Sprintf("incallall %d 1", 1+r.intn(2)))
		}
	}
	nops := 5 + r.intn(maxOps)
	rcpt := func(a int) int {
		switch k := r.intn(14); {
		case k == 0:
			return a
		case k == 1:
			return 9
		}
		return (a + 1 + r.intn(3)) % 4
	}
	for len(ops) < nops {
		s := r.intn(4)
		switch c := r.intn(100); {
		case c < 7:
			p := vC08AnySet(r)
			if r.chance(1, 5) {
				p = "="
			}
			ops = append(ops, fmt.Sprintf("join %d %d %s", s, 1+r.intn(2), p))
		case c < 10:
			ops = append(ops, fmt.Sprintf("leave %d", s))
		case c < 19:
			ops = append(ops, fmt.Sprintf("%s %d %s", r.pick([]string{"perms", "perms", "permsd"}), s, vC08AnySet(r)))
		case c < 20:
			ops = append(ops, fmt.Sprintf("permsbad %d %s", s, r.pick([]string{"notlist", "notstring"})))
		case c < 28:
			room := "."
			if r.chance(1, 6) {
				room = strconv.Itoa(1 + r.intn(2))
			}
			ops = append(ops, fmt.Sprintf("incall %d %s %s", s, room, r.pick(vC08Flags01)))
		case c < 31:
			ops = append(ops, fmt.Sprintf("incallall %d %s", 1+r.intn(2), r.pick(vC08Flags01)))
		case c < 32:
			ops = append(ops, fmt.Sprintf("close %d", s))
		case c < 33:
			ops = append(ops, fmt.Sprintf("any %d", r.intn(2)))
		case c < 53:
			ops = append(ops, fmt.Sprintf("offer %d %s %s", s, vC08Stream(r), r.pick(vC08MLines)))
		case c < 63:
			ops = append(ops, fmt.Sprintf("mcu %d %d %s %s", s, s, r.pick(vC08Kinds), vC08Stream(r)))
		case c < 67:
			ops = append(ops, fmt.Sprintf("mcu %d %d %s %s", s, rcpt(s), r.pick(vC08Kinds), vC08Stream(r)))
		case c < 77:
			ops = append(ops, fmt.Sprintf("request %d %d %s", s, rcpt(s), vC08Stream(r)))
		case c < 84:
			ops = append(ops, fmt.Sprintf("sendoffer %d %d %s", s, rcpt(s), vC08Stream(r)))
		case c < 86:
			ops = append(ops, fmt.Sprintf("badmsg %d %s", s, r.pick([]string{"roomtype", "nosdp", "sdptype", "sdpparse"})))
		case c < 91:
			ops = append(ops, fmt.Sprintf("control %d %s", s, r.pick([]string{"room", "call", "s0", "s1", "s2", "s3", "s9"})))
		case c < 96:
			if r.chance(2, 3) {
				ops = append(ops, fmt.Sprintf("tset %d %s %s", s, r.pick([]string{"k1", "k2"}), r.pick([]string{"v1", "v2"})))
			} else {
				ops = append(ops, fmt.Sprintf("tremove %d %s", s, r.pick([]string{"k1", "k2"})))
			}
		default:
			ops = append(ops, "state")
		}
	}
	return append(ops, "state")
}

var vC08Malformed = []string{
	"join 0", "join 7 1 m", "join 0 3 m", "join 0 1 q", "join 0 9 m", "leave", "leave 4", "perms 0", "perms 0 z", "permsd 5 m",
	"permsbad 0 what", "incall 0 . 2", "incall 0 5 1", "incallall 3 1", "close 9", "any 2", "offer 0 video", "offer 0 video ax",
	"offer 4 video a", "mcu 0 0 offer video", "mcu 0 4 candidate video", "request 0 5 video", "sendoffer 9 0 video",
	"badmsg 0 other", "control 0 s4", "control 0 everyone", "tset 0 k", "tremove 0", "tother", "frobnicate 1 2", "state now",
}

func vC08Gen(e *vEnv, r0 *vRand) []vCase {
	// neighbouring seeds must not give shifted copies of the same stream
	r := newVRand(r0.u64() ^ 0xc08c08c08)
	var cases []vCase
	add := func(ops []string, tag string) {
		cases = append(cases, vCase{Ops: ops, Tags: []string{tag}})
	}
	// the two defects found with this harness (DESIGN §6 #5 and the join reply), both channels
	add([]string{"join 0 1 mavs", "offer 0 video av", "offer 0 screen v", "perms 0 -", "state"}, "witness")
	add([]string{"join 0 1 mavs", "offer 0 video av", "offer 0 screen v", "permsd 0 c", "state"}, "witness")
	add([]string{"join 0 1 avs", "offer 0 video a", "offer 0 screen av", "perms 0 v", "state", "mcu 0 0 candidate screen"}, "witness")
	add([]string{"offer 0 video av", "offer 0 screen v", "join 0 1 -", "state"}, "witness")
	add([]string{"offer 0 video av", "join 0 1 a", "state", "join 0 2 =", "state"}, "witness")
	add([]string{"join 0 1 mavs", "offer 0 video av", "join 0 2 =", "offer 0 video av", "join 0 1 -", "state"}, "witness")
	// screen share with an audio m-line needs publish-screen only; data-only and empty offers need nothing
	add([]string{"join 0 1 s", "offer 0 screen av", "offer 0 video o", "offer 0 video -", "offer 0 video a", "state"}, "witness")
	// stream types the media server has no publishers for
	add([]string{"join 0 1 -", "offer 0 audio a", "offer 0 % v", "join 1 1 mavs", "offer 1 audio a", "offer 1 % av", "mcu 1 1 candidate audio", "state"}, "witness")
	// sendoffer / requestoffer towards sessions that are gone or never existed
	add([]string{"join 0 1 mavs", "join 1 1 -", "offer 0 video av", "sendoffer 0 9 video", "sendoffer 1 9 video", "close 1", "sendoffer 0 1 video", "request 0 1 video", "state"}, "witness")

	for _, p := range vC08PublishSets {
		if e.thorough() || r.chance(1, 2) {
			add(vC08Matrix(r.fork(), p, e.scale(2, 5)), "matrix")
		}
	}
	for _, p := range []string{"=", "c", "h", "x", "mavsct"} {
		if e.thorough() || r.chance(1, 3) {
			add(vC08Matrix(r.fork(), p, 2), "matrix")
		}
	}
	nrev := e.scale(200, 6000)
	if e.thorough() {
		for _, p0 := range vC08PublishSets {
			for _, p1 := range vC08PublishSets {
				for ch := 0; ch < 3; ch++ {
					add(vC08Revoke(r.fork(), p0, p1, ch), "revoke")
				}
			}
		}
	}
	for i := 0; i < nrev; i++ {
		rr := r.fork()
		p0, p1 := rr.pick(vC08PublishSets), vC08AnySet(rr)
		if rr.chance(1, 4) {
			p0 = "mavs"
		}
		if rr.chance(1, 10) {
			p0 = "="
		}
		add(vC08Revoke(rr, p0, p1, rr.intn(3)), "revoke")
	}
	for i, n := 0, e.scale(150, 6000); i < n; i++ {
		add(vC08SameCall(r.fork()), "samecall")
	}
	for i, n := 0, e.scale(100, 3000); i < n; i++ {
		add(vC08Gates(r.fork()), "gates")
	}
	for i, k := 0, e.scale(40, 1500); i < k; i++ {
		rr := r.fork()
		ops := []string{"join 0 1 " + rr.pick(vC08PublishSets), "join 1 1 mavs", "incall 0 . 1", "incall 1 . 1"}
		if rr.chance(1, 2) {
			ops = append(ops, "offer 0 video av", "offer 0 screen v")
		}
		ops = append(ops, fmt.Sprintf("storm 0 %s %d %d", rr.pick(vC08PublishSets), rr.u64()>>1, 4+rr.intn(40)))
		add(ops, "storm")
	}
	n := e.scale(400, 15000)
	maxOps := e.scale(30, 50)
	for i := 0; i < n; i++ {
		rr := r.fork()
		ops := vC08Random(rr, maxOps)
		if rr.chance(1, 10) {
			k := 1 + rr.intn(3)
			for j := 0; j < k; j++ {
				at := rr.intn(len(ops) + 1)
				ops = append(ops[:at], append([]string{rr.pick(vC08Malformed)}, ops[at:]...)...)
			}
			add(ops, "malformed")
		} else {
			add(ops, "random")
		}
	}
	return cases
}
