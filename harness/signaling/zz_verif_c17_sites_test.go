package signaling

import (
	"bytes"
	"crypto/hmac"
	"crypto/sha256"
	"encoding/hex"
	"encoding/json"
	"fmt"
	"io"
	"log"
	"net"
	"net/http"
	"net/http/httptest"
	"strings"
	"time"

	"github.com/dlintw/goconf"
	"github.com/gorilla/mux"
	"github.com/gorilla/websocket"
	"google.golang.org/protobuf/types/known/timestamppb"
)

// C17, the call sites: op `site <now> <addr> <action> <cred>` sends one attempt to the real handler of
// its kind — room API request through the router of a BackendServer, internal / resuming hello over a
// websocket to the Hub — from address <addr> (RemoteAddr of the request; X-Real-IP behind the trusted
// loopback proxy for the websocket), with a credential of class <cred>.  The Hub's throttler is the
// case's memoryThrottler (injected clock, recorded delays), so `attempt` ops and `site` ops see one
// failure table.  Observed: `<refused|passed|delayed ns> <answer>`; refused = 429 / too_many_requests.
//
// Credentials are made by the harness with crypto/hmac only (not with the code under test):
//   BackendRoomAuth  good | bad (checksum made with another secret) | nobackend (valid checksum, unknown
//                    backend URL in the header) | goodold / badold (no backend header: the old-style lookup)
//   HelloInternal    good | bad (token made with another secret) | short (valid token over a random that is
//                    too short) | nobackend (valid token, unknown backend)
//   HelloResume      good (private id of a live session) | bad (not an id) | stale (well-formed id minted
//                    with the hub's codec for a session that does not exist)

const (
	vC17Secret         = "verif-c17-backend-secret"
	vC17InternalSecret = "verif-c17-internal-secret"
	vC17BackendURL     = "https://nc.verif.test/"
	vC17OtherURL       = "https://other.verif.test/"
)

// valid IP strings only: the websocket's address comes from X-Real-IP, which the hub ignores unless it parses
var vC17SiteAddrs = []string{
	"192.0.2.1", "192.0.2.2",
	"2001:db8::1", "2001:db8::2", // same /64
	"2001:db8:0:1::1",
	"::ffff:192.0.2.1",
}

var vC17SiteCreds = map[string][]string{
	"BackendRoomAuth": {"good", "bad", "nobackend", "goodold", "badold"},
	"HelloInternal":   {"good", "bad", "short", "nobackend"},
	"HelloResume":     {"good", "bad", "stale"},
}

var vC17GoodCreds = map[string][]string{
	"BackendRoomAuth": {"good", "goodold"},
	"HelloInternal":   {"good"},
	"HelloResume":     {"good", "stale"},
}

func vC17BadCred(rr *vRand, act string) string {
	for {
		c := rr.pick(vC17SiteCreds[act])
		good := false
		for _, g := range vC17GoodCreds[act] {
			if g == c {
				good = true
			}
		}
		if !good {
			return c
		}
	}
}

func vC17SiteOp(now int64, addr, act, cred string) string {
	return fmt.Sprintf("site %d %s %s %s", now, vAddrToken(addr), vEnc(act), cred)
}

// vC17SiteGen: (1) scripted — failures of one address and kind up to around the threshold (recorded through
// the handler or directly), then attempts with every class of credential from that address, its /64
// neighbour and a stranger, across the end of the thirty-minute window; (2) random timelines over a small
// population.
func vC17SiteGen(e *vEnv, r *vRand) []vCase {
	var cases []vCase
	for i := 0; i < e.scale(60, 600); i++ {
		rr := r.fork()
		var ops []string
		now := int64(rr.intn(1000)) * vSec
		act := vC17Actions[i%3]
		addr := rr.pick(vC17SiteAddrs)
		k := 8 + rr.intn(4)
		direct := rr.chance(1, 3)
		for j := 0; j < k; j++ {
			if direct {
				ops = append(ops, fmt.Sprintf("attempt %d %s %s 1", now, vAddrToken(addr), vEnc(act)))
			} else {
				ops = append(ops, vC17SiteOp(now, addr, act, vC17BadCred(rr, act)))
			}
			now += int64(rr.intn(3)) * vSec
		}
		first := now
		for j := 0; j < 3+rr.intn(8); j++ {
			switch rr.intn(6) {
			case 0:
				// to the end of the window of the tenth-last failure
				now = first + 30*vMin - 4*vSec + int64(rr.intn(8))*vSec
			case 1:
				now += int64(rr.intn(20)) * vMin
			default:
				now += int64(rr.intn(3)) * vSec
			}
			a := addr
			if rr.chance(1, 5) {
				a = rr.pick(vC17SiteAddrs)
			}
			ac := act
			if rr.chance(1, 8) {
				ac = rr.pick(vC17Actions)
			}
			cred := rr.pick(vC17SiteCreds[ac])
			if rr.chance(1, 2) {
				cred = rr.pick(vC17GoodCreds[ac])
			}
			ops = append(ops, vC17SiteOp(now, a, ac, cred))
		}
		cases = append(cases, vCase{Ops: ops, Tags: []string{"site"}})
	}
	for i := 0; i < e.scale(40, 600); i++ {
		rr := r.fork()
		var ops []string
		now := int64(rr.intn(1000)) * vSec
		na := 1 + rr.intn(3)
		addrs := make([]string, na)
		for j := range addrs {
			addrs[j] = rr.pick(vC17SiteAddrs)
		}
		acts := make([]string, 1+rr.intn(2))
		for j := range acts {
			acts[j] = rr.pick(vC17Actions)
		}
		for n := 10 + rr.intn(e.scale(30, 60)); len(ops) < n; {
			switch rr.intn(10) {
			case 0, 1, 2, 3:
				now += int64(rr.intn(3000)) * int64(time.Millisecond)
			case 4, 5:
				now += int64(rr.intn(120)) * vSec
			case 6:
				now += 30*vMin - 2*vSec + int64(rr.intn(5))*vSec
			case 7:
				now += int64(rr.intn(40)) * vMin
			case 8:
				if rr.chance(1, 4) {
					now += 12*vHour - 2*vSec + int64(rr.intn(5))*vSec
				}
			}
			addr := addrs[rr.intn(na)]
			act := rr.pick(acts)
			switch k := rr.intn(12); {
			case k == 0:
				ops = append(ops, fmt.Sprintf("cleanup %d", now))
			case k == 1:
				ops = append(ops, fmt.Sprintf("attempt %d %s %s %d", now, vAddrToken(addr), vEnc(act), rr.intn(2)))
			case k < 5:
				b := 1 + rr.intn(11)
				for j := 0; j < b; j++ {
					ops = append(ops, vC17SiteOp(now, addr, act, vC17BadCred(rr, act)))
					now += int64(rr.intn(2)) * vSec
				}
			case k < 8:
				ops = append(ops, vC17SiteOp(now, addr, act, rr.pick(vC17GoodCreds[act])))
			default:
				ops = append(ops, vC17SiteOp(now, addr, act, rr.pick(vC17SiteCreds[act])))
			}
		}
		cases = append(cases, vCase{Ops: ops, Tags: []string{"site"}})
	}
	return cases
}

type vC17World struct {
	hub    *Hub
	bs     *BackendServer
	router *mux.Router
	srv    *httptest.Server
	events AsyncEvents
	conns  []*websocket.Conn
	n      int
}

func newVC17World(th *memoryThrottler) (*vC17World, error) {
	log.SetOutput(io.Discard)
	config := goconf.NewConfigFile()
	config.AddOption("backend", "backends", "b1")
	config.AddOption("b1", "url", vC17BackendURL)
	config.AddOption("b1", "secret", vC17Secret)
	config.AddOption("sessions", "hashkey", "12345678901234567890123456789012")
	config.AddOption("sessions", "blockkey", "09876543210987654321098765432109")
	config.AddOption("clients", "internalsecret", vC17InternalSecret)
	config.AddOption("app", "trustedproxies", "127.0.0.1")
	config.AddOption("geoip", "url", "none")
	events, err := NewAsyncEvents(NatsLoopbackUrl)
	if err != nil {
		return nil, err
	}
	r := mux.NewRouter()
	hub, err := NewHub(config, events, nil, nil, nil, r, "verif")
	if err != nil {
		events.Close()
		return nil, err
	}
	hub.throttler.Close()
	hub.throttler = th
	bs, err := NewBackendServer(config, hub, "verif")
	if err == nil {
		err = bs.Start(r)
	}
	if err != nil {
		hub.Stop()
		events.Close()
		return nil, err
	}
	go hub.Run()
	return &vC17World{hub: hub, bs: bs, router: r, srv: httptest.NewServer(r), events: events}, nil
}

func (w *vC17World) close() {
	for _, c := range w.conns {
		c.Close()
	}
	w.srv.Close()
	w.hub.Stop()
	w.events.Close()
}

func vC17Mac(secret string, parts ...[]byte) string {
	m := hmac.New(sha256.New, []byte(secret))
	for _, p := range parts {
		m.Write(p)
	}
	return hex.EncodeToString(m.Sum(nil))
}

func (w *vC17World) room(addr, cred string) string {
	w.n++
	body := []byte(`{"type":"message","message":{"data":{"verif":true}}}`)
	rnd := fmt.Sprintf("%064d", w.n)
	secret := vC17Secret
	if cred == "bad" || cred == "badold" {
		secret = "some-other-secret"
	}
	req := httptest.NewRequest("POST", "/api/v1/room/verifroom", bytes.NewReader(body))
	req.RemoteAddr = net.JoinHostPort(addr, "40000")
	req.Header.Set("Content-Type", "application/json")
	req.Header.Set("Spreed-Signaling-Random", rnd)
	req.Header.Set("Spreed-Signaling-Checksum", vC17Mac(secret, []byte(rnd), body))
	switch cred {
	case "good", "bad":
		req.Header.Set("Spreed-Signaling-Backend", vC17BackendURL)
	case "nobackend":
		req.Header.Set("Spreed-Signaling-Backend", vC17OtherURL)
	case "goodold", "badold":
	default:
		return "bad-cred"
	}
	rec := httptest.NewRecorder()
	w.router.ServeHTTP(rec, req)
	return fmt.Sprintf("http:%d", rec.Code)
}

// hello sends one hello from a new connection of address addr ("" = the loopback itself) and returns the
// answer (`hello` / `error:<code>`) and, for a hello response, the resume id.
func (w *vC17World) hello(addr string, hello map[string]any) (string, string) {
	w.n++
	hdr := http.Header{}
	if addr != "" {
		hdr.Set("X-Real-IP", addr)
	}
	d := websocket.Dialer{HandshakeTimeout: 5 * time.Second}
	conn, _, err := d.Dial("ws"+strings.TrimPrefix(w.srv.URL, "http")+"/spreed", hdr)
	if err != nil {
		return "no-connection", ""
	}
	w.conns = append(w.conns, conn)
	msg, _ := json.Marshal(map[string]any{"id": fmt.Sprintf("m%d", w.n), "type": "hello", "hello": hello})
	if err := conn.WriteMessage(websocket.TextMessage, msg); err != nil {
		return "no-connection", ""
	}
	for {
		conn.SetReadDeadline(time.Now().Add(5 * time.Second)) // nolint
		_, data, err := conn.ReadMessage()
		if err != nil {
			return "no-answer", ""
		}
		var m struct {
			Type  string `json:"type"`
			Error *struct {
				Code string `json:"code"`
			} `json:"error"`
			Hello *struct {
				ResumeId string `json:"resumeid"`
			} `json:"hello"`
		}
		if json.Unmarshal(data, &m) != nil {
			continue
		}
		switch {
		case m.Type == "error" && m.Error != nil:
			return "error:" + m.Error.Code, ""
		case m.Type == "hello" && m.Hello != nil:
			return "hello", m.Hello.ResumeId
		}
		// welcome etc.
	}
}

func (w *vC17World) internalHello(addr, cred string) (string, string) {
	w.n++
	rnd := fmt.Sprintf("%032d", w.n)
	secret := vC17InternalSecret
	backend := vC17BackendURL
	switch cred {
	case "good":
	case "bad":
		secret = "some-other-secret"
	case "short":
		rnd = fmt.Sprintf("%08d", w.n)
	case "nobackend":
		backend = vC17OtherURL
	default:
		return "bad-cred", ""
	}
	return w.hello(addr, map[string]any{
		"version": "1.0",
		"auth": map[string]any{
			"type":   "internal",
			"params": map[string]any{"random": rnd, "token": vC17Mac(secret, []byte(rnd)), "backend": backend},
		},
	})
}

func (w *vC17World) resume(addr, cred string) string {
	w.n++
	id := ""
	switch cred {
	case "good":
		// a live session, made by an internal client connecting from the loopback itself (an address no
		// case uses: its check finds an empty list and changes nothing)
		ans, rid := w.internalHello("", "good")
		if ans != "hello" || rid == "" {
			return "no-session:" + ans
		}
		id = rid
	case "bad":
		id = fmt.Sprintf("not-a-resume-id-%d", w.n)
	case "stale":
		var err error
		id, err = w.hub.cookie.EncodePrivate(&SessionIdData{Sid: 1<<40 + uint64(w.n), Created: timestamppb.Now(), BackendId: "b1"})
		if err != nil {
			return "no-id"
		}
	default:
		return "bad-cred"
	}
	ans, _ := w.hello(addr, map[string]any{"version": "1.0", "resumeid": id})
	return ans
}

func (w *vC17World) attempt(act, addr, cred string) string {
	switch act {
	case "BackendRoomAuth":
		return w.room(addr, cred)
	case "HelloInternal":
		ans, _ := w.internalHello(addr, cred)
		return ans
	case "HelloResume":
		return w.resume(addr, cred)
	}
	return "bad-action"
}
