package signaling

// C11 harness: signed room API requests of every shape against a fresh
// in-process Hub + BackendServer, inside a testing/synctest bubble (go1.26):
// every connection is an in-memory net.Pipe, so synctest.Wait() is an exact
// quiescence barrier (all goroutines of the server durably blocked) and the
// ten second dial-out timeout costs nothing.  A panic in a server goroutine
// (hub main loop, bus subscriber) is not recoverable and kills this process;
// vC11Run therefore flushes the op list of a case *before* executing it.

import (
	"bufio"
	"bytes"
	"context"
	"crypto/hmac"
	"crypto/sha256"
	"encoding/hex"
	"encoding/json"
	"errors"
	"fmt"
	"io"
	"log"
	"net"
	"net/http"
	"net/http/httptest"
	"net/url"
	"os"
	"sort"
	"strconv"
	"strings"
	"sync"
	"testing"
	"testing/synctest"

	"github.com/dlintw/goconf"
	"github.com/gorilla/mux"
	"github.com/gorilla/websocket"
)

// ---------- in-memory network ----------

type vMemAddr struct{ s string }

func (a vMemAddr) Network() string { return "tcp" }
func (a vMemAddr) String() string  { return a.s }

type vMemConn struct {
	net.Conn
	local, remote vMemAddr
}

func (c *vMemConn) LocalAddr() net.Addr  { return c.local }
func (c *vMemConn) RemoteAddr() net.Addr { return c.remote }

type vMemListener struct {
	ch     chan net.Conn
	closed chan struct{}
	once   sync.Once
	n      int
	mu     sync.Mutex
}

func newVMemListener() *vMemListener {
	return &vMemListener{ch: make(chan net.Conn), closed: make(chan struct{})}
}

func (l *vMemListener) Accept() (net.Conn, error) {
	select {
	case c := <-l.ch:
		return c, nil
	case <-l.closed:
		return nil, net.ErrClosed
	}
}

func (l *vMemListener) Close() error {
	l.once.Do(func() { close(l.closed) })
	return nil
}

func (l *vMemListener) Addr() net.Addr { return vMemAddr{"192.0.2.10:80"} }

func (l *vMemListener) dial(ctx context.Context, network, addr string) (net.Conn, error) {
	l.mu.Lock()
	l.n++
	port := 20000 + l.n%40000
	l.mu.Unlock()
	c1, c2 := net.Pipe()
	cl := vMemAddr{fmt.Sprintf("192.0.2.1:%d", port)}
	sv := vMemAddr{"192.0.2.10:80"}
	select {
	case l.ch <- &vMemConn{Conn: c2, local: sv, remote: cl}:
		return &vMemConn{Conn: c1, local: cl, remote: sv}, nil
	case <-l.closed:
		c1.Close()
		c2.Close()
		return nil, errors.New("listener closed")
	case <-ctx.Done():
		c1.Close()
		c2.Close()
		return nil, ctx.Err()
	}
}

// ---------- fake Nextcloud ----------

var vC11Secret = []byte("c11-backend-secret")

const vC11InternalSecret = "c11-internal-secret"

const (
	vC11NcUrl  = "http://nextcloud.test/"
	vC11SigUrl = "http://signaling.test"
)

func vC11Nextcloud(w http.ResponseWriter, r *http.Request) {
	if r.Method == "GET" {
		// capabilities
		spreed, _ := json.Marshal(map[string]interface{}{"features": []string{"verif"}, "config": map[string]interface{}{}})
		resp := &CapabilitiesResponse{Version: CapabilitiesVersion{Major: 20}, Capabilities: map[string]json.RawMessage{"spreed": spreed}}
		data, _ := json.Marshal(resp)
		var ocs OcsResponse
		ocs.Ocs = &OcsBody{Meta: OcsMeta{Status: "ok", StatusCode: 200, Message: "OK"}, Data: data}
		data, _ = json.Marshal(ocs)
		w.Header().Set("Content-Type", "application/json")
		w.Write(data) // nolint
		return
	}
	body, _ := io.ReadAll(r.Body)
	var request BackendClientRequest
	if err := json.Unmarshal(body, &request); err != nil {
		http.Error(w, "bad", http.StatusBadRequest)
		return
	}
	var response BackendClientResponse
	switch request.Type {
	case "auth":
		var params struct {
			UserId string `json:"userid"`
		}
		json.Unmarshal(request.Auth.Params, &params) // nolint
		response.Type = "auth"
		response.Auth = &BackendClientAuthResponse{Version: BackendVersion, UserId: params.UserId, User: json.RawMessage(`{"displayname":"x"}`)}
	case "room":
		response.Type = "room"
		response.Room = &BackendClientRoomResponse{Version: BackendVersion, RoomId: request.Room.RoomId, Properties: json.RawMessage(`{"initial":true}`)}
	case "ping":
		response.Type = "ping"
		response.Ping = &BackendClientRingResponse{Version: BackendVersion, RoomId: request.Ping.RoomId}
	default:
		response.Type = request.Type
	}
	data, _ := json.Marshal(&response)
	if r.Header.Get("OCS-APIRequest") != "" {
		var ocs OcsResponse
		ocs.Ocs = &OcsBody{Meta: OcsMeta{Status: "ok", StatusCode: 200, Message: "OK"}, Data: data}
		data, _ = json.Marshal(ocs)
	}
	w.Header().Set("Content-Type", "application/json")
	w.Write(data) // nolint
}

// ---------- one server instance ----------

type vC11Client struct {
	conn     *websocket.Conn
	mu       sync.Mutex
	msgs     []*ServerMessage
	closed   bool
	done     chan struct{}
	publicId string
	// onMessage runs in the reader goroutine (used by the dial-out client)
	onMessage func(m *ServerMessage)
	wmu       sync.Mutex
}

func (c *vC11Client) reader() {
	defer close(c.done)
	for {
		_, data, err := c.conn.ReadMessage()
		if err != nil {
			c.mu.Lock()
			c.closed = true
			c.mu.Unlock()
			return
		}
		var m ServerMessage
		if err := json.Unmarshal(data, &m); err != nil {
			m = ServerMessage{Type: "undecodable"}
		}
		c.mu.Lock()
		c.msgs = append(c.msgs, &m)
		c.mu.Unlock()
		if c.onMessage != nil {
			c.onMessage(&m)
		}
	}
}

func (c *vC11Client) take() ([]*ServerMessage, bool) {
	c.mu.Lock()
	defer c.mu.Unlock()
	m := c.msgs
	c.msgs = nil
	return m, c.closed
}

type vC11Server struct {
	t       *testing.T
	hub     *Hub
	backend *BackendServer
	events  AsyncEvents
	sigL    *vMemListener
	ncL     *vMemListener
	sigSrv  *http.Server
	ncSrv   *http.Server
	httpc   *http.Client
	router  *mux.Router
	clients []*vC11Client
}

func newVC11Server(t *testing.T) *vC11Server {
	s := &vC11Server{t: t, sigL: newVMemListener(), ncL: newVMemListener()}
	r := mux.NewRouter()
	config := goconf.NewConfigFile()
	config.AddOption("backend", "backends", "backend1")
	config.AddOption("backend1", "url", vC11NcUrl)
	config.AddOption("backend1", "secret", string(vC11Secret))
	config.AddOption("backend", "allowhttp", "true")
	config.AddOption("sessions", "hashkey", "12345678901234567890123456789012")
	config.AddOption("sessions", "blockkey", "09876543210987654321098765432109")
	config.AddOption("clients", "internalsecret", vC11InternalSecret)
	config.AddOption("geoip", "url", "none")
	nc, err := NewLoopbackNatsClient()
	if err != nil {
		panic(err)
	}
	s.events, err = NewAsyncEventsNats(nc)
	if err != nil {
		panic(err)
	}
	s.hub, err = NewHub(config, s.events, nil, nil, nil, r, "verif")
	if err != nil {
		panic(err)
	}
	s.backend, err = NewBackendServer(config, s.hub, "verif")
	if err != nil {
		panic(err)
	}
	if err := s.backend.Start(r); err != nil {
		panic(err)
	}
	// all outgoing requests of the hub go to the in-memory Nextcloud
	s.hub.backend.pool.transport.DialContext = s.ncL.dial
	s.hub.backend.pool.transport.Proxy = nil
	s.ncSrv = &http.Server{Handler: http.HandlerFunc(vC11Nextcloud)}
	go s.ncSrv.Serve(s.ncL) // nolint
	s.router = r
	s.sigSrv = &http.Server{Handler: r, ErrorLog: log.New(io.Discard, "", 0)}
	go s.sigSrv.Serve(s.sigL) // nolint
	s.httpc = &http.Client{Transport: &http.Transport{DialContext: s.sigL.dial, DisableKeepAlives: true}}
	go s.hub.Run()
	return s
}

func (s *vC11Server) close() {
	for _, c := range s.clients {
		c.conn.Close()
		<-c.done
	}
	synctest.Wait()
	// sessions are resumable after their connection is gone: close them for good
	s.hub.mu.Lock()
	var sessions []Session
	for _, sess := range s.hub.sessions {
		sessions = append(sessions, sess)
	}
	s.hub.mu.Unlock()
	for _, sess := range sessions {
		sess.Close()
	}
	synctest.Wait()
	s.hub.Stop()
	s.sigSrv.Close()
	s.hub.backend.pool.transport.CloseIdleConnections()
	s.ncSrv.Close()
	s.events.Close()
	s.httpc.CloseIdleConnections()
	synctest.Wait()
}

func (s *vC11Server) dialWs() *vC11Client {
	d := websocket.Dialer{NetDialContext: s.sigL.dial}
	conn, _, err := d.Dial("ws://signaling.test/spreed", nil)
	if err != nil {
		panic(fmt.Sprintf("harness: dial: %v", err))
	}
	c := &vC11Client{conn: conn, done: make(chan struct{})}
	s.clients = append(s.clients, c)
	return c
}

func (s *vC11Server) hello(c *vC11Client, hello *HelloClientMessage) {
	synctest.Wait()
	c.take() // welcome
	c.send(&ClientMessage{Id: "h", Type: "hello", Hello: hello})
	synctest.Wait()
	msgs, _ := c.take()
	for _, m := range msgs {
		if m.Type == "hello" && m.Hello != nil {
			c.publicId = m.Hello.SessionId
		}
	}
	if c.publicId == "" {
		panic(fmt.Sprintf("harness: no hello reply: %+v", msgs))
	}
}

func (s *vC11Server) connect(userid string) *vC11Client {
	c := s.dialWs()
	go c.reader()
	params, _ := json.Marshal(map[string]string{"userid": userid})
	s.hello(c, &HelloClientMessage{Version: HelloVersionV1, Auth: &HelloClientMessageAuth{Url: vC11NcUrl, Params: params}})
	return c
}

// connectDialout registers an internal client with the start-dialout feature
// that answers every dial-out request according to policy.
func (s *vC11Server) connectDialout(policy string) *vC11Client {
	c := s.dialWs()
	c.onMessage = func(m *ServerMessage) {
		if m.Type != "internal" || m.Internal == nil || m.Internal.Type != "dialout" {
			return
		}
		reply := &ClientMessage{Id: m.Id, Type: "internal", Internal: &InternalClientMessage{Type: "dialout"}}
		switch policy {
		case "accept":
			reply.Internal.Dialout = &DialoutInternalClientMessage{Type: "status", RoomId: "999999",
				Status: &DialoutStatusInternalClientMessage{CallId: "call1", Status: DialoutStatusAccepted}}
		case "ringing":
			reply.Internal.Dialout = &DialoutInternalClientMessage{Type: "status", RoomId: "999999",
				Status: &DialoutStatusInternalClientMessage{CallId: "call1", Status: DialoutStatusRinging}}
		case "error":
			reply.Internal.Dialout = &DialoutInternalClientMessage{Type: "error", Error: NewError("dial_failed", "no")}
		case "badtype":
			reply.Internal.Dialout = &DialoutInternalClientMessage{Type: "whatever"}
		default: // silent
			return
		}
		c.send(reply)
	}
	go c.reader()
	random := "0123456789abcdef0123456789abcdef0123456789abcdef"
	mac := hmac.New(sha256.New, []byte(vC11InternalSecret))
	mac.Write([]byte(random)) // nolint
	params, _ := json.Marshal(&ClientTypeInternalAuthParams{Random: random, Token: hex.EncodeToString(mac.Sum(nil)), Backend: vC11NcUrl})
	s.hello(c, &HelloClientMessage{Version: HelloVersionV1, Features: []string{ClientFeatureStartDialout},
		Auth: &HelloClientMessageAuth{Type: HelloClientTypeInternal, Params: params}})
	return c
}

func (c *vC11Client) send(m *ClientMessage) {
	data, _ := json.Marshal(m)
	c.wmu.Lock()
	defer c.wmu.Unlock()
	c.conn.WriteMessage(websocket.TextMessage, data) // nolint
}

func (s *vC11Server) join(c *vC11Client, room, rsid string) {
	c.send(&ClientMessage{Id: "j", Type: "room", Room: &RoomClientMessage{RoomId: room, SessionId: rsid}})
	synctest.Wait()
	msgs, _ := c.take()
	ok := false
	for _, m := range msgs {
		if m.Type == "room" && m.Room != nil && m.Room.RoomId == room {
			ok = true
		}
	}
	if !ok {
		panic(fmt.Sprintf("harness: join failed: %+v", msgs))
	}
}

// post sends a signed room API request; result is the status code as a string
// or "neterr" when no HTTP reply arrived (net/http drops the connection when the
// handler panics).  Bodies above the server's limit are handed to the router
// directly: over a synchronous pipe the early 413 races with the body upload.
func (s *vC11Server) post(room string, body []byte) string {
	req, err := http.NewRequest("POST", vC11SigUrl+"/api/v1/room/"+url.PathEscape(room), bytes.NewReader(body))
	if err != nil {
		return "badreq"
	}
	req.Header.Set("Content-Type", "application/json")
	rnd := newRandomString(64)
	req.Header.Set(HeaderBackendSignalingRandom, rnd)
	req.Header.Set(HeaderBackendSignalingChecksum, CalculateBackendChecksum(rnd, body, vC11Secret))
	req.Header.Set(HeaderBackendServer, vC11NcUrl)
	if len(body) > maxBodySize {
		req.RemoteAddr = "192.0.2.1:1234"
		rec := httptest.NewRecorder()
		st := "neterr"
		func() {
			defer func() { recover() }() // nolint
			s.router.ServeHTTP(rec, req)
			st = fmt.Sprint(rec.Code)
		}()
		return st
	}
	resp, err := s.httpc.Do(req)
	if err != nil {
		return "neterr"
	}
	io.Copy(io.Discard, resp.Body) // nolint
	resp.Body.Close()
	return fmt.Sprint(resp.StatusCode)
}

func vC11EventName(m *ServerMessage) string {
	switch m.Type {
	case "event":
		if m.Event == nil {
			return "event:nil"
		}
		return m.Event.Target + "-" + m.Event.Type
	case "room":
		if m.Room != nil && m.Room.RoomId == "" {
			return "room-left"
		}
		return "room-props"
	default:
		return m.Type
	}
}

// ---------- executing one case ----------

const (
	vC11Pc1 = "@c1@"
	vC11Pc2 = "@c2@"
)

type vC11World struct {
	s      *vC11Server
	room   string
	c1, c2 *vC11Client
	closed map[*vC11Client]bool
}

func (w *vC11World) setup(n int, room, dial string) {
	w.room = room
	w.closed = map[*vC11Client]bool{}
	if n > 0 {
		w.c1 = w.s.connect("u1")
		w.c2 = w.s.connect("u2")
		w.s.join(w.c1, room, "rs1")
		synctest.Wait()
		w.c1.take()
		w.c2.take()
	}
	if dial != "none" {
		w.s.connectDialout(dial)
	}
	synctest.Wait()
}

func (w *vC11World) subst(body []byte) []byte {
	if w.c1 != nil {
		body = bytes.ReplaceAll(body, []byte(vC11Pc1), []byte(w.c1.publicId))
		body = bytes.ReplaceAll(body, []byte(vC11Pc2), []byte(w.c2.publicId))
	}
	return body
}

// drain returns the names of everything the two clients received since the last call.
func (w *vC11World) drain(skipProbe string) (events []string, probeSeen bool) {
	for i, c := range []*vC11Client{w.c1, w.c2} {
		if c == nil {
			continue
		}
		msgs, closed := c.take()
		for _, m := range msgs {
			if skipProbe != "" && m.Type == "event" && m.Event != nil && m.Event.Message != nil &&
				strings.Contains(string(m.Event.Message.Data), skipProbe) {
				if i == 0 {
					probeSeen = true
				}
				continue
			}
			events = append(events, fmt.Sprintf("c%d:%s", i+1, vC11EventName(m)))
		}
		if closed && !w.closed[c] {
			w.closed[c] = true
			events = append(events, fmt.Sprintf("c%d:closed", i+1))
		}
	}
	return
}

func (w *vC11World) c1InRoom() bool {
	if w.c1 == nil || w.closed[w.c1] {
		return false
	}
	sess := w.s.hub.GetSessionByPublicId(w.c1.publicId)
	return sess != nil && sess.GetRoom() != nil
}

func (w *vC11World) digest() string {
	r, i, p := "0", "0", ""
	w.s.hub.ru.RLock()
	var room *Room
	for _, x := range w.s.hub.rooms {
		room = x
	}
	w.s.hub.ru.RUnlock()
	if room != nil {
		r = "1"
		room.mu.RLock()
		p = string(room.properties)
		room.mu.RUnlock()
		if w.c1 != nil {
			if sess := w.s.hub.GetSessionByPublicId(w.c1.publicId); sess != nil && room.IsSessionInCall(sess) {
				i = "1"
			}
		}
	}
	return "r" + r + "i" + i + "p" + vEnc(p)
}

func (w *vC11World) request(idx int, room string, body []byte) string {
	st := w.s.post(room, w.subst(body))
	synctest.Wait()
	evs, _ := w.drain("")
	// liveness: a request that passes through the hub main loop and is ignored there, then a
	// room message that has to come out at the member of the room
	live := true
	nonce := fmt.Sprintf("vprobe-%d", idx)
	if w.s.post(w.room, []byte(`{"type":"incall","incall":{"incall":"x","all":true}}`)) != "200" {
		live = false
	}
	if w.s.post(w.room, []byte(`{"type":"message","message":{"data":{"probe":"`+nonce+`"}}}`)) != "200" {
		live = false
	}
	synctest.Wait()
	inRoom := w.c1InRoom()
	extra, seen := w.drain(nonce)
	if inRoom && !seen {
		live = false
	}
	evs = append(evs, extra...)
	sort.Strings(evs)
	var uniq []string
	for _, e := range evs {
		if len(uniq) == 0 || uniq[len(uniq)-1] != e {
			uniq = append(uniq, e)
		}
	}
	ev := "-"
	if len(uniq) > 0 {
		ev = strings.Join(uniq, ",")
	}
	l := "live"
	if !live {
		l = "dead"
	}
	return st + " " + l + " " + ev + " " + w.digest()
}

func vC11Exec(t *testing.T, c *vCase) {
	synctest.Test(t, func(t *testing.T) {
		w := &vC11World{s: newVC11Server(t)}
		defer w.s.close()
		ready := false
		for idx, line := range c.Ops {
			f := strings.Fields(line)
			out := "bad-op"
			if len(f) > 0 && f[0] == "setup" && len(f) == 4 && !ready {
				n, _ := strconv.Atoi(f[1])
				w.setup(n, vDec(f[2]), f[3])
				ready = true
				out = "ok"
			} else if len(f) == 3 && (f[0] == "req" || f[0] == "raw") {
				if !ready {
					w.setup(0, "100", "none")
					ready = true
				}
				out = w.request(idx, vDec(f[1]), []byte(vDec(f[2])))
			}
			c.Impl = append(c.Impl, out)
		}
	})
}

// ---------- generator ----------

// vJ is a JSON document under construction (objects keep member order and may repeat keys).
type vJ struct {
	k  byte // n t f # s a o
	s  string
	xs []*vJ
	ks []string
}

func jNull() *vJ { return &vJ{k: 'n'} }
func jBool(b bool) *vJ {
	if b {
		return &vJ{k: 't'}
	}
	return &vJ{k: 'f'}
}
func jNum(lit string) *vJ { return &vJ{k: '#', s: lit} }
func jStr(s string) *vJ   { return &vJ{k: 's', s: s} }
func jArr(xs ...*vJ) *vJ  { return &vJ{k: 'a', xs: xs} }
func jObj(kv ...interface{}) *vJ {
	o := &vJ{k: 'o'}
	for i := 0; i+1 < len(kv); i += 2 {
		o.ks = append(o.ks, kv[i].(string))
		o.xs = append(o.xs, kv[i+1].(*vJ))
	}
	return o
}
func jStrs(ss ...string) *vJ {
	a := &vJ{k: 'a'}
	for _, s := range ss {
		a.xs = append(a.xs, jStr(s))
	}
	return a
}

func (j *vJ) clone() *vJ {
	c := &vJ{k: j.k, s: j.s, ks: append([]string(nil), j.ks...)}
	for _, x := range j.xs {
		c.xs = append(c.xs, x.clone())
	}
	return c
}

func vJStr(sb *strings.Builder, s string) {
	sb.WriteByte('"')
	for _, r := range s {
		switch {
		case r == '"':
			sb.WriteString(`\"`)
		case r == '\\':
			sb.WriteString(`\\`)
		case r < 0x20:
			fmt.Fprintf(sb, `\u%04x`, r)
		default:
			sb.WriteRune(r)
		}
	}
	sb.WriteByte('"')
}

func (j *vJ) print(sb *strings.Builder) {
	switch j.k {
	case 'n':
		sb.WriteString("null")
	case 't':
		sb.WriteString("true")
	case 'f':
		sb.WriteString("false")
	case '#':
		sb.WriteString(j.s)
	case 's':
		vJStr(sb, j.s)
	case 'a':
		sb.WriteByte('[')
		for i, x := range j.xs {
			if i > 0 {
				sb.WriteByte(',')
			}
			x.print(sb)
		}
		sb.WriteByte(']')
	case 'o':
		sb.WriteByte('{')
		for i, x := range j.xs {
			if i > 0 {
				sb.WriteByte(',')
			}
			vJStr(sb, j.ks[i])
			sb.WriteByte(':')
			x.print(sb)
		}
		sb.WriteByte('}')
	}
}

func (j *vJ) String() string {
	var sb strings.Builder
	j.print(&sb)
	return sb.String()
}

var vC11Types = []string{"invite", "disinvite", "update", "delete", "incall", "participants", "message", "switchto", "dialout"}

func vC11SubName(typ string) string { return typ }

type vC11Gen struct {
	r    *vRand
	e    *vEnv
	n    int  // clients present
	huge bool // allow huge lists in this document
}

func (g *vC11Gen) users(avoidU1 bool) *vJ {
	pool := []string{"u1", "u2", "u3", "", "u2", "u1"}
	a := jArr()
	k := g.r.intn(4)
	for i := 0; i < k; i++ {
		u := g.r.pick(pool)
		if avoidU1 && u == "u1" {
			u = "u3"
		}
		a.xs = append(a.xs, jStr(u))
	}
	return a
}

func (g *vC11Gen) props() *vJ {
	switch g.r.intn(8) {
	case 0:
		return jObj("a", jNum("1"))
	case 1:
		return jObj("a", jNum("2"))
	case 2:
		return jObj("initial", jBool(true))
	case 3:
		return jObj()
	case 4:
		return jStr("p")
	case 5:
		return jNum("7")
	case 6:
		return jObj("name", jStr("Room"), "type", jNum("3"), "nested", jObj("x", jArr(jNum("1"), jNull())))
	default:
		return jArr()
	}
}

func (g *vC11Gen) entry() *vJ {
	if g.r.chance(1, 12) {
		return jNull()
	}
	e := jObj()
	add := func(k string, v *vJ) { e.ks = append(e.ks, k); e.xs = append(e.xs, v) }
	switch g.r.intn(12) {
	case 0, 1, 2, 3, 4:
		add("sessionId", jStr("rs1"))
	case 5:
		add("sessionId", jStr("rsX"))
	case 6:
		add("sessionId", jStr("0"))
	case 7:
		add("sessionId", jNum("5"))
	case 8:
		add("sessionId", jObj("x", jNum("1")))
	case 9:
		add("sessionid", jStr("rs1"))
	case 10:
		add("sessionId", jStr(vC11Pc1))
	case 11:
	}
	switch g.r.intn(9) {
	case 0, 1:
		add("inCall", jNum("1"))
	case 2:
		add("inCall", jNum("0"))
	case 3:
		add("inCall", jNum("7"))
	case 4:
		add("inCall", jBool(true))
	case 5:
		add("inCall", jBool(false))
	case 6:
		add("inCall", jStr("1"))
	case 7:
		add("inCall", jNum("6"))
	}
	switch g.r.intn(8) {
	case 0:
		add("permissions", jStrs("publish-media", "publish-audio"))
	case 1:
		add("permissions", jArr(jNum("1")))
	case 2:
		add("permissions", jStr("x"))
	case 3:
		add("permissions", jArr())
	}
	switch g.r.intn(6) {
	case 0:
		add("userId", jStr("u1"))
	case 1:
		add("userId", jStr(""))
	case 2:
		add("userId", jNum("3"))
	}
	if g.r.chance(1, 6) {
		add("extra", jObj("deep", jArr(jObj("x", jNull()))))
	}
	return e
}

func (g *vC11Gen) entries() *vJ {
	a := jArr()
	k := g.r.intn(4)
	for i := 0; i < k; i++ {
		a.xs = append(a.xs, g.entry())
	}
	return a
}

// template builds a well-formed request of the given type.
func (g *vC11Gen) template(typ string) *vJ {
	r := g.r
	switch typ {
	case "invite":
		return jObj("type", jStr(typ), "invite", jObj("userids", g.users(false), "alluserids", g.users(false), "properties", g.props()))
	case "disinvite":
		if r.chance(1, 2) {
			// by user id
			return jObj("type", jStr(typ), "disinvite", jObj("userids", g.users(false), "sessionids", jStrs("rsX", "0"),
				"alluserids", g.users(false), "properties", g.props()))
		}
		// by Nextcloud session id (user-addressed parts avoid u1: the two paths to c1 would race)
		return jObj("type", jStr(typ), "disinvite", jObj("userids", g.users(true), "sessionids", jStrs(r.pick([]string{"rs1", "rs1", "rsX"}), "0"),
			"alluserids", g.users(true), "properties", g.props()))
	case "update":
		return jObj("type", jStr(typ), "update", jObj("userids", g.users(false), "properties", g.props()))
	case "delete":
		// u1 is not addressed: the disinvite would race with the room being closed
		return jObj("type", jStr(typ), "delete", jObj("userids", g.users(true)))
	case "incall":
		if r.chance(1, 2) {
			v := []*vJ{jNum("1"), jNum("0"), jNum("3"), jNum("7"), jBool(true), jBool(false), jStr("x"), jNum("1.5"), jNum("2")}[r.intn(9)]
			o := jObj("incall", v, "all", jBool(true))
			if r.chance(1, 3) {
				o.ks = append(o.ks, "users")
				o.xs = append(o.xs, g.entries())
			}
			return jObj("type", jStr(typ), "incall", o)
		}
		return jObj("type", jStr(typ), "incall", jObj("incall", jNum("1"), "changed", g.entries(), "users", g.entries()))
	case "participants":
		return jObj("type", jStr(typ), "participants", jObj("changed", g.entries(), "users", g.entries()))
	case "message":
		d := []*vJ{jObj("type", jStr("chat"), "chat", jObj("refresh", jBool(true))), jStr("text"), jNum("1"), jArr(), jObj()}[r.intn(5)]
		return jObj("type", jStr(typ), "message", jObj("data", d))
	case "switchto":
		var sess *vJ
		switch r.intn(12) {
		case 0, 1, 2:
			sess = jStrs("rs1")
		case 3:
			sess = jStrs("rsX", "0", "rs1")
		case 4:
			sess = jObj("rs1", jObj("x", jNum("1")), "rsX", jNull())
		case 5:
			sess = jObj("rs1", jNull())
		case 6:
			sess = jArr()
		case 7:
			sess = jObj()
		case 8:
			sess = jStr("x")
		case 9:
			sess = jArr(jNum("1"))
		case 10:
			sess = jArr(jNull(), jStr("rs1"))
		case 11:
			sess = nil
		}
		o := jObj("roomid", jStr("200"))
		if sess != nil {
			o.ks = append(o.ks, "sessions")
			o.xs = append(o.xs, sess)
		}
		if r.chance(1, 4) {
			o.ks = append(o.ks, "sessionslist")
			o.xs = append(o.xs, jStrs(vC11Pc1, "zz", ""))
		}
		if r.chance(1, 5) {
			o.ks = append(o.ks, "sessionsmap")
			o.xs = append(o.xs, jObj(vC11Pc2, jObj("d", jNum("1")), "a b", jNull()))
		}
		return jObj("type", jStr(typ), "switchto", o)
	case "dialout":
		n := []string{"+491234", "+4912345678", "+1", "12345", "", "+12a4", "+49 123", "+٤٩١٢٣"}[r.intn(8)]
		if r.chance(1, 2) {
			n = "+491234"
		}
		return jObj("type", jStr(typ), "dialout", jObj("number", jStr(n), "options", jObj("x", jNum("1"))))
	case "transient":
		return jObj("type", jStr(typ), "transient", jObj("action", jStr("set"), "key", jStr("k"), "value", jNum("1"), "ttl", jNum("5")))
	}
	return jObj("type", jStr(typ))
}

func (g *vC11Gen) wrongPool() []*vJ {
	return []*vJ{jNum("5"), jStr("str"), jBool(true), jBool(false), jArr(), jObj(), jArr(jNum("1")), jObj("x", jObj()),
		jNum("1.5"), jNum("-1"), jNull(), jArr(jNull()), jStr(""), jArr(jArr(jArr())), jNum("12345678901234567890")}
}

func (g *vC11Gen) wrong() *vJ {
	pool := g.wrongPool()
	return pool[g.r.intn(len(pool))].clone()
}

// objects lists every object node of the document (pre-order).
func (j *vJ) objects(acc *[]*vJ) {
	if j.k == 'o' {
		*acc = append(*acc, j)
	}
	for _, x := range j.xs {
		x.objects(acc)
	}
}

// mutate applies one structural mutation somewhere in the document.
func (g *vC11Gen) mutate(doc *vJ) string {
	r := g.r
	var objs []*vJ
	doc.objects(&objs)
	if len(objs) == 0 {
		return "none"
	}
	// prefer the top-level object and the sub-object
	o := objs[0]
	if len(objs) > 1 {
		switch r.intn(4) {
		case 0:
		case 1, 2:
			o = objs[1]
		default:
			o = objs[r.intn(len(objs))]
		}
	}
	if len(o.ks) == 0 {
		o.ks = append(o.ks, "unknown")
		o.xs = append(o.xs, g.wrong())
		return "add-unknown"
	}
	i := r.intn(len(o.ks))
	switch r.intn(11) {
	case 0, 1:
		o.ks = append(o.ks[:i], o.ks[i+1:]...)
		o.xs = append(o.xs[:i], o.xs[i+1:]...)
		return "drop-member"
	case 2, 3:
		o.xs[i] = jNull()
		return "null-member"
	case 4, 5, 6:
		o.xs[i] = g.wrong()
		return "wrong-type"
	case 7:
		if o.xs[i].k == 'a' {
			o.xs[i] = jArr()
		} else {
			o.xs[i] = jObj()
		}
		return "empty"
	case 8:
		o.ks = append(o.ks, o.ks[i])
		if r.chance(1, 2) {
			o.xs = append(o.xs, g.wrong())
		} else {
			o.xs = append(o.xs, o.xs[i].clone())
		}
		return "duplicate"
	case 9:
		o.ks = append(o.ks, r.pick([]string{"unknown", "Type", "INVITE", "received", "room", ""}))
		o.xs = append(o.xs, g.wrong())
		return "add-unknown"
	default:
		if o.xs[i].k == 'a' && g.huge {
			n := g.e.scale(3000, 12000)
			el := jStr("u9")
			// (not a placeholder: its substitution would change the body length)
			if len(o.xs[i].xs) > 0 && !strings.Contains(o.xs[i].xs[0].String(), "@") {
				el = o.xs[i].xs[0]
			}
			big := jArr()
			for k := 0; k < n; k++ {
				big.xs = append(big.xs, el)
			}
			o.xs[i] = big
			return "huge-list"
		}
		if o.ks[i] == "" {
			o.ks[i] = "x"
		} else {
			o.ks[i] = strings.ToUpper(o.ks[i][:1]) + o.ks[i][1:]
		}
		return "rename"
	}
}

func (g *vC11Gen) document() (string, string) {
	r := g.r
	switch r.intn(40) {
	case 0:
		return []string{"null", "[]", `"invite"`, "5", "{}", "true", `[{"type":"invite"}]`}[r.intn(7)], "toplevel"
	case 1:
		// unknown / odd types
		t := []*vJ{jStr(""), jStr("foo"), jStr("Invite"), jStr("invite "), jStr(strings.Repeat("x", 5000)), jNum("5"), jNull(), jArr(), jObj(), jBool(true)}[r.intn(10)]
		d := g.template(r.pick(vC11Types))
		d.xs[0] = t
		return d.String(), "odd-type"
	case 2:
		return g.template("transient").String(), "transient"
	case 3:
		// the sub-object of another type
		d := g.template(r.pick(vC11Types))
		d.xs[0] = jStr(r.pick(vC11Types))
		return d.String(), "swapped-type"
	case 4:
		// type only
		return jObj("type", jStr(r.pick(vC11Types))).String(), "type-only"
	case 5:
		// sub-object null
		t := r.pick(vC11Types)
		return jObj("type", jStr(t), t, jNull()).String(), "sub-null"
	}
	d := g.template(r.pick(vC11Types))
	tag := "valid"
	k := []int{0, 0, 1, 1, 1, 2}[r.intn(6)]
	for i := 0; i < k; i++ {
		tag = g.mutate(d)
	}
	return d.String(), tag
}

func (g *vC11Gen) rawBytes() string {
	r := g.r
	doc, _ := g.document()
	switch r.intn(10) {
	case 0:
		return ""
	case 1, 2, 3:
		if len(doc) > 2 {
			return doc[:1+r.intn(len(doc)-2)] // truncated, never complete
		}
		return "{"
	case 4:
		return doc + "x"
	case 5:
		return "{'type':'invite'}"
	case 6:
		return "\xff\xfe{}"
	case 7:
		return `{"type":"invite"`
	case 8:
		return `{"type":"invite","invite":{"userids":["u1",]}}`
	default:
		b := make([]byte, 1+r.intn(40))
		for i := range b {
			b[i] = byte(r.intn(256))
		}
		b[0] = '}' // never the start of a JSON value
		return string(b)
	}
}

func vC11GenCases(e *vEnv, r *vRand) []vCase {
	// newVRand(seed+1) is newVRand(seed) shifted by one draw: decorrelate the seeds first
	r = newVRand(r.u64() ^ (e.seed+1)*0xD1B54A32D192ED03)
	var cases []vCase
	n := e.scale(450, 15000)
	dials := []string{"none", "none", "none", "none", "accept", "error", "ringing", "badtype", "silent", "accept"}
	for i := 0; i < n; i++ {
		rr := r.fork()
		g := &vC11Gen{r: rr, e: e}
		g.n = 1
		if rr.chance(1, 4) {
			g.n = 0
		}
		g.huge = rr.chance(1, 25)
		room := "100"
		if rr.chance(1, 8) {
			room = "room-a"
		}
		dial := dials[rr.intn(len(dials))]
		ops := []string{fmt.Sprintf("setup %d %s %s", g.n, vEnc(room), dial)}
		var tags []string
		k := []int{1, 1, 1, 2, 3}[rr.intn(5)]
		for j := 0; j < k; j++ {
			target := room
			if rr.chance(1, 6) {
				target = "200"
			}
			if rr.chance(1, 12) {
				ops = append(ops, fmt.Sprintf("raw %s %s", vEnc(target), vEnc(g.rawBytes())))
				tags = append(tags, "raw")
				continue
			}
			doc, tag := g.document()
			if j < k-1 && rr.chance(1, 2) {
				// warm-up: a well-formed request that changes the state the next one meets
				doc = g.template(rr.pick([]string{"incall", "update", "participants", "message", "invite"})).String()
				tag = "warmup"
			}
			ops = append(ops, fmt.Sprintf("req %s %s", vEnc(target), vEnc(doc)))
			tags = append(tags, tag)
		}
		cases = append(cases, vCase{Ops: ops, Tags: tags})
	}
	// systematic block: every type x every member of the request and of its sub-object x
	// {dropped, null, each wrong-typed value, emptied}; four requests per case
	{
		g := &vC11Gen{r: r.fork(), e: e, n: 1}
		var docs []string
		for _, typ := range append(append([]string(nil), vC11Types...), "transient") {
			base := g.template(typ)
			var objs []*vJ
			base.objects(&objs)
			for oi := range objs {
				if oi > 1 && !e.thorough() {
					break // quick tier: the request object and its sub-object only
				}
				for mi := range objs[oi].ks {
					variants := []*vJ{nil, jNull(), jArr(), jObj()}
					variants = append(variants, g.wrongPool()...)
					for _, v := range variants {
						d := base.clone()
						var os []*vJ
						d.objects(&os)
						o := os[oi]
						if v == nil {
							o.ks = append(o.ks[:mi], o.ks[mi+1:]...)
							o.xs = append(o.xs[:mi], o.xs[mi+1:]...)
						} else {
							o.xs[mi] = v.clone()
						}
						docs = append(docs, d.String())
					}
				}
			}
		}
		setups := []string{"setup 1 100 none"}
		if e.thorough() {
			setups = append(setups, "setup 0 100 none", "setup 1 100 accept")
		}
		for _, su := range setups {
			for i := 0; i < len(docs); i += 4 {
				ops := []string{su}
				for j := i; j < i+4 && j < len(docs); j++ {
					ops = append(ops, "req 100 "+vEnc(docs[j]))
				}
				cases = append(cases, vCase{Ops: ops, Tags: []string{"systematic"}})
			}
		}
	}
	// deep nesting in a raw member and in an unknown member
	{
		deep := strings.Repeat("[", 300) + strings.Repeat("]", 300)
		cases = append(cases, vCase{Ops: []string{"setup 1 100 none",
			"req 100 " + vEnc(`{"type":"message","message":{"data":`+deep+`}}`),
			"req 100 " + vEnc(`{"type":"invite","invite":{"userids":["u1"]},"zzz":`+deep+`}`),
			"req 100 " + vEnc(`{"type":"participants","participants":{"users":[{"sessionId":"rs1","x":`+deep+`}]}}`)},
			Tags: []string{"deep"}})
	}
	// one over-long body per run
	{
		big := jArr()
		for k := 0; k < 40000; k++ {
			big.xs = append(big.xs, jStr("u9"))
		}
		doc := jObj("type", jStr("invite"), "invite", jObj("userids", big)).String()
		cases = append(cases, vCase{Ops: []string{"setup 1 100 none", "req 100 " + vEnc(doc)}, Tags: []string{"oversize"}})
	}
	return cases
}

// ---------- runner ----------

// vC11Run is vRun with one difference: the op list of a case is written to
// VERIF_OUT (and flushed) *before* the case is executed and replaced by the
// complete line afterwards.  When a server goroutine panics the process dies and
// the last line of the file names the case that killed it.
func vC11Run(t *testing.T, gen func(e *vEnv, r *vRand) []vCase, exec func(t *testing.T, c *vCase)) {
	e := verifEnv(t)
	var cases []vCase
	if e.replay != "" {
		f, err := os.Open(e.replay)
		if err != nil {
			t.Fatal(err)
		}
		sc := bufio.NewScanner(f)
		sc.Buffer(make([]byte, 1<<20), 1<<28)
		for sc.Scan() {
			line := strings.TrimSpace(sc.Text())
			if line == "" {
				continue
			}
			var c vCase
			if err := json.Unmarshal([]byte(line), &c); err != nil {
				t.Fatalf("replay file: %v", err)
			}
			c.Impl = nil
			c.Crash = ""
			cases = append(cases, c)
		}
		f.Close()
	} else {
		cases = gen(e, newVRand(e.seed))
	}
	out, err := os.Create(e.out)
	if err != nil {
		t.Fatal(err)
	}
	defer out.Close()
	var pos int64
	write := func(c *vCase, final bool) {
		data, err := json.Marshal(c)
		if err != nil {
			t.Fatal(err)
		}
		data = append(data, '\n')
		if _, err := out.WriteAt(data, pos); err != nil {
			t.Fatal(err)
		}
		if err := out.Truncate(pos + int64(len(data))); err != nil {
			t.Fatal(err)
		}
		if final {
			pos += int64(len(data))
		}
	}
	for i := range cases {
		c := &cases[i]
		started := vCase{Ops: c.Ops, Tags: append(append([]string(nil), c.Tags...), "started")}
		write(&started, false)
		func() {
			defer func() {
				if r := recover(); r != nil {
					c.Crash = fmt.Sprint(r)
				}
			}()
			exec(t, c)
		}()
		write(c, true)
	}
}

func TestVerifC11(t *testing.T) {
	log.SetOutput(io.Discard)
	vC11Run(t, vC11GenCases, vC11Exec)
}
