package signaling

// C11 harness: signed room API requests of every shape against a fresh
// in-process Hub + BackendServer, inside a testing/synctest bubble (go1.26):
// every connection is an in-memory net.Pipe, so synctest.Wait() is an exact
// quiescence barrier (all goroutines of the server durably blocked) and the
// ten second dial-out timeout costs nothing.  A panic in a server goroutine
// (hub main loop, bus subscriber) is not recoverable and kills this process;
// vC11Run therefore flushes the op list of a case *before* executing it.
// A server goroutine that waits for a mutex for ever is NOT durably blocked:
// synctest.Wait() hangs.  A watchdog on the real clock (vC11Watchdog) turns that
// into a `hung@<where>` output of the running step and ends the process.

import (
	"bufio"
	"bytes"
	"context"
	"crypto/hmac"
	"crypto/sha256"
	"encoding/hex"
	"encoding/json"
	"errors"
	"fmt"
	"io"
	"log"
	"net"
	"net/http"
	"net/http/httptest"
	"net/url"
	"os"
	"regexp"
	"runtime"
	"sort"
	"strconv"
	"strings"
	"sync"
	"testing"
	"testing/synctest"
	"time"

	"github.com/dlintw/goconf"
	"github.com/gorilla/mux"
	"github.com/gorilla/websocket"
)

// ---------- in-memory network ----------

type vMemAddr struct{ s string }

func (a vMemAddr) Network() string { return "tcp" }
func (a vMemAddr) String() string  { return a.s }

type vMemConn struct {
	net.Conn
	local, remote vMemAddr
}

func (c *vMemConn) LocalAddr() net.Addr  { return c.local }
func (c *vMemConn) RemoteAddr() net.Addr { return c.remote }

type vMemListener struct {
	ch     chan net.Conn
	closed chan struct{}
	once   sync.Once
	n      int
	mu     sync.Mutex
}

func newVMemListener() *vMemListener {
	return &vMemListener{ch: make(chan net.Conn), closed: make(chan struct{})}
}

func (l *vMemListener) Accept() (net.Conn, error) {
	select {
	case c := <-l.ch:
		return c, nil
	case <-l.closed:
		return nil, net.ErrClosed
	}
}

func (l *vMemListener) Close() error {
	l.once.Do(func() { close(l.closed) })
	return nil
}

func (l *vMemListener) Addr() net.Addr { return vMemAddr{"192.0.2.10:80"} }

func (l *vMemListener) dial(ctx context.Context, network, addr string) (net.Conn, error) {
	l.mu.Lock()
	l.n++
	port := 20000 + l.n%40000
	l.mu.Unlock()
	c1, c2 := net.Pipe()
	cl := vMemAddr{fmt.Sprintf("192.0.2.1:%d", port)}
	sv := vMemAddr{"192.0.2.10:80"}
	select {
	case l.ch <- &vMemConn{Conn: c2, local: sv, remote: cl}:
		return &vMemConn{Conn: c1, local: cl, remote: sv}, nil
	case <-l.closed:
		c1.Close()
		c2.Close()
		return nil, errors.New("listener closed")
	case <-ctx.Done():
		c1.Close()
		c2.Close()
		return nil, ctx.Err()
	}
}

// ---------- fake Nextcloud ----------

var vC11Secret = []byte("c11-backend-secret")

const vC11InternalSecret = "c11-internal-secret"

const (
	vC11NcUrl  = "http://nextcloud.test/"
	vC11SigUrl = "http://signaling.test"
)

func vC11Nextcloud(w http.ResponseWriter, r *http.Request) {
	if r.Method == "GET" {
		// capabilities
		spreed, _ := json.Marshal(map[string]interface{}{"features": []string{"verif"}, "config": map[string]interface{}{}})
		resp := &CapabilitiesResponse{Version: CapabilitiesVersion{Major: 20}, Capabilities: map[string]json.RawMessage{"spreed": spreed}}
		data, _ := json.Marshal(resp)
		var ocs OcsResponse
		ocs.Ocs = &OcsBody{Meta: OcsMeta{Status: "ok", StatusCode: 200, Message: "OK"}, Data: data}
		data, _ = json.Marshal(ocs)
		w.Header().Set("Content-Type", "application/json")
		w.Write(data) // nolint
		return
	}
	body, _ := io.ReadAll(r.Body)
	var request BackendClientRequest
	if err := json.Unmarshal(body, &request); err != nil {
		http.Error(w, "bad", http.StatusBadRequest)
		return
	}
	var response BackendClientResponse
	switch request.Type {
	case "auth":
		var params struct {
			UserId string `json:"userid"`
		}
		json.Unmarshal(request.Auth.Params, &params) // nolint
		response.Type = "auth"
		response.Auth = &BackendClientAuthResponse{Version: BackendVersion, UserId: params.UserId, User: json.RawMessage(`{"displayname":"x"}`)}
	case "room":
		response.Type = "room"
		response.Room = &BackendClientRoomResponse{Version: BackendVersion, RoomId: request.Room.RoomId, Properties: json.RawMessage(`{"initial":true}`)}
	case "ping":
		response.Type = "ping"
		response.Ping = &BackendClientRingResponse{Version: BackendVersion, RoomId: request.Ping.RoomId}
	default:
		response.Type = request.Type
	}
	data, _ := json.Marshal(&response)
	if r.Header.Get("OCS-APIRequest") != "" {
		var ocs OcsResponse
		ocs.Ocs = &OcsBody{Meta: OcsMeta{Status: "ok", StatusCode: 200, Message: "OK"}, Data: data}
		data, _ = json.Marshal(ocs)
	}
	w.Header().Set("Content-Type", "application/json")
	w.Write(data) // nolint
}

// ---------- one server instance ----------

type vC11Client struct {
	conn     *websocket.Conn
	mu       sync.Mutex
	msgs     []*ServerMessage
	closed   bool
	done     chan struct{}
	publicId string
	// onMessage runs in the reader goroutine (used by the dial-out client)
	onMessage func(m *ServerMessage)
	wmu       sync.Mutex
}

func (c *vC11Client) reader() {
	defer close(c.done)
	for {
		_, data, err := c.conn.ReadMessage()
		if err != nil {
			c.mu.Lock()
			c.closed = true
			c.mu.Unlock()
			return
		}
		var m ServerMessage
		if err := json.Unmarshal(data, &m); err != nil {
			m = ServerMessage{Type: "undecodable"}
		}
		c.mu.Lock()
		c.msgs = append(c.msgs, &m)
		c.mu.Unlock()
		if c.onMessage != nil {
			c.onMessage(&m)
		}
	}
}

func (c *vC11Client) take() ([]*ServerMessage, bool) {
	c.mu.Lock()
	defer c.mu.Unlock()
	m := c.msgs
	c.msgs = nil
	return m, c.closed
}

type vC11Server struct {
	t       *testing.T
	hub     *Hub
	backend *BackendServer
	events  AsyncEvents
	sigL    *vMemListener
	ncL     *vMemListener
	sigSrv  *http.Server
	ncSrv   *http.Server
	httpc   *http.Client
	router  *mux.Router
	clients []*vC11Client
}

func newVC11Server(t *testing.T) *vC11Server {
	s := &vC11Server{t: t, sigL: newVMemListener(), ncL: newVMemListener()}
	r := mux.NewRouter()
	config := goconf.NewConfigFile()
	config.AddOption("backend", "backends", "backend1")
	config.AddOption("backend1", "url", vC11NcUrl)
	config.AddOption("backend1", "secret", string(vC11Secret))
	config.AddOption("backend", "allowhttp", "true")
	config.AddOption("sessions", "hashkey", "12345678901234567890123456789012")
	config.AddOption("sessions", "blockkey", "09876543210987654321098765432109")
	config.AddOption("clients", "internalsecret", vC11InternalSecret)
	config.AddOption("geoip", "url", "none")
	nc, err := NewLoopbackNatsClient()
	if err != nil {
		panic(err)
	}
	s.events, err = NewAsyncEventsNats(nc)
	if err != nil {
		panic(err)
	}
	s.hub, err = NewHub(config, s.events, nil, nil, nil, r, "verif")
	if err != nil {
		panic(err)
	}
	s.backend, err = NewBackendServer(config, s.hub, "verif")
	if err != nil {
		panic(err)
	}
	if err := s.backend.Start(r); err != nil {
		panic(err)
	}
	// all outgoing requests of the hub go to the in-memory Nextcloud
	s.hub.backend.pool.transport.DialContext = s.ncL.dial
	s.hub.backend.pool.transport.Proxy = nil
	s.ncSrv = &http.Server{Handler: http.HandlerFunc(vC11Nextcloud)}
	go s.ncSrv.Serve(s.ncL) // nolint
	s.router = r
	s.sigSrv = &http.Server{Handler: r, ErrorLog: log.New(io.Discard, "", 0)}
	go s.sigSrv.Serve(s.sigL) // nolint
	// the reply has to come within a budget of virtual time (the longest wait of a handler is the
	// ten second dial-out timeout): a handler that never answers counts as "no reply"
	s.httpc = &http.Client{Transport: &http.Transport{DialContext: s.sigL.dial, DisableKeepAlives: true}, Timeout: vC11ReplyBudget}
	go s.hub.Run()
	return s
}

func (s *vC11Server) close() {
	for _, c := range s.clients {
		c.conn.Close()
		<-c.done
	}
	synctest.Wait()
	// sessions are resumable after their connection is gone: close them for good
	s.hub.mu.Lock()
	var sessions []Session
	for _, sess := range s.hub.sessions {
		sessions = append(sessions, sess)
	}
	s.hub.mu.Unlock()
	for _, sess := range sessions {
		sess.Close()
	}
	synctest.Wait()
	s.hub.Stop()
	s.sigSrv.Close()
	s.hub.backend.pool.transport.CloseIdleConnections()
	s.ncSrv.Close()
	s.events.Close()
	s.httpc.CloseIdleConnections()
	synctest.Wait()
}

func (s *vC11Server) dialWs() *vC11Client {
	d := websocket.Dialer{NetDialContext: s.sigL.dial}
	conn, _, err := d.Dial("ws://signaling.test/spreed", nil)
	if err != nil {
		panic(fmt.Sprintf("harness: dial: %v", err))
	}
	c := &vC11Client{conn: conn, done: make(chan struct{})}
	s.clients = append(s.clients, c)
	return c
}

func (s *vC11Server) hello(c *vC11Client, hello *HelloClientMessage) {
	synctest.Wait()
	c.take() // welcome
	c.send(&ClientMessage{Id: "h", Type: "hello", Hello: hello})
	synctest.Wait()
	msgs, _ := c.take()
	for _, m := range msgs {
		if m.Type == "hello" && m.Hello != nil {
			c.publicId = m.Hello.SessionId
		}
	}
	if c.publicId == "" {
		panic(fmt.Sprintf("harness: no hello reply: %+v", msgs))
	}
}

func (s *vC11Server) connect(userid string) *vC11Client {
	c := s.dialWs()
	go c.reader()
	params, _ := json.Marshal(map[string]string{"userid": userid})
	s.hello(c, &HelloClientMessage{Version: HelloVersionV1, Auth: &HelloClientMessageAuth{Url: vC11NcUrl, Params: params}})
	return c
}

// connectDialout registers an internal client with the start-dialout feature
// that answers every dial-out request according to policy.
func (s *vC11Server) connectDialout(policy string) *vC11Client {
	c := s.dialWs()
	c.onMessage = func(m *ServerMessage) {
		if m.Type != "internal" || m.Internal == nil || m.Internal.Type != "dialout" {
			return
		}
		reply := &ClientMessage{Id: m.Id, Type: "internal", Internal: &InternalClientMessage{Type: "dialout"}}
		switch policy {
		case "accept":
			reply.Internal.Dialout = &DialoutInternalClientMessage{Type: "status", RoomId: "999999",
				Status: &DialoutStatusInternalClientMessage{CallId: "call1", Status: DialoutStatusAccepted}}
		case "ringing":
			reply.Internal.Dialout = &DialoutInternalClientMessage{Type: "status", RoomId: "999999",
				Status: &DialoutStatusInternalClientMessage{CallId: "call1", Status: DialoutStatusRinging}}
		case "error":
			reply.Internal.Dialout = &DialoutInternalClientMessage{Type: "error", Error: NewError("dial_failed", "no")}
		case "badtype":
			reply.Internal.Dialout = &DialoutInternalClientMessage{Type: "whatever"}
		default: // silent
			return
		}
		c.send(reply)
	}
	go c.reader()
	random := "0123456789abcdef0123456789abcdef0123456789abcdef"
	mac := hmac.New(sha256.New, []byte(vC11InternalSecret))
	mac.Write([]byte(random)) // nolint
	params, _ := json.Marshal(&ClientTypeInternalAuthParams{Random: random, Token: hex.EncodeToString(mac.Sum(nil)), Backend: vC11NcUrl})
	s.hello(c, &HelloClientMessage{Version: HelloVersionV1, Features: []string{ClientFeatureStartDialout},
		Auth: &HelloClientMessageAuth{Type: HelloClientTypeInternal, Params: params}})
	return c
}

// connectInternal registers an internal client without the dial-out feature: it can join rooms
// and add virtual sessions.
func (s *vC11Server) connectInternal() *vC11Client {
	c := s.dialWs()
	go c.reader()
	random := "fedcba9876543210fedcba9876543210fedcba9876543210"
	mac := hmac.New(sha256.New, []byte(vC11InternalSecret))
	mac.Write([]byte(random)) // nolint
	params, _ := json.Marshal(&ClientTypeInternalAuthParams{Random: random, Token: hex.EncodeToString(mac.Sum(nil)), Backend: vC11NcUrl})
	s.hello(c, &HelloClientMessage{Version: HelloVersionV1, Features: []string{"virtual-sessions"},
		Auth: &HelloClientMessageAuth{Type: HelloClientTypeInternal, Params: params}})
	return c
}

func (c *vC11Client) send(m *ClientMessage) {
	data, _ := json.Marshal(m)
	c.wmu.Lock()
	defer c.wmu.Unlock()
	c.conn.WriteMessage(websocket.TextMessage, data) // nolint
}

func (s *vC11Server) join(c *vC11Client, room, rsid string) {
	c.send(&ClientMessage{Id: "j", Type: "room", Room: &RoomClientMessage{RoomId: room, SessionId: rsid}})
	synctest.Wait()
	msgs, _ := c.take()
	ok := false
	for _, m := range msgs {
		if m.Type == "room" && m.Room != nil && m.Room.RoomId == room {
			ok = true
		}
	}
	if !ok {
		panic(fmt.Sprintf("harness: join failed: %+v", msgs))
	}
}

// post sends a signed room API request; result is the status code as a string
// or "neterr" when no HTTP reply arrived (net/http drops the connection when the
// handler panics).  Bodies above the server's limit are handed to the router
// directly: over a synchronous pipe the early 413 races with the body upload.
func (s *vC11Server) post(room string, body []byte) string {
	req, err := http.NewRequest("POST", vC11SigUrl+"/api/v1/room/"+url.PathEscape(room), bytes.NewReader(body))
	if err != nil {
		return "badreq"
	}
	req.Header.Set("Content-Type", "application/json")
	rnd := newRandomString(64)
	req.Header.Set(HeaderBackendSignalingRandom, rnd)
	req.Header.Set(HeaderBackendSignalingChecksum, CalculateBackendChecksum(rnd, body, vC11Secret))
	req.Header.Set(HeaderBackendServer, vC11NcUrl)
	if len(body) > maxBodySize {
		req.RemoteAddr = "192.0.2.1:1234"
		rec := httptest.NewRecorder()
		st := "neterr"
		func() {
			defer func() { recover() }() // nolint
			s.router.ServeHTTP(rec, req)
			st = fmt.Sprint(rec.Code)
		}()
		return st
	}
	resp, err := s.httpc.Do(req)
	if err != nil {
		return "neterr"
	}
	io.Copy(io.Discard, resp.Body) // nolint
	resp.Body.Close()
	return fmt.Sprint(resp.StatusCode)
}

func vC11EventName(m *ServerMessage) string {
	switch m.Type {
	case "event":
		if m.Event == nil {
			return "event:nil"
		}
		return m.Event.Target + "-" + m.Event.Type
	case "room":
		if m.Room != nil && m.Room.RoomId == "" {
			return "room-left"
		}
		return "room-props"
	default:
		return m.Type
	}
}

// ---------- executing one case ----------

const (
	vC11Pc1       = "@c1@"
	vC11Pc2       = "@c2@"
	vC11ProbeRoom = "vprobe-room"
	vC11ProbeUser = "vprobe-user"
	vC11ProbeRsid = "rs-vprobe"
	// virtual time the effect of a probe may take before the server counts as unresponsive
	vC11ProbeBudget = 5 * time.Second
	// virtual time an API request may take to be answered
	vC11ReplyBudget = 30 * time.Second
)

type vC11World struct {
	s      *vC11Server
	cl     [5]*vC11Client // c1..c4
	ci     *vC11Client    // internal client without the dial-out feature
	cp     *vC11Client    // probe client: never part of the observation
	virt   map[int]string // virtual session n -> public id
	closed map[*vC11Client]bool
	ready  bool
}

func (w *vC11World) live(c *vC11Client) bool { return c != nil && !w.closed[c] }

func (w *vC11World) session(c *vC11Client) *ClientSession {
	if !w.live(c) {
		return nil
	}
	cs, _ := w.s.hub.GetSessionByPublicId(c.publicId).(*ClientSession)
	return cs
}

// rsidInUse: a live session joined a room with this Nextcloud session id.
func (w *vC11World) rsidInUse(rs string) bool {
	for _, c := range append(w.cl[1:], w.ci) {
		if cs := w.session(c); cs != nil && cs.GetRoom() != nil && cs.RoomSessionId() == rs {
			return true
		}
	}
	return false
}

func (w *vC11World) init(dial string) {
	w.closed = map[*vC11Client]bool{}
	w.virt = map[int]string{}
	w.cp = w.s.connect(vC11ProbeUser)
	if dial != "none" {
		w.s.connectDialout(dial)
	}
	synctest.Wait()
	w.ready = true
}

func (w *vC11World) setup(n int, room, dial string) {
	w.init(dial)
	if n > 0 {
		w.conn(1, "u1")
		w.conn(2, "u2")
		w.join(w.cl[1], room, "rs1")
	}
	w.quiet()
}

// quiet: wait for quiescence and forget what the clients received (world ops are not observed).
func (w *vC11World) quiet() {
	synctest.Wait()
	for _, c := range append(w.cl[1:], w.ci, w.cp) {
		if c != nil {
			c.take()
		}
	}
}

func (w *vC11World) conn(k int, user string) bool {
	if k < 1 || k > 4 || w.live(w.cl[k]) {
		return false
	}
	w.cl[k] = w.s.connect(user)
	return true
}

func (w *vC11World) join(c *vC11Client, room, rsid string) bool {
	cs := w.session(c)
	if cs == nil || room == "" || rsid == "" || w.rsidInUse(rsid) {
		return false
	}
	if r := cs.GetRoom(); r != nil && r.Id() == room {
		return false
	}
	w.s.join(c, room, rsid)
	return true
}

func (w *vC11World) leave(c *vC11Client) bool {
	cs := w.session(c)
	if cs == nil || cs.GetRoom() == nil {
		return false
	}
	c.send(&ClientMessage{Id: "l", Type: "room", Room: &RoomClientMessage{RoomId: ""}})
	return true
}

func (w *vC11World) bye(c *vC11Client) bool {
	if w.session(c) == nil {
		return false
	}
	c.send(&ClientMessage{Id: "b", Type: "bye", Bye: &ByeClientMessage{}})
	synctest.Wait()
	c.conn.Close()
	<-c.done
	w.closed[c] = true
	return true
}

func (w *vC11World) iconn() bool {
	if w.live(w.ci) {
		return false
	}
	w.ci = w.s.connectInternal()
	return true
}

func (w *vC11World) virtAdd(n int, room string, flags int) bool {
	cs := w.session(w.ci)
	if cs == nil || n < 1 || n > 2 || w.virt[n] != "" || room == "" {
		return false
	}
	if w.s.hub.GetRoomForBackend(room, cs.Backend()) == nil {
		return false
	}
	vid := fmt.Sprintf("v%d", n)
	msg := &AddSessionInternalClientMessage{UserId: "vu" + vid}
	msg.SessionId = vid
	msg.RoomId = room
	if flags != 0 {
		msg.InCall = &flags
	}
	w.ci.send(&ClientMessage{Id: "v", Type: "internal", Internal: &InternalClientMessage{Type: "addsession", AddSession: msg}})
	synctest.Wait()
	w.s.hub.mu.RLock()
	sid, found := w.s.hub.virtualSessions[GetVirtualSessionId(cs, vid)]
	var pub string
	if found {
		if sess := w.s.hub.sessions[sid]; sess != nil {
			pub = sess.PublicId()
		}
	}
	w.s.hub.mu.RUnlock()
	if pub == "" {
		panic("harness: virtual session not created")
	}
	w.virt[n] = pub
	return true
}

func (w *vC11World) virtRemove(n int) bool {
	cs := w.session(w.ci)
	if cs == nil || w.virt[n] == "" {
		return false
	}
	sess := w.s.hub.GetSessionByPublicId(w.virt[n])
	if sess == nil {
		return false
	}
	room := ""
	if r := sess.GetRoom(); r != nil {
		room = r.Id()
	}
	if room == "" {
		room = "gone"
	}
	msg := &RemoveSessionInternalClientMessage{}
	msg.SessionId = fmt.Sprintf("v%d", n)
	msg.RoomId = room
	w.ci.send(&ClientMessage{Id: "v", Type: "internal", Internal: &InternalClientMessage{Type: "removesession", RemoveSession: msg}})
	delete(w.virt, n)
	return true
}

// worldOp executes a scripted change of the world; "skip" when its precondition does not hold
// (the driver decides the same from its own state, so shrunk op lists stay meaningful).
func (w *vC11World) worldOp(f []string) string {
	ok := false
	num := func(s string) int { n, _ := strconv.Atoi(s); return n }
	client := func(s string) *vC11Client {
		if k := num(s); k >= 1 && k <= 4 {
			return w.cl[k]
		}
		return nil
	}
	switch {
	case f[0] == "conn" && len(f) == 3:
		ok = w.conn(num(f[1]), vDec(f[2]))
	case f[0] == "join" && len(f) == 4:
		ok = w.join(client(f[1]), vDec(f[2]), vDec(f[3]))
	case f[0] == "leave" && len(f) == 2:
		ok = w.leave(client(f[1]))
	case f[0] == "bye" && len(f) == 2:
		ok = w.bye(client(f[1]))
	case f[0] == "iconn" && len(f) == 1:
		ok = w.iconn()
	case f[0] == "ijoin" && len(f) == 3:
		ok = w.join(w.ci, vDec(f[1]), vDec(f[2]))
	case f[0] == "virt" && len(f) == 4:
		ok = w.virtAdd(num(f[1]), vDec(f[2]), num(f[3]))
	case f[0] == "vrem" && len(f) == 2:
		ok = w.virtRemove(num(f[1]))
	default:
		return "bad-op"
	}
	w.quiet()
	if !ok {
		return "skip"
	}
	return "ok"
}

func (w *vC11World) subst(body []byte) []byte {
	for k := 1; k <= 4; k++ {
		if w.cl[k] != nil {
			body = bytes.ReplaceAll(body, []byte(fmt.Sprintf("@c%d@", k)), []byte(w.cl[k].publicId))
		}
	}
	if w.ci != nil {
		body = bytes.ReplaceAll(body, []byte("@ci@"), []byte(w.ci.publicId))
	}
	for n, pub := range w.virt {
		body = bytes.ReplaceAll(body, []byte(fmt.Sprintf("@v%d@", n)), []byte(pub))
	}
	return body
}

// drain returns the names of everything the observed clients received since the last call.
// Traffic caused by the liveness probes (it carries the probe marker or names the probe client)
// is not part of the observation; probes lists the markers seen per client.
func (w *vC11World) drain() (events []string, probes map[*vC11Client]map[string]bool) {
	probes = map[*vC11Client]map[string]bool{}
	names := []string{"", "c1", "c2", "c3", "c4", "ci"}
	for i, c := range append(w.cl[1:], w.ci) {
		if c == nil {
			continue
		}
		msgs, closed := c.take()
		for _, m := range msgs {
			raw, _ := json.Marshal(m)
			if p := bytes.Index(raw, []byte("vpmark-")); p >= 0 || bytes.Contains(raw, []byte(w.cp.publicId)) || bytes.Contains(raw, []byte(vC11ProbeRoom)) {
				if p >= 0 {
					end := p
					for end < len(raw) && raw[end] != '"' && raw[end] != '\\' {
						end++
					}
					if probes[c] == nil {
						probes[c] = map[string]bool{}
					}
					probes[c][vC11EventName(m)+"/"+string(raw[p:end])] = true
				}
				continue
			}
			events = append(events, names[i+1]+":"+vC11EventName(m))
		}
		if closed && !w.closed[c] {
			w.closed[c] = true
			events = append(events, names[i+1]+":closed")
		}
	}
	return
}

// digest: the rooms of the hub with their properties and the labels of the sessions in the call.
func (w *vC11World) digest() string {
	label := map[string]string{}
	for k := 1; k <= 4; k++ {
		if w.cl[k] != nil {
			label[w.cl[k].publicId] = fmt.Sprintf("c%d", k)
		}
	}
	if w.ci != nil {
		label[w.ci.publicId] = "ci"
	}
	for n, pub := range w.virt {
		label[pub] = fmt.Sprintf("v%d", n)
	}
	w.s.hub.ru.RLock()
	var rooms []*Room
	for _, x := range w.s.hub.rooms {
		rooms = append(rooms, x)
	}
	w.s.hub.ru.RUnlock()
	sort.Slice(rooms, func(i, j int) bool { return rooms[i].Id() < rooms[j].Id() })
	var parts []string
	for _, room := range rooms {
		room.mu.RLock()
		p := string(room.properties)
		var in []string
		for sess := range room.inCallSessions {
			l := label[sess.PublicId()]
			if l == "" {
				l = "other"
			}
			in = append(in, l)
		}
		room.mu.RUnlock()
		sort.Strings(in)
		i := "-"
		if len(in) > 0 {
			i = strings.Join(in, "+")
		}
		parts = append(parts, vEnc(room.Id())+"="+vEnc(p)+"="+i)
	}
	if len(parts) == 0 {
		return "-"
	}
	return strings.Join(parts, ";")
}

// cpMove sends the probe client into a room ("" = out of its room); true when the server confirmed.
func (w *vC11World) cpMove(room string) bool {
	w.cp.take()
	w.cp.send(&ClientMessage{Id: "p", Type: "room", Room: &RoomClientMessage{RoomId: room, SessionId: vC11ProbeRsid}})
	synctest.Wait()
	msgs, _ := w.cp.take()
	for _, m := range msgs {
		if m.Type == "room" && m.Room != nil && m.Room.RoomId == room {
			return true
		}
	}
	time.Sleep(vC11ProbeBudget)
	synctest.Wait()
	msgs, _ = w.cp.take()
	for _, m := range msgs {
		if m.Type == "room" && m.Room != nil && m.Room.RoomId == room {
			return true
		}
	}
	return false
}

// probe: is the server still doing its work?  In every room with a connected member and in a
// room of the probe client's own (so that "another room" always exists):
//   - a participants request (API handler -> bus -> room subscriber -> hub main loop -> room ->
//     bus -> session -> connection) and a room message (without the hub main loop) must arrive
//     at the member within the budget of virtual time,
//   - the probe client must be able to join and to leave (hub and room tables, their mutexes).
//
// Events caused at observed clients are returned (the probes' own traffic is filtered out).
func (w *vC11World) probe(idx int) (why string, extra []string) {
	fail := func(r string) {
		if why == "" {
			why = r
		}
	}
	type target struct {
		room string
		c    *vC11Client
		rsid string
	}
	vC11Beat("probe:own-room")
	if !w.cpMove(vC11ProbeRoom) {
		fail("probe-client-cannot-open-a-room")
	}
	targets := []target{{vC11ProbeRoom, w.cp, vC11ProbeRsid}}
	seen := map[string]bool{}
	for _, c := range append(w.cl[1:], w.ci) {
		cs := w.session(c)
		if cs == nil {
			continue
		}
		if r := cs.GetRoom(); r != nil && !seen[r.Id()] && cs.RoomSessionId() != "" {
			seen[r.Id()] = true
			targets = append(targets, target{r.Id(), c, cs.RoomSessionId()})
		}
	}
	for ti, t := range targets {
		vC11Beat("probe:post:" + t.room)
		nonce := fmt.Sprintf("vpmark-%d-%d", idx, ti)
		pd, _ := json.Marshal(map[string]interface{}{"type": "participants", "participants": map[string]interface{}{
			"users": []map[string]interface{}{{"sessionId": t.rsid, "marker": nonce}}}})
		if st := w.s.post(t.room, pd); st != "200" {
			fail("participants-request-answered-" + st + ":" + vEnc(t.room))
		}
		if st := w.s.post(t.room, []byte(`{"type":"message","message":{"data":{"probe":"`+nonce+`"}}}`)); st != "200" {
			fail("message-request-answered-" + st + ":" + vEnc(t.room))
		}
	}
	vC11Beat("probe:wait")
	synctest.Wait()
	got := map[*vC11Client]map[string]bool{}
	collect := func() string {
		evs, probes := w.drain()
		extra = append(extra, evs...)
		for c, m := range probes {
			if got[c] == nil {
				got[c] = map[string]bool{}
			}
			for k := range m {
				got[c][k] = true
			}
		}
		msgs, _ := w.cp.take()
		for _, m := range msgs {
			raw, _ := json.Marshal(m)
			if p := bytes.Index(raw, []byte("vpmark-")); p >= 0 {
				end := p
				for end < len(raw) && raw[end] != '"' && raw[end] != '\\' {
					end++
				}
				if got[w.cp] == nil {
					got[w.cp] = map[string]bool{}
				}
				got[w.cp][vC11EventName(m)+"/"+string(raw[p:end])] = true
			}
		}
		missing := ""
		for ti, t := range targets {
			nonce := fmt.Sprintf("vpmark-%d-%d", idx, ti)
			// a member that the request itself removed from the room is no witness any more
			if t.c != w.cp {
				if cs := w.session(t.c); cs == nil || cs.GetRoom() == nil || cs.GetRoom().Id() != t.room {
					continue
				}
			}
			if !got[t.c]["participants-update/"+nonce] && missing == "" {
				missing = "participants-request-without-effect:" + vEnc(t.room)
			}
			if !got[t.c]["room-message/"+nonce] && missing == "" {
				missing = "room-message-not-delivered:" + vEnc(t.room)
			}
		}
		return missing
	}
	if collect() != "" {
		vC11Beat("probe:budget")
		time.Sleep(vC11ProbeBudget)
		synctest.Wait()
		if m := collect(); m != "" {
			fail(m)
		}
	}
	for _, t := range targets[1:] {
		vC11Beat("probe:join:" + t.room)
		if !w.cpMove(t.room) {
			fail("probe-client-cannot-join:" + vEnc(t.room))
		}
	}
	vC11Beat("probe:leave")
	if !w.cpMove("") {
		fail("probe-client-cannot-leave")
	}
	evs, _ := w.drain()
	extra = append(extra, evs...)
	return
}

func (w *vC11World) request(idx int, room string, body []byte) string {
	vC11Beat("request")
	st := w.s.post(room, w.subst(body))
	vC11Note(st)
	synctest.Wait()
	evs, _ := w.drain()
	why, extra := w.probe(idx)
	vC11Beat("digest")
	evs = append(evs, extra...)
	sort.Strings(evs)
	var uniq []string
	for _, e := range evs {
		if len(uniq) == 0 || uniq[len(uniq)-1] != e {
			uniq = append(uniq, e)
		}
	}
	ev := "-"
	if len(uniq) > 0 {
		ev = strings.Join(uniq, ",")
	}
	l := "live"
	if why != "" {
		l = "dead:" + why
	}
	return st + " " + l + " " + ev + " " + w.digest()
}

func vC11Exec(t *testing.T, c *vCase) {
	synctest.Test(t, func(t *testing.T) {
		w := &vC11World{s: newVC11Server(t)}
		defer func() {
			w.s.close()
		}()
		for idx, line := range c.Ops {
			f := strings.Fields(line)
			out := "bad-op"
			vC11Step(idx)
			if len(f) > 0 && f[0] == "setup" {
				if len(f) == 4 && !w.ready {
					n, _ := strconv.Atoi(f[1])
					w.setup(n, vDec(f[2]), f[3])
					out = "ok"
				}
			} else if len(f) == 3 && (f[0] == "req" || f[0] == "raw") {
				if !w.ready {
					w.setup(0, "100", "none")
				}
				out = w.request(idx, vDec(f[1]), []byte(vDec(f[2])))
			} else if len(f) > 0 {
				if !w.ready {
					w.setup(0, "100", "none")
				}
				out = w.worldOp(f)
			}
			c.Impl = append(c.Impl, out)
			vC11Done(out)
		}
		// shutting down is watched too: a lock left behind shows here at the latest
		vC11Step(len(c.Ops))
	})
	vC11Step(-1)
}

// ---------- watchdog ----------
//
// A goroutine of the server that waits for a mutex is not "durably blocked" for testing/synctest:
// when the code under test leaves a lock behind, synctest.Wait() never returns and virtual time
// stands still.  The watchdog runs outside the bubbles on the real clock.  It declares the running
// step hung when nothing moved for a while and the same goroutine sits in a mutex wait in two
// stack dumps (or after a long time whatever the goroutines do), writes the case with
// `<status> hung@<where> …` for the step, and ends the process: the bubble cannot be left any more.

var vC11Prog struct {
	mu     sync.Mutex
	c      *vCase
	idx    int    // op being executed (-1: none)
	status string // HTTP status of the running request, when it came back
	phase  string
	beat   int64
	impl   []string
	onHang func(impl []string)
}

func vC11Step(idx int) {
	vC11Prog.mu.Lock()
	vC11Prog.idx = idx
	vC11Prog.status = ""
	vC11Prog.phase = "start"
	vC11Prog.beat++
	vC11Prog.mu.Unlock()
}

func vC11Beat(phase string) {
	vC11Prog.mu.Lock()
	vC11Prog.phase = phase
	vC11Prog.beat++
	vC11Prog.mu.Unlock()
}

func vC11Note(status string) {
	vC11Prog.mu.Lock()
	vC11Prog.status = status
	vC11Prog.beat++
	vC11Prog.mu.Unlock()
}

func vC11Done(out string) {
	vC11Prog.mu.Lock()
	vC11Prog.impl = append(vC11Prog.impl, out)
	vC11Prog.beat++
	vC11Prog.mu.Unlock()
}

var vC11MutexWait = regexp.MustCompile(`(?m)^goroutine (\d+) \[(sync\.(?:RW)?Mutex\.[A-Za-z]+|semacquire)[^\]]*\]:\n((?:.+\n)+)`)

// vC11MutexWaiters: goroutine id -> the first frames of the repository's own code, for every
// goroutine that waits for a mutex.
func vC11MutexWaiters() map[string]string {
	buf := make([]byte, 1<<22)
	buf = buf[:runtime.Stack(buf, true)]
	res := map[string]string{}
	for _, m := range vC11MutexWait.FindAllStringSubmatch(string(buf), -1) {
		var frames []string
		for _, line := range strings.Split(m[3], "\n") {
			if !strings.HasPrefix(line, "github.com/strukturag/nextcloud-spreed-signaling.") {
				continue
			}
			fn := strings.TrimPrefix(line, "github.com/strukturag/nextcloud-spreed-signaling.")
			if p := strings.LastIndex(fn, "("); p > 0 {
				fn = fn[:p]
			}
			fn = strings.NewReplacer("(*", "", ")", "").Replace(fn)
			if strings.HasPrefix(fn, "vC11") || strings.HasPrefix(fn, "TestVerif") {
				frames = append(frames, "harness")
				break
			}
			frames = append(frames, fn)
			if len(frames) == 3 {
				break
			}
		}
		if len(frames) > 0 {
			res[m[1]] = strings.Join(frames, "<")
		}
	}
	return res
}

func vC11Watchdog(stop chan struct{}) {
	quiet := 1500 * time.Millisecond
	hard := 10 * time.Second
	if s := os.Getenv("VERIF_C11_HANG_MS"); s != "" {
		if v, err := strconv.Atoi(s); err == nil && v > 0 {
			quiet = time.Duration(v) * time.Millisecond
		}
	}
	var lastBeat int64 = -1
	since := time.Now()
	var suspects map[string]string
	for {
		select {
		case <-stop:
			return
		case <-time.After(100 * time.Millisecond):
		}
		vC11Prog.mu.Lock()
		beat, idx := vC11Prog.beat, vC11Prog.idx
		vC11Prog.mu.Unlock()
		if beat != lastBeat || idx < 0 {
			lastBeat, since, suspects = beat, time.Now(), nil
			continue
		}
		idle := time.Since(since)
		if idle < quiet {
			continue
		}
		where := ""
		now := vC11MutexWaiters()
		if suspects != nil {
			var ids []string
			for id := range now {
				if _, was := suspects[id]; was && now[id] != "harness" {
					ids = append(ids, id)
				}
			}
			sort.Strings(ids)
			if len(ids) > 0 {
				var ws []string
				for _, id := range ids {
					ws = append(ws, now[id])
				}
				sort.Strings(ws)
				where = ws[0]
			}
		}
		suspects = now
		if where == "" && idle < hard {
			continue
		}
		if where == "" {
			where = "no-progress"
		}
		vC11Prog.mu.Lock()
		st, phase := vC11Prog.status, vC11Prog.phase
		impl := append([]string(nil), vC11Prog.impl...)
		onHang := vC11Prog.onHang
		vC11Prog.mu.Unlock()
		if st == "" {
			st = "neterr"
		}
		closing := false
		vC11Prog.mu.Lock()
		if vC11Prog.c != nil && idx >= len(vC11Prog.c.Ops) {
			closing = true
		}
		vC11Prog.mu.Unlock()
		if closing {
			// every op was answered, the server does not shut down: reported as a crash of the case
			vC11Prog.mu.Lock()
			vC11Prog.c.Crash = "server hangs at shutdown: " + where
			vC11Prog.mu.Unlock()
		} else {
			impl = append(impl, st+" hung@"+vEnc(where)+"/"+vEnc(phase)+" - -")
		}
		fmt.Fprintf(os.Stderr, "C11 harness: step %d hung (%s, phase %s); goroutines waiting for a mutex: %v\n", idx, where, phase, now)
		if onHang != nil {
			onHang(impl)
		}
		os.Exit(0)
	}
}

// ---------- generator ----------

// vJ is a JSON document under construction (objects keep member order and may repeat keys).
type vJ struct {
	k  byte // n t f # s a o
	s  string
	xs []*vJ
	ks []string
}

func jNull() *vJ { return &vJ{k: 'n'} }
func jBool(b bool) *vJ {
	if b {
		return &vJ{k: 't'}
	}
	return &vJ{k: 'f'}
}
func jNum(lit string) *vJ { return &vJ{k: '#', s: lit} }
func jStr(s string) *vJ   { return &vJ{k: 's', s: s} }
func jArr(xs ...*vJ) *vJ  { return &vJ{k: 'a', xs: xs} }
func jObj(kv ...interface{}) *vJ {
	o := &vJ{k: 'o'}
	for i := 0; i+1 < len(kv); i += 2 {
		o.ks = append(o.ks, kv[i].(string))
		o.xs = append(o.xs, kv[i+1].(*vJ))
	}
	return o
}
func jStrs(ss ...string) *vJ {
	a := &vJ{k: 'a'}
	for _, s := range ss {
		a.xs = append(a.xs, jStr(s))
	}
	return a
}

func (j *vJ) clone() *vJ {
	c := &vJ{k: j.k, s: j.s, ks: append([]string(nil), j.ks...)}
	for _, x := range j.xs {
		c.xs = append(c.xs, x.clone())
	}
	return c
}

func vJStr(sb *strings.Builder, s string) {
	sb.WriteByte('"')
	for _, r := range s {
		switch {
		case r == '"':
			sb.WriteString(`\"`)
		case r == '\\':
			sb.WriteString(`\\`)
		case r < 0x20:
			fmt.Fprintf(sb, `\u%04x`, r)
		default:
			sb.WriteRune(r)
		}
	}
	sb.WriteByte('"')
}

func (j *vJ) print(sb *strings.Builder) {
	switch j.k {
	case 'n':
		sb.WriteString("null")
	case 't':
		sb.WriteString("true")
	case 'f':
		sb.WriteString("false")
	case '#':
		sb.WriteString(j.s)
	case 's':
		vJStr(sb, j.s)
	case 'a':
		sb.WriteByte('[')
		for i, x := range j.xs {
			if i > 0 {
				sb.WriteByte(',')
			}
			x.print(sb)
		}
		sb.WriteByte(']')
	case 'o':
		sb.WriteByte('{')
		for i, x := range j.xs {
			if i > 0 {
				sb.WriteByte(',')
			}
			vJStr(sb, j.ks[i])
			sb.WriteByte(':')
			x.print(sb)
		}
		sb.WriteByte('}')
	}
}

func (j *vJ) String() string {
	var sb strings.Builder
	j.print(&sb)
	return sb.String()
}

var vC11Types = []string{"invite", "disinvite", "update", "delete", "incall", "participants", "message", "switchto", "dialout"}

func vC11SubName(typ string) string { return typ }

type vC11Gen struct {
	r    *vRand
	e    *vEnv
	n    int  // clients present
	huge bool // allow huge lists in this document
	// vocabulary of the world the case opens with (nil = the one-room world of `setup`)
	ids   []string // Nextcloud session ids worth naming: of members of any room, of sessions that left
	pubs  []string // placeholders of public session ids
	safeU []string // user ids without a session in any room (a disinvite of the others would race)
}

func (g *vC11Gen) rsid() string {
	if len(g.ids) == 0 {
		return "rs1"
	}
	return g.r.pick(g.ids)
}

func (g *vC11Gen) pub() string {
	if len(g.pubs) == 0 {
		return vC11Pc1
	}
	return g.r.pick(g.pubs)
}

func (g *vC11Gen) users(avoidU1 bool) *vJ {
	pool := []string{"u1", "u2", "u3", "", "u2", "u1"}
	a := jArr()
	k := g.r.intn(4)
	for i := 0; i < k; i++ {
		u := g.r.pick(pool)
		if avoidU1 && g.safeU != nil {
			u = g.r.pick(g.safeU)
		} else if avoidU1 && u == "u1" {
			u = "u3"
		}
		a.xs = append(a.xs, jStr(u))
	}
	return a
}

func (g *vC11Gen) props() *vJ {
	switch g.r.intn(8) {
	case 0:
		return jObj("a", jNum("1"))
	case 1:
		return jObj("a", jNum("2"))
	case 2:
		return jObj("initial", jBool(true))
	case 3:
		return jObj()
	case 4:
		return jStr("p")
	case 5:
		return jNum("7")
	case 6:
		return jObj("name", jStr("Room"), "type", jNum("3"), "nested", jObj("x", jArr(jNum("1"), jNull())))
	default:
		return jArr()
	}
}

func (g *vC11Gen) entry() *vJ {
	if g.r.chance(1, 12) {
		return jNull()
	}
	e := jObj()
	add := func(k string, v *vJ) { e.ks = append(e.ks, k); e.xs = append(e.xs, v) }
	switch g.r.intn(12) {
	case 0, 1, 2, 3, 4:
		add("sessionId", jStr(g.rsid()))
	case 5:
		add("sessionId", jStr("rsX"))
	case 6:
		add("sessionId", jStr("0"))
	case 7:
		add("sessionId", jNum("5"))
	case 8:
		add("sessionId", jObj("x", jNum("1")))
	case 9:
		add("sessionid", jStr("rs1"))
	case 10:
		add("sessionId", jStr(g.pub()))
	case 11:
	}
	switch g.r.intn(9) {
	case 0, 1:
		add("inCall", jNum("1"))
	case 2:
		add("inCall", jNum("0"))
	case 3:
		add("inCall", jNum("7"))
	case 4:
		add("inCall", jBool(true))
	case 5:
		add("inCall", jBool(false))
	case 6:
		add("inCall", jStr("1"))
	case 7:
		add("inCall", jNum("6"))
	case 8:
		add("inCall", jNull())
	}
	switch g.r.intn(8) {
	case 0:
		add("permissions", jStrs("publish-media", "publish-audio"))
	case 1:
		add("permissions", jArr(jNum("1")))
	case 2:
		add("permissions", jStr("x"))
	case 3:
		add("permissions", jArr())
	case 4:
		// JSON null decodes to an untyped nil interface: the class "absent value where a typed one is expected"
		add("permissions", jNull())
	case 5:
		add("permissions", jArr(jNull()))
	case 6:
		add("permissions", jArr(jStr("publish-media"), jNull()))
	}
	switch g.r.intn(6) {
	case 0:
		add("userId", jStr("u1"))
	case 1:
		add("userId", jStr(""))
	case 2:
		add("userId", jNum("3"))
	case 3:
		add("userId", jNull())
	}
	if g.r.chance(1, 6) {
		add("extra", jObj("deep", jArr(jObj("x", jNull()))))
	}
	return e
}

func (g *vC11Gen) entries() *vJ {
	a := jArr()
	k := g.r.intn(4)
	for i := 0; i < k; i++ {
		a.xs = append(a.xs, g.entry())
	}
	return a
}

// template builds a well-formed request of the given type.
func (g *vC11Gen) template(typ string) *vJ {
	r := g.r
	switch typ {
	case "invite":
		return jObj("type", jStr(typ), "invite", jObj("userids", g.users(false), "alluserids", g.users(false), "properties", g.props()))
	case "disinvite":
		if r.chance(1, 2) && g.safeU == nil {
			// by user id
			return jObj("type", jStr(typ), "disinvite", jObj("userids", g.users(false), "sessionids", jStrs("rsX", "0"),
				"alluserids", g.users(false), "properties", g.props()))
		}
		// by Nextcloud session id (user-addressed parts avoid u1: the two paths to c1 would race)
		return jObj("type", jStr(typ), "disinvite", jObj("userids", g.users(true), "sessionids", jStrs(r.pick([]string{g.rsid(), g.rsid(), "rsX"}), "0"),
			"alluserids", g.users(true), "properties", g.props()))
	case "update":
		return jObj("type", jStr(typ), "update", jObj("userids", g.users(false), "properties", g.props()))
	case "delete":
		// u1 is not addressed: the disinvite would race with the room being closed
		return jObj("type", jStr(typ), "delete", jObj("userids", g.users(true)))
	case "incall":
		if r.chance(1, 2) {
			v := []*vJ{jNum("1"), jNum("0"), jNum("3"), jNum("7"), jBool(true), jBool(false), jStr("x"), jNum("1.5"), jNum("2")}[r.intn(9)]
			o := jObj("incall", v, "all", jBool(true))
			if r.chance(1, 3) {
				o.ks = append(o.ks, "users")
				o.xs = append(o.xs, g.entries())
			}
			return jObj("type", jStr(typ), "incall", o)
		}
		return jObj("type", jStr(typ), "incall", jObj("incall", jNum("1"), "changed", g.entries(), "users", g.entries()))
	case "participants":
		return jObj("type", jStr(typ), "participants", jObj("changed", g.entries(), "users", g.entries()))
	case "message":
		d := []*vJ{jObj("type", jStr("chat"), "chat", jObj("refresh", jBool(true))), jStr("text"), jNum("1"), jArr(), jObj()}[r.intn(5)]
		return jObj("type", jStr(typ), "message", jObj("data", d))
	case "switchto":
		var sess *vJ
		switch r.intn(12) {
		case 0, 1, 2:
			sess = jStrs(g.rsid())
		case 3:
			sess = jStrs("rsX", "0", g.rsid())
		case 4:
			sess = jObj(g.rsid(), jObj("x", jNum("1")), "rsX", jNull())
		case 5:
			sess = jObj(g.rsid(), jNull())
		case 6:
			sess = jArr()
		case 7:
			sess = jObj()
		case 8:
			sess = jStr("x")
		case 9:
			sess = jArr(jNum("1"))
		case 10:
			sess = jArr(jNull(), jStr("rs1"))
		case 11:
			sess = nil
		}
		o := jObj("roomid", jStr("200"))
		if sess != nil {
			o.ks = append(o.ks, "sessions")
			o.xs = append(o.xs, sess)
		}
		if r.chance(1, 4) {
			o.ks = append(o.ks, "sessionslist")
			o.xs = append(o.xs, jStrs(g.pub(), "zz", ""))
		}
		if r.chance(1, 5) {
			o.ks = append(o.ks, "sessionsmap")
			o.xs = append(o.xs, jObj(g.pub(), jObj("d", jNum("1")), "a b", jNull()))
		}
		return jObj("type", jStr(typ), "switchto", o)
	case "dialout":
		n := []string{"+491234", "+4912345678", "+1", "12345", "", "+12a4", "+49 123", "+٤٩١٢٣"}[r.intn(8)]
		if r.chance(1, 2) {
			n = "+491234"
		}
		return jObj("type", jStr(typ), "dialout", jObj("number", jStr(n), "options", jObj("x", jNum("1"))))
	case "transient":
		return jObj("type", jStr(typ), "transient", jObj("action", jStr("set"), "key", jStr("k"), "value", jNum("1"), "ttl", jNum("5")))
	}
	return jObj("type", jStr(typ))
}

func (g *vC11Gen) wrongPool() []*vJ {
	return []*vJ{jNum("5"), jStr("str"), jBool(true), jBool(false), jArr(), jObj(), jArr(jNum("1")), jObj("x", jObj()),
		jNum("1.5"), jNum("-1"), jNull(), jArr(jNull()), jStr(""), jArr(jArr(jArr())), jNum("12345678901234567890")}
}

func (g *vC11Gen) wrong() *vJ {
	pool := g.wrongPool()
	return pool[g.r.intn(len(pool))].clone()
}

// objects lists every object node of the document (pre-order).
func (j *vJ) objects(acc *[]*vJ) {
	if j.k == 'o' {
		*acc = append(*acc, j)
	}
	for _, x := range j.xs {
		x.objects(acc)
	}
}

// mutate applies one structural mutation somewhere in the document.
func (g *vC11Gen) mutate(doc *vJ) string {
	r := g.r
	var objs []*vJ
	doc.objects(&objs)
	if len(objs) == 0 {
		return "none"
	}
	// prefer the top-level object and the sub-object
	o := objs[0]
	if len(objs) > 1 {
		switch r.intn(4) {
		case 0:
		case 1, 2:
			o = objs[1]
		default:
			o = objs[r.intn(len(objs))]
		}
	}
	if len(o.ks) == 0 {
		o.ks = append(o.ks, "unknown")
		o.xs = append(o.xs, g.wrong())
		return "add-unknown"
	}
	i := r.intn(len(o.ks))
	switch r.intn(11) {
	case 0, 1:
		o.ks = append(o.ks[:i], o.ks[i+1:]...)
		o.xs = append(o.xs[:i], o.xs[i+1:]...)
		return "drop-member"
	case 2, 3:
		o.xs[i] = jNull()
		return "null-member"
	case 4, 5, 6:
		o.xs[i] = g.wrong()
		return "wrong-type"
	case 7:
		if o.xs[i].k == 'a' {
			o.xs[i] = jArr()
		} else {
			o.xs[i] = jObj()
		}
		return "empty"
	case 8:
		o.ks = append(o.ks, o.ks[i])
		if r.chance(1, 2) {
			o.xs = append(o.xs, g.wrong())
		} else {
			o.xs = append(o.xs, o.xs[i].clone())
		}
		return "duplicate"
	case 9:
		o.ks = append(o.ks, r.pick([]string{"unknown", "Type", "INVITE", "received", "room", ""}))
		o.xs = append(o.xs, g.wrong())
		return "add-unknown"
	default:
		if o.xs[i].k == 'a' && g.huge {
			n := g.e.scale(3000, 12000)
			el := jStr("u9")
			// (not a placeholder: its substitution would change the body length)
			if len(o.xs[i].xs) > 0 && !strings.Contains(o.xs[i].xs[0].String(), "@") {
				el = o.xs[i].xs[0]
			}
			big := jArr()
			for k := 0; k < n; k++ {
				big.xs = append(big.xs, el)
			}
			o.xs[i] = big
			return "huge-list"
		}
		if o.ks[i] == "" {
			o.ks[i] = "x"
		} else {
			o.ks[i] = strings.ToUpper(o.ks[i][:1]) + o.ks[i][1:]
		}
		return "rename"
	}
}

func (g *vC11Gen) document() (string, string) {
	r := g.r
	switch r.intn(40) {
	case 0:
		return []string{"null", "[]", `"invite"`, "5", "{}", "true", `[{"type":"invite"}]`}[r.intn(7)], "toplevel"
	case 1:
		// unknown / odd types
		t := []*vJ{jStr(""), jStr("foo"), jStr("Invite"), jStr("invite "), jStr(strings.Repeat("x", 5000)), jNum("5"), jNull(), jArr(), jObj(), jBool(true)}[r.intn(10)]
		d := g.template(r.pick(vC11Types))
		d.xs[0] = t
		return d.String(), "odd-type"
	case 2:
		return g.template("transient").String(), "transient"
	case 3:
		// the sub-object of another type
		d := g.template(r.pick(vC11Types))
		d.xs[0] = jStr(r.pick(vC11Types))
		return d.String(), "swapped-type"
	case 4:
		// type only
		return jObj("type", jStr(r.pick(vC11Types))).String(), "type-only"
	case 5:
		// sub-object null
		t := r.pick(vC11Types)
		return jObj("type", jStr(t), t, jNull()).String(), "sub-null"
	}
	d := g.template(r.pick(vC11Types))
	tag := "valid"
	k := []int{0, 0, 1, 1, 1, 2}[r.intn(6)]
	for i := 0; i < k; i++ {
		tag = g.mutate(d)
	}
	return d.String(), tag
}

func (g *vC11Gen) rawBytes() string {
	r := g.r
	doc, _ := g.document()
	switch r.intn(10) {
	case 0:
		return ""
	case 1, 2, 3:
		if len(doc) > 2 {
			return doc[:1+r.intn(len(doc)-2)] // truncated, never complete
		}
		return "{"
	case 4:
		return doc + "x"
	case 5:
		return "{'type':'invite'}"
	case 6:
		return "\xff\xfe{}"
	case 7:
		return `{"type":"invite"`
	case 8:
		return `{"type":"invite","invite":{"userids":["u1",]}}`
	default:
		b := make([]byte, 1+r.intn(40))
		for i := range b {
			b[i] = byte(r.intn(256))
		}
		b[0] = '}' // never the start of a JSON value
		return string(b)
	}
}

// vC11Opening: a scripted way into a world with more than the one room of `setup`.
type vC11Opening struct {
	name     string
	setup    string   // "<n> <room>" of the setup op
	ops      []string // world ops after it
	rooms    []string // rooms that exist afterwards
	ids      []string // Nextcloud session ids of members (of any room)
	stale    []string // session ids that were valid once
	pubs     []string // placeholders of sessions that exist
	internal bool
}

func vC11Openings() []vC11Opening {
	return []vC11Opening{
		{name: "two-rooms", setup: "1 100", ops: []string{"join 2 200 rs2"},
			rooms: []string{"100", "200"}, ids: []string{"rs1", "rs2"}, pubs: []string{"@c1@", "@c2@"}},
		{name: "three-clients", setup: "1 100", ops: []string{"join 2 200 rs2", "conn 3 u3", "join 3 100 rs3"},
			rooms: []string{"100", "200"}, ids: []string{"rs1", "rs2", "rs3"}, pubs: []string{"@c1@", "@c2@", "@c3@"}},
		{name: "left", setup: "1 100", ops: []string{"join 2 100 rs2", "leave 2"},
			rooms: []string{"100"}, ids: []string{"rs1"}, stale: []string{"rs2"}, pubs: []string{"@c1@", "@c2@"}},
		{name: "moved", setup: "1 100", ops: []string{"join 2 100 rs2", "join 2 200 rs2b"},
			rooms: []string{"100", "200"}, ids: []string{"rs1", "rs2b"}, stale: []string{"rs2"}, pubs: []string{"@c1@", "@c2@"}},
		{name: "bye", setup: "1 100", ops: []string{"conn 3 u1", "join 3 200 rs3", "join 2 200 rs2", "bye 3"},
			rooms: []string{"100", "200"}, ids: []string{"rs1", "rs2"}, stale: []string{"rs3"}, pubs: []string{"@c1@", "@c2@", "@c3@"}},
		{name: "room-gone", setup: "1 100", ops: []string{"join 2 200 rs2", "leave 2"},
			rooms: []string{"100"}, ids: []string{"rs1"}, stale: []string{"rs2"}, pubs: []string{"@c1@", "@c2@"}},
		{name: "same-user", setup: "1 100", ops: []string{"conn 3 u1", "join 3 200 rs3"},
			rooms: []string{"100", "200"}, ids: []string{"rs1", "rs3"}, pubs: []string{"@c1@", "@c3@"}},
		{name: "one-room-three", setup: "1 100", ops: []string{"join 2 100 rs2", "conn 3 u3", "join 3 100 rs3"},
			rooms: []string{"100"}, ids: []string{"rs1", "rs2", "rs3"}, pubs: []string{"@c1@", "@c2@", "@c3@"}},
		{name: "internal", setup: "1 100", ops: []string{"join 2 200 rs2", "iconn", "ijoin 100 rsi", "virt 1 100 1"},
			rooms: []string{"100", "200"}, ids: []string{"rs1", "rs2", "rsi", "@v1@"}, pubs: []string{"@c1@", "@c2@", "@ci@", "@v1@"}, internal: true},
		{name: "internal-other", setup: "1 100", ops: []string{"join 2 200 rs2", "iconn", "ijoin 200 rsi", "virt 1 200 0", "virt 2 100 1"},
			rooms: []string{"100", "200"}, ids: []string{"rs1", "rs2", "rsi", "@v1@", "@v2@"}, pubs: []string{"@c1@", "@c2@", "@ci@", "@v1@", "@v2@"}, internal: true},
		{name: "virtual-removed", setup: "1 100", ops: []string{"iconn", "ijoin 100 rsi", "virt 1 100 1", "virt 2 100 0", "vrem 1", "join 2 200 rs2"},
			rooms: []string{"100", "200"}, ids: []string{"rs1", "rs2", "rsi", "@v2@"}, stale: []string{"@v1@"}, pubs: []string{"@c1@", "@ci@", "@v1@", "@v2@"}, internal: true},
		{name: "from-nothing", setup: "0 100", ops: []string{"conn 1 u1", "conn 4 u4", "join 4 200 rs4", "join 1 room-a rs1"},
			rooms: []string{"200", "room-a"}, ids: []string{"rs1", "rs4"}, pubs: []string{"@c1@", "@c4@"}},
	}
}

func vC11GenCases(e *vEnv, r *vRand) []vCase {
	// newVRand(seed+1) is newVRand(seed) shifted by one draw: decorrelate the seeds first
	r = newVRand(r.u64() ^ (e.seed+1)*0xD1B54A32D192ED03)
	var cases []vCase
	n := e.scale(450, 15000)
	dials := []string{"none", "none", "none", "none", "accept", "error", "ringing", "badtype", "silent", "accept"}
	for i := 0; i < n; i++ {
		rr := r.fork()
		g := &vC11Gen{r: rr, e: e}
		g.n = 1
		if rr.chance(1, 4) {
			g.n = 0
		}
		g.huge = rr.chance(1, 25)
		room := "100"
		if rr.chance(1, 8) {
			room = "room-a"
		}
		dial := dials[rr.intn(len(dials))]
		ops := []string{fmt.Sprintf("setup %d %s %s", g.n, vEnc(room), dial)}
		var tags []string
		k := []int{1, 1, 1, 2, 3}[rr.intn(5)]
		for j := 0; j < k; j++ {
			target := room
			if rr.chance(1, 6) {
				target = "200"
			}
			if rr.chance(1, 12) {
				ops = append(ops, fmt.Sprintf("raw %s %s", vEnc(target), vEnc(g.rawBytes())))
				tags = append(tags, "raw")
				continue
			}
			doc, tag := g.document()
			if j < k-1 && rr.chance(1, 2) {
				// warm-up: a well-formed request that changes the state the next one meets
				doc = g.template(rr.pick([]string{"incall", "update", "participants", "message", "invite"})).String()
				tag = "warmup"
			}
			ops = append(ops, fmt.Sprintf("req %s %s", vEnc(target), vEnc(doc)))
			tags = append(tags, tag)
		}
		cases = append(cases, vCase{Ops: ops, Tags: tags})
	}
	// worlds with several rooms: scripted openings, then requests whose vocabulary are the sessions of
	// that world -- members of the target room, members of OTHER rooms of the same backend, sessions
	// that left or said bye, an internal client and its virtual sessions -- sent to rooms that exist
	// and to one that does not
	{
		n2 := e.scale(260, 6000)
		ops := vC11Openings()
		for i := 0; i < n2; i++ {
			rr := r.fork()
			o := ops[rr.intn(len(ops))]
			g := &vC11Gen{r: rr, e: e, n: 1, ids: append(append([]string{}, o.ids...), o.stale...), pubs: o.pubs, safeU: []string{"u9", "", "u8"}}
			dial := "none"
			if !o.internal && rr.chance(1, 5) {
				dial = rr.pick([]string{"accept", "error", "silent"})
			}
			cops := append([]string{"setup " + o.setup + " " + dial}, o.ops...)
			tags := []string{"world:" + o.name}
			k := 1 + rr.intn(4)
			for j := 0; j < k; j++ {
				target := rr.pick(append(append([]string{}, o.rooms...), o.rooms[0], "300"))
				var doc string
				if rr.chance(2, 3) {
					typ := rr.pick([]string{"incall", "incall", "participants", "switchto", "disinvite", "update", "message", "delete", "invite"})
					d := g.template(typ)
					if rr.chance(1, 4) {
						g.mutate(d)
					}
					doc = d.String()
				} else {
					doc, _ = g.document()
				}
				cops = append(cops, fmt.Sprintf("req %s %s", vEnc(target), vEnc(doc)))
			}
			cases = append(cases, vCase{Ops: cops, Tags: tags})
		}
		// systematic: every opening x every room (and an absent one) x every session id of that world x
		// the request types that resolve session ids
		for _, o := range ops {
			for _, target := range append(append([]string{}, o.rooms...), "300") {
				for _, id := range append(append([]string{}, o.ids...), o.stale...) {
					one := func(v string) *vJ { return jArr(jObj("sessionId", jStr(id), "inCall", jNum(v))) }
					docs := []*vJ{
						jObj("type", jStr("incall"), "incall", jObj("incall", jNum("1"), "changed", one("1"), "users", one("1"))),
						jObj("type", jStr("incall"), "incall", jObj("incall", jNum("0"), "changed", one("0"), "users", jArr())),
						jObj("type", jStr("participants"), "participants", jObj("changed",
							jArr(jObj("sessionId", jStr(id), "permissions", jStrs("publish-media"))), "users", jArr(jObj("sessionId", jStr(id))))),
						jObj("type", jStr("switchto"), "switchto", jObj("roomid", jStr("400"), "sessions", jStrs(id))),
						jObj("type", jStr("incall"), "incall", jObj("incall", jNum("1"), "all", jBool(true))),
						jObj("type", jStr("incall"), "incall", jObj("incall", jNum("0"), "all", jBool(true))),
						jObj("type", jStr("disinvite"), "disinvite", jObj("sessionids", jStrs(id))),
						jObj("type", jStr("message"), "message", jObj("data", jObj("after", jStr(id)))),
					}
					cops := append([]string{"setup " + o.setup + " none"}, o.ops...)
					for _, d := range docs {
						cops = append(cops, fmt.Sprintf("req %s %s", vEnc(target), vEnc(d.String())))
					}
					cases = append(cases, vCase{Ops: cops, Tags: []string{"world:" + o.name, "foreign-systematic"}})
				}
			}
			// public ids named directly (switchto's internal members), a room deleted with everybody inside
			for _, target := range o.rooms {
				cops := append([]string{"setup " + o.setup + " none"}, o.ops...)
				cops = append(cops,
					fmt.Sprintf("req %s %s", vEnc(target), vEnc(jObj("type", jStr("switchto"), "switchto", jObj("roomid", jStr("400"), "sessionslist", jStrs(o.pubs...))).String())),
					fmt.Sprintf("req %s %s", vEnc(target), vEnc(jObj("type", jStr("update"), "update", jObj("properties", jObj("n", jNum("1")))).String())),
					fmt.Sprintf("req %s %s", vEnc(target), vEnc(jObj("type", jStr("delete"), "delete", jObj("userids", jStrs("u9"))).String())),
					fmt.Sprintf("req %s %s", vEnc(target), vEnc(jObj("type", jStr("message"), "message", jObj("data", jStr("after-delete"))).String())))
				cases = append(cases, vCase{Ops: cops, Tags: []string{"world:" + o.name, "room-systematic"}})
			}
		}
	}
	// systematic block: every type x every member of the request and of its sub-object x
	// {dropped, null, each wrong-typed value, emptied}; four requests per case
	{
		g := &vC11Gen{r: r.fork(), e: e, n: 1}
		var docs []string
		for _, typ := range append(append([]string(nil), vC11Types...), "transient") {
			base := g.template(typ)
			var objs []*vJ
			base.objects(&objs)
			for oi := range objs {
				if oi > 1 && !e.thorough() {
					break // quick tier: the request object and its sub-object only
				}
				for mi := range objs[oi].ks {
					variants := []*vJ{nil, jNull(), jArr(), jObj()}
					variants = append(variants, g.wrongPool()...)
					for _, v := range variants {
						d := base.clone()
						var os []*vJ
						d.objects(&os)
						o := os[oi]
						if v == nil {
							o.ks = append(o.ks[:mi], o.ks[mi+1:]...)
							o.xs = append(o.xs[:mi], o.xs[mi+1:]...)
						} else {
							o.xs[mi] = v.clone()
						}
						docs = append(docs, d.String())
					}
				}
			}
		}
		setups := []string{"setup 1 100 none"}
		if e.thorough() {
			setups = append(setups, "setup 0 100 none", "setup 1 100 accept")
		}
		for _, su := range setups {
			for i := 0; i < len(docs); i += 4 {
				ops := []string{su}
				for j := i; j < i+4 && j < len(docs); j++ {
					ops = append(ops, "req 100 "+vEnc(docs[j]))
				}
				cases = append(cases, vCase{Ops: ops, Tags: []string{"systematic"}})
			}
		}
	}
	// deep nesting in a raw member and in an unknown member
	{
		deep := strings.Repeat("[", 300) + strings.Repeat("]", 300)
		cases = append(cases, vCase{Ops: []string{"setup 1 100 none",
			"req 100 " + vEnc(`{"type":"message","message":{"data":`+deep+`}}`),
			"req 100 " + vEnc(`{"type":"invite","invite":{"userids":["u1"]},"zzz":`+deep+`}`),
			"req 100 " + vEnc(`{"type":"participants","participants":{"users":[{"sessionId":"rs1","x":`+deep+`}]}}`)},
			Tags: []string{"deep"}})
	}
	// one over-long body per run
	{
		big := jArr()
		for k := 0; k < 40000; k++ {
			big.xs = append(big.xs, jStr("u9"))
		}
		doc := jObj("type", jStr("invite"), "invite", jObj("userids", big)).String()
		cases = append(cases, vCase{Ops: []string{"setup 1 100 none", "req 100 " + vEnc(doc)}, Tags: []string{"oversize"}})
	}
	return cases
}

// ---------- runner ----------

// vC11Run is vRun with one difference: the op list of a case is written to
// VERIF_OUT (and flushed) *before* the case is executed and replaced by the
// complete line afterwards.  When a server goroutine panics the process dies and
// the last line of the file names the case that killed it.
func vC11Run(t *testing.T, gen func(e *vEnv, r *vRand) []vCase, exec func(t *testing.T, c *vCase)) {
	e := verifEnv(t)
	var cases []vCase
	if e.replay != "" {
		f, err := os.Open(e.replay)
		if err != nil {
			t.Fatal(err)
		}
		sc := bufio.NewScanner(f)
		sc.Buffer(make([]byte, 1<<20), 1<<28)
		for sc.Scan() {
			line := strings.TrimSpace(sc.Text())
			if line == "" {
				continue
			}
			var c vCase
			if err := json.Unmarshal([]byte(line), &c); err != nil {
				t.Fatalf("replay file: %v", err)
			}
			c.Impl = nil
			c.Crash = ""
			cases = append(cases, c)
		}
		f.Close()
	} else {
		cases = gen(e, newVRand(e.seed))
	}
	out, err := os.Create(e.out)
	if err != nil {
		t.Fatal(err)
	}
	defer out.Close()
	var pos int64
	write := func(c *vCase, final bool) {
		data, err := json.Marshal(c)
		if err != nil {
			t.Fatal(err)
		}
		data = append(data, '\n')
		if _, err := out.WriteAt(data, pos); err != nil {
			t.Fatal(err)
		}
		if err := out.Truncate(pos + int64(len(data))); err != nil {
			t.Fatal(err)
		}
		if final {
			pos += int64(len(data))
		}
	}
	stop := make(chan struct{})
	defer close(stop)
	go vC11Watchdog(stop)
	for i := range cases {
		c := &cases[i]
		started := vCase{Ops: c.Ops, Tags: append(append([]string(nil), c.Tags...), "started")}
		write(&started, false)
		vC11Prog.mu.Lock()
		vC11Prog.c, vC11Prog.idx, vC11Prog.impl = c, -1, nil
		vC11Prog.onHang = func(impl []string) {
			// called by the watchdog while this goroutine is stuck inside the bubble
			h := vCase{Ops: c.Ops, Impl: impl, Crash: c.Crash, Tags: append(append([]string(nil), c.Tags...), "hung")}
			for len(h.Impl) < len(h.Ops) {
				h.Impl = append(h.Impl, "unreached")
			}
			write(&h, true)
			out.Sync() // nolint
		}
		vC11Prog.mu.Unlock()
		func() {
			defer func() {
				if r := recover(); r != nil {
					c.Crash = fmt.Sprint(r)
					// a handler that never answered is still blocked when the bubble is left: the missing
					// reply is in the step's output already, and that is the finding
					if strings.HasPrefix(c.Crash, "deadlock: main bubble goroutine has exited") && len(c.Impl) == len(c.Ops) {
						for _, l := range c.Impl {
							if strings.HasPrefix(l, "neterr ") {
								c.Crash = ""
								c.Tags = append(c.Tags, "goroutines-left-blocked")
								break
							}
						}
					}
				}
			}()
			exec(t, c)
		}()
		write(c, true)
	}
}

func TestVerifC11(t *testing.T) {
	log.SetOutput(io.Discard)
	vC11Run(t, vC11GenCases, vC11Exec)
}
