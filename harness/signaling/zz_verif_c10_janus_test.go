package signaling

// C10 harness, part 3: the real Janus client (mcu_janus*.go, janus_client.go)
// behind the hub, against an in-process stand-in for the Janus gateway
// (`world mcu=2`).  With the repository's TestMCU (`mcu=1`) a media message ends
// at the hub; here its payload - a map decoded from the client's bytes - goes
// all the way through publisher / subscriber `SendMessage`, the stream
// selection, `sendOffer` / `sendAnswer` / `sendCandidate` and the request
// serialisation, in the goroutines of the real code (a panic there is not
// recovered by anybody and ends the process).
//
// The stand-in answers every request at once and never interprets what the
// client sent beyond "is there a jsep": creating rooms, joining as publisher /
// subscriber, configure, start, trickle, detach, destroy.

import (
	"context"
	"fmt"
	"strconv"
	"sync"
	"sync/atomic"
	"time"

	"github.com/dlintw/goconf"
	"github.com/notedit/janus-go"
)

const vC10McuTimeout = 20 * time.Millisecond

type vC10Janus struct {
	mu       sync.Mutex
	sid      atomic.Uint64
	tid      atomic.Uint64
	hid      atomic.Uint64
	rid      atomic.Uint64
	requests atomic.Int64 // "message" requests seen (for the harness' own sanity checks)
	selected atomic.Int64 // configure / join requests that carried a stream selection

	sessions     map[uint64]*JanusSession
	transactions map[uint64]*transaction
	rooms        map[uint64]bool
}

func vC10NewJanus() *vC10Janus {
	return &vC10Janus{sessions: map[uint64]*JanusSession{}, transactions: map[uint64]*transaction{}, rooms: map[uint64]bool{}}
}

func (g *vC10Janus) Info(ctx context.Context) (*InfoMsg, error) {
	return &InfoMsg{
		Name:          "VerifJanus",
		Version:       1400,
		VersionString: "1.4.0",
		DataChannels:  true,
		FullTrickle:   true,
		Plugins:       map[string]janus.PluginInfo{pluginVideoRoom: {Name: "videoroom", VersionString: "0"}},
	}, nil
}

func (g *vC10Janus) Create(ctx context.Context) (*JanusSession, error) {
	s := &JanusSession{Id: g.sid.Add(1), Handles: make(map[uint64]*JanusHandle), gateway: g}
	g.mu.Lock()
	g.sessions[s.Id] = s
	g.mu.Unlock()
	return s, nil
}

func (g *vC10Janus) Close() error { return nil }

func (g *vC10Janus) removeTransaction(id uint64) {
	g.mu.Lock()
	t := g.transactions[id]
	delete(g.transactions, id)
	g.mu.Unlock()
	if t != nil {
		t.quit()
	}
}

func (g *vC10Janus) removeSession(s *JanusSession) {
	g.mu.Lock()
	delete(g.sessions, s.Id)
	g.mu.Unlock()
}

func vC10AsUint(v interface{}) uint64 {
	switch x := v.(type) {
	case uint64:
		return x
	case int:
		return uint64(x)
	case int64:
		return uint64(x)
	case float64:
		return uint64(x)
	}
	return 0
}

func (g *vC10Janus) plugin(data map[string]interface{}) janus.PluginData {
	return janus.PluginData{Plugin: pluginVideoRoom, Data: data}
}

func (g *vC10Janus) answer(msg map[string]interface{}) interface{} {
	sess, _ := msg["session_id"].(uint64)
	handle, _ := msg["handle_id"].(uint64)
	switch msg["janus"] {
	case "attach":
		return &janus.SuccessMsg{Data: janus.SuccessData{ID: g.hid.Add(1)}}
	case "message":
	default:
		// detach, destroy, keepalive, trickle, ...
		return &janus.AckMsg{}
	}
	g.requests.Add(1)
	body, _ := msg["body"].(map[string]interface{})
	jsep, _ := msg["jsep"].(map[string]interface{})
	for _, k := range []string{"substream", "temporal", "audio", "video"} {
		if _, found := body[k]; found && (body["request"] == "join" || body["update"] == true || body["request"] == "configure" && jsep == nil) {
			g.selected.Add(1)
			break
		}
	}
	room := vC10AsUint(body["room"])
	event := func(data map[string]interface{}, jsep map[string]interface{}) interface{} {
		return &janus.EventMsg{Session: sess, Handle: handle, Plugindata: g.plugin(data), Jsep: jsep}
	}
	noRoom := func() interface{} {
		return event(map[string]interface{}{"videoroom": "event", "error_code": JANUS_VIDEOROOM_ERROR_NO_SUCH_ROOM, "error": "no such room"}, nil)
	}
	switch body["request"] {
	case "create":
		id := g.rid.Add(1)
		g.mu.Lock()
		g.rooms[id] = true
		g.mu.Unlock()
		return &janus.SuccessMsg{PluginData: g.plugin(map[string]interface{}{"videoroom": "created", "room": id})}
	case "destroy":
		g.mu.Lock()
		delete(g.rooms, room)
		g.mu.Unlock()
		return &janus.SuccessMsg{PluginData: g.plugin(map[string]interface{}{"videoroom": "destroyed"})}
	case "join":
		g.mu.Lock()
		known := g.rooms[room]
		g.mu.Unlock()
		if !known {
			return noRoom()
		}
		if body["ptype"] == "subscriber" {
			return event(map[string]interface{}{"videoroom": "attached", "room": room},
				map[string]interface{}{"type": "offer", "sdp": MockSdpOfferAudioAndVideo})
		}
		return event(map[string]interface{}{"videoroom": "joined", "room": room}, nil)
	case "configure":
		switch {
		case jsep != nil:
			// the offer of a publisher (whatever the client put into it)
			return event(map[string]interface{}{"videoroom": "event", "configured": "ok"},
				map[string]interface{}{"type": "answer", "sdp": MockSdpAnswerAudioAndVideo})
		case body["update"] == true:
			return event(map[string]interface{}{"videoroom": "event", "configured": "ok"},
				map[string]interface{}{"type": "offer", "sdp": MockSdpOfferAudioAndVideo})
		}
		return event(map[string]interface{}{"videoroom": "event", "configured": "ok"}, nil)
	case "start":
		return event(map[string]interface{}{"videoroom": "event", "started": "ok"}, nil)
	}
	return event(map[string]interface{}{"videoroom": "event"}, nil)
}

func (g *vC10Janus) send(msg map[string]interface{}, t *transaction) (uint64, error) {
	id := g.tid.Add(1)
	go t.run()
	g.mu.Lock()
	g.transactions[id] = t
	g.mu.Unlock()
	// the real gateway serialises the request here; a value that cannot be serialised is an
	// error of the request, not of the process
	reply := g.answer(msg)
	go t.add(reply)
	return id, nil
}

// vC10NewJanusMcu starts the real Janus MCU client on the stand-in gateway.
func vC10NewJanusMcu() (Mcu, *vC10Janus, error) {
	gw := vC10NewJanus()
	mcu, err := NewMcuJanus(context.Background(), "", goconf.NewConfigFile())
	if err != nil {
		return nil, nil, err
	}
	mj, ok := mcu.(*mcuJanus)
	if !ok {
		return nil, nil, fmt.Errorf("NewMcuJanus returned %T", mcu)
	}
	mj.createJanusGateway = func(ctx context.Context, wsURL string, listener GatewayListener) (JanusGatewayInterface, error) {
		return gw, nil
	}
	if err := mcu.Start(context.Background()); err != nil {
		return nil, nil, err
	}
	return mcu, gw, nil
}

// ---------- media conversations ----------

// vC10MediaMember is a payload member the media code reads: mostly the value a
// client would send, sometimes one of another JSON type.
func vC10MediaMember(r *vRand, good ...string) *vJ {
	if r.chance(1, 3) {
		return vC10Hostile(r)
	}
	return jL(r.pick(good))
}

// vC10MediaData builds the `data` of a message for the media server: every
// type the hub hands to a publisher / subscriber, with the payload members
// those read (stream selection, jsep, candidate).
func vC10MediaData(r *vRand) *vJ {
	typ := r.pick([]string{"requestoffer", "requestoffer", "requestoffer", "sendoffer", "selectStream", "selectStream", "offer",
		"answer", "candidate", "endOfCandidates"})
	roomType := r.pick([]string{"video", "video", "video", "video", "screen"})
	doc := jO("type", typ, "roomType", roomType)
	if r.chance(1, 3) {
		doc.kv = append(doc.kv, vJKV{"sid", jV(r.pick([]string{"", "abc", "1", "2", "3"}))})
	}
	if r.chance(1, 6) {
		doc.kv = append(doc.kv, vJKV{"bitrate", vC10MediaMember(r, "0", "1000000", "-1")})
	}
	var payload *vJ
	switch typ {
	case "requestoffer", "sendoffer", "selectStream":
		payload = jO()
		if r.chance(1, 2) {
			payload.kv = append(payload.kv, vJKV{"substream", vC10MediaMember(r, "0", "1", "2")})
		}
		if r.chance(1, 2) {
			payload.kv = append(payload.kv, vJKV{"temporal", vC10MediaMember(r, "0", "1", "2")})
		}
		if r.chance(1, 3) {
			payload.kv = append(payload.kv, vJKV{"audio", vC10MediaMember(r, "true", "false")})
		}
		if r.chance(1, 3) {
			payload.kv = append(payload.kv, vJKV{"video", vC10MediaMember(r, "true", "false")})
		}
	case "offer", "answer":
		sdp := MockSdpOfferAudioAndVideo
		if typ == "answer" {
			sdp = MockSdpAnswerAudioAndVideo
		}
		payload = jO("type", vC10MediaMember(r, `"`+typ+`"`), "sdp", sdp)
		if r.chance(1, 4) {
			payload.kv = append(payload.kv, vJKV{r.pick([]string{"trickle", "e2ee", "sdp_mid"}), vC10Hostile(r)})
		}
	case "candidate":
		payload = jO("candidate", r.pickJ([]*vJ{
			jO("candidate", "candidate:1 1 UDP 1 127.0.0.1 9 typ host", "sdpMid", "0", "sdpMLineIndex", vC10MediaMember(r, "0", "1")),
			jO("completed", vC10MediaMember(r, "true")), vC10Hostile(r)}))
	}
	if payload != nil && !r.chance(1, 10) {
		doc.kv = append(doc.kv, vJKV{"payload", payload})
	}
	return doc
}

func vC10MediaDoc(r *vRand) *vJ {
	recipient := jO("type", "session", "sessionid", r.pick([]string{phBy, phBy, phBy, phBy, phBy, phBy, phSelf, "bogus-session-id"}))
	doc := jO("type", "message", "message", jO("recipient", recipient, "data", vC10MediaData(r)))
	if r.chance(1, 3) {
		doc.kv = append([]vJKV{{"id", jV("m" + strconv.Itoa(r.intn(1000)))}}, doc.kv...)
	}
	if r.chance(1, 4) {
		vC10Mutate(r, doc, true)
	}
	return doc
}

var vC10MediaStates = []string{"session", "room", "room", "roomr", "internal", "internalroom"}

// vC10GenMedia: cases in the world with the real Janus client.  Scripted
// opening (the bystander publishes when the world is made; the sender asks for
// that stream, so that it has a subscriber the later messages can reach, and in
// half of the cases publishes itself), then a random conversation of media
// messages.
func vC10GenMedia(e *vEnv, r *vRand, ncases int) []vCase {
	var cases []vCase
	perState := e.scale(8, 12)
	for i := 0; i < ncases; i++ {
		rr := r.fork()
		ops := []string{"world mcu=2"}
		nstates := 1 + rr.intn(2)
		for s := 0; s < nstates; s++ {
			ops = append(ops, "state "+vC10MediaStates[rr.intn(len(vC10MediaStates))])
			if !rr.chance(1, 4) {
				opening := jO("type", "message", "message", jO("recipient", jO("type", "session", "sessionid", phBy),
					"data", jO("type", "requestoffer", "roomType", "video")))
				if op, ok := vC10MsgOp(opening.String(), 0, false); ok {
					ops = append(ops, op)
				}
			}
			if rr.chance(1, 2) {
				// the sender publishes too: "sendoffer" then reaches a subscriber of the bystander
				own := jO("type", "message", "message", jO("recipient", jO("type", "session", "sessionid", phSelf),
					"data", jO("type", "offer", "roomType", "video", "payload", jO("type", "offer", "sdp", MockSdpOfferAudioAndVideo))))
				if op, ok := vC10MsgOp(own.String(), 0, false); ok {
					ops = append(ops, op)
				}
			}
			n := 2 + rr.intn(perState)
			for k := 0; k < n; k++ {
				for try := 0; try < 20; try++ {
					if op, ok := vC10MsgOp(vC10MediaDoc(rr).String(), 0, false); ok {
						ops = append(ops, op)
						break
					}
				}
			}
		}
		cases = append(cases, vCase{Ops: ops})
	}
	return cases
}
