package signaling

import (
	"bytes"
	"encoding/hex"
	"crypto/aes"
	"crypto/cipher"
	"crypto/hmac"
	crand "crypto/rand"
	"crypto/sha256"
	"encoding/base64"
	"fmt"
	"io"
	"reflect"
	"strconv"
	"strings"
	"testing"
	"unsafe"

	"google.golang.org/protobuf/proto"
	"google.golang.org/protobuf/types/known/timestamppb"
)

// C15: SessionIdCodec + Hub.decode*SessionId against Model/SessionId.lean.
//
// The generator builds every id itself from attributes (stdlib hmac/base64/aes
// only), so that it knows which strings carry a valid MAC and what their value
// decrypts/deserialises to (the `oracle` lines); the real encoder is exercised
// by `mint`/`hreg` with clock and IV pinned, and must produce the same strings.

type vc15Keys struct {
	name  string
	hash  []byte
	block []byte // nil = no block key
}

func (k *vc15Keys) op() string {
	b := "-"
	if k.block != nil {
		b = vx(k.block)
	}
	return "keys " + k.name + " " + vx(k.hash) + " " + b
}

func vc15B64(b []byte) string { return base64.URLEncoding.EncodeToString(b) }

func vc15Mac(key []byte, msg string) []byte {
	m := hmac.New(sha256.New, key)
	m.Write([]byte(msg))
	return m.Sum(nil)
}

// vc15Cookie builds the securecookie string for the given attributes; macName is
// the name the MAC is computed over.
func vc15Cookie(hash []byte, macName, date, vb string) string {
	tag := vc15Mac(hash, macName+"|"+date+"|"+vb)
	return vc15B64([]byte(date + "|" + vb + "|" + string(tag)))
}

func vc15Reverse(b []byte) []byte {
	out := make([]byte, len(b))
	for i := range b {
		out[len(b)-1-i] = b[i]
	}
	return out
}

// vc15RevId reverses the bytes inside a canonical base64 string (harness' own).
func vc15RevId(s string) string {
	b, err := base64.URLEncoding.DecodeString(s)
	if err != nil {
		return s
	}
	return vc15B64(vc15Reverse(b))
}

// vc15Name = the cookie name an id of this kind is authenticated under: with a block key the
// names carry "/" + hex(HMAC-SHA256(hashKey, "block-key|" + blockKey)).
func vc15Name(k *vc15Keys, kind string) string {
	base := "public-session"
	if kind == "p" {
		base = "private-session"
	}
	if k == nil || len(k.block) == 0 {
		return base
	}
	return base + "/" + hex.EncodeToString(vc15Mac(k.hash, "block-key|"+string(k.block)))
}

// vc15CacheName = the role suffix of the hub's cache key.
func vc15CacheName(kind string) string { return vc15Name(nil, kind) }

// vc15Seal = value bytes as the encoder makes them: data, or iv ++ AES-CTR(data).
func vc15Seal(k *vc15Keys, iv, data []byte) []byte {
	if k.block == nil {
		return data
	}
	blk, err := aes.NewCipher(k.block)
	if err != nil {
		panic(err)
	}
	ct := make([]byte, len(data))
	cipher.NewCTR(blk, iv).XORKeyStream(ct, data)
	return append(append([]byte{}, iv...), ct...)
}

// vc15Open = what decrypt ∘ deserialise ∘ re-serialise makes of a value, computed with
// stdlib AES and proto.Unmarshal directly (not through the code under test).
func vc15Open(k *vc15Keys, value []byte) ([]byte, bool) {
	plain := value
	if k.block != nil {
		blk, err := aes.NewCipher(k.block)
		if err != nil {
			panic(err)
		}
		if len(value) <= blk.BlockSize() {
			return nil, false
		}
		plain = make([]byte, len(value)-blk.BlockSize())
		cipher.NewCTR(blk, value[:blk.BlockSize()]).XORKeyStream(plain, value[blk.BlockSize():])
	}
	var sd SessionIdData
	if err := proto.Unmarshal(plain, &sd); err != nil {
		return nil, false
	}
	out, err := proto.Marshal(&sd)
	if err != nil {
		return nil, false
	}
	return out, true
}

func vc15OracleOp(k *vc15Keys, value []byte) string {
	if p, ok := vc15Open(k, value); ok {
		return "oracle " + k.name + " " + vx(value) + " " + vx(p)
	}
	return "oracle " + k.name + " " + vx(value) + " bad"
}

// vc15Id = the id string for (kind, keys, date text, value bytes), as minted.
func vc15Id(k *vc15Keys, kind, date string, value []byte) string {
	s := vc15Cookie(k.hash, vc15Name(k, kind), date, vc15B64(value))
	if kind == "q" {
		s = vc15RevId(s)
	}
	return s
}

func vc15Bytes(r *vRand, n int) []byte {
	b := make([]byte, n)
	for i := range b {
		b[i] = byte(r.u64())
	}
	return b
}

// vc15Data: a serialised SessionIdData.  With a block key the data is never empty:
// securecookie cannot decrypt an empty plaintext (`len(value) > blockSize` is required),
// and the hub never mints one (Sid counts from 1).
func vc15Data(r *vRand, k *vc15Keys) []byte {
	sd := &SessionIdData{}
	c := r.intn(6)
	if k.block != nil && c == 0 {
		c = 1
	}
	switch c {
	case 0:
		// empty message
	case 1:
		sd.Sid = uint64(1 + r.intn(10))
	default:
		sd.Sid = r.u64()
		sd.Created = &timestamppb.Timestamp{Seconds: 1700000000 + int64(r.intn(100000000)), Nanos: int32(r.intn(1000000000))}
		sd.BackendId = r.pick([]string{"backend1", "b", "", "compat", "https://cloud.example.org/", "a|b|c", "ünï"})
	}
	b, err := proto.Marshal(sd)
	if err != nil {
		panic(err)
	}
	return b
}

func vc15Other(kind string) string {
	if kind == "p" {
		return "q"
	}
	return "p"
}

// vc15Mutations returns (tag, mutated string) pairs for one id.
func vc15Mutations(e *vEnv, r *vRand, s string) [][2]string {
	var out [][2]string
	add := func(tag, m string) { out = append(out, [2]string{tag, m}) }
	b := []byte(s)
	// single-bit flips: every character in the thorough tier, a sample otherwise
	step := 1
	if !e.thorough() {
		step = 1 + len(b)/24
	}
	for i := r.intn(step); i < len(b); i += step {
		m := append([]byte{}, b...)
		m[i] ^= 1 << uint(r.intn(8))
		add("flip", string(m))
	}
	// bit flips in the decoded bytes, canonically re-encoded
	if raw, err := base64.URLEncoding.DecodeString(s); err == nil && len(raw) > 0 {
		for j := 0; j < e.scale(12, 60); j++ {
			m := append([]byte{}, raw...)
			m[r.intn(len(m))] ^= 1 << uint(r.intn(8))
			add("rawflip", vc15B64(m))
		}
		// truncation / extension of the decoded bytes
		add("rawtrunc", vc15B64(raw[:len(raw)-1]))
		add("rawtrunc", vc15B64(raw[:r.intn(len(raw))]))
		add("rawext", vc15B64(append(append([]byte{}, raw...), byte(r.u64()))))
		add("rawext", vc15B64(append(append([]byte{}, raw...), '|')))
		add("rawext", vc15B64(append([]byte{'1'}, raw...)))
		add("rawrev", vc15B64(vc15Reverse(raw)))
		// unpadded / std alphabet spellings
		add("reenc-nopad", base64.RawURLEncoding.EncodeToString(raw))
		add("reenc-std", base64.StdEncoding.EncodeToString(raw))
	}
	// truncation / extension of the string
	for _, k := range []int{1, 2, 3, 4} {
		if len(s) > k {
			add("trunc", s[:len(s)-k])
		}
	}
	if len(s) > 0 {
		add("trunc", s[:r.intn(len(s))])
		add("trunc", s[1:])
	}
	add("trunc", "")
	for _, x := range []string{"A", "=", "AAAA", "A===", "|", " ", "\x00"} {
		add("ext", s+x)
		add("ext", x+s)
	}
	// base64 re-spellings of the very same bytes
	for _, x := range []string{"\n", "\r", "\r\n", "\n\n"} {
		add("nl", s+x)
		add("nl", x+s)
		if len(s) > 0 {
			i := r.intn(len(s) + 1)
			add("nl", s[:i]+x+s[i:])
		}
	}
	if n := strings.IndexByte(s, '='); n > 0 {
		// unused low bits of the last sextet before the padding
		idx := strings.IndexByte(base64URLAlphabet, s[n-1])
		pad := len(s) - n // 1 or 2
		free := 2
		if pad == 2 {
			free = 4
		}
		if idx >= 0 {
			for v := 1; v < 1<<uint(free); v++ {
				m := []byte(s)
				m[n-1] = base64URLAlphabet[idx^v]
				add("padbits", string(m))
			}
		}
		add("pad", s[:n])
		add("pad", s[:n]+"\n"+s[n:])
		if pad == 2 {
			add("pad", s[:n+1]+"\n=")
			add("pad", s[:n+1])
		}
		add("pad", s+"=")
	}
	return out
}

const base64URLAlphabet = "ABCDEFGHIJKLMNOPQRSTUVWXYZabcdefghijklmnopqrstuvwxyz0123456789-_"

func vc15KeyPair(r *vRand) (*vc15Keys, *vc15Keys) {
	hashLens := []int{16, 32, 32, 64, 64, 1, 100}
	a := &vc15Keys{name: "A", hash: vc15Bytes(r, hashLens[r.intn(len(hashLens))])}
	if r.chance(1, 2) {
		a.block = vc15Bytes(r, []int{16, 24, 32}[r.intn(3)])
	}
	b := &vc15Keys{name: "B"}
	switch r.intn(6) {
	case 0: // same hash key, other block key
		b.hash = a.hash
		b.block = vc15Bytes(r, 16)
		if a.block == nil && r.chance(1, 2) {
			a.block = vc15Bytes(r, 16)
		}
	case 1: // same hash key, block key on one side only
		b.hash = a.hash
		if a.block == nil {
			b.block = vc15Bytes(r, 32)
		}
	case 2: // hash key differing in one bit, same block key
		b.hash = append([]byte{}, a.hash...)
		b.hash[r.intn(len(b.hash))] ^= 1 << uint(r.intn(8))
		b.block = a.block
	default:
		b.hash = vc15Bytes(r, hashLens[r.intn(len(hashLens))])
		if r.chance(1, 2) {
			b.block = vc15Bytes(r, 16)
		}
	}
	return a, b
}

func vC15Gen(e *vEnv, r *vRand) []vCase {
	var cases []vCase

	// HMAC vectors: Lean's HMAC-SHA256 against crypto/hmac.
	{
		rr := r.fork()
		var ops []string
		for i := 0; i < e.scale(40, 400); i++ {
			kl := []int{0, 1, 16, 32, 63, 64, 65, 100, 200}[rr.intn(9)]
			ml := []int{0, 1, 55, 56, 63, 64, 65, 119, 120, 128, 300}[rr.intn(11)]
			if rr.chance(1, 3) {
				ml = rr.intn(400)
			}
			ops = append(ops, "hmac "+vx(vc15Bytes(rr, kl))+" "+vx(vc15Bytes(rr, ml)))
		}
		cases = append(cases, vCase{Ops: ops})
	}

	n := e.scale(120, 400)
	for i := 0; i < n; i++ {
		rr := r.fork()
		ka, kb := vc15KeyPair(rr)
		if i%25 == 24 {
			ka.hash = []byte{} // securecookie refuses to work without a hash key
		}
		ops := []string{ka.op(), kb.op()}
		now := int64(1600000000 + rr.intn(200000000))
		if rr.chance(1, 10) {
			now = int64(rr.intn(100))
		}
		data := vc15Data(rr, ka)
		for _, kind := range []string{"p", "q"} {
			lbl := "L" + kind
			iv := vc15Bytes(rr, 16)
			value := vc15Seal(ka, iv, data)
			id := vc15Id(ka, kind, strconv.FormatInt(now, 10), value)
			ops = append(ops, vc15OracleOp(ka, value), vc15OracleOp(kb, value))
			ops = append(ops, fmt.Sprintf("mint %s A %d %s %s %s", kind, now, vx(data), vx(value), lbl))
			// the id as it is, in both roles and under both key sets
			for _, ks := range []string{"A", "B"} {
				for _, k2 := range []string{"p", "q"} {
					ops = append(ops, fmt.Sprintf("dec %s %s %s %s #same", k2, ks, vEnc(id), lbl))
				}
			}
			// its reversal (the MAC'd content kept, the role swapped)
			for _, k2 := range []string{"p", "q"} {
				ops = append(ops, fmt.Sprintf("dec %s A %s %s #reversed", k2, vEnc(vc15RevId(id)), lbl))
			}
			for _, m := range vc15Mutations(e, rr, id) {
				k2 := kind
				if rr.chance(1, 8) {
					k2 = vc15Other(kind)
				}
				ops = append(ops, fmt.Sprintf("dec %s A %s %s #%s", k2, vEnc(m[1]), lbl, m[0]))
			}
		}
		cases = append(cases, vCase{Ops: ops})
	}

	// ids forged by a key holder from odd attributes
	nf := e.scale(80, 300)
	for i := 0; i < nf; i++ {
		rr := r.fork()
		ka, kb := vc15KeyPair(rr)
		ops := []string{ka.op(), kb.op()}
		for j := 0; j < 12; j++ {
			kind := rr.pick([]string{"p", "q"})
			data := vc15Data(rr, ka)
			value := vc15Seal(ka, vc15Bytes(rr, 16), data)
			date := strconv.Itoa(1600000000 + rr.intn(200000000))
			vb := vc15B64(value)
			macName := vc15Name(ka, kind)
			tag := "forge"
			switch rr.intn(16) {
			case 0:
				date = rr.pick([]string{"", "+", "-", "+12", "-12", "0012", "12a", " 12", "1_000", "0x10", "12.5",
					"9223372036854775807", "9223372036854775808", "-9223372036854775808", "-9223372036854775809",
					"99999999999999999999999", "١٢٣"})
				tag = "forge-date"
			case 1:
				value = vc15Bytes(rr, rr.intn(40)) // garbage instead of protobuf / ciphertext
				vb = vc15B64(value)
				tag = "forge-garbage"
			case 2:
				// non-canonical inner base64 (MAC computed over that very text)
				if n := strings.IndexByte(vb, '='); n > 0 {
					idx := strings.IndexByte(base64URLAlphabet, vb[n-1])
					vb = vb[:n-1] + string(base64URLAlphabet[idx^1]) + vb[n:]
				} else {
					vb = vb[:len(vb)/2] + "\n" + vb[len(vb)/2:]
				}
				tag = "forge-inner-spelling"
			case 3:
				cut := vb
				if len(cut) > 0 {
					cut = cut[:len(cut)-1]
				}
				vb = rr.pick([]string{"", "A", "AA", "AAA", "A===", "!!!!", vb + "A", cut})
				tag = "forge-inner-invalid"
			case 4:
				macName = vc15Name(ka, vc15Other(kind))
				tag = "forge-mac-other-name"
			case 5:
				macName = rr.pick([]string{"", "session", "private-session|", "Private-Session", vc15Name(ka, kind) + "0"})
				tag = "forge-mac-wrong-name"
				// the name without the block-key binding — unless that is exactly the other key set's name
				if ka.block != nil && !(bytes.Equal(ka.hash, kb.hash) && kb.block == nil) && rr.chance(1, 2) {
					macName = vc15Name(nil, kind)
					tag = "forge-mac-unbound-name"
				}
			case 6:
				value = vc15Seal(ka, vc15Bytes(rr, 16), append(data, vc15Bytes(rr, 3200)...))
				vb = vc15B64(value)
				tag = "forge-too-long"
			case 7:
				value = vc15Bytes(rr, rr.intn(17)) // at most one cipher block: nothing to decrypt
				vb = vc15B64(value)
				tag = "forge-short"
			}
			s := vc15Cookie(ka.hash, macName, date, vb)
			var extra []string
			switch rr.intn(12) {
			case 0:
				// framing: move the separator so that name|date|value reads the same
				s = vc15B64([]byte(date + "|" + vb + "|" + string(vc15Mac(ka.hash, macName+"|"+date+"|"+vb)) + "|x"))
				tag += "+tail"
			case 1:
				// two fields only
				s = vc15B64([]byte(date + vb + "|" + string(vc15Mac(ka.hash, macName+"|"+date+vb))))
				tag += "+twofields"
			}
			if kind == "q" {
				s = vc15RevId(s)
			}
			if v, err := base64.URLEncoding.DecodeString(vb); err == nil {
				extra = append(extra, vc15OracleOp(ka, v), vc15OracleOp(kb, v))
				// the data this forged id stands for is what its value opens to
				if d, ok := vc15Open(ka, v); ok {
					data = d
				}
			}
			ops = append(ops, extra...)
			lbl := fmt.Sprintf("L%d", j)
			ops = append(ops, fmt.Sprintf("forge %s A %s %s %s #%s", kind, vx(data), vEnc(s), lbl, tag))
			ops = append(ops, fmt.Sprintf("dec %s A %s %s #%s", kind, vEnc(s), lbl, tag))
			ops = append(ops, fmt.Sprintf("dec %s A %s %s #%s", vc15Other(kind), vEnc(s), lbl, tag))
			ops = append(ops, fmt.Sprintf("dec %s B %s %s #%s", kind, vEnc(s), lbl, tag))
		}
		cases = append(cases, vCase{Ops: ops})
	}

	// hub: register, decode through the cache, invalidate
	nh := e.scale(80, 300)
	for i := 0; i < nh; i++ {
		rr := r.fork()
		ka, kb := vc15KeyPair(rr)
		ops := []string{ka.op(), kb.op()}
		var pool []string // "kind label id"
		now := int64(1700000000)
		for j := 0; j < 3+rr.intn(25); j++ {
			switch {
			case len(pool) == 0 || rr.chance(1, 5):
				now += int64(rr.intn(3))
				data := vc15Data(rr, ka)
				vp := vc15Seal(ka, vc15Bytes(rr, 16), data)
				vq := vc15Seal(ka, vc15Bytes(rr, 16), data)
				ops = append(ops, vc15OracleOp(ka, vp), vc15OracleOp(ka, vq), vc15OracleOp(kb, vp))
				lbl := fmt.Sprintf("L%d", j)
				ops = append(ops, fmt.Sprintf("hreg A %d %s %s %s %s", now, vx(data), vx(vp), vx(vq), lbl))
				p := vc15Id(ka, "p", strconv.FormatInt(now, 10), vp)
				q := vc15Id(ka, "q", strconv.FormatInt(now, 10), vq)
				pool = append(pool, "p "+lbl+" "+p, "q "+lbl+" "+q)
				// ids of the other key set never enter this hub's cache
				ops = append(ops, fmt.Sprintf("hdec p B %s %s #other-keys", vEnc(p), lbl))
			default:
				ent := strings.SplitN(pool[rr.intn(len(pool))], " ", 3)
				kind, lbl, id := ent[0], ent[1], ent[2]
				switch rr.intn(8) {
				case 0:
					ops = append(ops, fmt.Sprintf("hinv %s A %s", kind, vEnc(id)))
				case 1:
					ops = append(ops, fmt.Sprintf("hdec %s A %s %s #other-role", vc15Other(kind), vEnc(id), lbl))
				case 2:
					ms := vc15Mutations(e, rr, id)
					m := ms[rr.intn(len(ms))]
					ops = append(ops, fmt.Sprintf("hdec %s A %s %s #%s", kind, vEnc(m[1]), lbl, m[0]))
					if rr.chance(1, 2) {
						ops = append(ops, fmt.Sprintf("hinv %s A %s", kind, vEnc(m[1])))
					}
				case 3:
					// a string whose cache key could be mistaken for the other role's
					ops = append(ops, fmt.Sprintf("hdec q A %s %s #suffix", vEnc(id+"|private-session"), lbl))
					ops = append(ops, fmt.Sprintf("hdec p A %s %s #suffix", vEnc(id+"|public-session"), lbl))
					ops = append(ops, fmt.Sprintf("hinv q A %s #suffix", vEnc(id+"|private-session")))
				case 4:
					ops = append(ops, fmt.Sprintf("hdec %s A %s %s #empty", kind, vEnc(""), lbl))
					ops = append(ops, fmt.Sprintf("hinv %s A %s #empty", kind, vEnc("")))
				default:
					ops = append(ops, fmt.Sprintf("hdec %s A %s %s #same", kind, vEnc(id), lbl))
				}
			}
		}
		cases = append(cases, vCase{Ops: ops})
	}
	return cases
}

// ---------- execution on the real code ----------

type vc15Side struct {
	keys  *vc15Keys
	codec *SessionIdCodec
	hub   *Hub
}

type vc15Reader struct{ b []byte }

func (r *vc15Reader) Read(p []byte) (int, error) {
	for i := range p {
		if len(r.b) > 0 {
			p[i] = r.b[0]
			r.b = r.b[1:]
		} else {
			p[i] = 0
		}
	}
	return len(p), nil
}

// vc15Pin pins the clock of the securecookie inside the codec (its `timeFunc` test
// hook is unexported) and the IV source for the duration of f.
func vc15Pin(c *SessionIdCodec, now int64, iv []byte, f func()) {
	v := reflect.ValueOf(c.cookie).Elem().FieldByName("timeFunc")
	if !v.IsValid() {
		panic("securecookie.SecureCookie has no field timeFunc any more")
	}
	fn := func() int64 { return now }
	reflect.NewAt(v.Type(), unsafe.Pointer(v.UnsafeAddr())).Elem().Set(reflect.ValueOf(fn))
	old := crand.Reader
	crand.Reader = &vc15Reader{b: append([]byte{}, iv...)}
	defer func() { crand.Reader = old }()
	f()
}

var _ io.Reader = (*vc15Reader)(nil)

func vc15ShowDec(data *SessionIdData, err error) string {
	if err != nil || data == nil {
		return "err"
	}
	b, merr := proto.Marshal(data)
	if merr != nil {
		return "err-marshal"
	}
	return "ok " + vx(b)
}

func vC15Exec(t *testing.T, c *vCase) {
	sides := map[string]*vc15Side{}
	side := func(name string) *vc15Side { return sides[name] }
	ivOf := func(s *vc15Side, value []byte) []byte {
		if s.keys.block == nil || len(value) < 16 {
			return nil
		}
		return value[:16]
	}
	cflag := func(h *Hub, id, name string) string {
		key := id + "|" + name
		cache := h.getDecodeCache(key)
		cache.mu.Lock()
		defer cache.mu.Unlock()
		if _, found := cache.data[key]; found {
			return "c1"
		}
		return "c0"
	}
	for _, line := range c.Ops {
		var f []string
		for _, tok := range strings.Fields(line) {
			if !strings.HasPrefix(tok, "#") {
				f = append(f, tok)
			}
		}
		out := "bad-op"
		switch {
		case len(f) == 4 && f[0] == "keys":
			h, ok1 := vunx(f[2])
			var b []byte
			ok2 := true
			if f[3] != "-" {
				b, ok2 = vunx(f[3])
				if b == nil {
					b = []byte{}
				}
			}
			if ok1 && ok2 {
				if h == nil {
					h = []byte{}
				}
				k := &vc15Keys{name: f[1], hash: h, block: b}
				codec := NewSessionIdCodec(h, b)
				caches := make([]*LruCache, 0, numDecodeCaches)
				for i := 0; i < numDecodeCaches; i++ {
					caches = append(caches, NewLruCache(decodeCacheSize))
				}
				sides[f[1]] = &vc15Side{keys: k, codec: codec, hub: &Hub{cookie: codec, decodeCaches: caches}}
				out = "-"
			}
		case len(f) == 4 && f[0] == "oracle":
			out = "-"
		case len(f) == 3 && f[0] == "hmac":
			k, ok1 := vunx(f[1])
			m, ok2 := vunx(f[2])
			if ok1 && ok2 {
				mac := hmac.New(sha256.New, k)
				mac.Write(m)
				out = vx(mac.Sum(nil))
			}
		case len(f) == 7 && f[0] == "mint":
			s := side(f[2])
			now, err := strconv.ParseInt(f[3], 10, 64)
			data, ok1 := vunx(f[4])
			value, ok2 := vunx(f[5])
			if s != nil && err == nil && ok1 && ok2 && (f[1] == "p" || f[1] == "q") {
				var sd SessionIdData
				if err := proto.Unmarshal(data, &sd); err != nil {
					out = "bad-data"
					break
				}
				vc15Pin(s.codec, now, ivOf(s, value), func() {
					var id string
					var err error
					if f[1] == "p" {
						id, err = s.codec.EncodePrivate(&sd)
					} else {
						id, err = s.codec.EncodePublic(&sd)
					}
					if err != nil {
						out = "err"
					} else {
						out = "id " + vEnc(id)
					}
				})
			}
		case len(f) == 6 && f[0] == "forge":
			if side(f[2]) != nil {
				out = "-"
			}
		case len(f) == 5 && f[0] == "dec":
			s := side(f[2])
			if s != nil && (f[1] == "p" || f[1] == "q") {
				id := vDec(f[3])
				if f[1] == "p" {
					out = vc15ShowDec(s.codec.DecodePrivate(id))
				} else {
					out = vc15ShowDec(s.codec.DecodePublic(id))
				}
			}
		case len(f) == 5 && f[0] == "hdec":
			s := side(f[2])
			if s != nil && (f[1] == "p" || f[1] == "q") {
				id := vDec(f[3])
				var d *SessionIdData
				if f[1] == "p" {
					d = s.hub.decodePrivateSessionId(id)
				} else {
					d = s.hub.decodePublicSessionId(id)
				}
				out = vc15ShowDec(d, nil) + " " + cflag(s.hub, id, vc15CacheName(f[1]))
			}
		case len(f) == 4 && f[0] == "hinv":
			s := side(f[2])
			if s != nil && (f[1] == "p" || f[1] == "q") {
				id := vDec(f[3])
				s.hub.invalidateSessionId(id, vc15CacheName(f[1]))
				out = "- " + cflag(s.hub, id, vc15CacheName(f[1]))
			}
		case len(f) == 7 && f[0] == "hreg":
			s := side(f[1])
			now, err := strconv.ParseInt(f[2], 10, 64)
			data, ok1 := vunx(f[3])
			vp, ok2 := vunx(f[4])
			vq, ok3 := vunx(f[5])
			if s != nil && err == nil && ok1 && ok2 && ok3 {
				var sd SessionIdData
				if err := proto.Unmarshal(data, &sd); err != nil {
					out = "bad-data"
					break
				}
				// the id part of Hub.processRegister
				var p, q string
				var e1, e2 error
				vc15Pin(s.codec, now, ivOf(s, vp), func() { p, e1 = s.hub.cookie.EncodePrivate(&sd) })
				vc15Pin(s.codec, now, ivOf(s, vq), func() { q, e2 = s.hub.cookie.EncodePublic(&sd) })
				if e1 != nil || e2 != nil {
					out = "err"
				} else {
					s.hub.setDecodedSessionId(p, privateSessionName, &sd)
					s.hub.setDecodedSessionId(q, publicSessionName, &sd)
					out = "ids " + vEnc(p) + " " + vEnc(q)
				}
			}
		}
		c.Impl = append(c.Impl, out)
	}
}

func TestVerifC15(t *testing.T) {
	vRun(t, vC15Gen, vC15Exec)
}

var _ = bytes.Equal
