package signaling

// C16: GetRealUserIP, AllowedIps and the stats / serverinfo / metrics gate of the main
// server against Model/RealIP.lean.

import (
	"encoding/hex"
	"fmt"
	"io"
	"log"
	"net"
	"net/http"
	"net/http/httptest"
	"strconv"
	"strings"
	"testing"

	"github.com/dlintw/goconf"
	"github.com/gorilla/mux"
)

type vC16Main struct {
	config *goconf.ConfigFile
	router *mux.Router
	hub    *Hub
	b      *BackendServer
	events AsyncEvents
	rpc    *GrpcClients
}

func vC16BaseConfig() *goconf.ConfigFile {
	config := goconf.NewConfigFile()
	config.AddOption("backend", "backends", "backend1")
	config.AddOption("backend1", "url", "http://127.0.0.1:9/")
	config.AddOption("backend1", "secret", "verif-secret")
	config.AddOption("backend", "allowhttp", "true")
	config.AddOption("sessions", "hashkey", "12345678901234567890123456789012")
	config.AddOption("sessions", "blockkey", "09876543210987654321098765432109")
	config.AddOption("clients", "internalsecret", "verif-internal")
	config.AddOption("geoip", "url", "none")
	return config
}

func vC16SetLists(config *goconf.ConfigFile, trusted, allow string) {
	config.RemoveOption("app", "trustedproxies")
	config.RemoveOption("stats", "allowed_ips")
	config.AddOption("app", "trustedproxies", trusted)
	config.AddOption("stats", "allowed_ips", allow)
}

func vC16NewMain(trusted, allow string) (*vC16Main, error) {
	config := vC16BaseConfig()
	vC16SetLists(config, trusted, allow)
	events, err := NewAsyncEvents(NatsLoopbackUrl)
	if err != nil {
		return nil, err
	}
	// like server/main.go: the hub always has a (here: empty) set of RPC clients, Hub.Reload relies on it
	rpc, err := NewGrpcClients(config, nil, nil, "no-version")
	if err != nil {
		events.Close()
		return nil, err
	}
	r := mux.NewRouter()
	hub, err := NewHub(config, events, nil, rpc, nil, r, "no-version")
	if err != nil {
		rpc.Close()
		events.Close()
		return nil, err
	}
	m := &vC16Main{config: config, router: r, hub: hub, events: events, rpc: rpc}
	b, err := NewBackendServer(config, hub, "no-version")
	if err != nil {
		m.close()
		return nil, err
	}
	if err := b.Start(r); err != nil {
		m.close()
		return nil, err
	}
	m.b = b
	return m, nil
}

func (m *vC16Main) close() {
	m.hub.Stop()
	m.rpc.Close()
	m.events.Close()
}

func vC16ShowAllowed(a *AllowedIps) string {
	if a == nil {
		return "nil"
	}
	if len(a.allowed) == 0 {
		return "-"
	}
	var parts []string
	for _, n := range a.allowed {
		parts = append(parts, vC16CanonNet(n.IP, n.Mask))
	}
	return strings.Join(parts, ",")
}

func (m *vC16Main) show() string {
	return "cfg " + vC16ShowAllowed(m.hub.trustedProxies.Load()) + " " + vC16ShowAllowed(m.b.statsAllowedIps.Load())
}

func vC16HttpRequest(route string, q vC16Req) *http.Request {
	req := httptest.NewRequest("GET", route, nil)
	req.RemoteAddr = q.Remote
	for _, h := range q.Hdrs {
		req.Header.Add(h.Name, h.Value)
	}
	return req
}

// vC16CheckCfg verifies that the tokens of a `new`/`reload` line are what the tokeniser
// makes of the raw strings it carries.
func vC16CheckCfg(kind string, f []string) (trusted, allow string, ok bool) {
	_, raw := vC16SplitOp(f, "S")
	if len(raw) != 3 || len(f) < 2 || f[1] != "main" {
		return "", "", false
	}
	trusted, allow = vDec(raw[1]), vDec(raw[2])
	return trusted, allow, vC16CfgOp(kind, "main", trusted, allow) == strings.Join(f, " ")
}

func vC16Mem(f []string) string {
	n, err := strconv.Atoi(f[1])
	if err != nil || len(f) != 3+n {
		return "bad-op"
	}
	a := &AllowedIps{}
	for _, s := range f[2 : 2+n] {
		ipn, ok := vC16ParseNetTok(s)
		if !ok {
			return "bad-op"
		}
		a.allowed = append(a.allowed, ipn)
	}
	ip, err := hex.DecodeString(f[2+n])
	if err != nil {
		return "bad-op"
	}
	if a.Allowed(net.IP(ip)) {
		return "1"
	}
	return "0"
}

func vC16Exec(t *testing.T, c *vCase) {
	var srv *vC16Main
	defer func() {
		if srv != nil {
			srv.close()
		}
	}()
	ensure := func() *vC16Main {
		if srv == nil {
			var err error
			if srv, err = vC16NewMain("", ""); err != nil {
				panic(err)
			}
		}
		return srv
	}
	for _, line := range c.Ops {
		f := strings.Fields(line)
		out := "bad-op"
		switch f[0] {
		case "new":
			trusted, allow, ok := vC16CheckCfg("new", f)
			if !ok {
				break
			}
			if srv != nil {
				srv.close()
				srv = nil
			}
			s, err := vC16NewMain(trusted, allow)
			if err != nil {
				// refused: the case goes on with a server that has nothing configured
				out = "err " + ensure().show()
				break
			}
			srv = s
			out = srv.show()
		case "reload":
			trusted, allow, ok := vC16CheckCfg("reload", f)
			if !ok {
				break
			}
			s := ensure()
			vC16SetLists(s.config, trusted, allow)
			s.hub.Reload(s.config)
			s.b.Reload(s.config)
			out = s.show()
		case "ip":
			if len(f) < 3 {
				break
			}
			_, raw := vC16SplitOp(f[2:], "R")
			q, ok := vC16ParseRaw(raw)
			if !ok || vC16IpOp(f[1], q) != strings.Join(f, " ") {
				break
			}
			req := &http.Request{RemoteAddr: q.Remote, Header: http.Header{}}
			for _, h := range q.Hdrs {
				req.Header.Add(h.Name, h.Value)
			}
			switch f[1] {
			case "srv":
				out = vEnc(ensure().hub.getRealUserIP(req))
			case "nil":
				out = vEnc(GetRealUserIP(req, nil))
			}
		case "get":
			if len(f) < 4 || f[1] != "main" {
				break
			}
			route := vDec(f[2])
			_, raw := vC16SplitOp(f[3:], "R")
			q, ok := vC16ParseRaw(raw)
			if !ok || vC16GetOp("main", route, q) != strings.Join(f, " ") {
				break
			}
			rec := httptest.NewRecorder()
			ensure().router.ServeHTTP(rec, vC16HttpRequest(route, q))
			out = strconv.Itoa(rec.Code)
			if vC16OpenRoute(route) && rec.Code != http.StatusForbidden {
				out = "open"
			}
		case "mem":
			out = vC16Mem(f)
		}
		c.Impl = append(c.Impl, out)
	}
}

// Routes of the main server used by the generator: the three of the statement plus one
// that is not behind the gate.
var vC16MainRoutes = []string{"/api/v1/stats", "/api/v1/serverinfo", "/metrics", "/api/v1/stats", "/api/v1/serverinfo", "/metrics", "/api/v1/welcome"}

func vC16OpenRoute(route string) bool { return route == "/api/v1/welcome" }

func vC16Gen(e *vEnv, r *vRand) []vCase {
	cases := vC16GenCases(e, r, "main", vC16MainRoutes)
	return append(cases, vC16GenMem(e, r)...)
}

func TestVerifC16(t *testing.T) {
	log.SetOutput(io.Discard)
	vRun(t, vC16Gen, vC16Exec)
}

var _ = fmt.Sprint
