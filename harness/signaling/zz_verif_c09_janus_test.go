package signaling

import (
	"context"
	"fmt"
	"sync/atomic"
	"testing"
	"time"
)

// C09, the media-server side: the real Janus client (mcu_janus*.go) against the
// repository's TestJanusGateway, with a gateway wrapper that can leave the
// "join" request of a publisher unanswered (a slow media server), so that the
// caller's context expires in the middle of a creation.

type vJanusGateway struct {
	*TestJanusGateway
	dropJoin atomic.Bool
}

func (g *vJanusGateway) Create(ctx context.Context) (*JanusSession, error) {
	session, err := g.TestJanusGateway.Create(ctx)
	if session != nil {
		// requests of the session's handles must come through the wrapper
		session.gateway = g
	}
	return session, err
}

func (g *vJanusGateway) send(msg map[string]interface{}, t *transaction) (uint64, error) {
	if g.dropJoin.Load() && msg["janus"] == "message" {
		if body, ok := msg["body"].(map[string]interface{}); ok && body["request"] == "join" {
			// accepted by the transport, never answered
			go t.run()
			return g.tid.Add(1), nil
		}
	}
	return g.TestJanusGateway.send(msg, t)
}

// vC09JanusTimeout starts a publisher whose "join" is never answered, lets the
// context expire, and reports what the gateway is left with (relative to before):
//
//	err=<timeout|other|none> left=<rooms>/<handles> publishers=<entries in mcuJanus.publishers>
func vC09JanusTimeout(t *testing.T, stream string) string {
	inner := NewTestJanusGateway(t)
	gw := &vJanusGateway{TestJanusGateway: inner}
	mcu, err := NewMcuJanus(context.Background(), "", vC09Config())
	if err != nil {
		return "error"
	}
	defer mcu.Stop()
	mj := mcu.(*mcuJanus)
	mj.createJanusGateway = func(ctx context.Context, wsURL string, listener GatewayListener) (JanusGatewayInterface, error) {
		return gw, nil
	}
	if err := mcu.Start(context.Background()); err != nil {
		return "error"
	}
	inner.mu.Lock()
	rooms0, handles0 := len(inner.rooms), len(inner.handles)
	inner.mu.Unlock()

	gw.dropJoin.Store(true)
	ctx, cancel := context.WithTimeout(context.Background(), 50*time.Millisecond)
	defer cancel()
	_, err = mj.NewPublisher(ctx, &TestMcuListener{id: "verif-pub"}, "verif-pub", "sid", StreamType(stream), NewPublisherSettings{}, &TestMcuInitiator{country: "DE"})
	gw.dropJoin.Store(false)
	res := "none"
	if err != nil {
		res = "other"
		if ctx.Err() != nil {
			res = "timeout"
		}
	}
	// the cleanup requests are processed asynchronously: wait (up to 3 s) until nothing is left
	rooms, handles := 0, 0
	for i := 0; i < 300; i++ {
		time.Sleep(10 * time.Millisecond)
		inner.mu.Lock()
		rooms, handles = len(inner.rooms)-rooms0, len(inner.handles)-handles0
		inner.mu.Unlock()
		if rooms == 0 && handles == 0 {
			break
		}
	}
	inner.mu.Lock()
	// do not trip the gateway's own end-of-test assertions
	for id := range inner.rooms {
		delete(inner.rooms, id)
	}
	inner.mu.Unlock()
	mj.mu.Lock()
	pubs := len(mj.publishers)
	mj.mu.Unlock()
	return fmt.Sprintf("err=%s left=%d/%d publishers=%d", res, rooms, handles, pubs)
}
