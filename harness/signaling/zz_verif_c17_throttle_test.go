package signaling

import (
	"context"
	"encoding/hex"
	"fmt"
	"net"
	"runtime"
	"sort"
	"strconv"
	"strings"
	"sync"
	"sync/atomic"
	"testing"
	"time"
)

// C17: memoryThrottler against Model/Throttle.lean.

var vC17Base = time.Date(2024, 1, 1, 0, 0, 0, 0, time.UTC)

// vAddrToken classifies an address string with the standard library only
// (independent of getThrottleIp).
func vAddrToken(s string) string {
	ip := net.ParseIP(s)
	if ip == nil || ip.To4() != nil {
		return "r:" + vEnc(s)
	}
	return "6:" + hex.EncodeToString(ip.To16()) + "/" + vEnc(s)
}

func vAddrFromToken(tok string) string {
	if strings.HasPrefix(tok, "r:") {
		return vDec(tok[2:])
	}
	if i := strings.IndexByte(tok, '/'); i >= 0 {
		return vDec(tok[i+1:])
	}
	return ""
}

var vC17Addrs = []string{
	"192.0.2.1", "192.0.2.2", "10.0.0.1",
	"2001:db8::1", "2001:db8::2", "2001:db8:0:0:ffff::1", // same /64
	"2001:db8:0:1::1", "2001:db8:1::1", "2001:db9::1", // other /64s
	"::ffff:192.0.2.1", "::1", "::", "fe80::1",
	"not-an-ip", "", "192.0.2.1:1234", "2001:db8::1%eth0", "001.2.3.4",
	"2001:db8::", "2001:0db8:0000:0000:0000:0000:0000:0001",
}

var vC17Actions = []string{"HelloResume", "HelloInternal", "BackendRoomAuth"}

const (
	vSec  = int64(time.Second)
	vMin  = int64(time.Minute)
	vHour = int64(time.Hour)
)

func vC17Gen(e *vEnv, r *vRand) []vCase {
	// order of the result: window cases, threshold cases, random timelines, key sharing — a difference in
	// the steps whose goroutines pile up at the mutex shows on every execution, so it is found first and
	// survives the re-executions of the shrinker
	var cases, scripted []vCase
	n := e.scale(200, 3000)
	maxOps := e.scale(60, 200)
	for i := 0; i < n; i++ {
		rr := r.fork()
		var ops []string
		now := int64(rr.intn(1000)) * vSec
		// a small population so that keys collide and blocks happen
		na := 1 + rr.intn(4)
		addrs := make([]string, na)
		for j := range addrs {
			addrs[j] = rr.pick(vC17Addrs)
		}
		nact := 1 + rr.intn(3)
		nops := 5 + rr.intn(maxOps)
		nonMono := rr.chance(1, 10)
		twoPhase := rr.chance(1, 8)
		for len(ops) < nops {
			// advance the clock
			switch rr.intn(12) {
			case 0:
			case 1, 2, 3:
				now += int64(rr.intn(5000)) * int64(time.Millisecond)
			case 4, 5:
				now += int64(1+rr.intn(200)) * vSec
			case 6:
				now += 3*vMin - vSec + int64(rr.intn(3))*vSec
			case 7:
				now += 30*vMin - 2*vSec + int64(rr.intn(5))*vSec
			case 8:
				now += int64(rr.intn(40)) * vMin
			case 9:
				now += 12*vHour - 2*vSec + int64(rr.intn(5))*vSec
			case 10:
				now += int64(rr.intn(14)) * vHour
			case 11:
				if nonMono {
					now -= int64(rr.intn(100)) * vSec
				}
			}
			addr := addrs[rr.intn(na)]
			act := vC17Actions[rr.intn(nact)]
			switch k := rr.intn(20); {
			case k == 0:
				ops = append(ops, fmt.Sprintf("cleanup %d", now))
			case k == 1 && twoPhase:
				ops = append(ops, fmt.Sprintf("check %d %s %s", now, vAddrToken(addr), vEnc(act)))
			case k == 2 && twoPhase:
				ops = append(ops, fmt.Sprintf("throttle %d %s %s", now-int64(rr.intn(3))*vSec, vAddrToken(addr), vEnc(act)))
			case k == 3 || (k == 4 && rr.chance(1, 2)):
				// several connections of one address fail at the same moment
				op := vC17Par(rr, now, addr, act, !nonMono && !twoPhase)
				ops = append(ops, op)
				now += vC17ParDt(op)
			case k < 6:
				// burst of failures from one address
				b := 1 + rr.intn(12)
				step := int64(rr.intn(4)) * vSec
				for j := 0; j < b; j++ {
					ops = append(ops, fmt.Sprintf("attempt %d %s %s 1", now, vAddrToken(addr), vEnc(act)))
					now += step
				}
			default:
				f := 1
				if rr.chance(1, 4) {
					f = 0
				}
				ops = append(ops, fmt.Sprintf("attempt %d %s %s %d", now, vAddrToken(addr), vEnc(act), f))
			}
		}
		cases = append(cases, vCase{Ops: ops})
	}
	// concurrent failures around the blocking threshold: k failures one after the other, then n at once
	// (k + n below, at and above ten), then attempts that must (not) be refused, then a random tail
	for i := 0; i < e.scale(60, 600); i++ {
		rr := r.fork()
		var ops []string
		now := int64(rr.intn(1000)) * vSec
		addr := rr.pick(vC17Addrs)
		act := rr.pick(vC17Actions)
		k := rr.intn(11)
		for j := 0; j < k; j++ {
			ops = append(ops, fmt.Sprintf("attempt %d %s %s 1", now, vAddrToken(addr), vEnc(act)))
			now += int64(rr.intn(3)) * vSec
		}
		n := 1 + rr.intn(12)
		if rr.chance(1, 2) && k < 10 {
			n = 10 - k + rr.intn(3) - 1
			if n < 1 {
				n = 1
			}
		}
		ops = append(ops, fmt.Sprintf("par %d %s %s %d %d %d 0", now, vAddrToken(addr), vEnc(act), n, rr.intn(3), rr.intn(2)*rr.intn(4)))
		for j := 0; j < 1+rr.intn(6); j++ {
			switch rr.intn(5) {
			case 0:
				now += 30*vMin - 2*vSec + int64(rr.intn(5))*vSec
			case 1:
				now += int64(rr.intn(40)) * vMin
			case 2:
				now += 12*vHour - 31*vMin + int64(rr.intn(62))*vMin
			default:
				now += int64(rr.intn(5)) * vSec
			}
			other := addr
			if rr.chance(1, 4) {
				other = rr.pick(vC17Addrs)
			}
			if rr.chance(1, 3) {
				op := vC17Par(rr, now, other, act, true)
				ops = append(ops, op)
				now += vC17ParDt(op)
			} else {
				ops = append(ops, fmt.Sprintf("attempt %d %s %s %d", now, vAddrToken(other), vEnc(act), rr.intn(2)))
			}
		}
		scripted = append(scripted, vCase{Ops: ops, Tags: []string{"par"}})
	}
	// the window of CheckBruteforce: old records that expire between the moment n connections were let
	// through and the moment they fail, while m further connections are being checked (which prunes)
	for i := 0; i < e.scale(40, 400); i++ {
		rr := r.fork()
		var ops []string
		t0 := int64(rr.intn(1000)) * vSec
		now := t0
		addr := rr.pick(vC17Addrs)
		act := rr.pick(vC17Actions)
		for j := 0; j < 1+rr.intn(3); j++ {
			ops = append(ops, fmt.Sprintf("attempt %d %s %s 1", now, vAddrToken(addr), vEnc(act)))
			now += int64(rr.intn(3)) * vSec
		}
		last := now
		if rr.chance(1, 3) {
			// some younger records in between
			now = t0 + int64(1+rr.intn(11))*vHour
			for j := 0; j < 1+rr.intn(4); j++ {
				ops = append(ops, fmt.Sprintf("attempt %d %s %s 1", now, vAddrToken(addr), vEnc(act)))
				now += int64(rr.intn(3)) * vSec
			}
		}
		// let through shortly before the first record expires, failing shortly after the last old one did
		delta := int64(1+rr.intn(60)) * vSec
		start := t0 + 12*vHour - delta
		if start < now {
			start = now
		}
		dt := last + 12*vHour + int64(1+rr.intn(30))*vSec - start
		mode := []int{1, 1, 1, 2, 2, 0}[rr.intn(6)]
		ops = append(ops, fmt.Sprintf("par %d %s %s %d %d %d %d", start, vAddrToken(addr), vEnc(act), 2+rr.intn(8), mode, 1+rr.intn(4), dt))
		now = start + dt
		for j := 0; j < rr.intn(4); j++ {
			now += int64(rr.intn(5)) * vSec
			if rr.chance(1, 2) {
				ops = append(ops, fmt.Sprintf("attempt %d %s %s %d", now, vAddrToken(addr), vEnc(act), rr.intn(2)))
			} else {
				op := vC17Par(rr, now, addr, act, true)
				ops = append(ops, op)
				now += vC17ParDt(op)
			}
		}
		scripted = append([]vCase{{Ops: ops, Tags: []string{"window"}}}, scripted...)
	}
	// the call sites: attempts arriving at the real handlers (zz_verif_c17_sites_test.go)
	scripted = append(scripted, vC17SiteGen(e, r)...)
	cases = append(scripted, cases...)
	// key sharing of getThrottleIp, all pairs of the address pool
	var ops []string
	for _, a := range vC17Addrs {
		for _, b := range vC17Addrs {
			ops = append(ops, fmt.Sprintf("keyeq %s %s", vAddrToken(a), vAddrToken(b)))
		}
	}
	cases = append(cases, vCase{Ops: ops, Tags: []string{"keyeq"}})
	return cases
}

// vC17Par: "par <now> <addr> <action> <n> <mode> <m> <dt>" — n connections of one address pass the check at
// <now>, then (at <now>+<dt>) their failures are recorded by n goroutines at once, while m further
// connections of that address are being checked.  mode = how the goroutines are let loose: 0 a closed
// channel, 1 / 2 they pile up at the throttler's mutex, which the harness holds for writing / for reading
// until all have arrived.  Observed at rest, at <now>+<dt>.
func vC17Par(rr *vRand, now int64, addr, act string, late bool) string {
	n := 2 + rr.intn(5)
	switch rr.intn(6) {
	case 0:
		n = 10
	case 1:
		n = 8 + rr.intn(10)
	}
	m := rr.intn(2) * rr.intn(4)
	dt := int64(0)
	if rr.chance(1, 3) && (late || m == 0) {
		switch rr.intn(4) {
		case 0:
			dt = int64(rr.intn(5000)) * int64(time.Millisecond)
		case 1:
			dt = 30*vMin - 2*vSec + int64(rr.intn(5))*vSec
		case 2:
			dt = 12*vHour - 2*vSec + int64(rr.intn(5))*vSec
		default:
			dt = int64(rr.intn(90)) * vMin
		}
	}
	return fmt.Sprintf("par %d %s %s %d %d %d %d", now, vAddrToken(addr), vEnc(act), n, rr.intn(3), m, dt)
}

func vC17ParDt(op string) int64 {
	f := strings.Fields(op)
	dt, _ := strconv.ParseInt(f[len(f)-1], 10, 64)
	return dt
}

func vC17List(pfx string, xs []int64) string {
	if len(xs) == 0 {
		return pfx + "-"
	}
	q := make([]string, len(xs))
	for i, x := range xs {
		q[i] = strconv.FormatInt(x, 10)
	}
	return pfx + strings.Join(q, ",")
}

func vC17Exec(t *testing.T, c *vCase) {
	var now time.Time
	var lastDelay time.Duration
	delayed := false
	var delayMu sync.Mutex
	var delays []int64
	th := &memoryThrottler{
		getNow:  func() time.Time { return now },
		clients: make(map[string]map[string][]throttleEntry),
		closer:  NewCloser(),
	}
	th.doDelay = func(ctx context.Context, d time.Duration) {
		delayMu.Lock()
		defer delayMu.Unlock()
		lastDelay = d
		delayed = true
		delays = append(delays, int64(d))
	}
	ctx := context.Background()
	// the hub and backend server whose handlers the `site` ops go through (made when the first one comes)
	var world *vC17World
	defer func() {
		if world != nil {
			world.close()
		}
	}()
	for _, line := range c.Ops {
		f := strings.Fields(line)
		out := "bad-op"
		switch f[0] {
		case "site":
			if len(f) != 5 {
				break
			}
			ns, _ := strconv.ParseInt(f[1], 10, 64)
			now = vC17Base.Add(time.Duration(ns))
			if world == nil {
				var err error
				if world, err = newVC17World(th); err != nil {
					panic(err)
				}
			}
			delayMu.Lock()
			delayed = false
			delayMu.Unlock()
			ans := world.attempt(vDec(f[3]), vAddrFromToken(f[2]), f[4])
			delayMu.Lock()
			switch {
			case ans == "http:429" || ans == "error:too_many_requests":
				out = "refused " + ans
			case delayed:
				out = fmt.Sprintf("delayed %d %s", int64(lastDelay), ans)
			default:
				out = "passed " + ans
			}
			delayMu.Unlock()
		case "attempt":
			ns, _ := strconv.ParseInt(f[1], 10, 64)
			now = vC17Base.Add(time.Duration(ns))
			addr := vAddrFromToken(f[2])
			act := vDec(f[3])
			fn, err := th.CheckBruteforce(ctx, addr, act)
			if err != nil {
				out = "refused"
			} else if f[4] == "1" {
				delayed = false
				fn(ctx)
				if delayed {
					out = fmt.Sprintf("delayed %d", int64(lastDelay))
				} else {
					out = "passed"
				}
			} else {
				out = "passed"
			}
		case "cleanup":
			ns, _ := strconv.ParseInt(f[1], 10, 64)
			th.cleanup(vC17Base.Add(time.Duration(ns)))
			out = "none"
		case "check":
			ns, _ := strconv.ParseInt(f[1], 10, 64)
			now = vC17Base.Add(time.Duration(ns))
			_, err := th.CheckBruteforce(ctx, vAddrFromToken(f[2]), vDec(f[3]))
			if err != nil {
				out = "refused"
			} else {
				out = "passed"
			}
		case "throttle":
			ns, _ := strconv.ParseInt(f[1], 10, 64)
			delayed = false
			th.throttle(ctx, vAddrFromToken(f[2]), vDec(f[3]), vC17Base.Add(time.Duration(ns)))
			if delayed {
				out = fmt.Sprintf("delayed %d", int64(lastDelay))
			} else {
				out = "none"
			}
		case "par":
			// Observed at rest only: whatever order the scheduler chose must give the same table.
			if len(f) != 8 {
				break
			}
			ns, _ := strconv.ParseInt(f[1], 10, 64)
			now = vC17Base.Add(time.Duration(ns))
			addr := vAddrFromToken(f[2])
			act := vDec(f[3])
			n, _ := strconv.Atoi(f[4])
			mode := f[5]
			m, _ := strconv.Atoi(f[6])
			dt, _ := strconv.ParseInt(f[7], 10, 64)
			loose := dt != 0 && f[6] != "0"
			var fns []ThrottleFunc
			for i := 0; i < n || i < 1; i++ {
				if fn, err := th.CheckBruteforce(ctx, addr, act); err == nil && i < n {
					fns = append(fns, fn)
				}
			}
			delays = nil
			// the failures happen (and the further checks are made) dt later
			now = now.Add(time.Duration(dt))
			var wg sync.WaitGroup
			var arrived atomic.Int32
			start := make(chan struct{})
			switch mode {
			case "1":
				th.mu.Lock()
			case "2":
				th.mu.RLock()
			}
			if len(fns) == 0 {
				m = 0
			}
			// a further connection is checked meanwhile (its outcome depends on the interleaving)
			check := func(context.Context) { th.CheckBruteforce(ctx, addr, act) } // nolint
			var jobs []ThrottleFunc
			for i, fn := range fns {
				if len(jobs)-i < m && i%2 == 0 {
					jobs = append(jobs, check)
				}
				jobs = append(jobs, fn)
			}
			for len(jobs) < len(fns)+m {
				jobs = append(jobs, check)
			}
			for _, job := range jobs {
				wg.Add(1)
				go func(job ThrottleFunc) {
					defer wg.Done()
					if mode != "1" && mode != "2" {
						<-start
					}
					arrived.Add(1)
					job(ctx)
				}(job)
			}
			if mode == "1" || mode == "2" {
				for arrived.Load() < int32(len(fns)+m) {
					runtime.Gosched()
				}
				// let them run into the mutex
				for i := 0; i < 20; i++ {
					runtime.Gosched()
				}
				time.Sleep(50 * time.Microsecond)
				if mode == "1" {
					th.mu.Unlock()
				} else {
					th.mu.RUnlock()
				}
			} else {
				close(start)
			}
			wg.Wait()
			_, err := th.CheckBruteforce(ctx, addr, act)
			var recs []int64
			young := 0
			// records that expired are left out: whether they are still in the list depends on which of the
			// concurrent checks found the address blocked
			for _, en := range th.getEntries(addr, act) {
				if now.Sub(en.ts) <= 12*time.Hour {
					recs = append(recs, int64(en.ts.Sub(vC17Base)))
					young++
				}
			}
			delayMu.Lock()
			ds := append([]int64{}, delays...)
			delayMu.Unlock()
			sort.Slice(ds, func(i, j int) bool { return ds[i] < ds[j] })
			blocked := 0
			if err != nil {
				blocked = 1
			}
			dpfx := "d:"
			if loose {
				// which failure found how many earlier ones depends on when the old records were pruned
				dpfx = "D:"
			}
			out = fmt.Sprintf("rest %d %d %d %s %s", len(fns), young, blocked, vC17List(dpfx, ds), vC17List("r:", recs))
		case "keyeq":
			if getThrottleIp(vAddrFromToken(f[1])) == getThrottleIp(vAddrFromToken(f[2])) {
				out = "1"
			} else {
				out = "0"
			}
		}
		c.Impl = append(c.Impl, out)
	}
}

func TestVerifC17(t *testing.T) {
	vRun(t, vC17Gen, vC17Exec)
}
