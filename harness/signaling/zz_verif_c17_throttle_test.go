package signaling

import (
	"context"
	"encoding/hex"
	"fmt"
	"net"
	"strconv"
	"strings"
	"testing"
	"time"
)

// C17: memoryThrottler against Model/Throttle.lean.

var vC17Base = time.Date(2024, 1, 1, 0, 0, 0, 0, time.UTC)

// vAddrToken classifies an address string with the standard library only
// (independent of getThrottleIp).
func vAddrToken(s string) string {
	ip := net.ParseIP(s)
	if ip == nil || ip.To4() != nil {
		return "r:" + vEnc(s)
	}
	return "6:" + hex.EncodeToString(ip.To16()) + "/" + vEnc(s)
}

func vAddrFromToken(tok string) string {
	if strings.HasPrefix(tok, "r:") {
		return vDec(tok[2:])
	}
	if i := strings.IndexByte(tok, '/'); i >= 0 {
		return vDec(tok[i+1:])
	}
	return ""
}

var vC17Addrs = []string{
	"192.0.2.1", "192.0.2.2", "10.0.0.1",
	"2001:db8::1", "2001:db8::2", "2001:db8:0:0:ffff::1", // same /64
	"2001:db8:0:1::1", "2001:db8:1::1", "2001:db9::1", // other /64s
	"::ffff:192.0.2.1", "::1", "::", "fe80::1",
	"not-an-ip", "", "192.0.2.1:1234", "2001:db8::1%eth0", "001.2.3.4",
	"2001:db8::", "2001:0db8:0000:0000:0000:0000:0000:0001",
}

var vC17Actions = []string{"HelloResume", "HelloInternal", "BackendRoomAuth"}

const (
	vSec  = int64(time.Second)
	vMin  = int64(time.Minute)
	vHour = int64(time.Hour)
)

func vC17Gen(e *vEnv, r *vRand) []vCase {
	var cases []vCase
	n := e.scale(200, 3000)
	maxOps := e.scale(60, 200)
	for i := 0; i < n; i++ {
		rr := r.fork()
		var ops []string
		now := int64(rr.intn(1000)) * vSec
		// a small population so that keys collide and blocks happen
		na := 1 + rr.intn(4)
		addrs := make([]string, na)
		for j := range addrs {
			addrs[j] = rr.pick(vC17Addrs)
		}
		nact := 1 + rr.intn(3)
		nops := 5 + rr.intn(maxOps)
		nonMono := rr.chance(1, 10)
		twoPhase := rr.chance(1, 8)
		for len(ops) < nops {
			// advance the clock
			switch rr.intn(12) {
			case 0:
			case 1, 2, 3:
				now += int64(rr.intn(5000)) * int64(time.Millisecond)
			case 4, 5:
				now += int64(1+rr.intn(200)) * vSec
			case 6:
				now += 3*vMin - vSec + int64(rr.intn(3))*vSec
			case 7:
				now += 30*vMin - 2*vSec + int64(rr.intn(5))*vSec
			case 8:
				now += int64(rr.intn(40)) * vMin
			case 9:
				now += 12*vHour - 2*vSec + int64(rr.intn(5))*vSec
			case 10:
				now += int64(rr.intn(14)) * vHour
			case 11:
				if nonMono {
					now -= int64(rr.intn(100)) * vSec
				}
			}
			addr := addrs[rr.intn(na)]
			act := vC17Actions[rr.intn(nact)]
			switch k := rr.intn(20); {
			case k == 0:
				ops = append(ops, fmt.Sprintf("cleanup %d", now))
			case k == 1 && twoPhase:
				ops = append(ops, fmt.Sprintf("check %d %s %s", now, vAddrToken(addr), vEnc(act)))
			case k == 2 && twoPhase:
				ops = append(ops, fmt.Sprintf("throttle %d %s %s", now-int64(rr.intn(3))*vSec, vAddrToken(addr), vEnc(act)))
			case k < 6:
				// burst of failures from one address
				b := 1 + rr.intn(12)
				step := int64(rr.intn(4)) * vSec
				for j := 0; j < b; j++ {
					ops = append(ops, fmt.Sprintf("attempt %d %s %s 1", now, vAddrToken(addr), vEnc(act)))
					now += step
				}
			default:
				f := 1
				if rr.chance(1, 4) {
					f = 0
				}
				ops = append(ops, fmt.Sprintf("attempt %d %s %s %d", now, vAddrToken(addr), vEnc(act), f))
			}
		}
		cases = append(cases, vCase{Ops: ops})
	}
	// key sharing of getThrottleIp, all pairs of the address pool
	var ops []string
	for _, a := range vC17Addrs {
		for _, b := range vC17Addrs {
			ops = append(ops, fmt.Sprintf("keyeq %s %s", vAddrToken(a), vAddrToken(b)))
		}
	}
	cases = append(cases, vCase{Ops: ops, Tags: []string{"keyeq"}})
	return cases
}

func vC17Exec(t *testing.T, c *vCase) {
	var now time.Time
	var lastDelay time.Duration
	delayed := false
	th := &memoryThrottler{
		getNow:  func() time.Time { return now },
		clients: make(map[string]map[string][]throttleEntry),
		closer:  NewCloser(),
	}
	th.doDelay = func(ctx context.Context, d time.Duration) {
		lastDelay = d
		delayed = true
	}
	ctx := context.Background()
	for _, line := range c.Ops {
		f := strings.Fields(line)
		out := "bad-op"
		switch f[0] {
		case "attempt":
			ns, _ := strconv.ParseInt(f[1], 10, 64)
			now = vC17Base.Add(time.Duration(ns))
			addr := vAddrFromToken(f[2])
			act := vDec(f[3])
			fn, err := th.CheckBruteforce(ctx, addr, act)
			if err != nil {
				out = "refused"
			} else if f[4] == "1" {
				delayed = false
				fn(ctx)
				if delayed {
					out = fmt.Sprintf("delayed %d", int64(lastDelay))
				} else {
					out = "passed"
				}
			} else {
				out = "passed"
			}
		case "cleanup":
			ns, _ := strconv.ParseInt(f[1], 10, 64)
			th.cleanup(vC17Base.Add(time.Duration(ns)))
			out = "none"
		case "check":
			ns, _ := strconv.ParseInt(f[1], 10, 64)
			now = vC17Base.Add(time.Duration(ns))
			_, err := th.CheckBruteforce(ctx, vAddrFromToken(f[2]), vDec(f[3]))
			if err != nil {
				out = "refused"
			} else {
				out = "passed"
			}
		case "throttle":
			ns, _ := strconv.ParseInt(f[1], 10, 64)
			delayed = false
			th.throttle(ctx, vAddrFromToken(f[2]), vDec(f[3]), vC17Base.Add(time.Duration(ns)))
			if delayed {
				out = fmt.Sprintf("delayed %d", int64(lastDelay))
			} else {
				out = "none"
			}
		case "keyeq":
			if getThrottleIp(vAddrFromToken(f[1])) == getThrottleIp(vAddrFromToken(f[2])) {
				out = "1"
			} else {
				out = "0"
			}
		}
		c.Impl = append(c.Impl, out)
	}
}

func TestVerifC17(t *testing.T) {
	vRun(t, vC17Gen, vC17Exec)
}
