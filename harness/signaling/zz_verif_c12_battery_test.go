package signaling

// C12 harness, part 3: two deterministic batteries that run before the random cases.
//
// (1) Nested payloads.  The shape tables of ServerMessage.CheckValid end at the raw JSON members
//     (error.details, message.data, control.data, event.message.data); the handlers decode those themselves
//     and dispatch on string literals.  The battery reads the handlers' source (go/parser, at run time, from
//     the tree under test): every `json.Unmarshal(<raw member of the message>, &<local>)`, the type of the
//     local, every literal the handlers compare anything with, every string key they index a decoded map with.
//     For every decoded raw member it builds a full template of the target type from the struct declarations
//     (JSON tags) and sends every single-member variant of it (member absent, null, {}, wrong types, every
//     literal at every string leaf, the raw member itself of another JSON kind) inside an otherwise valid message,
//     for every literal the handlers compare the dispatching member with (error codes).
//
// (2) Connection faults at every point of the connect / hello / join / resume path: the handshake is run
//     round after round; in every round one fault is placed at a chosen point (the client's write fails while it
//     handles welcome / hello / room, the peer drops right after one of them), optionally with the remote server
//     down for a while so that messages of the local client are queued ("drop hold" … "up").  Every case ends
//     with the bounded-progress tail: a message of the local client, the liveness probe, and (every other case)
//     the expiry of the session, which must all complete.

import (
	"encoding/json"
	"fmt"
	"go/ast"
	"go/parser"
	"go/token"
	"reflect"
	"sort"
	"strconv"
	"strings"
	"testing"
)

// ---------- what the handlers do with peer-controlled values (read from the source) ----------

type vC12Decode struct {
	chain string // raw member of the received message, e.g. "Error.Details"
	typ   string // struct type it is decoded into; "" for a map
	fn    string
}

type vC12Vocab struct {
	rootLits  map[string][]string // member of the received message -> literals it is compared with
	localLits []string            // literals compared with values the handlers decoded / computed themselves
	keys      []string            // string keys used on decoded maps
	decodes   []vC12Decode
	structs   map[string]*ast.StructType
}

func vC12AddUnique(l []string, x string) []string {
	for _, y := range l {
		if y == x {
			return l
		}
	}
	return append(l, x)
}

// vC12Chain: selector chain `a.B.C` -> ("a", ["B","C"]).
func vC12Chain(e ast.Expr) (string, []string, bool) {
	switch x := e.(type) {
	case *ast.Ident:
		return x.Name, nil, true
	case *ast.ParenExpr:
		return vC12Chain(x.X)
	case *ast.SelectorExpr:
		if r, p, ok := vC12Chain(x.X); ok {
			return r, append(append([]string{}, p...), x.Sel.Name), true
		}
	}
	return "", nil, false
}

func vC12StrLit(e ast.Expr) (string, bool) {
	if bl, ok := e.(*ast.BasicLit); ok && bl.Kind == token.STRING {
		if s, err := strconv.Unquote(bl.Value); err == nil {
			return s, true
		}
	}
	return "", false
}

// vC12Reachable: the named functions of a file and what they call in the same file.
func vC12Reachable(f *ast.File, roots []string) []*ast.FuncDecl {
	byName := map[string][]*ast.FuncDecl{}
	for _, d := range f.Decls {
		if fd, ok := d.(*ast.FuncDecl); ok && fd.Body != nil {
			byName[fd.Name.Name] = append(byName[fd.Name.Name], fd)
		}
	}
	seen := map[string]bool{}
	var order []*ast.FuncDecl
	var visit func(string)
	visit = func(name string) {
		if seen[name] {
			return
		}
		seen[name] = true
		for _, fd := range byName[name] {
			order = append(order, fd)
			ast.Inspect(fd.Body, func(n ast.Node) bool {
				call, ok := n.(*ast.CallExpr)
				if !ok {
					return true
				}
				fun := call.Fun
				if ix, ok := fun.(*ast.IndexExpr); ok { // generic instantiation
					fun = ix.X
				}
				switch fn := fun.(type) {
				case *ast.Ident:
					if _, ok := byName[fn.Name]; ok {
						visit(fn.Name)
					}
				case *ast.SelectorExpr:
					if _, isId := fn.X.(*ast.Ident); isId {
						if _, ok := byName[fn.Sel.Name]; ok {
							visit(fn.Sel.Name)
						}
					}
				}
				return true
			})
		}
	}
	for _, r := range roots {
		visit(r)
	}
	return order
}

func vC12ReadVocab(t *testing.T) *vC12Vocab {
	v := &vC12Vocab{rootLits: map[string][]string{}, structs: map[string]*ast.StructType{}}
	fset := token.NewFileSet()
	parse := func(name string) *ast.File {
		f, err := parser.ParseFile(fset, name, nil, 0)
		if err != nil {
			t.Fatalf("C12 battery: cannot read %s of the tree under test: %v", name, err)
		}
		return f
	}
	api := parse("api_signaling.go")
	for _, d := range api.Decls {
		if gd, ok := d.(*ast.GenDecl); ok && gd.Tok == token.TYPE {
			for _, sp := range gd.Specs {
				ts := sp.(*ast.TypeSpec)
				if st, ok := ts.Type.(*ast.StructType); ok {
					v.structs[ts.Name.Name] = st
				}
			}
		}
	}
	var funcs []*ast.FuncDecl
	funcs = append(funcs, vC12Reachable(parse("federation.go"), []string{"processWelcome", "processHello", "processMessage"})...)
	funcs = append(funcs, vC12Reachable(parse("clientsession.go"), []string{"filterMessage"})...)
	if len(funcs) < 4 {
		t.Fatalf("C12 battery: handlers processWelcome / processHello / processMessage / filterMessage not found")
	}
	for _, fd := range funcs {
		root := ""
		for _, fl := range fd.Type.Params.List {
			if se, ok := fl.Type.(*ast.StarExpr); ok {
				if id, ok := se.X.(*ast.Ident); ok && id.Name == "ServerMessage" && len(fl.Names) == 1 {
					root = fl.Names[0].Name
				}
			}
		}
		vars := map[string]ast.Expr{}
		ast.Inspect(fd.Body, func(n ast.Node) bool {
			if vs, ok := n.(*ast.ValueSpec); ok && vs.Type != nil {
				for _, nm := range vs.Names {
					vars[nm.Name] = vs.Type
				}
			}
			return true
		})
		classify := func(other ast.Expr, lit string) {
			if r, p, ok := vC12Chain(other); ok && root != "" && r == root && len(p) > 0 {
				k := strings.Join(p, ".")
				v.rootLits[k] = vC12AddUnique(v.rootLits[k], lit)
				return
			}
			v.localLits = vC12AddUnique(v.localLits, lit)
		}
		ast.Inspect(fd.Body, func(n ast.Node) bool {
			switch x := n.(type) {
			case *ast.BinaryExpr:
				if x.Op == token.EQL || x.Op == token.NEQ {
					if l, ok := vC12StrLit(x.Y); ok {
						classify(x.X, l)
					} else if l, ok := vC12StrLit(x.X); ok {
						classify(x.Y, l)
					}
				}
			case *ast.SwitchStmt:
				if x.Tag != nil {
					for _, cc := range x.Body.List {
						for _, e := range cc.(*ast.CaseClause).List {
							if l, ok := vC12StrLit(e); ok {
								classify(x.Tag, l)
							}
						}
					}
				}
			case *ast.IndexExpr:
				if l, ok := vC12StrLit(x.Index); ok {
					v.keys = vC12AddUnique(v.keys, l)
				}
			case *ast.CallExpr:
				fun := x.Fun
				if ix, ok := fun.(*ast.IndexExpr); ok {
					fun = ix.X
				}
				if id, ok := fun.(*ast.Ident); ok && id.Name == "getStringMapEntry" && len(x.Args) == 2 {
					if l, ok := vC12StrLit(x.Args[1]); ok {
						v.keys = vC12AddUnique(v.keys, l)
					}
				}
				// json.Unmarshal(<root>.A.B, &local)
				if se, ok := fun.(*ast.SelectorExpr); ok && se.Sel.Name == "Unmarshal" && len(x.Args) == 2 {
					r, p, okc := vC12Chain(x.Args[0])
					ue, oku := x.Args[1].(*ast.UnaryExpr)
					if okc && oku && ue.Op == token.AND && root != "" && r == root && len(p) > 0 {
						typ := "?"
						if id, ok := ue.X.(*ast.Ident); ok {
							switch tt := vars[id.Name].(type) {
							case *ast.Ident:
								typ = tt.Name
							case *ast.MapType:
								typ = ""
							}
						}
						v.decodes = append(v.decodes, vC12Decode{chain: strings.Join(p, "."), typ: typ, fn: fd.Name.Name})
					}
				}
			}
			return true
		})
	}
	sort.Strings(v.localLits)
	sort.Strings(v.keys)
	return v
}

// template: a full JSON value for a Go type expression, built from the struct declarations.
func (v *vC12Vocab) template(typ ast.Expr, depth int) interface{} {
	switch t := typ.(type) {
	case *ast.StarExpr:
		return v.template(t.X, depth)
	case *ast.Ident:
		switch t.Name {
		case "string":
			return "s"
		case "bool":
			return true
		case "int", "int32", "int64", "uint", "uint32", "uint64", "float64":
			return 1
		}
		if st, ok := v.structs[t.Name]; ok && depth < 4 {
			obj := vC12Obj{}
			for _, fl := range st.Fields.List {
				if len(fl.Names) == 0 {
					if sub, ok := v.template(fl.Type, depth).(vC12Obj); ok { // embedded struct
						for k, x := range sub {
							obj[k] = x
						}
					}
					continue
				}
				name := fl.Names[0].Name
				if fl.Tag != nil {
					if tag, err := strconv.Unquote(fl.Tag.Value); err == nil {
						if j, ok := reflect.StructTag(tag).Lookup("json"); ok {
							if n := strings.Split(j, ",")[0]; n == "-" {
								continue
							} else if n != "" {
								name = n
							}
						}
					}
				}
				obj[name] = v.template(fl.Type, depth+1)
			}
			return obj
		}
		return "s"
	case *ast.MapType:
		return v.mapTemplate()
	case *ast.ArrayType:
		return []interface{}{v.template(t.Elt, depth+1)}
	case *ast.SelectorExpr:
		if t.Sel.Name == "RawMessage" {
			return vC12Obj{"x": 1}
		}
		return "s"
	}
	return "v"
}

func (v *vC12Vocab) mapTemplate() interface{} {
	obj := vC12Obj{}
	for _, k := range v.keys {
		obj[k] = "v"
	}
	if len(obj) == 0 {
		obj["k"] = "v"
	}
	return obj
}

// vC12SetPath returns a copy of doc with the member at path removed / replaced.
func vC12SetPath(doc interface{}, path []interface{}, del bool, repl interface{}) interface{} {
	doc = vC12Normalize(doc)
	var apply func(v interface{}, p []interface{}) interface{}
	apply = func(v interface{}, p []interface{}) interface{} {
		switch x := v.(type) {
		case map[string]interface{}:
			key := p[0].(string)
			if len(p) == 1 {
				if del {
					delete(x, key)
				} else {
					x[key] = repl
				}
			} else {
				x[key] = apply(x[key], p[1:])
			}
			return x
		case []interface{}:
			idx := p[0].(int)
			if len(p) == 1 {
				if del {
					return append(x[:idx], x[idx+1:]...)
				}
				x[idx] = repl
			} else {
				x[idx] = apply(x[idx], p[1:])
			}
			return x
		}
		return v
	}
	return apply(doc, path)
}

func vC12AtPath(doc interface{}, path []interface{}) interface{} {
	cur := doc
	for _, p := range path {
		switch x := cur.(type) {
		case map[string]interface{}:
			cur = x[p.(string)]
		case []interface{}:
			cur = x[p.(int)]
		default:
			return nil
		}
	}
	return cur
}

// vC12Variants: the template, every single-member variant of it, and the value itself as another JSON kind.
// core: the variants a well-formed-but-incomplete document has (member absent / null / empty object); the
// wrong-type variants are thinned out in the quick tier.
func vC12Variants(tpl interface{}, lits []string, keep func(i int) bool) []string {
	base := vC12Normalize(tpl)
	seen := map[string]bool{}
	var out []string
	add := func(v interface{}) {
		s := vC12JSON(v)
		if !seen[s] {
			seen[s] = true
			out = append(out, s)
		}
	}
	add(base)
	var paths [][]interface{}
	vC12Paths(base, nil, &paths)
	n := 0
	for _, p := range paths {
		add(vC12SetPath(base, p, true, nil))
		add(vC12SetPath(base, p, false, nil))
		add(vC12SetPath(base, p, false, map[string]interface{}{}))
		for _, w := range []interface{}{5, "x", []interface{}{}, []interface{}{nil}, true} {
			n++
			if keep(n) {
				add(vC12SetPath(base, p, false, w))
			}
		}
		if _, isStr := vC12AtPath(base, p).(string); isStr {
			for _, l := range lits {
				add(vC12SetPath(base, p, false, l))
			}
		}
	}
	for _, w := range []interface{}{nil, map[string]interface{}{}, "x", 5, []interface{}{}, []interface{}{nil}} {
		add(w)
	}
	return out
}

const vC12Absent = "\x00absent"

// vC12Enclose: the otherwise valid messages around one value of a raw member.
func (v *vC12Vocab) enclose(chain string, raw string, id string) []string {
	member := func(obj vC12Obj, key string) {
		if raw != vC12Absent {
			obj[key] = json.RawMessage(raw)
		}
	}
	withId := func(m vC12Obj) string {
		if id != "" {
			m["id"] = id
		}
		return vC12JSON(m)
	}
	party := func(sid string) vC12Obj { return vC12Obj{"type": "session", "sessionid": sid} }
	switch chain {
	case "Error.Details":
		var res []string
		codes := append([]string{}, v.rootLits["Error.Code"]...)
		codes = append(codes, "zz_other")
		for _, code := range codes {
			e := vC12Obj{"code": code, "message": "m"}
			member(e, "details")
			res = append(res, withId(vC12Obj{"type": "error", "error": e}))
		}
		return res
	case "Message.Data", "Control.Data":
		typ := strings.ToLower(strings.Split(chain, ".")[0])
		b := vC12Obj{"sender": party(vC12RemoteSid), "recipient": party("@LSID@")}
		member(b, "data")
		return []string{withId(vC12Obj{"type": typ, typ: b})}
	case "Event.Message.Data":
		var res []string
		for _, target := range []string{"room", "participants"} {
			m := vC12Obj{"roomid": vC12RemoteRoom}
			member(m, "data")
			res = append(res, withId(vC12Obj{"type": "event", "event": vC12Obj{"target": target, "type": "message", "message": m}}))
		}
		return res
	}
	return nil
}

func vC12NestedBattery(t *testing.T, e *vEnv, welcome string, hello func(int) string, room func(bool) string) []vCase {
	v := vC12ReadVocab(t)
	if len(v.rootLits["Error.Code"]) == 0 || len(v.decodes) == 0 {
		t.Fatalf("C12 battery: no error codes / no decoded raw members found in the handlers (vocabulary %+v)", v.rootLits)
	}
	quick := !e.thorough()
	keep := func(i int) bool { return !quick || (i+int(e.seed))%3 == 0 }
	lits := append([]string{}, v.localLits...)
	for _, l := range v.rootLits["Error.Code"] {
		lits = vC12AddUnique(lits, l)
	}
	var cases []vCase
	type stream struct {
		hide bool
		docs []string
	}
	streams := map[string]*stream{}
	var order []string
	var errDetails []string
	doneTpl := map[string]bool{}
	for _, d := range v.decodes {
		if d.typ == "?" {
			t.Fatalf("C12 battery: %s decodes message member %s into a value whose type was not found", d.fn, d.chain)
		}
		if v.enclose(d.chain, "{}", "") == nil {
			t.Fatalf("C12 battery: %s decodes the raw member %s of the received message, which the battery does not know how to "+
				"wrap into a message (extend vC12Vocab.enclose)", d.fn, d.chain)
		}
		if doneTpl[d.chain+"\x00"+d.typ] {
			continue
		}
		doneTpl[d.chain+"\x00"+d.typ] = true
		var tpl interface{}
		if d.typ == "" {
			tpl = v.mapTemplate()
		} else {
			tpl = v.template(&ast.Ident{Name: d.typ}, 0)
		}
		vars := append([]string{vC12Absent}, vC12Variants(tpl, lits, keep)...)
		st := streams[d.chain]
		if st == nil {
			// filterMessage only looks into the payloads for sessions that must not see display names
			st = &stream{hide: d.chain != "Error.Details"}
			streams[d.chain] = st
			order = append(order, d.chain)
		}
		for _, raw := range vars {
			st.docs = append(st.docs, v.enclose(d.chain, raw, "")...)
			if d.chain == "Error.Details" {
				errDetails = append(errDetails, raw)
			}
		}
	}
	const chunk = 24
	for _, chain := range order {
		st := streams[chain]
		hides := []bool{st.hide}
		if !quick {
			hides = []bool{true, false}
		}
		rids := []bool{true}
		if !quick {
			rids = []bool{true, false}
		}
		for _, hide := range hides {
			for _, rid := range rids {
				for i := 0; i < len(st.docs); i += chunk {
					ops := []string{fmt.Sprintf("start rid=%s hide=%s feat=1", vC12B(rid), vC12B(hide)),
						vC12PeerOp("peer", welcome), vC12PeerOp("peer", hello(1)), vC12PeerOp("peer", room(rid))}
					for _, doc := range st.docs[i:min(i+chunk, len(st.docs))] {
						ops = append(ops, vC12PeerOp("peer", doc))
					}
					ops = append(ops, "probe")
					cases = append(cases, vCase{Ops: ops, Tags: []string{"battery", "nested:" + chain}})
				}
			}
		}
	}
	// the same error documents as the answer to the client's hello (fresh, and resuming after a drop)
	n := 0
	for _, raw := range errDetails {
		n++
		if quick && n%4 != int(e.seed)%4 && n > 4 {
			continue
		}
		for _, doc := range v.enclose("Error.Details", raw, "@HID1@") {
			cases = append(cases, vCase{Ops: []string{"start rid=1 hide=0 feat=1", vC12PeerOp("peer", welcome), vC12PeerOp("peer", doc),
				vC12PeerOp("peer", welcome), vC12PeerOp("peer", hello(2)), "probe"}, Tags: []string{"battery", "nested:hello-error"}})
		}
		if quick && n > 4 {
			continue
		}
		for _, doc := range v.enclose("Error.Details", raw, "@HID2@") {
			cases = append(cases, vCase{Ops: []string{"start rid=1 hide=0 feat=1", vC12PeerOp("peer", welcome), vC12PeerOp("peer", hello(1)),
				vC12PeerOp("peer", room(true)), "drop tcp", vC12PeerOp("peer", welcome), vC12PeerOp("peer", doc),
				vC12PeerOp("peer", hello(3)), vC12PeerOp("peer", room(true)), "probe"}, Tags: []string{"battery", "nested:resume-error"}})
		}
	}
	return cases
}

// ---------- connection faults at every point of the handshake ----------

// One round of the handshake on a fresh connection: welcome, hello, room.  fault: "" none, "wfW"/"wfH"/"wfR" the
// client's write fails while it handles that message (and the connection is gone), "dropW"/"dropH" the peer
// drops right after it.  n counts the hellos the peer has seen (the @HIDn@ of the next hello answer).
func vC12Round(fault string, n *int, welcome string, hello func(int) string, room string) (ops []string, broken bool) {
	kind := func(f string) string {
		if fault == f {
			return "peerwf"
		}
		return "peer"
	}
	ops = append(ops, vC12PeerOp(kind("wfW"), welcome))
	if fault == "wfW" {
		return ops, true // the hello never reached the peer
	}
	*n++
	if fault == "dropW" {
		return append(ops, "drop tcp"), true
	}
	ops = append(ops, vC12PeerOp(kind("wfH"), hello(*n)))
	if fault == "wfH" {
		return ops, true
	}
	if fault == "dropH" {
		return append(ops, "drop tcp"), true
	}
	ops = append(ops, vC12PeerOp(kind("wfR"), room))
	return ops, fault == "wfR"
}

var vC12Faults = []string{"", "wfW", "wfH", "wfR", "dropW", "dropH"}

func vC12FaultBattery(e *vEnv, r *vRand, welcome string, hello func(int) string, room func(bool) string) []vCase {
	var cases []vCase
	quick := !e.thorough()
	idx := 0
	for _, f1 := range vC12Faults {
		for _, sep := range []string{"plain", "holdq"} {
			for _, f2 := range vC12Faults {
				idx++
				// the rounds after an undisturbed join are always run; of the others a third per seed in the quick tier
				if quick && f1 != "" && (idx+int(e.seed))%3 != 0 {
					continue
				}
				rid := idx%2 == 0
				n := 0
				ops := []string{fmt.Sprintf("start rid=%s hide=0 feat=1", vC12B(rid))}
				o, broken := vC12Round(f1, &n, welcome, hello, room(rid))
				ops = append(ops, o...)
				if sep == "holdq" {
					// the remote server goes away for a while; what the local client sends meanwhile is queued
					ops = append(ops, "drop hold", "local msg", "local msg", "up")
				} else if !broken {
					ops = append(ops, "drop tcp")
				}
				o, broken = vC12Round(f2, &n, welcome, hello, room(rid))
				ops = append(ops, o...)
				if broken {
					o, _ = vC12Round("", &n, welcome, hello, room(rid))
					ops = append(ops, o...)
				}
				// bounded progress: a message of the local client, the probe and the end of the session complete
				ops = append(ops, "local msg", "probe")
				if idx%2 == 1 {
					ops = append(ops, "expire")
				}
				cases = append(cases, vCase{Ops: ops, Tags: []string{"battery", "faults:" + f1 + "/" + sep + "/" + f2}})
			}
		}
	}
	_ = r
	return cases
}
