package signaling

// C10 harness, part 1: a real Hub + BackendServer behind an httptest server, an
// own fake Nextcloud backend (no dependency on the t.Name()-keyed helpers of
// hub_test.go), real websocket clients, barriers that make "nothing was sent"
// observable, and a digest of the hub tables.

import (
	"bytes"
	"context"
	"crypto/ed25519"
	"crypto/hmac"
	"crypto/sha256"
	"crypto/x509"
	"encoding/hex"
	"encoding/pem"
	"encoding/json"
	"fmt"
	"io"
	"net/http"
	"net/http/httptest"
	"net/url"
	"os"
	"runtime"
	"sort"
	"strconv"
	"strings"
	"sync"
	"sync/atomic"
	"testing"
	"time"

	"github.com/dlintw/goconf"
	"github.com/golang-jwt/jwt/v5"
	"github.com/gorilla/mux"
	"github.com/gorilla/websocket"
)

const (
	vC10Room        = "vroom"
	vC10BackendKey  = "verif-backend-secret"
	vC10InternalKey = "verif-internal-secret"
	vC10SyncKey     = "zz-sync"
	vC10SyncSender  = "vsync"
)

// ---------- fake Nextcloud backend ----------

// vC10AuthDecision is the fake backend's decision on the "params" of a v1
// hello: (accepted, user id).  The generator uses the same function to tell
// the model what the external party answers.
func vC10AuthDecision(params json.RawMessage) (bool, string) {
	var p struct {
		UserId *string `json:"userid"`
	}
	if len(params) == 0 || json.Unmarshal(params, &p) != nil || p.UserId == nil {
		return false, ""
	}
	if strings.HasPrefix(*p.UserId, "deny") {
		return false, ""
	}
	return true, *p.UserId
}

func vC10WriteOcs(w http.ResponseWriter, payload interface{}) {
	data, _ := json.Marshal(payload)
	var ocs OcsResponse
	ocs.Ocs = &OcsBody{
		Meta: OcsMeta{Status: "ok", StatusCode: http.StatusOK, Message: "OK"},
		Data: data,
	}
	out, _ := json.Marshal(ocs)
	w.Header().Set("Content-Type", "application/json")
	w.WriteHeader(http.StatusOK)
	w.Write(out) // nolint
}

func vC10BackendHandler(w http.ResponseWriter, r *http.Request) {
	body, _ := io.ReadAll(r.Body)
	var request BackendClientRequest
	if err := json.Unmarshal(body, &request); err != nil {
		http.Error(w, "bad request", http.StatusBadRequest)
		return
	}
	var response *BackendClientResponse
	switch request.Type {
	case "auth":
		var params json.RawMessage
		if request.Auth != nil {
			params = request.Auth.Params
		}
		ok, user := vC10AuthDecision(params)
		if !ok {
			response = &BackendClientResponse{Type: "error", Error: &Error{Code: "auth_rejected", Message: "rejected by fake backend"}}
		} else {
			ud, _ := json.Marshal(map[string]string{"displayname": "Name " + user})
			response = &BackendClientResponse{Type: "auth", Auth: &BackendClientAuthResponse{Version: BackendVersion, UserId: user, User: ud}}
		}
	case "room":
		if request.Room == nil {
			http.Error(w, "bad request", http.StatusBadRequest)
			return
		}
		if request.Room.Action == "leave" {
			response = &BackendClientResponse{Type: "room", Room: &BackendClientRoomResponse{Version: BackendVersion, RoomId: request.Room.RoomId}}
			break
		}
		if strings.HasPrefix(request.Room.RoomId, "deny") {
			response = &BackendClientResponse{Type: "error", Error: &Error{Code: "no_such_room", Message: "not invited"}}
			break
		}
		response = &BackendClientResponse{Type: "room", Room: &BackendClientRoomResponse{
			Version: BackendVersion, RoomId: request.Room.RoomId, Properties: json.RawMessage(`{"p":1}`)}}
		if strings.HasPrefix(request.Room.UserId, "restricted") {
			perms := []Permission{}
			response.Room.Permissions = &perms
		}
		if request.Room.UserId == "bystander" && vC10HideNames.Load() {
			// everything a session has without a list, plus `hide-displaynames`: the recipient's
			// side then decodes the payload of forwarded messages (filterMessage)
			perms := []Permission{PERMISSION_MAY_PUBLISH_MEDIA, PERMISSION_MAY_PUBLISH_AUDIO, PERMISSION_MAY_PUBLISH_VIDEO,
				PERMISSION_MAY_PUBLISH_SCREEN, PERMISSION_MAY_CONTROL, PERMISSION_TRANSIENT_DATA, PERMISSION_HIDE_DISPLAYNAMES}
			response.Room.Permissions = &perms
		}
	case "session":
		rid := ""
		if request.Session != nil {
			rid = request.Session.RoomId
		}
		response = &BackendClientResponse{Type: "session", Session: &BackendClientSessionResponse{Version: BackendVersion, RoomId: rid}}
	case "ping":
		rid := ""
		if request.Ping != nil {
			rid = request.Ping.RoomId
		}
		response = &BackendClientResponse{Type: "ping", Ping: &BackendClientRingResponse{Version: BackendVersion, RoomId: rid}}
	default:
		http.Error(w, "unsupported", http.StatusBadRequest)
		return
	}
	if r.Header.Get("OCS-APIRequest") != "" {
		vC10WriteOcs(w, response)
		return
	}
	data, _ := json.Marshal(response)
	w.Header().Set("Content-Type", "application/json")
	w.WriteHeader(http.StatusOK)
	w.Write(data) // nolint
}

// vC10HideNames: the fake backend grants the bystander `hide-displaynames` (world flag `h`; worlds run
// one after the other).
var vC10HideNames atomic.Bool

// key pair of the fake Nextcloud instances for hello v2 / federation tokens
// (fixed seed: setup material, not an input of a case)
var vC10TokenKey = ed25519.NewKeyFromSeed([]byte("verif-c10-federation-token-seed!"))

func vC10PublicKeyPem() string {
	der, err := x509.MarshalPKIXPublicKey(vC10TokenKey.Public())
	if err != nil {
		panic(err)
	}
	return string(pem.EncodeToMemory(&pem.Block{Type: "PUBLIC KEY", Bytes: der}))
}

func vC10FederationToken(issuer, userid string) string {
	ud, _ := json.Marshal(map[string]string{"displayname": "Federated " + userid})
	now := time.Now()
	claims := &FederationTokenClaims{
		RegisteredClaims: jwt.RegisteredClaims{Issuer: issuer, Subject: userid,
			IssuedAt: jwt.NewNumericDate(now.Add(-time.Minute)), ExpiresAt: jwt.NewNumericDate(now.Add(time.Hour))},
		UserData: ud,
	}
	tok, err := jwt.NewWithClaims(jwt.SigningMethodEdDSA, claims).SignedString(vC10TokenKey)
	if err != nil {
		panic(err)
	}
	return tok
}

func vC10CapabilitiesHandler(w http.ResponseWriter, r *http.Request) {
	spreed, _ := json.Marshal(map[string]interface{}{
		"features": []string{"foo", "federation-v2"},
		"config": map[string]interface{}{"signaling": map[string]interface{}{"foo": "bar",
			ConfigKeyHelloV2TokenKey: vC10PublicKeyPem()}},
	})
	vC10WriteOcs(w, &CapabilitiesResponse{
		Version:      CapabilitiesVersion{Major: 20},
		Capabilities: map[string]json.RawMessage{"spreed": spreed},
	})
}

// ---------- throttler stub (throttling is C17's subject) ----------

type vC10NoThrottle struct{}

func (vC10NoThrottle) Close() {}
func (vC10NoThrottle) CheckBruteforce(ctx context.Context, client string, action string) (ThrottleFunc, error) {
	return func(ctx context.Context) {}, nil
}

// ---------- websocket connection with a reader goroutine ----------

type vC10Frame struct {
	data []byte
	err  error
}

type vC10Conn struct {
	ws   *websocket.Conn
	rem  *vC10Remote // instead of ws: a connection that reaches the hub the way a proxied one does
	ch   chan vC10Frame
	dead bool
	pub  string
	priv string
	user string
	wmu  sync.Mutex
}

func vC10Dial(serverURL string) (*vC10Conn, error) {
	u := "ws" + strings.TrimPrefix(serverURL, "http") + "/spreed"
	d := websocket.Dialer{HandshakeTimeout: 5 * time.Second}
	ws, _, err := d.Dial(u, nil)
	if err != nil {
		return nil, err
	}
	c := &vC10Conn{ws: ws, ch: make(chan vC10Frame, 1024)}
	go func() {
		for {
			_, data, err := ws.ReadMessage()
			if err != nil {
				c.ch <- vC10Frame{err: err}
				return
			}
			c.ch <- vC10Frame{data: data}
		}
	}()
	return c, nil
}

func (c *vC10Conn) send(mt int, data []byte) error {
	c.wmu.Lock()
	defer c.wmu.Unlock()
	if c.rem != nil {
		return c.rem.deliver(data)
	}
	c.ws.SetWriteDeadline(time.Now().Add(5 * time.Second)) // nolint
	return c.ws.WriteMessage(mt, data)
}

func (c *vC10Conn) sendJSON(v interface{}) error {
	data, err := json.Marshal(v)
	if err != nil {
		return err
	}
	return c.send(websocket.TextMessage, data)
}

func (c *vC10Conn) close() {
	if c == nil {
		return
	}
	if c.rem != nil {
		c.rem.Close()
		return
	}
	c.ws.Close()
}

// vC10Remote is a HandlerClient that is not a *Client: the hub sees a connection of this kind when another
// node of the cluster proxies a websocket to it (remoteGrpcClient: frames that passed the other node's
// ReadPump arrive through Hub.OnMessageReceived, replies are queued for the way back).  Frames are handed
// to the hub one after the other by a goroutine of the connection, replies appear on the vC10Conn's channel
// as the bytes the other node would write to the websocket.
type vC10Remote struct {
	hub     *Hub
	conn    *vC10Conn
	mu      sync.Mutex
	session Session
	closed  bool
	in      chan []byte
	done    chan struct{}
}

func vC10NewRemote(hub *Hub) *vC10Conn {
	c := &vC10Conn{ch: make(chan vC10Frame, 1024)}
	r := &vC10Remote{hub: hub, conn: c, in: make(chan []byte, 64), done: make(chan struct{})}
	c.rem = r
	go func() {
		for {
			select {
			case data := <-r.in:
				hub.OnMessageReceived(r, data)
			case <-r.done:
				return
			}
		}
	}()
	return c
}

func (r *vC10Remote) deliver(data []byte) error {
	select {
	case r.in <- append([]byte(nil), data...):
		return nil
	case <-r.done:
		return fmt.Errorf("closed")
	}
}

func (r *vC10Remote) Context() context.Context { return context.Background() }
func (r *vC10Remote) RemoteAddr() string       { return "192.0.2.1" }
func (r *vC10Remote) Country() string          { return "" }
func (r *vC10Remote) UserAgent() string        { return "verif-remote" }
func (r *vC10Remote) IsConnected() bool        { r.mu.Lock(); defer r.mu.Unlock(); return !r.closed }
func (r *vC10Remote) IsAuthenticated() bool    { return r.GetSession() != nil }
func (r *vC10Remote) GetSession() Session      { r.mu.Lock(); defer r.mu.Unlock(); return r.session }
func (r *vC10Remote) SetSession(s Session)     { r.mu.Lock(); defer r.mu.Unlock(); r.session = s }
func (r *vC10Remote) SendError(e *Error) bool  { return r.SendMessage(&ServerMessage{Type: "error", Error: e}) }
func (r *vC10Remote) SendByeResponse(message *ClientMessage) bool {
	return r.SendByeResponseWithReason(message, "")
}
func (r *vC10Remote) SendByeResponseWithReason(message *ClientMessage, reason string) bool {
	response := &ServerMessage{Type: "bye"}
	if message != nil {
		response.Id = message.Id
	}
	if reason != "" {
		response.Bye = &ByeServerMessage{Reason: reason}
	}
	return r.SendMessage(response)
}
func (r *vC10Remote) SendMessage(message WritableClientMessage) bool {
	data, err := message.MarshalJSON()
	if err != nil {
		return false
	}
	r.conn.ch <- vC10Frame{data: data}
	if message.CloseAfterSend(r.GetSession()) {
		r.Close()
	}
	return true
}
func (r *vC10Remote) Close() {
	r.mu.Lock()
	was := r.closed
	r.closed = true
	r.mu.Unlock()
	if !was {
		close(r.done)
		r.conn.ch <- vC10Frame{err: io.EOF}
		go r.hub.OnClosed(r)
	}
}

// vC10Kind names a server message: type plus the discriminating sub-type.  The
// name is read with a lenient decoder (members are only scanned, so e.g. a
// number outside the float64 range inside a payload does not matter); the full
// ServerMessage is returned if it decodes.
func vC10Kind(data []byte) (kind string, msg *ServerMessage) {
	var top struct {
		Type      string                            `json:"type"`
		Error     *struct{ Code string }            `json:"error"`
		Event     *struct{ Target, Type string }    `json:"event"`
		Transient *struct{ Type string }            `json:"transient"`
		Internal  *struct{ Type string }            `json:"internal"`
	}
	if !json.Valid(data) || json.Unmarshal(data, &top) != nil {
		return "malformed", nil
	}
	var m ServerMessage
	if err := m.UnmarshalJSON(data); err == nil {
		msg = &m
	} else {
		msg = &ServerMessage{Type: top.Type}
	}
	switch top.Type {
	case "error":
		if top.Error == nil {
			return "malformed", msg
		}
		return "error:" + top.Error.Code, msg
	case "event":
		if top.Event == nil {
			return "malformed", msg
		}
		return "event." + top.Event.Target + "." + top.Event.Type, msg
	case "transient":
		if top.Transient == nil {
			return "malformed", msg
		}
		return "transient." + top.Transient.Type, msg
	case "internal":
		if top.Internal == nil {
			return "malformed", msg
		}
		return "internal." + top.Internal.Type, msg
	case "welcome", "hello", "bye", "room", "message", "control", "dialout":
		return top.Type, msg
	case "":
		return "malformed", msg
	}
	return "unknown:" + top.Type, msg
}

// isSync reports whether the message is one of the harness' own barrier markers
// and returns its number.
func vC10IsSync(m *ServerMessage) (int, string, bool) {
	if m == nil {
		return 0, "", false
	}
	if m.Type == "transient" && m.TransientData != nil && m.TransientData.Key == vC10SyncKey {
		if f, ok := m.TransientData.Value.(float64); ok {
			return int(f), "t", true
		}
		return -1, "t", true
	}
	if m.Type == "control" && m.Control != nil && m.Control.Sender != nil && m.Control.Sender.Type == vC10SyncSender {
		n, _ := strconv.Atoi(strings.Trim(string(m.Control.Data), `"`))
		return n, m.Control.Sender.SessionId, true
	}
	return 0, "", false
}

// ---------- world ----------

type vC10World struct {
	t       *testing.T
	hub     *Hub
	server  *httptest.Server
	events  AsyncEvents
	backend *Backend
	mcu     bool
	janus   *vC10Janus // mcu=2: the real Janus client on a stand-in gateway
	mcuImpl Mcu

	by  *vC10Conn
	snd *vC10Conn

	// the bystander as a recipient (world flags `by=`: n = in no room, h = hide-displaynames, c = in the
	// call; ops `by drop` / `by resume`)
	byFlags    string
	bySess     *ClientSession
	byDetached bool
	bySeen     int      // queued messages (without barrier markers) already reported
	byQueued   []string // kinds queued since the connection was dropped

	state string
	syncN int

	// pending dialout
	pendingId   string
	pendingDone chan int

	// federation target
	hub2    *Hub
	server2 *httptest.Server
	events2 AsyncEvents

	lastKinds map[string]bool
}

func vC10NewHub(t *testing.T, mcu int) (*Hub, *httptest.Server, AsyncEvents, error) {
	r := mux.NewRouter()
	r.HandleFunc("/", vC10BackendHandler)
	r.HandleFunc("/ocs/v2.php/apps/spreed/api/v1/signaling/backend", vC10BackendHandler)
	r.HandleFunc("/ocs/v2.php/cloud/capabilities", vC10CapabilitiesHandler)
	server := httptest.NewServer(r)
	u, _ := url.Parse(server.URL)
	config := goconf.NewConfigFile()
	config.AddOption("backend", "backends", "b1")
	config.AddOption("b1", "url", server.URL)
	config.AddOption("b1", "secret", vC10BackendKey)
	if u.Scheme == "http" {
		config.AddOption("backend", "allowhttp", "true")
	}
	config.AddOption("sessions", "hashkey", "12345678901234567890123456789012")
	config.AddOption("sessions", "blockkey", "09876543210987654321098765432109")
	config.AddOption("clients", "internalsecret", vC10InternalKey)
	config.AddOption("geoip", "url", "none")
	events, err := NewAsyncEvents(NatsLoopbackUrl)
	if err != nil {
		server.Close()
		return nil, nil, nil, err
	}
	h, err := NewHub(config, events, nil, nil, nil, r, "verif")
	if err != nil {
		server.Close()
		return nil, nil, nil, err
	}
	h.throttler.Close()
	h.throttler = vC10NoThrottle{}
	b, err := NewBackendServer(config, h, "verif")
	if err != nil {
		server.Close()
		return nil, nil, nil, err
	}
	if err := b.Start(r); err != nil {
		server.Close()
		return nil, nil, nil, err
	}
	if mcu == 1 {
		m, err := NewTestMCU()
		if err != nil {
			server.Close()
			return nil, nil, nil, err
		}
		h.SetMcu(m)
	}
	go h.Run()
	return h, server, events, nil
}

func vC10NewWorld(t *testing.T, mcu int, byFlags string) (*vC10World, error) {
	vC10HideNames.Store(strings.Contains(byFlags, "h"))
	h, server, events, err := vC10NewHub(t, mcu)
	if err != nil {
		return nil, err
	}
	w := &vC10World{t: t, hub: h, server: server, events: events, mcu: mcu != 0, byFlags: byFlags}
	if mcu == 2 {
		// the real Janus client; every session may subscribe every stream (otherwise only the
		// "in the same call" states would get past the hub), requests for streams nobody
		// publishes give up quickly
		m, gw, err := vC10NewJanusMcu()
		if err != nil {
			w.close()
			return nil, err
		}
		w.janus, w.mcuImpl = gw, m
		h.allowSubscribeAnyStream = true
		h.mcuTimeout = vC10McuTimeout
		h.SetMcu(m)
	}
	u, _ := url.Parse(server.URL)
	w.backend = h.backend.GetBackend(u)
	if w.backend == nil {
		w.close()
		return nil, fmt.Errorf("backend not configured")
	}
	by, err := w.connectUser("bystander")
	if err != nil {
		w.close()
		return nil, err
	}
	w.by = by
	if !strings.Contains(byFlags, "n") {
		if err := w.join(by, vC10Room, "rs-by"); err != nil {
			w.close()
			return nil, err
		}
		w.barrier()
		if strings.Contains(byFlags, "c") {
			if err := w.bystanderInCall(); err != nil {
				w.close()
				return nil, err
			}
		}
	}
	w.barrier()
	if mcu == 2 {
		if err := w.publishBystander(); err != nil {
			w.close()
			return nil, err
		}
	}
	return w, nil
}

// bystanderInCall: the Nextcloud backend reports the bystander as being in the call of its room.
func (w *vC10World) bystanderInCall() error {
	sess, _ := w.connSession(w.by).(*ClientSession)
	if sess == nil {
		return fmt.Errorf("the bystander has no session")
	}
	entry := []map[string]interface{}{{"sessionId": w.by.pub, "inCall": 7}}
	err := w.events.PublishBackendRoomMessage(vC10Room, w.backend, &AsyncMessage{Type: "room", Room: &BackendServerRoomRequest{
		Type: "incall", ReceivedTime: time.Now().UnixNano(),
		InCall: &BackendRoomInCallRequest{InCall: json.RawMessage("7"), Changed: entry, Users: entry}}})
	if err != nil {
		return err
	}
	deadline := time.Now().Add(2 * time.Second)
	for time.Now().Before(deadline) {
		if room := sess.GetRoom(); room != nil && room.IsSessionInCall(sess) {
			return nil
		}
		time.Sleep(200 * time.Microsecond)
	}
	return fmt.Errorf("the bystander did not get into the call")
}

// dropBystander closes the bystander's connection without `bye`: its session stays (in its room, if
// any) and waits to be resumed; what is sent to it from now on is queued.
func (w *vC10World) dropBystander() error {
	if w.byDetached || w.by == nil || w.by.dead {
		return nil
	}
	sess, _ := w.connSession(w.by).(*ClientSession)
	if sess == nil {
		return fmt.Errorf("the bystander has no session")
	}
	w.by.ws.Close()
	deadline := time.Now().Add(2 * time.Second)
	for sess.GetClient() != nil {
		if time.Now().After(deadline) {
			return fmt.Errorf("the bystander's session keeps its client")
		}
		time.Sleep(200 * time.Microsecond)
	}
	for !w.by.dead {
		select {
		case f := <-w.by.ch:
			if f.err != nil {
				w.by.dead = true
			}
		case <-time.After(2 * time.Second):
			return fmt.Errorf("the bystander's connection does not end")
		}
	}
	w.bySess, w.byDetached, w.byQueued = sess, true, nil
	sess.mu.Lock()
	w.bySeen = len(sess.pendingClientMessages)
	sess.mu.Unlock()
	return nil
}

// resumeBystander connects again and resumes the session; everything that was queued must arrive
// (and, from the room, at most a participants update on top).
func (w *vC10World) resumeBystander() string {
	if !w.byDetached {
		return "ok"
	}
	c, err := w.connect()
	if err != nil {
		return "fail:" + vEnc(err.Error())
	}
	old := w.by
	err = w.hello(c, map[string]interface{}{"id": "h", "type": "hello", "hello": map[string]interface{}{"version": "1.0", "resumeid": old.priv}})
	if err != nil {
		c.close()
		return "fail:" + vEnc(err.Error())
	}
	if c.pub != old.pub {
		c.close()
		return "fail:resumed-another-session"
	}
	w.by, w.byDetached = c, false
	var got []string
	if !w.syncSession(c, &got) {
		return "fail:timeout-after-resume"
	}
	want := map[string]int{}
	for _, k := range w.byQueued {
		want[k]++
	}
	for _, k := range got {
		if want[k] > 0 {
			want[k]--
		} else if k != "event.participants.update" {
			return "lost:extra:" + vEnc(k)
		}
	}
	for k, n := range want {
		if n > 0 {
			return "lost:" + vEnc(k)
		}
	}
	w.byQueued, w.bySeen = nil, 0
	return "ok"
}

func vC10SyncNum(v interface{}) int {
	switch x := v.(type) {
	case int:
		return x
	case int64:
		return int(x)
	case float64:
		return int(x)
	case json.Number:
		n, _ := x.Int64()
		return int(n)
	}
	return -1
}

// vC10QueuedSync: is a queued message one of the harness' barrier markers?
func vC10QueuedSync(m *ServerMessage) (int, string, bool) {
	if m != nil && m.Type == "transient" && m.TransientData != nil && m.TransientData.Key == vC10SyncKey {
		return vC10SyncNum(m.TransientData.Value), "t", true
	}
	return vC10IsSync(m)
}

// syncDetached is syncSession for a bystander without connection: the markers end up in the queue of
// its session.  Reports the kinds of the messages queued since the last call and takes the markers out.
func (w *vC10World) syncDetached(kinds *[]string) bool {
	sess := w.bySess
	if sess == nil {
		return true
	}
	w.syncN++
	n := w.syncN
	waitFor := func(tags ...string) bool {
		deadline := time.Now().Add(5 * time.Second)
		for {
			seen := map[string]bool{}
			sess.mu.Lock()
			for _, pm := range sess.pendingClientMessages {
				if sn, tag, ok := vC10QueuedSync(pm); ok && sn == n {
					seen[tag] = true
				}
			}
			sess.mu.Unlock()
			all := true
			for _, t := range tags {
				all = all && seen[t]
			}
			if all {
				return true
			}
			if time.Now().After(deadline) {
				return false
			}
			time.Sleep(100 * time.Microsecond)
		}
	}
	room := sess.GetRoom()
	if room != nil {
		err := w.events.PublishBackendRoomMessage(room.Id(), w.backend, &AsyncMessage{Type: "room", Room: &BackendServerRoomRequest{
			Type: "transient", ReceivedTime: time.Now().UnixNano(),
			Transient: &BackendRoomTransientRequest{Action: TransientActionSet, Key: vC10SyncKey, Value: n}}})
		if err != nil || !waitFor("t") {
			return false
		}
	}
	data := json.RawMessage(strconv.Itoa(n))
	mk := func(tag string) *AsyncMessage {
		return &AsyncMessage{Type: "message", Message: &ServerMessage{Type: "control", Control: &ControlServerMessage{
			Sender: &MessageServerMessageSender{Type: vC10SyncSender, SessionId: tag}, Data: data}}}
	}
	tags := []string{"s"}
	if room != nil {
		tags = append(tags, "r")
		if err := w.events.PublishRoomMessage(room.Id(), w.backend, mk("r")); err != nil {
			return false
		}
	}
	if uid := sess.UserId(); uid != "" && !strings.ContainsAny(uid, " ") {
		tags = append(tags, "u")
		if err := w.events.PublishUserMessage(uid, w.backend, mk("u")); err != nil {
			return false
		}
	}
	if err := w.events.PublishSessionMessage(sess.PublicId(), w.backend, mk("s")); err != nil {
		return false
	}
	if !waitFor(tags...) {
		return false
	}
	sess.mu.Lock()
	var kept []*ServerMessage
	for _, pm := range sess.pendingClientMessages {
		if _, _, isSync := vC10QueuedSync(pm); !isSync {
			kept = append(kept, pm)
		}
	}
	sess.pendingClientMessages = kept
	fresh := append([]*ServerMessage(nil), kept[min(w.bySeen, len(kept)):]...)
	w.bySeen = len(kept)
	sess.mu.Unlock()
	for _, pm := range fresh {
		kind := "malformed"
		if data, err := pm.MarshalJSON(); err == nil {
			kind, _ = vC10Kind(data)
		}
		*kinds = append(*kinds, kind)
		w.byQueued = append(w.byQueued, kind)
	}
	return true
}

// publishBystander: the bystander publishes audio and video through the media
// server, so that there is a stream the sender can ask for.
func (w *vC10World) publishBystander() error {
	offer := map[string]interface{}{"type": "message", "message": map[string]interface{}{
		"recipient": map[string]interface{}{"type": "session", "sessionid": w.by.pub},
		"data": map[string]interface{}{"type": "offer", "roomType": "video",
			"payload": map[string]interface{}{"type": "offer", "sdp": MockSdpOfferAudioAndVideo}}}}
	if err := w.by.sendJSON(offer); err != nil {
		return err
	}
	var kinds []string
	got := false
	w.readUntil(w.by, &kinds, 5*time.Second, func(kind string, m *ServerMessage, sync bool, n int, tag string) bool {
		got = kind == "message"
		return got || strings.HasPrefix(kind, "error")
	})
	if !got {
		return fmt.Errorf("the bystander could not publish: %v", kinds)
	}
	w.barrier()
	return nil
}

func (w *vC10World) close() {
	if w.pendingDone != nil {
		w.finishDialout()
	}
	for _, c := range []*vC10Conn{w.snd, w.by} {
		if c != nil {
			c.send(websocket.TextMessage, []byte(`{"type":"bye","bye":{}}`)) // nolint
		}
	}
	time.Sleep(2 * time.Millisecond)
	w.snd.close()
	w.by.close()
	if w.mcuImpl != nil {
		if w.by != nil {
			w.settle(w.by.pub)
		}
		w.mcuImpl.Stop()
	}
	for _, h := range []*Hub{w.hub, w.hub2} {
		if h != nil {
			h.Stop()
		}
	}
	for _, s := range []*httptest.Server{w.server, w.server2} {
		if s != nil {
			// Close waits for running handlers (an abandoned dialout request takes 10 s)
			go func(s *httptest.Server) {
				s.CloseClientConnections()
				s.Close()
			}(s)
		}
	}
	for _, e := range []AsyncEvents{w.events, w.events2} {
		if e != nil {
			e.Close()
		}
	}
}

// readUntil collects kinds from c until pred says stop; barrier markers are
// dropped.  Returns false on timeout.
func (w *vC10World) readUntil(c *vC10Conn, kinds *[]string, timeout time.Duration, stop func(kind string, m *ServerMessage, sync bool, n int, tag string) bool) bool {
	if c == nil || c.dead {
		return true
	}
	timer := time.NewTimer(timeout)
	defer timer.Stop()
	for {
		select {
		case f := <-c.ch:
			if f.err != nil {
				c.dead = true
				*kinds = append(*kinds, "closed")
				return true
			}
			kind, m := vC10Kind(f.data)
			if kind == "hello" && m.Hello != nil {
				// a hostile hello that was accepted: the connection has a session now
				c.pub, c.priv, c.user = m.Hello.SessionId, m.Hello.ResumeId, m.Hello.UserId
			}
			n, tag, isSync := vC10IsSync(m)
			if stop(kind, m, isSync, n, tag) {
				return true
			}
			if !isSync {
				*kinds = append(*kinds, kind)
			}
		case <-timer.C:
			return false
		}
	}
}

func (w *vC10World) hello(c *vC10Conn, msg interface{}) error {
	if err := c.sendJSON(msg); err != nil {
		return err
	}
	deadline := time.After(5 * time.Second)
	for {
		select {
		case f := <-c.ch:
			if f.err != nil {
				return f.err
			}
			kind, m := vC10Kind(f.data)
			if kind == "hello" && m.Hello != nil {
				c.pub, c.priv, c.user = m.Hello.SessionId, m.Hello.ResumeId, m.Hello.UserId
				return nil
			}
			if strings.HasPrefix(kind, "error") {
				return fmt.Errorf("hello failed: %s", string(f.data))
			}
		case <-deadline:
			return fmt.Errorf("timeout waiting for hello")
		}
	}
}

func (w *vC10World) connect() (*vC10Conn, error) {
	c, err := vC10Dial(w.server.URL)
	if err != nil {
		return nil, err
	}
	// welcome
	select {
	case f := <-c.ch:
		if f.err != nil {
			return nil, f.err
		}
	case <-time.After(5 * time.Second):
		return nil, fmt.Errorf("no welcome")
	}
	return c, nil
}

func (w *vC10World) connectUser(userid string) (*vC10Conn, error) {
	c, err := w.connect()
	if err != nil {
		return nil, err
	}
	params, _ := json.Marshal(map[string]string{"userid": userid})
	err = w.hello(c, map[string]interface{}{"id": "h", "type": "hello", "hello": map[string]interface{}{
		"version": "1.0", "auth": map[string]interface{}{"url": w.server.URL, "params": json.RawMessage(params)}}})
	return c, err
}

func vC10InternalToken(random string) string {
	mac := hmac.New(sha256.New, []byte(vC10InternalKey))
	mac.Write([]byte(random)) // nolint
	return hex.EncodeToString(mac.Sum(nil))
}

const vC10Random = "0123456789abcdef0123456789abcdef"

func (w *vC10World) connectInternal(features []string) (*vC10Conn, error) {
	c, err := w.connect()
	if err != nil {
		return nil, err
	}
	err = w.hello(c, map[string]interface{}{"id": "h", "type": "hello", "hello": map[string]interface{}{
		"version": "1.0", "features": features, "auth": map[string]interface{}{"type": "internal",
			"params": map[string]string{"random": vC10Random, "token": vC10InternalToken(vC10Random), "backend": w.server.URL}}}})
	return c, err
}

func (w *vC10World) join(c *vC10Conn, room string, rsid string) error {
	if err := c.sendJSON(map[string]interface{}{"id": "j", "type": "room", "room": map[string]string{"roomid": room, "sessionid": rsid}}); err != nil {
		return err
	}
	deadline := time.After(5 * time.Second)
	for {
		select {
		case f := <-c.ch:
			if f.err != nil {
				return f.err
			}
			kind, m := vC10Kind(f.data)
			if kind == "room" && m.Id == "j" {
				// the session is added to the room after the reply was sent: a marker on the
				// connection is answered when that is done
				if err := c.send(websocket.TextMessage, []byte(`{"id":"vsync-join","type":"message","message":{"recipient":{"type":"vsync"},"data":1}}`)); err != nil {
					return err
				}
				continue
			}
			if kind == "error:invalid_format" && m.Id == "vsync-join" {
				return nil
			}
			if strings.HasPrefix(kind, "error") && m.Id == "j" {
				return fmt.Errorf("join failed: %s", string(f.data))
			}
		case <-deadline:
			return fmt.Errorf("timeout waiting for room")
		}
	}
}

// barrier makes everything caused so far observable.  For each of the two
// connections: a marker message on the connection itself (answered in order by
// the connection's message goroutine), then - if the connection has a session -
// a marker on the backend-room subject of its room (processed by the room's own
// goroutine behind everything queued there), then markers on the room, user
// and session subjects (behind everything published there).  Returns the kinds
// seen by sender and bystander.
func (w *vC10World) barrier() (snd []string, by []string, ok bool) {
	ok = true
	if w.snd != nil && !w.snd.dead {
		w.syncN++
		n := w.syncN
		id := "vsync-" + strconv.Itoa(n)
		msg := fmt.Sprintf(`{"id":%q,"type":"message","message":{"recipient":{"type":"vsync"},"data":1}}`, id)
		w.snd.send(websocket.TextMessage, []byte(msg)) // nolint (a dead connection is reported by the reader)
		if !w.readUntil(w.snd, &snd, 5*time.Second, func(kind string, m *ServerMessage, sync bool, sn int, tag string) bool {
			return m != nil && m.Type == "error" && m.Id == id
		}) {
			snd = append(snd, "timeout")
			ok = false
		}
		if !w.snd.dead && ok && w.senderFederated() {
			// what the federation target answers comes back over one connection, in order:
			// a marker that is valid here, forwarded, and answered there with an error
			rid := "vsync-r-" + strconv.Itoa(n)
			w.snd.send(websocket.TextMessage, []byte(fmt.Sprintf(`{"id":%q,"type":"transient","transient":{"type":"vsync"}}`, rid))) // nolint
			if !w.readUntil(w.snd, &snd, 5*time.Second, func(kind string, m *ServerMessage, sync bool, sn int, tag string) bool {
				return m != nil && m.Type == "error" && m.Id == rid
			}) {
				snd = append(snd, "fedlink-timeout")
				ok = false
			}
		}
		if w.snd.dead {
			w.settle(w.snd.pub)
		} else if ok && !w.syncSession(w.snd, &snd) {
			snd = append(snd, "timeout")
			ok = false
		}
	}
	if w.by != nil && w.byDetached {
		if !w.syncDetached(&by) {
			by = append(by, "timeout")
			ok = false
		}
	} else if w.by != nil && !w.by.dead {
		if !w.syncSession(w.by, &by) {
			by = append(by, "timeout")
			ok = false
		}
	}
	return
}

// senderFederated reports whether the sender's session currently forwards to a
// federation target that has answered its hello.
func (w *vC10World) senderFederated() bool {
	if w.snd == nil {
		return false
	}
	sess, _ := w.findSession(w.snd.pub).(*ClientSession)
	if sess == nil {
		return false
	}
	fc := sess.GetFederationClient()
	return fc != nil && fc.hello.Load() != nil
}

func (w *vC10World) expectHelloCount() int {
	w.hub.mu.RLock()
	defer w.hub.mu.RUnlock()
	return len(w.hub.expectHelloClients)
}

func (w *vC10World) findSession(pub string) Session {
	if pub == "" {
		return nil
	}
	w.hub.mu.RLock()
	defer w.hub.mu.RUnlock()
	for _, s := range w.hub.sessions {
		if s.PublicId() == pub {
			return s
		}
	}
	return nil
}

func (w *vC10World) syncSession(c *vC10Conn, kinds *[]string) bool {
	// the session of a connection can change (hello in state nosession)
	sess, _ := w.connSession(c).(*ClientSession)
	if sess == nil {
		return true
	}
	w.syncN++
	n := w.syncN
	room := sess.GetRoom()
	if room != nil {
		// round 1: behind everything queued for the room's own goroutine
		err := w.events.PublishBackendRoomMessage(room.Id(), w.backend, &AsyncMessage{Type: "room", Room: &BackendServerRoomRequest{
			Type: "transient", ReceivedTime: time.Now().UnixNano(),
			Transient: &BackendRoomTransientRequest{Action: TransientActionSet, Key: vC10SyncKey, Value: n}}})
		if err != nil {
			return false
		}
		if !w.readUntil(c, kinds, 5*time.Second, func(kind string, m *ServerMessage, sync bool, sn int, tag string) bool {
			return sync && tag == "t" && sn == n
		}) {
			return false
		}
		if c.dead {
			return true
		}
	}
	// round 2: behind everything published to the room / user / session subjects
	data := json.RawMessage(strconv.Itoa(n))
	mk := func(tag string) *AsyncMessage {
		return &AsyncMessage{Type: "message", Message: &ServerMessage{Type: "control", Control: &ControlServerMessage{
			Sender: &MessageServerMessageSender{Type: vC10SyncSender, SessionId: tag}, Data: data}}}
	}
	want := 1
	if room != nil && sess.GetRoom() == room {
		want++
		if err := w.events.PublishRoomMessage(room.Id(), w.backend, mk("r")); err != nil {
			return false
		}
	}
	if uid := sess.UserId(); uid != "" && !strings.ContainsAny(uid, " ") {
		want++
		if err := w.events.PublishUserMessage(uid, w.backend, mk("u")); err != nil {
			return false
		}
	}
	if err := w.events.PublishSessionMessage(sess.PublicId(), w.backend, mk("s")); err != nil {
		return false
	}
	seen := map[string]bool{}
	return w.readUntil(c, kinds, 5*time.Second, func(kind string, m *ServerMessage, sync bool, sn int, tag string) bool {
		if sync && sn == n && tag != "t" {
			seen[tag] = true
		}
		return len(seen) == want
	})
}

// connSession finds the session currently attached to the server side of c.
func (w *vC10World) connSession(c *vC10Conn) Session {
	if s := w.findSession(c.pub); s != nil {
		return s
	}
	return nil
}

// settle waits until the session of a connection that the server has closed is
// either removed from the hub or parked as expired (client detached), so that
// the asynchronous tail of closing does not race with the next observation.
func (w *vC10World) settle(pub string) {
	if pub == "" {
		return
	}
	deadline := time.Now().Add(2 * time.Second)
	var parkedSince time.Time
	for time.Now().Before(deadline) {
		var found Session
		w.hub.mu.RLock()
		for _, s := range w.hub.sessions {
			if s.PublicId() == pub {
				found = s
			}
		}
		_, expired := w.hub.expiredSessions[found]
		w.hub.mu.RUnlock()
		if found == nil {
			return
		}
		// "bye" passes through the parked state on its way to removal: parked only
		// counts if it lasts
		if cs, ok := found.(*ClientSession); ok && expired && cs.GetClient() == nil {
			if parkedSince.IsZero() {
				parkedSince = time.Now()
			} else if time.Since(parkedSince) > 25*time.Millisecond {
				return
			}
		} else {
			parkedSince = time.Time{}
		}
		time.Sleep(200 * time.Microsecond)
	}
}

// idle collects what else arrives on c within d.
func (w *vC10World) idle(c *vC10Conn, kinds *[]string, d time.Duration) {
	w.readUntil(c, kinds, d, func(kind string, m *ServerMessage, sync bool, sn int, tag string) bool { return false })
}

// ---------- sender states ----------

// (the state `remote` - a connection without session that is not a websocket of this hub - is only used
// by its own family of cases: frames of such a connection have passed the ReadPump of another node)
var vC10States = []string{"nosession", "session", "room", "roomr", "internal", "internalroom", "dialout", "federated"}

func (w *vC10World) dropSender() {
	if w.pendingDone != nil {
		w.finishDialout()
	}
	if w.snd != nil {
		if !w.snd.dead && w.findSession(w.snd.pub) != nil {
			w.snd.send(websocket.TextMessage, []byte(`{"type":"bye","bye":{}}`)) // nolint
			var k []string
			w.readUntil(w.snd, &k, 2*time.Second, func(kind string, m *ServerMessage, sync bool, sn int, tag string) bool { return false })
		}
		w.snd.close()
		w.settle(w.snd.pub)
		w.snd = nil
	}
}

func (w *vC10World) setState(state string) error {
	w.dropSender()
	w.state = state
	var c *vC10Conn
	var err error
	switch state {
	case "nosession":
		c, err = w.connect()
	case "remote":
		c = vC10NewRemote(w.hub)
	case "session":
		c, err = w.connectUser("sender")
	case "room", "roomr":
		user := "sender"
		if state == "roomr" {
			user = "restricted-sender"
		}
		if c, err = w.connectUser(user); err == nil {
			w.snd = c
			err = w.join(c, vC10Room, "rs-snd")
		}
	case "internal":
		c, err = w.connectInternal(nil)
	case "internalroom":
		if c, err = w.connectInternal(nil); err == nil {
			w.snd = c
			err = w.join(c, vC10Room, "")
		}
	case "dialout":
		c, err = w.connectInternal([]string{"start-dialout"})
	case "federated":
		// a user of this hub joins a room of another signaling server through federation
		if w.hub2 == nil {
			w.hub2, w.server2, w.events2, err = vC10NewHub(w.t, 0)
			if err != nil {
				return err
			}
		}
		if c, err = w.connectUser("sender"); err == nil {
			w.snd = c
			err = c.sendJSON(map[string]interface{}{"id": "j", "type": "room", "room": map[string]interface{}{
				"roomid": "fedroom-local", "sessionid": "rs-fed", "federation": map[string]string{
					"signaling": w.server2.URL, "url": w.server2.URL, "roomid": "fedroom",
					"token": vC10FederationToken(w.server2.URL, "feduser")}}})
			if err == nil {
				var kinds []string
				joined := false
				ok := w.readUntil(c, &kinds, 10*time.Second, func(kind string, m *ServerMessage, sync bool, sn int, tag string) bool {
					if m != nil && m.Id == "j" {
						joined = kind == "room"
						return true
					}
					return false
				})
				if !ok || !joined {
					err = fmt.Errorf("federated join failed: %v", kinds)
				}
			}
		}
	default:
		return fmt.Errorf("unknown state %q", state)
	}
	if err != nil {
		if c != nil {
			c.close()
		}
		w.snd = nil
		return err
	}
	w.snd = c
	if _, _, ok := w.barrier(); !ok {
		return fmt.Errorf("barrier timed out after entering state %s", state)
	}
	return nil
}

// ---------- pending dialout ----------

func (w *vC10World) backendRequest(path string, body []byte) (int, error) {
	req, err := http.NewRequest("POST", w.server.URL+path, bytes.NewReader(body))
	if err != nil {
		return 0, err
	}
	req.Header.Set("Content-Type", "application/json")
	rnd := newRandomString(32)
	req.Header.Set("Spreed-Signaling-Random", rnd)
	req.Header.Set("Spreed-Signaling-Checksum", CalculateBackendChecksum(rnd, body, []byte(vC10BackendKey)))
	req.Header.Set("Spreed-Signaling-Backend", w.server.URL)
	res, err := http.DefaultClient.Do(req)
	if err != nil {
		return 0, err
	}
	defer res.Body.Close()
	io.Copy(io.Discard, res.Body) // nolint
	return res.StatusCode, nil
}

// armDialout makes the backend ask for a dialout; the request is pending in
// startDialout until the internal client answers its id.
// dialoutEligible reports whether the sender's session would be picked by
// startDialout (it is in Hub.dialoutSessions: an internal client with the
// start-dialout feature that has not joined a room since).
func (w *vC10World) dialoutEligible() bool {
	sess, _ := w.findSession(w.snd.pub).(*ClientSession)
	if sess == nil {
		return false
	}
	w.hub.mu.RLock()
	defer w.hub.mu.RUnlock()
	return w.hub.dialoutSessions[sess]
}

func (w *vC10World) armDialout() error {
	done := make(chan int, 1)
	go func() {
		code, err := w.backendRequest("/api/v1/room/12345", []byte(`{"type":"dialout","dialout":{"number":"+1234567890"}}`))
		if err != nil {
			code = -1
		}
		done <- code
	}()
	var kinds []string
	var id string
	got := w.readUntil(w.snd, &kinds, 5*time.Second, func(kind string, m *ServerMessage, sync bool, sn int, tag string) bool {
		if kind == "internal.dialout" {
			id = m.Id
			return true
		}
		return false
	})
	if !got || id == "" {
		select {
		case code := <-done:
			return fmt.Errorf("dialout request finished early with %d", code)
		default:
		}
		return fmt.Errorf("no dialout request received (%v)", kinds)
	}
	w.pendingId, w.pendingDone = id, done
	return nil
}

// finishDialout completes a still pending request with a regular error reply
// and returns the HTTP status the backend saw.
func (w *vC10World) finishDialout() int {
	if w.pendingDone == nil {
		return 0
	}
	done := w.pendingDone
	w.pendingDone = nil
	select {
	case code := <-done:
		return code
	case <-time.After(30 * time.Millisecond):
	}
	if w.snd == nil || w.snd.dead {
		// nobody can answer any more; the request runs into its own timeout (10 s), not waited for
		return 0
	}
	if w.snd != nil && !w.snd.dead {
		w.snd.sendJSON(map[string]interface{}{"id": w.pendingId, "type": "internal", "internal": map[string]interface{}{ // nolint
			"type": "dialout", "dialout": map[string]interface{}{"type": "error", "error": map[string]string{"code": "vcleanup", "message": "cleanup"}}}})
	}
	select {
	case code := <-done:
		if code == http.StatusBadGateway {
			return 1 // completed by the cleanup reply
		}
		return code
	case <-time.After(15 * time.Second):
		return -2
	}
}

// ---------- concurrent leave / transient update ----------

// race lets one client change the transient data of the bystander's room n times
// while another one joins and leaves it n times, then checks that the hub still
// answers on every connection (a lock-order inversion between the session, room
// and transient-data mutexes would leave the room and the hub's main loop stuck).
func (w *vC10World) race(n int) string {
	a, err := w.connectUser("racer-a")
	if err != nil {
		return "fail:" + vEnc(err.Error())
	}
	defer a.close()
	b, err := w.connectUser("racer-b")
	if err != nil {
		return "fail:" + vEnc(err.Error())
	}
	defer b.close()
	if err := w.join(a, vC10Room, "rs-ra"); err != nil {
		return "fail:" + vEnc(err.Error())
	}
	drain := func(c *vC10Conn, stop chan struct{}) {
		for {
			select {
			case <-c.ch:
			case <-stop:
				return
			}
		}
	}
	stop := make(chan struct{})
	var drainers sync.WaitGroup
	drainers.Add(2)
	go func() { defer drainers.Done(); drain(a, stop) }()
	go func() { defer drainers.Done(); drain(b, stop) }()
	var wg sync.WaitGroup
	wg.Add(2)
	go func() {
		defer wg.Done()
		for i := 0; i < n; i++ {
			a.send(websocket.TextMessage, []byte(fmt.Sprintf(`{"type":"transient","transient":{"type":"set","key":"race","value":%d}}`, i))) // nolint
		}
	}()
	go func() {
		defer wg.Done()
		for i := 0; i < n; i++ {
			b.send(websocket.TextMessage, []byte(`{"type":"room","room":{"roomid":"vroom","sessionid":"rs-rb"}}`)) // nolint
			b.send(websocket.TextMessage, []byte(`{"type":"room","room":{"roomid":""}}`))                             // nolint
		}
	}()
	wg.Wait()
	// the drainers must be gone before the markers are sent (they would swallow the answers)
	close(stop)
	drainers.Wait()
	// both connections answer a marker once they have worked through their queue
	for _, c := range []*vC10Conn{a, b} {
		c.send(websocket.TextMessage, []byte(`{"id":"vsync-race","type":"message","message":{"recipient":{"type":"vsync"},"data":1}}`)) // nolint
	}
	res := "ok"
	for _, c := range []*vC10Conn{a, b} {
		var kinds []string
		if !w.readUntil(c, &kinds, 5*time.Second, func(kind string, m *ServerMessage, sync bool, sn int, tag string) bool {
			return m != nil && m.Type == "error" && m.Id == "vsync-race"
		}) {
			res = "stuck"
		}
	}
	if res == "stuck" {
		if p := os.Getenv("VERIF_C10_DUMP"); p != "" {
			buf := make([]byte, 8<<20)
			buf = buf[:runtime.Stack(buf, true)]
			os.WriteFile(p, buf, 0o600) // nolint
		}
	}
	// leave again so that the world is as before (apart from the transient key)
	a.send(websocket.TextMessage, []byte(`{"type":"transient","transient":{"type":"remove","key":"race"}}`)) // nolint
	a.send(websocket.TextMessage, []byte(`{"type":"bye"}`))                                                   // nolint
	b.send(websocket.TextMessage, []byte(`{"type":"bye"}`))                                                   // nolint
	var k []string
	w.readUntil(a, &k, 2*time.Second, func(kind string, m *ServerMessage, sync bool, sn int, tag string) bool { return false })
	w.readUntil(b, &k, 2*time.Second, func(kind string, m *ServerMessage, sync bool, sn int, tag string) bool { return false })
	w.settle(a.pub)
	w.settle(b.pub)
	if res != "ok" {
		return res
	}
	if _, _, ok := w.barrier(); !ok {
		return "stuck"
	}
	return "ok"
}

// ---------- digest of hub tables ----------

func (w *vC10World) digest() string {
	d := vC10DigestHub(w.hub)
	if w.hub2 != nil {
		d += "\n== federation target\n" + vC10DigestHub(w.hub2)
	}
	return d
}

func vC10DigestHub(h *Hub) string {
	var lines []string
	h.mu.RLock()
	sessions := make([]Session, 0, len(h.sessions))
	for _, s := range h.sessions {
		sessions = append(sessions, s)
	}
	lines = append(lines, fmt.Sprintf("clients=%d expectHello=%d", len(h.clients), len(h.expectHelloClients)))
	var vs []string
	for k, v := range h.virtualSessions {
		name := "?"
		if s, ok := h.sessions[v]; ok {
			name = s.PublicId()
		}
		vs = append(vs, k+"="+name)
	}
	sort.Strings(vs)
	lines = append(lines, "virtual="+strings.Join(vs, ","))
	set := func(name string, ids []string) {
		sort.Strings(ids)
		lines = append(lines, name+"="+strings.Join(ids, ","))
	}
	var ids []string
	for s := range h.dialoutSessions {
		ids = append(ids, s.PublicId())
	}
	set("dialout", ids)
	ids = nil
	for s := range h.anonymousSessions {
		ids = append(ids, s.PublicId())
	}
	set("anonymous", ids)
	ids = nil
	for s := range h.federatedSessions {
		ids = append(ids, s.PublicId())
	}
	set("federated", ids)
	ids = nil
	for s := range h.expiredSessions {
		ids = append(ids, s.PublicId())
	}
	set("expired", ids)
	h.mu.RUnlock()

	for _, s := range sessions {
		switch s := s.(type) {
		case *ClientSession:
			room := ""
			if r := s.GetRoom(); r != nil {
				room = r.Id()
			}
			s.mu.Lock()
			var perms []string
			for p, v := range s.permissions {
				perms = append(perms, fmt.Sprintf("%s:%v", p, v))
			}
			sort.Strings(perms)
			npending := 0
			for _, pm := range s.pendingClientMessages {
				// the harness' own barrier markers are not state
				if _, _, isSync := vC10IsSync(pm); !isSync {
					npending++
				}
			}
			line := fmt.Sprintf("S %s type=%s user=%s room=%s incall=%d fed=%v client=%v pubs=%d subs=%d virt=%d perms=%v/%s pending=%d",
				s.publicId, s.clientType, s.userId, room, s.GetInCall(), s.federation.Load() != nil, s.client != nil,
				len(s.publishers), len(s.subscribers), len(s.virtualSessions), s.supportsPermissions, strings.Join(perms, "|"),
				npending)
			s.mu.Unlock()
			line += " rsid=" + s.RoomSessionId()
			lines = append(lines, line)
		case *VirtualSession:
			room := ""
			if r := s.GetRoom(); r != nil {
				room = r.Id()
			}
			lines = append(lines, fmt.Sprintf("V %s sid=%s user=%s room=%s incall=%d flags=%d", s.PublicId(), s.SessionId(), s.UserId(), room, s.GetInCall(), s.Flags()))
		default:
			lines = append(lines, fmt.Sprintf("? %s %T", s.PublicId(), s))
		}
	}

	h.ru.RLock()
	rooms := make([]*Room, 0, len(h.rooms))
	for _, r := range h.rooms {
		rooms = append(rooms, r)
	}
	h.ru.RUnlock()
	for _, r := range rooms {
		r.mu.RLock()
		var members, incall []string
		for id := range r.sessions {
			members = append(members, id)
		}
		for s := range r.inCallSessions {
			incall = append(incall, s.PublicId())
		}
		sort.Strings(members)
		sort.Strings(incall)
		line := fmt.Sprintf("R %s members=%s incall=%s internal=%d virtual=%d", r.id, strings.Join(members, ","), strings.Join(incall, ","),
			len(r.internalSessions), len(r.virtualSessions))
		r.mu.RUnlock()
		td := r.transientData.GetData()
		delete(td, vC10SyncKey)
		var keys []string
		for k := range td {
			keys = append(keys, k)
		}
		sort.Strings(keys)
		for _, k := range keys {
			v, _ := json.Marshal(td[k])
			line += fmt.Sprintf(" t[%s]=%s", k, v)
		}
		lines = append(lines, line)
	}
	sort.Strings(lines)
	return strings.Join(lines, "\n")
}

var vC10Stats struct {
	worlds atomic.Int64
}
