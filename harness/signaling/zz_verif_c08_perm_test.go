package signaling

// C08 harness: real ClientSessions in a real Hub with a real BackendServer, an
// in-memory Nextcloud and a fake (immediate) media server, every case inside a
// testing/synctest bubble (go1.26): synctest.Wait() is the quiescence point, so
// each op line runs until nothing can move any more.
//
// Sessions 0..2 are ordinary clients, session 3 is an internal client; session
// id 9 stands for a public id no session has.  Rooms are 1 and 2 (9: a room
// nobody is in).  Every session joins with the Nextcloud session id "nc<i>".
//
// Op lines (see Driver/C08.lean):
//   join S R P           Hub.processRoom: room request to the (fake) Nextcloud, whose reply carries the
//                        permission set P ("=": no permissions member), then Hub.processJoinRoom
//   leave S              Hub.processRoom with an empty room id
//   perms S P            signed "participants" request to the BackendServer naming nc<S> with permissions P
//   permsd S P           "permissions" message published on the session's bus subject
//   permsbad S K         "participants" request with a malformed permissions member (notlist | notstring)
//   incall S R F         signed "incall" request for room R ("." = the room S is in) naming nc<S>, flags F
//   incallall R F        signed "incall" request for room R with all=true
//   close S              ClientSession.Close
//   any B                Hub.allowSubscribeAnyStream := B
//   offer S T M          client message "offer" of S for stream type T with the m-lines M (a/v/o…, "-": none)
//   mcu S R K T          client message of kind K (answer|candidate|endOfCandidates|selectStream|foo) of S to R
//   request S P T        "requestoffer" of S for the stream T of P
//   sendoffer S R T      "sendoffer" of S addressed to R
//   badmsg S K           message for the media server that does not validate (roomtype|nosdp|sdptype|sdpparse)
//   control S RC         control message of S to RC (s<R> | room | call)
//   tset S K V / tremove S K / tother S     transient data messages
//   state                nothing (observation only)
//   storm S P SEED N     real concurrency: one goroutine publishes N random permission updates for S on the bus, the
//                        last one being P, while another sends N random offers / candidates of S and a third toggles
//                        the in-call state; observed at quiescence (model side: `storm`, judged on the open objects)
//
// Implementation output:  outcome ; messages ; media-server log ; open objects
//   messages   i:err.<code> | i:answer | i:offer<j | i:msg<j | i:ctl<j | i:tset.k.v | i:trm.k
//   log        new:i/p/T/M | set:i/p/T/M | msg:i/p/T<K | close:i/p/T | new:i/s/j/T | msg:i/s/j/T<K | close:i/s/j/T
//   open       i/p/T/M | i/s/j/T

import (
	"bytes"
	"context"
	"encoding/json"
	"errors"
	"fmt"
	"io"
	"log"
	"net"
	"net/http"
	"net/http/httptest"
	"net/url"
	"runtime"
	"sort"
	"strconv"
	"strings"
	"sync"
	"testing"
	"testing/synctest"

	"github.com/dlintw/goconf"
	"github.com/gorilla/mux"
)

// ---------- in-memory network (for the hub's requests to Nextcloud) ----------

type vC08Addr struct{ s string }

func (a vC08Addr) Network() string { return "tcp" }
func (a vC08Addr) String() string  { return a.s }

type vC08Conn struct {
	net.Conn
	local, remote vC08Addr
}

func (c *vC08Conn) LocalAddr() net.Addr  { return c.local }
func (c *vC08Conn) RemoteAddr() net.Addr { return c.remote }

type vC08Listener struct {
	ch     chan net.Conn
	closed chan struct{}
	once   sync.Once
}

func newVC08Listener() *vC08Listener {
	return &vC08Listener{ch: make(chan net.Conn), closed: make(chan struct{})}
}

func (l *vC08Listener) Accept() (net.Conn, error) {
	select {
	case c := <-l.ch:
		return c, nil
	case <-l.closed:
		return nil, net.ErrClosed
	}
}

func (l *vC08Listener) Close() error {
	l.once.Do(func() { close(l.closed) })
	return nil
}

func (l *vC08Listener) Addr() net.Addr { return vC08Addr{"192.0.2.10:80"} }

func (l *vC08Listener) dial(ctx context.Context, network, addr string) (net.Conn, error) {
	c1, c2 := net.Pipe()
	cl := vC08Addr{"192.0.2.1:20000"}
	sv := vC08Addr{"192.0.2.10:80"}
	select {
	case l.ch <- &vC08Conn{Conn: c2, local: sv, remote: cl}:
		return &vC08Conn{Conn: c1, local: cl, remote: sv}, nil
	case <-l.closed:
		c1.Close()
		c2.Close()
		return nil, errors.New("listener closed")
	case <-ctx.Done():
		c1.Close()
		c2.Close()
		return nil, ctx.Err()
	}
}

// ---------- fake media server (answers at once) ----------

type vC08Obj struct {
	mcu       *vC08Mcu
	id        int
	isPub     bool
	owner     string // listener.PublicId()
	publisher string // subscribers: public id of the publishing session
	stream    StreamType
	listener  McuListener

	mu     sync.Mutex
	media  MediaType
	closed bool
}

type vC08Mcu struct {
	mu      sync.Mutex
	streams map[StreamType]bool
	objs    []*vC08Obj
	log     []string
	name    func(publicId string) string
}

func newVC08Mcu() *vC08Mcu {
	// Same stream types as the Janus implementation accepts (streamTypeUserIds).
	streams := map[StreamType]bool{}
	for st := range streamTypeUserIds {
		streams[st] = true
	}
	return &vC08Mcu{streams: streams}
}

func (m *vC08Mcu) Start(ctx context.Context) error         { return nil }
func (m *vC08Mcu) Stop()                                   {}
func (m *vC08Mcu) Reload(config *goconf.ConfigFile)        {}
func (m *vC08Mcu) SetOnConnected(f func())                 {}
func (m *vC08Mcu) SetOnDisconnected(f func())              {}
func (m *vC08Mcu) GetStats() interface{}                   { return nil }
func (m *vC08Mcu) GetServerInfoSfu() *BackendServerInfoSfu { return nil }

func vC08MediaToken(mt MediaType) string {
	s := ""
	if mt&MediaTypeAudio != 0 {
		s += "a"
	}
	if mt&MediaTypeVideo != 0 {
		s += "v"
	}
	if mt&MediaTypeScreen != 0 {
		s += "s"
	}
	if s == "" {
		s = "n"
	}
	return s
}

// token of an object: i/p/T or i/s/j/T
func (o *vC08Obj) token() string {
	if o.isPub {
		return o.mcu.name(o.owner) + "/p/" + vEnc(string(o.stream))
	}
	return o.mcu.name(o.owner) + "/s/" + o.mcu.name(o.publisher) + "/" + vEnc(string(o.stream))
}

func (m *vC08Mcu) logf(format string, args ...interface{}) {
	m.mu.Lock()
	m.log = append(m.log, fmt.Sprintf(format, args...))
	m.mu.Unlock()
}

func (m *vC08Mcu) NewPublisher(ctx context.Context, listener McuListener, id string, sid string, streamType StreamType, settings NewPublisherSettings, initiator McuInitiator) (McuPublisher, error) {
	if !m.streams[streamType] {
		return nil, fmt.Errorf("unsupported stream type %s", streamType)
	}
	m.mu.Lock()
	o := &vC08Obj{mcu: m, id: len(m.objs) + 1, isPub: true, owner: listener.PublicId(), stream: streamType, listener: listener, media: settings.MediaTypes}
	m.objs = append(m.objs, o)
	m.mu.Unlock()
	m.logf("new:%s/%s", o.token(), vC08MediaToken(settings.MediaTypes))
	return o, nil
}

func (m *vC08Mcu) NewSubscriber(ctx context.Context, listener McuListener, publisher string, streamType StreamType, initiator McuInitiator) (McuSubscriber, error) {
	if !m.streams[streamType] {
		return nil, fmt.Errorf("unsupported stream type %s", streamType)
	}
	m.mu.Lock()
	found := false
	for _, p := range m.objs {
		if p.isPub && p.owner == publisher && p.stream == streamType && p.isOpen() {
			found = true
		}
	}
	if !found {
		m.mu.Unlock()
		// the real media server waits for the publisher until the context expires
		return nil, fmt.Errorf("no %s publisher of %s", streamType, publisher)
	}
	o := &vC08Obj{mcu: m, id: len(m.objs) + 1, owner: listener.PublicId(), publisher: publisher, stream: streamType, listener: listener}
	m.objs = append(m.objs, o)
	m.mu.Unlock()
	m.logf("new:%s", o.token())
	return o, nil
}

func (o *vC08Obj) Id() string             { return "verif-" + strconv.Itoa(o.id) }
func (o *vC08Obj) Sid() string            { return strconv.Itoa(o.id) }
func (o *vC08Obj) StreamType() StreamType { return o.stream }
func (o *vC08Obj) MaxBitrate() int        { return 0 }
func (o *vC08Obj) Publisher() string      { return o.publisher }

func (o *vC08Obj) isOpen() bool {
	o.mu.Lock()
	defer o.mu.Unlock()
	return !o.closed
}

// Close closes the object at the (fake) media server and notifies the owner
// like mcuJanusPublisher.Close / mcuJanusSubscriber.Close do.
func (o *vC08Obj) Close(ctx context.Context) {
	o.mu.Lock()
	was := o.closed
	o.closed = true
	o.mu.Unlock()
	if was {
		return
	}
	o.mcu.logf("close:%s", o.token())
	if o.isPub {
		o.listener.PublisherClosed(o)
	} else {
		o.listener.SubscriberClosed(o)
	}
}

func (o *vC08Obj) SendMessage(ctx context.Context, message *MessageClientMessage, data *MessageClientMessageData, callback func(error, map[string]interface{})) {
	o.mcu.logf("msg:%s<%s", o.token(), data.Type)
	var response map[string]interface{}
	switch {
	case o.isPub && data.Type == "offer":
		response = map[string]interface{}{"type": "answer", "sdp": "verif-answer"}
	case !o.isPub && (data.Type == "requestoffer" || data.Type == "sendoffer"):
		response = map[string]interface{}{"type": "offer", "sdp": "verif-offer"}
	}
	go callback(nil, response)
}

func (o *vC08Obj) HasMedia(mt MediaType) bool {
	o.mu.Lock()
	defer o.mu.Unlock()
	return (o.media & mt) == mt
}

func (o *vC08Obj) SetMedia(mt MediaType) {
	o.mu.Lock()
	o.media = mt
	o.mu.Unlock()
	o.mcu.logf("set:%s/%s", o.token(), vC08MediaToken(mt))
}

func (o *vC08Obj) GetStreams(ctx context.Context) ([]PublisherStream, error) {
	return nil, errors.New("not implemented")
}

func (o *vC08Obj) PublishRemote(ctx context.Context, remoteId string, hostname string, port int, rtcpPort int) error {
	return errors.New("not implemented")
}

func (o *vC08Obj) UnpublishRemote(ctx context.Context, remoteId string, hostname string, port int, rtcpPort int) error {
	return errors.New("not implemented")
}

// ---------- world of one case ----------

const (
	vC08NcUrl          = "http://nextcloud.test/"
	vC08SigUrl         = "http://signaling.test"
	vC08InternalSecret = "c08-internal-secret"
	vC08Sessions       = 4
	vC08Internal       = 3
)

var vC08Secret = []byte("c08-backend-secret")

type vC08World struct {
	t        *testing.T
	hub      *Hub
	events   AsyncEvents
	bs       *BackendServer
	router   *mux.Router
	mcu      *vC08Mcu
	backend  *Backend
	ncL      *vC08Listener
	ncSrv    *http.Server
	sessions []*ClientSession
	closed   []bool
	byPublic map[string]int
	msgId    int

	mu        sync.Mutex
	joinPerms *[]Permission // permissions member of the next room reply of the fake Nextcloud
}

// the fake Nextcloud: capabilities, room join / leave, ping
func (w *vC08World) nextcloud(rw http.ResponseWriter, r *http.Request) {
	if r.Method == "GET" {
		spreed, _ := json.Marshal(map[string]interface{}{"features": []string{"verif"}, "config": map[string]interface{}{}})
		resp := &CapabilitiesResponse{Version: CapabilitiesVersion{Major: 20}, Capabilities: map[string]json.RawMessage{"spreed": spreed}}
		data, _ := json.Marshal(resp)
		var ocs OcsResponse
		ocs.Ocs = &OcsBody{Meta: OcsMeta{Status: "ok", StatusCode: 200, Message: "OK"}, Data: data}
		data, _ = json.Marshal(ocs)
		rw.Header().Set("Content-Type", "application/json")
		rw.Write(data) // nolint
		return
	}
	body, _ := io.ReadAll(r.Body)
	var request BackendClientRequest
	if err := json.Unmarshal(body, &request); err != nil {
		http.Error(rw, "bad", http.StatusBadRequest)
		return
	}
	var response BackendClientResponse
	switch request.Type {
	case "room":
		response.Type = "room"
		response.Room = &BackendClientRoomResponse{Version: BackendVersion, RoomId: request.Room.RoomId, Properties: json.RawMessage(`{}`)}
		if request.Room.Action == "" || request.Room.Action == "join" {
			w.mu.Lock()
			response.Room.Permissions = w.joinPerms
			w.mu.Unlock()
		}
	case "ping":
		response.Type = "ping"
		response.Ping = &BackendClientRingResponse{Version: BackendVersion, RoomId: request.Ping.RoomId}
	default:
		response.Type = request.Type
	}
	data, _ := json.Marshal(&response)
	if r.Header.Get("OCS-APIRequest") != "" {
		var ocs OcsResponse
		ocs.Ocs = &OcsBody{Meta: OcsMeta{Status: "ok", StatusCode: 200, Message: "OK"}, Data: data}
		data, _ = json.Marshal(ocs)
	}
	rw.Header().Set("Content-Type", "application/json")
	rw.Write(data) // nolint
}

func vC08NewWorld(t *testing.T) *vC08World {
	w := &vC08World{t: t, ncL: newVC08Listener(), byPublic: map[string]int{}, mcu: newVC08Mcu(), closed: make([]bool, vC08Sessions)}
	r := mux.NewRouter()
	config := goconf.NewConfigFile()
	config.AddOption("backend", "backends", "backend1")
	config.AddOption("backend1", "url", vC08NcUrl)
	config.AddOption("backend1", "secret", string(vC08Secret))
	config.AddOption("backend", "allowhttp", "true")
	config.AddOption("sessions", "hashkey", "12345678901234567890123456789012")
	config.AddOption("sessions", "blockkey", "09876543210987654321098765432109")
	config.AddOption("clients", "internalsecret", vC08InternalSecret)
	config.AddOption("geoip", "url", "none")
	var err error
	w.events, err = NewAsyncEvents(NatsLoopbackUrl)
	if err != nil {
		t.Fatal(err)
	}
	rpcClients, err := NewGrpcClients(config, nil, nil, "verif")
	if err != nil {
		t.Fatal(err)
	}
	w.hub, err = NewHub(config, w.events, nil, rpcClients, nil, r, "verif")
	if err != nil {
		t.Fatal(err)
	}
	w.hub.SetMcu(w.mcu)
	w.bs, err = NewBackendServer(config, w.hub, "verif")
	if err != nil {
		t.Fatal(err)
	}
	if err := w.bs.Start(r); err != nil {
		t.Fatal(err)
	}
	w.router = r
	// all outgoing requests of the hub go to the in-memory Nextcloud
	w.hub.backend.pool.transport.DialContext = w.ncL.dial
	w.hub.backend.pool.transport.Proxy = nil
	w.ncSrv = &http.Server{Handler: http.HandlerFunc(w.nextcloud), ErrorLog: log.New(io.Discard, "", 0)}
	go w.ncSrv.Serve(w.ncL) // nolint
	go w.hub.Run()

	u, _ := url.Parse(vC08NcUrl)
	w.backend = w.hub.backend.GetBackend(u)
	if w.backend == nil {
		t.Fatal("verif: backend not configured")
	}
	for i := 0; i < vC08Sessions; i++ {
		data := w.hub.newSessionIdData(w.backend)
		priv, err := w.hub.cookie.EncodePrivate(data)
		if err != nil {
			t.Fatal(err)
		}
		pub, err := w.hub.cookie.EncodePublic(data)
		if err != nil {
			t.Fatal(err)
		}
		hello := &HelloClientMessage{Version: HelloVersionV1, Auth: &HelloClientMessageAuth{Type: HelloClientTypeClient, Url: vC08NcUrl, parsedUrl: u}}
		auth := &BackendClientAuthResponse{Version: BackendVersion, UserId: "user" + strconv.Itoa(i)}
		if i == vC08Internal {
			hello.Auth = &HelloClientMessageAuth{Type: HelloClientTypeInternal}
			hello.Auth.internalParams.Backend = vC08NcUrl
			hello.Auth.internalParams.parsedBackend = u
			hello.Features = []string{ClientFeatureInternalInCall}
			auth = &BackendClientAuthResponse{Version: BackendVersion}
		}
		s, err := NewClientSession(w.hub, priv, pub, data, w.backend, hello, auth)
		if err != nil {
			t.Fatal(err)
		}
		if err := w.backend.AddSession(s); err != nil {
			t.Fatal(err)
		}
		w.hub.mu.Lock()
		w.hub.sessions[data.Sid] = s
		w.hub.mu.Unlock()
		w.hub.setDecodedSessionId(priv, privateSessionName, data)
		w.hub.setDecodedSessionId(pub, publicSessionName, data)
		w.sessions = append(w.sessions, s)
		w.byPublic[pub] = i
	}
	w.mcu.name = w.name
	synctest.Wait()
	return w
}

func (w *vC08World) name(publicId string) string {
	if i, ok := w.byPublic[publicId]; ok {
		return strconv.Itoa(i)
	}
	if publicId == vC08UnknownSession {
		return "9"
	}
	return "?"
}

func (w *vC08World) shutdown() {
	synctest.Wait()
	for _, s := range w.sessions {
		s.Close()
	}
	synctest.Wait()
	w.hub.Stop()
	w.hub.rpcClients.Close()
	w.hub.backend.pool.transport.CloseIdleConnections()
	w.ncSrv.Close()
	w.hub.backend.Close()
	w.events.Close()
	synctest.Wait()
}

const vC08UnknownSession = "verif-no-such-session"

func (w *vC08World) publicId(i int) string {
	if i == 9 {
		return vC08UnknownSession
	}
	return w.sessions[i].PublicId()
}

var vC08PermNames = map[rune]Permission{
	'm': PERMISSION_MAY_PUBLISH_MEDIA, 'a': PERMISSION_MAY_PUBLISH_AUDIO, 'v': PERMISSION_MAY_PUBLISH_VIDEO,
	's': PERMISSION_MAY_PUBLISH_SCREEN, 'c': PERMISSION_MAY_CONTROL, 't': PERMISSION_TRANSIENT_DATA,
	'h': PERMISSION_HIDE_DISPLAYNAMES, 'x': Permission("bogus"),
}

func vC08ParsePerms(tok string) ([]Permission, bool) {
	perms := []Permission{}
	if tok == "-" {
		return perms, true
	}
	for _, c := range tok {
		p, ok := vC08PermNames[c]
		if !ok {
			return nil, false
		}
		perms = append(perms, p)
	}
	return perms, true
}

// SDP text with the given m-lines (a: audio, v: video, o: application).
func vC08Sdp(m string) (string, bool) {
	var sb strings.Builder
	sb.WriteString("v=0\r\no=- 0 0 IN IP4 127.0.0.1\r\ns=-\r\nt=0 0\r\n")
	if m == "-" {
		return sb.String(), true
	}
	for _, c := range m {
		switch c {
		case 'a':
			sb.WriteString("m=audio 9 UDP/TLS/RTP/SAVPF 111\r\nc=IN IP4 0.0.0.0\r\na=rtpmap:111 opus/48000/2\r\n")
		case 'v':
			sb.WriteString("m=video 9 UDP/TLS/RTP/SAVPF 96\r\nc=IN IP4 0.0.0.0\r\na=rtpmap:96 VP8/90000\r\n")
		case 'o':
			sb.WriteString("m=application 9 UDP/DTLS/SCTP webrtc-datachannel\r\nc=IN IP4 0.0.0.0\r\n")
		default:
			return "", false
		}
	}
	return sb.String(), true
}

func (w *vC08World) sess(tok string) (int, bool) {
	i, err := strconv.Atoi(tok)
	if err != nil || i < 0 || i >= vC08Sessions {
		return 0, false
	}
	return i, true
}

func (w *vC08World) rcpt(tok string) (int, bool) {
	if tok == "9" {
		return 9, true
	}
	return w.sess(tok)
}

func vC08Room(tok string) (string, bool) {
	switch tok {
	case "1", "2", "9":
		return "room" + tok, true
	}
	return "", false
}

func vC08Flags(tok string) (int, bool) {
	switch tok {
	case "0":
		return 0, true
	case "1":
		return FlagInCall, true
	case "6":
		return FlagWithAudio | FlagWithVideo, true
	case "7":
		return FlagInCall | FlagWithAudio | FlagWithVideo, true
	}
	return 0, false
}

// post sends a signed room API request to the BackendServer (in process).
func (w *vC08World) post(room string, request map[string]interface{}) string {
	body, err := json.Marshal(request)
	if err != nil {
		return "badreq"
	}
	req, err := http.NewRequest("POST", vC08SigUrl+"/api/v1/room/"+url.PathEscape(room), bytes.NewReader(body))
	if err != nil {
		return "badreq"
	}
	req.Header.Set("Content-Type", "application/json")
	rnd := newRandomString(64)
	req.Header.Set(HeaderBackendSignalingRandom, rnd)
	req.Header.Set(HeaderBackendSignalingChecksum, CalculateBackendChecksum(rnd, body, vC08Secret))
	req.Header.Set(HeaderBackendServer, vC08NcUrl)
	req.RemoteAddr = "192.0.2.1:1234"
	rec := httptest.NewRecorder()
	w.router.ServeHTTP(rec, req)
	synctest.Wait()
	return strconv.Itoa(rec.Code)
}

func (w *vC08World) clientMessage(to int, data map[string]interface{}) *ClientMessage {
	raw, _ := json.Marshal(data)
	w.msgId++
	return &ClientMessage{
		Id:   "m" + strconv.Itoa(w.msgId),
		Type: "message",
		Message: &MessageClientMessage{
			Recipient: MessageClientMessageRecipient{Type: RecipientTypeSession, SessionId: w.publicId(to)},
			Data:      raw,
		},
	}
}

// send lets the hub process a client message of session `from` like the read loop of its connection does.
func (w *vC08World) send(from int, msg *ClientMessage) string {
	if w.closed[from] {
		return "closed"
	}
	if err := msg.CheckValid(); err != nil {
		return "invalid"
	}
	w.hub.processMessage0(w.sessions[from], msg)
	synctest.Wait()
	return "ok"
}

// processMessage0 dispatches a validated client message of a session the way Hub.processMessage does
// after the session lookup (the sessions of the harness have no connection).
func (h *Hub) processMessage0(session *ClientSession, message *ClientMessage) {
	switch message.Type {
	case "message":
		h.processMessageMsg(session, message)
	case "control":
		h.processControlMsg(session, message)
	case "transient":
		h.processTransientMsg(session, message)
	}
}

func vC08Quote(s string) string {
	if len(s) >= 2 && s[0] == '"' && s[len(s)-1] == '"' {
		return s[1 : len(s)-1]
	}
	return s
}

// classify renders a message a session received (or "" for kinds the property is not about).
func (w *vC08World) classify(m *ServerMessage) string {
	switch m.Type {
	case "error":
		if m.Error != nil {
			return "err." + m.Error.Code
		}
		return "err.?"
	case "message":
		if m.Message == nil {
			return "msg<?"
		}
		var data struct {
			Type string `json:"type"`
			From string `json:"from"`
		}
		json.Unmarshal(m.Message.Data, &data) // nolint
		sender := "?"
		if m.Message.Sender != nil {
			sender = w.name(m.Message.Sender.SessionId)
		}
		switch data.Type {
		case "answer":
			return "answer"
		case "offer":
			return "offer<" + w.name(data.From)
		}
		return "msg<" + sender
	case "control":
		sender := "?"
		if m.Control != nil && m.Control.Sender != nil {
			sender = w.name(m.Control.Sender.SessionId)
		}
		return "ctl<" + sender
	case "transient":
		if m.TransientData == nil {
			return ""
		}
		val := ""
		switch v := m.TransientData.Value.(type) {
		case json.RawMessage:
			val = vC08Quote(string(v))
		case string:
			val = v
		case nil:
		default:
			raw, _ := json.Marshal(v)
			val = vC08Quote(string(raw))
		}
		switch m.TransientData.Type {
		case "set":
			return "tset." + vEnc(m.TransientData.Key) + "." + vEnc(val)
		case "remove":
			return "trm." + vEnc(m.TransientData.Key)
		}
		return ""
	}
	return ""
}

// observe drains the messages queued for the (connection-less) sessions and the log of the media server.
func (w *vC08World) observe(outcome string) string {
	synctest.Wait()
	var msgs []string
	for i, s := range w.sessions {
		s.mu.Lock()
		pending := s.pendingClientMessages
		s.pendingClientMessages = nil
		s.hasPendingChat = false
		s.hasPendingParticipantsUpdate = false
		s.mu.Unlock()
		for _, m := range pending {
			if c := w.classify(m); c != "" {
				msgs = append(msgs, strconv.Itoa(i)+":"+c)
			}
		}
	}
	w.mcu.mu.Lock()
	mlog := w.mcu.log
	w.mcu.log = nil
	objs := append([]*vC08Obj(nil), w.mcu.objs...)
	w.mcu.mu.Unlock()
	var open []string
	for _, o := range objs {
		if !o.isOpen() {
			continue
		}
		if o.isPub {
			o.mu.Lock()
			media := o.media
			o.mu.Unlock()
			open = append(open, o.token()+"/"+vC08MediaToken(media))
		} else {
			open = append(open, o.token())
		}
	}
	sect := func(xs []string) string {
		if len(xs) == 0 {
			return "-"
		}
		sort.Strings(xs)
		return strings.Join(xs, " ")
	}
	return outcome + " ; " + sect(msgs) + " ; " + sect(mlog) + " ; " + sect(open)
}

func (w *vC08World) roomOf(i int) string {
	if room := w.sessions[i].GetRoom(); room != nil && !w.closed[i] {
		return room.Id()
	}
	return "room9"
}

func (w *vC08World) exec(line string) string {
	f := strings.Fields(line)
	if len(f) == 0 {
		return "bad-op"
	}
	bad := "bad-op"
	switch f[0] {
	case "join":
		if len(f) != 4 {
			return bad
		}
		i, ok := w.sess(f[1])
		room, ok2 := vC08Room(f[2])
		if !ok || !ok2 || f[2] == "9" {
			return bad
		}
		var perms *[]Permission
		if f[3] != "=" {
			p, ok := vC08ParsePerms(f[3])
			if !ok {
				return bad
			}
			perms = &p
		}
		if w.closed[i] {
			return w.observe("closed")
		}
		if r := w.sessions[i].GetRoom(); r != nil && r.Id() == room {
			// answered by the hub with already_joined, nothing changes
			w.hub.processRoom(w.sessions[i], &ClientMessage{Id: "j", Type: "room", Room: &RoomClientMessage{RoomId: room, SessionId: "nc" + f[1]}})
			return w.observe("already")
		}
		w.mu.Lock()
		w.joinPerms = perms
		w.mu.Unlock()
		w.hub.processRoom(w.sessions[i], &ClientMessage{Id: "j", Type: "room", Room: &RoomClientMessage{RoomId: room, SessionId: "nc" + f[1]}})
		synctest.Wait()
		if r := w.sessions[i].GetRoom(); r == nil || r.Id() != room {
			return w.observe("failed")
		}
		return w.observe("ok")
	case "leave":
		if len(f) != 2 {
			return bad
		}
		i, ok := w.sess(f[1])
		if !ok {
			return bad
		}
		if w.closed[i] {
			return w.observe("closed")
		}
		had := w.sessions[i].GetRoom() != nil
		w.hub.processRoom(w.sessions[i], &ClientMessage{Id: "l", Type: "room", Room: &RoomClientMessage{RoomId: ""}})
		if !had {
			return w.observe("noroom")
		}
		return w.observe("ok")
	case "perms", "permsd":
		if len(f) != 3 {
			return bad
		}
		i, ok := w.sess(f[1])
		perms, ok2 := vC08ParsePerms(f[2])
		if !ok || !ok2 {
			return bad
		}
		if f[0] == "permsd" {
			if err := w.events.PublishSessionMessage(w.sessions[i].PublicId(), w.backend, &AsyncMessage{Type: "permissions", Permissions: perms}); err != nil {
				return w.observe("error")
			}
			return w.observe("ok")
		}
		list := make([]interface{}, 0, len(perms))
		for _, p := range perms {
			list = append(list, string(p))
		}
		entry := map[string]interface{}{"sessionId": "nc" + f[1], "permissions": list}
		return w.observe(w.post(w.roomOf(i), map[string]interface{}{"type": "participants",
			"participants": map[string]interface{}{"changed": []interface{}{entry}, "users": []interface{}{entry}}}))
	case "permsbad":
		if len(f) != 3 {
			return bad
		}
		i, ok := w.sess(f[1])
		if !ok {
			return bad
		}
		var member interface{}
		switch f[2] {
		case "notlist":
			member = "publish-media"
		case "notstring":
			member = []interface{}{"publish-media", 1}
		default:
			return bad
		}
		entry := map[string]interface{}{"sessionId": "nc" + f[1], "permissions": member}
		return w.observe(w.post(w.roomOf(i), map[string]interface{}{"type": "participants",
			"participants": map[string]interface{}{"changed": []interface{}{entry}, "users": []interface{}{entry}}}))
	case "incall":
		if len(f) != 4 {
			return bad
		}
		i, ok := w.sess(f[1])
		if !ok {
			return bad
		}
		room := ""
		if f[2] == "." {
			room = w.roomOf(i)
		} else if room, ok = vC08Room(f[2]); !ok {
			return bad
		}
		flags, ok := vC08Flags(f[3])
		if !ok {
			return bad
		}
		entry := map[string]interface{}{"sessionId": "nc" + f[1], "inCall": flags}
		return w.observe(w.post(room, map[string]interface{}{"type": "incall",
			"incall": map[string]interface{}{"incall": flags, "changed": []interface{}{entry}, "users": []interface{}{entry}}}))
	case "incallall":
		if len(f) != 3 {
			return bad
		}
		room, ok := vC08Room(f[1])
		flags, ok2 := vC08Flags(f[2])
		if !ok || !ok2 {
			return bad
		}
		return w.observe(w.post(room, map[string]interface{}{"type": "incall", "incall": map[string]interface{}{"incall": flags, "all": true}}))
	case "close":
		if len(f) != 2 {
			return bad
		}
		i, ok := w.sess(f[1])
		if !ok {
			return bad
		}
		if w.closed[i] {
			return w.observe("closed")
		}
		w.closed[i] = true
		w.sessions[i].Close()
		return w.observe("ok")
	case "any":
		if len(f) != 2 || (f[1] != "0" && f[1] != "1") {
			return bad
		}
		w.hub.allowSubscribeAnyStream = f[1] == "1"
		return w.observe("ok")
	case "offer":
		if len(f) != 4 {
			return bad
		}
		i, ok := w.sess(f[1])
		sdp, ok2 := vC08Sdp(f[3])
		if !ok || !ok2 {
			return bad
		}
		return w.observe(w.send(i, w.clientMessage(i, map[string]interface{}{
			"type": "offer", "sid": "1", "roomType": vDec(f[2]), "payload": map[string]interface{}{"type": "offer", "sdp": sdp},
		})))
	case "mcu":
		if len(f) != 5 {
			return bad
		}
		i, ok := w.sess(f[1])
		r, ok2 := w.rcpt(f[2])
		if !ok || !ok2 {
			return bad
		}
		data := map[string]interface{}{"type": f[3], "sid": "1", "roomType": vDec(f[4])}
		switch f[3] {
		case "answer":
			sdp, _ := vC08Sdp("av")
			data["payload"] = map[string]interface{}{"type": "answer", "sdp": sdp}
		case "candidate":
			data["payload"] = map[string]interface{}{"candidate": map[string]interface{}{"candidate": "candidate:0 1 UDP 1 192.0.2.1 9 typ host", "sdpMid": "0", "sdpMLineIndex": 0}}
		case "endOfCandidates", "selectStream", "foo":
			data["payload"] = map[string]interface{}{}
		default:
			return bad
		}
		return w.observe(w.send(i, w.clientMessage(r, data)))
	case "request", "sendoffer":
		if len(f) != 4 {
			return bad
		}
		i, ok := w.sess(f[1])
		r, ok2 := w.rcpt(f[2])
		if !ok || !ok2 {
			return bad
		}
		typ := "requestoffer"
		if f[0] == "sendoffer" {
			typ = "sendoffer"
		}
		return w.observe(w.send(i, w.clientMessage(r, map[string]interface{}{"type": typ, "roomType": vDec(f[3])})))
	case "badmsg":
		if len(f) != 3 {
			return bad
		}
		i, ok := w.sess(f[1])
		if !ok {
			return bad
		}
		var data map[string]interface{}
		switch f[2] {
		case "roomtype":
			data = map[string]interface{}{"type": "candidate", "roomType": "hologram", "payload": map[string]interface{}{}}
		case "nosdp":
			data = map[string]interface{}{"type": "offer", "roomType": "video", "payload": map[string]interface{}{"type": "offer"}}
		case "sdptype":
			data = map[string]interface{}{"type": "offer", "roomType": "video", "payload": map[string]interface{}{"type": "offer", "sdp": 17}}
		case "sdpparse":
			data = map[string]interface{}{"type": "answer", "roomType": "video", "payload": map[string]interface{}{"type": "answer", "sdp": "this is not sdp"}}
		default:
			return bad
		}
		return w.observe(w.send(i, w.clientMessage(i, data)))
	case "control":
		if len(f) != 3 {
			return bad
		}
		i, ok := w.sess(f[1])
		if !ok {
			return bad
		}
		rc := MessageClientMessageRecipient{}
		switch {
		case f[2] == "room":
			rc.Type = RecipientTypeRoom
		case f[2] == "call":
			rc.Type = RecipientTypeCall
		case strings.HasPrefix(f[2], "s"):
			r, ok := w.rcpt(f[2][1:])
			if !ok {
				return bad
			}
			rc.Type = RecipientTypeSession
			rc.SessionId = w.publicId(r)
		default:
			return bad
		}
		w.msgId++
		msg := &ClientMessage{Id: "m" + strconv.Itoa(w.msgId), Type: "control",
			Control: &ControlClientMessage{MessageClientMessage: MessageClientMessage{Recipient: rc, Data: json.RawMessage(`{"action":"verif"}`)}}}
		return w.observe(w.send(i, msg))
	case "tset", "tremove", "tother":
		want := map[string]int{"tset": 4, "tremove": 3, "tother": 2}[f[0]]
		if len(f) != want {
			return bad
		}
		i, ok := w.sess(f[1])
		if !ok {
			return bad
		}
		td := &TransientDataClientMessage{}
		switch f[0] {
		case "tset":
			td.Type = "set"
			td.Key = vDec(f[2])
			td.Value, _ = json.Marshal(vDec(f[3]))
		case "tremove":
			td.Type = "remove"
			td.Key = vDec(f[2])
		default:
			td.Type = "frobnicate"
			td.Key = "k"
		}
		w.msgId++
		return w.observe(w.send(i, &ClientMessage{Id: "m" + strconv.Itoa(w.msgId), Type: "transient", TransientData: td}))
	case "state":
		if len(f) != 1 {
			return bad
		}
		return w.observe("ok")
	case "storm":
		if len(f) != 5 {
			return bad
		}
		i, ok := w.sess(f[1])
		final, ok2 := vC08ParsePerms(f[2])
		seed, err1 := strconv.ParseUint(f[3], 10, 64)
		n, err2 := strconv.Atoi(f[4])
		if !ok || !ok2 || err1 != nil || err2 != nil || n < 1 || n > 200 {
			return bad
		}
		if w.closed[i] {
			return w.observe("closed")
		}
		w.storm(i, final, seed, n)
		return w.observe("storm")
	}
	return bad
}

// storm: permission updates, client messages and in-call changes of one session, truly concurrent.
func (w *vC08World) storm(i int, final []Permission, seed uint64, n int) {
	root := newVRand(seed)
	ra, rb, rc := root.fork(), root.fork(), root.fork()
	s := w.sessions[i]
	var wg sync.WaitGroup
	wg.Add(3)
	go func() {
		defer wg.Done()
		for k := 0; k < n; k++ {
			perms := final
			if k < n-1 {
				perms, _ = vC08ParsePerms(ra.pick(vC08PublishSets))
			}
			w.events.PublishSessionMessage(s.PublicId(), w.backend, &AsyncMessage{Type: "permissions", Permissions: perms}) // nolint
			if ra.chance(1, 2) {
				runtime.Gosched()
			}
		}
	}()
	go func() {
		defer wg.Done()
		for k := 0; k < n; k++ {
			st := "video"
			if rb.chance(1, 2) {
				st = "screen"
			}
			var msg *ClientMessage
			if rb.chance(3, 4) {
				sdp, _ := vC08Sdp(rb.pick(vC08MLines))
				msg = w.clientMessage(i, map[string]interface{}{"type": "offer", "sid": "1", "roomType": st,
					"payload": map[string]interface{}{"type": "offer", "sdp": sdp}})
			} else {
				msg = w.clientMessage(i, map[string]interface{}{"type": "candidate", "sid": "1", "roomType": st,
					"payload": map[string]interface{}{"candidate": map[string]interface{}{"candidate": "candidate:0 1 UDP 1 192.0.2.1 9 typ host"}}})
			}
			if msg.CheckValid() == nil {
				w.hub.processMessageMsg(s, msg)
			}
			if rb.chance(1, 2) {
				runtime.Gosched()
			}
		}
	}()
	go func() {
		defer wg.Done()
		for k := 0; k < n/4; k++ {
			if room := s.GetRoom(); room != nil {
				flags := FlagInCall
				if rc.chance(1, 3) {
					flags = 0
				}
				entry := map[string]interface{}{"sessionId": s.PublicId(), "inCall": float64(flags)}
				room.PublishUsersInCallChanged([]map[string]interface{}{entry}, []map[string]interface{}{entry})
			}
			runtime.Gosched()
		}
	}()
	wg.Wait()
	synctest.Wait()
}

func vC08Exec(t *testing.T, c *vCase) {
	synctest.Test(t, func(t *testing.T) {
		w := vC08NewWorld(t)
		defer w.shutdown()
		for _, line := range c.Ops {
			c.Impl = append(c.Impl, w.exec(line))
		}
	})
}

func TestVerifC08(t *testing.T) {
	log.SetOutput(io.Discard)
	vRun(t, vC08Gen, vC08Exec)
}
