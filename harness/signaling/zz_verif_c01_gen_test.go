package signaling

// C01 harness, part 3: generator.  Worlds (tenants + backend configuration), hello
// attribute vectors with mutations, resume / internal / pre-hello sequences.
// All choices come from the PRNG; URL facts and predicted backend answers are
// computed here with the standard library and the pure routing function.

import (
	"encoding/hex"
	"fmt"
	"net"
	"net/url"
	"sort"
	"strconv"
	"strings"
)

type c01BackendCfg struct {
	Id    string
	Raw   string // as written in the configuration file
	Limit int
}

type c01World struct {
	tenants   []*c01Tenant
	mode      string // backends | etcd (the same backends, announced as etcd keys) | allowed | allowall
	secret    bool
	allowHttp bool
	aaLimit   int
	backends  []c01BackendCfg
	allowed   []string
}

func (w *c01World) tenant(name string) *c01Tenant {
	for _, t := range w.tenants {
		if t.Name == name {
			return t
		}
	}
	return nil
}

// normalisation of a configured backend URL, as documented for the configuration
// (trailing slash, standard port dropped) — net/url only.
func c01NormBackend(raw string) (host, norm string, http bool, ok bool) {
	u := raw
	if u == "" {
		return "", "", false, false
	}
	if u[len(u)-1] != '/' {
		u += "/"
	}
	p, err := url.Parse(u)
	if err != nil {
		return "", "", false, false
	}
	if (p.Scheme == "http" && p.Port() == "80") || (p.Scheme == "https" && p.Port() == "443") {
		p.Host = p.Hostname()
		u = p.String()
	}
	return p.Host, u, p.Scheme == "http", true
}

// a backend URL received from etcd is stored as given (standard port dropped, no slash appended) — net/url only.
func c01NormEtcdBackend(raw string) (host, norm string, http bool, ok bool) {
	if raw == "" {
		return "", "", false, false
	}
	p, err := url.Parse(raw)
	if err != nil {
		return "", "", false, false
	}
	u := raw
	if (p.Scheme == "http" && p.Port() == "80") || (p.Scheme == "https" && p.Port() == "443") {
		p.Host = p.Hostname()
		u = p.String()
	}
	return p.Host, u, p.Scheme == "http", true
}

func (w *c01World) ops() []string {
	var ops []string
	ops = append(ops, fmt.Sprintf("cfg sec=%s aa=%s aa.http=%s aa.limit=%d mode=%s allowed=%s", c01B(w.secret), c01B(w.mode == "allowall"),
		c01B(w.allowHttp), w.aaLimit, w.mode, vEnc(strings.Join(w.allowed, ", "))))
	switch w.mode {
	case "backends", "etcd":
		// entries of one host in configuration order (etcd: in key order); hosts in order of first appearance
		bs := append([]c01BackendCfg{}, w.backends...)
		norm := c01NormBackend
		if w.mode == "etcd" {
			sort.SliceStable(bs, func(i, j int) bool { return bs[i].Id < bs[j].Id })
			norm = c01NormEtcdBackend
		}
		for _, b := range bs {
			host, norm, isHttp, ok := norm(b.Raw)
			if !ok {
				continue
			}
			owner := ""
			if p, err := url.Parse(norm); err == nil {
				if t := c01Route(w.tenants, p.Host, p.Path); t != nil {
					owner = t.Name
				}
			}
			ops = append(ops, fmt.Sprintf("backend host=%s id=%s url=%s http=%s limit=%d owner=%s raw=%s", vEnc(host), vEnc(b.Id), vEnc(norm),
				c01B(isHttp), b.Limit, vEnc(owner), vEnc(b.Raw)))
		}
	case "allowed":
		for _, h := range w.allowed {
			ops = append(ops, fmt.Sprintf("backend host=%s id=compat url=%% http=%s limit=%d owner=* raw=%%", vEnc(h), c01B(w.allowHttp), w.aaLimit))
		}
	}
	for _, t := range w.tenants {
		ops = append(ops, fmt.Sprintf("tenant name=%s key=%s fed=%s hosts=%s prefix=%s kid=%s kfmt=%s v3=%s", vEnc(t.Name), t.keyFam(), c01B(t.Fed),
			vEnc(strings.Join(t.Hosts, ",")), vEnc(t.Prefix), vEnc(t.Kid), t.Kfmt, c01B(t.V3)))
	}
	ops = append(ops, "start")
	return ops
}

// ---------- worlds ----------

var c01KeyChoices = []struct{ kid, kfmt string }{
	{"rsaA", "pem"}, {"rsaB", "pem"}, {"ec256A", "pem"}, {"ec256B", "pem"}, {"ec384", "pem"}, {"ec521", "pem"},
	{"edA", "pem"}, {"edB", "pem"}, {"edA", "b64"}, {"edB", "b64"},
}

func c01PickKey(r *vRand, t *c01Tenant) {
	switch r.intn(14) {
	case 0:
		t.Kid, t.Kfmt = "-", "none"
	case 1:
		t.Kid, t.Kfmt = "-", "garbage"
	default:
		k := c01KeyChoices[r.intn(len(c01KeyChoices))]
		t.Kid, t.Kfmt = k.kid, k.kfmt
	}
}

func c01GenWorld(r *vRand) *c01World {
	w := &c01World{mode: "backends", secret: !r.chance(1, 8)}
	switch r.intn(10) {
	case 0:
		w.mode = "allowall"
	case 1, 2:
		w.mode = "allowed"
	}
	mk := func(name string, hosts []string, prefix string) *c01Tenant {
		t := &c01Tenant{Name: name, Hosts: hosts, Prefix: prefix, Fed: r.chance(1, 2), V3: r.chance(1, 4)}
		c01PickKey(r, t)
		w.tenants = append(w.tenants, t)
		return t
	}
	switch w.mode {
	case "backends":
		// two tenants share a host under different prefixes, one lives on a plain-http
		// host with a non-standard port, some are not configured at all
		mk("b1", []string{"cloud.example"}, "/one/")
		mk("b2", []string{"cloud.example"}, "/two/")
		mk("b3", []string{"plain.example:8080"}, "/")
		mk("evil", []string{"cloud.example", "cloud.example:8443"}, "/evil/")
		mk("evilhost", []string{"evil.example", "cloud.example.evil.example"}, "/")
		if r.chance(1, 2) {
			mk("one2", []string{"cloud.example"}, "/one2/")
		}
		// make sure distinct tenants do not share a key too often (it happens, on purpose, sometimes)
		lim := func() int {
			if r.chance(1, 5) {
				return 1 + r.intn(2)
			}
			return 0
		}
		raw1 := r.pick([]string{"https://cloud.example/one", "https://cloud.example/one/", "https://cloud.example:443/one/"})
		w.backends = append(w.backends, c01BackendCfg{"b1", raw1, lim()})
		w.backends = append(w.backends, c01BackendCfg{"b2", "https://cloud.example/two/", lim()})
		if r.chance(3, 4) {
			w.backends = append(w.backends, c01BackendCfg{"b3", r.pick([]string{"http://plain.example:8080", "http://plain.example:8080/"}), lim()})
		}
		if r.chance(1, 2) {
			// configuration order is lookup order
			w.backends[0], w.backends[1] = w.backends[1], w.backends[0]
		}
		if r.chance(1, 3) {
			// the same backends, received from etcd (keys = ids): urls are kept as written, lookup order is key order
			w.mode = "etcd"
		}
	case "allowed":
		mk("n1", []string{"cloud.example"}, "/")
		mk("n2", []string{"nc.example", "nc.example:8080"}, "/")
		mk("evilhost", []string{"evil.example"}, "/")
		w.allowed = []string{"cloud.example", "nc.example"}
		w.allowHttp = r.chance(1, 2)
		if r.chance(1, 4) {
			w.aaLimit = 1 + r.intn(2)
		}
	case "allowall":
		mk("n1", []string{"cloud.example"}, "/")
		mk("n2", []string{"nc.example"}, "/")
		mk("evilhost", []string{"evil.example"}, "/")
		w.allowHttp = r.chance(1, 2)
		if r.chance(1, 4) {
			w.aaLimit = 1 + r.intn(2)
		}
	}
	return w
}

// ---------- hello attribute vectors ----------

type c01TokSpec struct {
	Alg, Sign, Key, Mut string
	Iat, Nbf, Exp       string
	Sub                 string
}

type c01HelloSpec struct {
	C       int
	Ver     string
	Rid     string
	Auth    bool
	Params  bool
	Type    string
	URL     string
	OmitURL bool
	PKind   string // v1 | tok | notoken | null | str | internal
	V1      c01V1Params
	Tok     c01TokSpec
	Rnd     string
	XTok    string
	Backend string
}

const c01OcsPath = "ocs/v2.php/apps/spreed/api/v1/signaling/backend"

func (h *c01HelloSpec) line(w *c01World) string {
	u := c01UrlInfo(h.URL, true, w.tenants)
	if h.OmitURL {
		u = c01UrlFacts{}
	}
	bu := c01UrlInfo(h.Backend, false, w.tenants)
	rid := h.Rid
	if rid == "" {
		rid = "-"
	}
	f := []string{"hello", "c=" + strconv.Itoa(h.C), "ver=" + vEnc(h.Ver), "rid=" + rid, "auth=" + c01B(h.Auth), "params=" + c01B(h.Params),
		"type=" + vEnc(h.Type), u.kv("u."), "x.params=" + h.PKind}
	if h.OmitURL {
		f = append(f, "x.url=omit")
	}
	// protocol 1.0: predicted answer of the server behind the URL
	v1 := "fail"
	if u.Srv != "" {
		var p c01V1Params
		if h.PKind == "v1" {
			p = h.V1
		}
		v1 = c01V1Answer(u.Srv, &p)
	}
	f = append(f, "v1="+v1, "x.ticket="+vEnc(h.V1.Ticket), "x.userid="+vEnc(h.V1.UserId), "x.mode="+vEnc(h.V1.Mode))
	// params decode into the version's struct?
	pok := h.PKind != "str"
	f = append(f, "pok="+c01B(pok))
	t := h.Tok
	empty := h.PKind != "tok"
	wf := true
	switch t.Mut {
	case "seg2", "seg4", "hdrjunk", "claimsjunk", "iatstr":
		wf = false
	}
	opt := func(s string) string {
		if s == "" {
			return "-"
		}
		return s
	}
	alg := "-"
	if t.Alg != "" {
		alg = vEnc(t.Alg)
	}
	iat := opt(t.Iat)
	if t.Mut == "iatstr" {
		iat = "-"
	}
	f = append(f, "t.empty="+c01B(empty), "t.wf="+c01B(wf), "t.alg="+alg, "t.sigok="+c01B(t.Mut != "badb64"),
		"t.iat="+iat, "t.nbf="+opt(t.Nbf), "t.exp="+opt(t.Exp), "t.sub="+vEnc(t.Sub),
		"x.sign="+vEnc(t.Sign), "x.key="+vEnc(t.Key), "x.mut="+opt(t.Mut))
	f = append(f, "rnd="+vEnc(h.Rnd), "x.tok="+opt(h.XTok), bu.kv("b."))
	return strings.Join(f, " ")
}

var c01AlgOfFam = map[string][]string{
	"rsa":     {"RS256", "RS384", "RS512"},
	"ecdsa":   {"ES256", "ES384", "ES512"},
	"ed25519": {"EdDSA"},
}

// the alg that matches a concrete key (ECDSA algs are tied to the curve)
func c01AlgForKey(r *vRand, kid string) string {
	switch kid {
	case "ec256A", "ec256B":
		return "ES256"
	case "ec384":
		return "ES384"
	case "ec521":
		return "ES512"
	case "edA", "edB":
		return "EdDSA"
	}
	return r.pick(c01AlgOfFam["rsa"])
}

// a key of the pool other than kid, preferably of the same family
func c01OtherKey(r *vRand, kid string) string {
	fam := ""
	if k := c01Keys[kid]; k != nil {
		fam = k.fam
	}
	var same, other []string
	for _, n := range c01KeyNames {
		if n == kid {
			continue
		}
		if c01Keys[n].fam == fam {
			same = append(same, n)
		} else {
			other = append(other, n)
		}
	}
	if len(same) > 0 && r.chance(2, 3) {
		return r.pick(same)
	}
	return r.pick(other)
}

// URL of a tenant as a well-behaved client would send it
func c01TenantURL(r *vRand, t *c01Tenant) string {
	host := t.Hosts[0]
	scheme := "https"
	if strings.HasPrefix(host, "plain.") {
		scheme = "http"
	}
	base := scheme + "://" + host + t.Prefix
	switch r.intn(6) {
	case 0:
		return base
	case 1:
		return strings.TrimSuffix(base, "/")
	case 2:
		if scheme == "https" && !strings.Contains(host, ":") {
			return "https://" + host + ":443" + t.Prefix + c01OcsPath
		}
	}
	return base + c01OcsPath
}

// URL mutations: other prefixes of the same host, other hosts, dot segments, schemes, junk
func c01MutateURL(r *vRand, w *c01World, t *c01Tenant, good string) string {
	host := t.Hosts[0]
	scheme := "https"
	if strings.HasPrefix(host, "plain.") {
		scheme = "http"
	}
	base := scheme + "://" + host
	other := w.tenants[r.intn(len(w.tenants))]
	rel := strings.TrimPrefix(other.Prefix, "/")
	switch r.intn(22) {
	case 0:
		return base + t.Prefix + "../" + rel + c01OcsPath // dot segments: resolved by the web server
	case 1:
		return base + t.Prefix + "%2e%2e/" + rel + c01OcsPath
	case 2:
		return base + t.Prefix + "./" + c01OcsPath
	case 3:
		return base + t.Prefix + "x/../../" + rel
	case 4:
		return base + strings.TrimSuffix(t.Prefix, "/") + "2/" + c01OcsPath // /one2/: same host, prefix only textually close
	case 5:
		return base + "/evil/" + c01OcsPath
	case 6:
		return base + "/"
	case 7:
		return "https://evil.example/" + c01OcsPath
	case 8:
		return "https://" + host + ".evil.example" + t.Prefix + c01OcsPath
	case 9:
		return scheme + "://" + host + ":8443" + t.Prefix + c01OcsPath
	case 10:
		if scheme == "https" {
			return "http://" + host + t.Prefix + c01OcsPath
		}
		return "https://" + host + t.Prefix + c01OcsPath
	case 11:
		return scheme + "://user@" + host + t.Prefix + c01OcsPath
	case 12:
		return scheme + "://evil.example@" + host + t.Prefix
	case 13:
		return strings.ToUpper(scheme) + "://" + host + t.Prefix
	case 14:
		return scheme + "://" + strings.ToUpper(host) + t.Prefix
	case 15:
		return "ftp://" + host + t.Prefix
	case 16:
		return r.pick([]string{"", "cloud.example/one/", "://", "https://%zz/", "/one/", "relative", "https://", "http://[::1", "https:cloud.example/one/"})
	case 17:
		return base + t.Prefix + "?x=/../" + rel
	case 18:
		return base + "/" + rel + "..%2f" + strings.TrimPrefix(t.Prefix, "/")
	case 19:
		return base + "/" + t.Prefix // double slash
	case 20:
		return base + t.Prefix + "a/b/../../../" + rel + c01OcsPath
	}
	return good
}

func c01GoodToken(r *vRand, t *c01Tenant, user string) c01TokSpec {
	kid := t.Kid
	if c01Keys[kid] == nil {
		kid = c01KeyNames[r.intn(len(c01KeyNames))]
	}
	alg := c01AlgForKey(r, kid)
	return c01TokSpec{Alg: alg, Sign: alg, Key: kid, Mut: "", Iat: strconv.Itoa(-r.intn(30)), Exp: strconv.Itoa(60 + r.intn(600)), Sub: user}
}

var c01TimeEdge = []string{"-3600", "-121", "-62", "-61", "-60", "-59", "-58", "-1", "0", "1", "58", "59", "60", "61", "62", "121", "3600"}

func c01MutateToken(r *vRand, w *c01World, t *c01Tenant, tok *c01TokSpec) {
	switch r.intn(26) {
	case 0:
		tok.Alg, tok.Sign, tok.Key = "none", "none", "none"
	case 1:
		// HMAC keyed with the published public key text
		a := r.pick([]string{"HS256", "HS384", "HS512"})
		tok.Alg, tok.Sign, tok.Key = a, a, "pem:"+t.Name
	case 2:
		// header names another family than the key that signed
		fams := []string{"rsa", "ecdsa", "ed25519"}
		tok.Alg = r.pick(c01AlgOfFam[r.pick(fams)])
	case 3:
		// signed with another key (often another tenant's)
		tok.Key = c01OtherKey(r, tok.Key)
		tok.Sign = c01AlgForKey(r, tok.Key)
		if r.chance(1, 2) {
			tok.Alg = tok.Sign
		}
	case 4:
		o := w.tenants[r.intn(len(w.tenants))]
		if c01Keys[o.Kid] != nil {
			tok.Key, tok.Sign = o.Kid, c01AlgForKey(r, o.Kid)
			tok.Alg = tok.Sign
		}
	case 5:
		tok.Mut = "flip:" + strconv.Itoa(r.intn(4096))
	case 6:
		tok.Mut = "trunc:" + strconv.Itoa(1+r.intn(8))
	case 7:
		tok.Mut = r.pick([]string{"empty", "badb64", "seg2", "seg4", "hdrjunk", "claimsjunk", "iatstr"})
	case 8:
		tok.Alg = r.pick([]string{"PS256", "PS384", "rs256", "RS257", "", "HS256", "ES256K", "EdDSA ", "none"})
	case 9, 10:
		tok.Iat = r.pick(c01TimeEdge)
	case 11, 12:
		tok.Exp = r.pick(c01TimeEdge)
	case 13:
		tok.Nbf = r.pick(c01TimeEdge)
	case 14:
		tok.Iat = ""
	case 15:
		tok.Exp = ""
	case 16:
		tok.Iat, tok.Exp = r.pick(c01TimeEdge), r.pick(c01TimeEdge)
	case 17:
		tok.Iat, tok.Exp, tok.Nbf = r.pick(c01TimeEdge), r.pick(c01TimeEdge), r.pick(c01TimeEdge)
	case 18:
		tok.Sub = r.pick([]string{"", "admin", "user with space", "u/../x"})
	case 19:
		// exp before iat
		i := r.intn(20) - 10
		tok.Iat, tok.Exp = strconv.Itoa(i), strconv.Itoa(i+r.intn(3)-1)
	case 20:
		tok.Sign, tok.Key = "junk", "-"
	case 21:
		// RSA-PSS signature under an RS header and the other way round
		if k := c01Keys[tok.Key]; k != nil && k.fam == "rsa" {
			if r.chance(1, 2) {
				tok.Sign = "PS256"
				tok.Alg = "RS256"
			} else {
				tok.Sign, tok.Alg = "PS256", "PS256"
			}
		}
	case 22:
		// right family, other hash size
		if k := c01Keys[tok.Key]; k != nil && k.fam == "rsa" {
			tok.Alg = r.pick(c01AlgOfFam["rsa"])
		}
	default:
		tok.Iat = r.pick(c01TimeEdge)
		tok.Exp = r.pick(c01TimeEdge)
	}
}

// ---------- cases ----------

type c01CaseGen struct {
	w    *c01World
	r    *vRand
	ops  []string
	next int // next connection number
	sess int // sessions the generator believes to exist (upper bound)
}

var c01ClientAddrs = []string{"198.51.100.7", "198.51.100.8", "2001:db8::1", "198.51.100.7", "2001:db8::2", "2001:db8:0:1::1"}

func (g *c01CaseGen) connect() int {
	return g.connectFrom(c01ClientAddrs[g.r.intn(len(c01ClientAddrs))])
}

func (g *c01CaseGen) connectFrom(addr string) int {
	g.next++
	// classification of the address for the throttle key: standard library only
	akey := "r:" + vEnc(addr)
	if ip := net.ParseIP(addr); ip != nil && ip.To4() == nil {
		akey = "6:" + hex.EncodeToString(ip.To16())
	}
	g.ops = append(g.ops, fmt.Sprintf("connect c=%d addr=%s akey=%s", g.next, vEnc(addr), akey))
	return g.next
}

func (g *c01CaseGen) configured() []*c01Tenant {
	var ts []*c01Tenant
	for _, t := range g.w.tenants {
		switch g.w.mode {
		case "backends", "etcd":
			for _, b := range g.w.backends {
				if b.Id == t.Name {
					ts = append(ts, t)
				}
			}
		case "allowed":
			for _, h := range g.w.allowed {
				if h == t.Hosts[0] {
					ts = append(ts, t)
				}
			}
		default:
			ts = append(ts, t)
		}
	}
	return ts
}

func (g *c01CaseGen) target() *c01Tenant {
	ts := g.configured()
	if len(ts) == 0 || g.r.chance(1, 8) {
		return g.w.tenants[g.r.intn(len(g.w.tenants))]
	}
	return ts[g.r.intn(len(ts))]
}

func (g *c01CaseGen) user() string { return g.r.pick([]string{"alice", "bob", "carol", ""}) }

// helloV2 appends a protocol-2.0 hello: valid with probability pValid, else mutated.
func (g *c01CaseGen) helloV2(c int, mutations int) {
	r := g.r
	t := g.target()
	h := &c01HelloSpec{C: c, Ver: "2.0", Auth: true, Params: true, Type: r.pick([]string{"", "client", "client", "federation"}),
		URL: c01TenantURL(r, t), PKind: "tok", Tok: c01GoodToken(r, t, g.user())}
	for i := 0; i < mutations; i++ {
		switch r.intn(10) {
		case 0, 1, 2:
			h.URL = c01MutateURL(r, g.w, t, h.URL)
		case 3:
			h.PKind = r.pick([]string{"notoken", "null", "str", "v1"})
		default:
			c01MutateToken(r, g.w, t, &h.Tok)
		}
	}
	g.ops = append(g.ops, h.line(g.w))
}

func (g *c01CaseGen) helloV1(c int, mutations int) {
	r := g.r
	t := g.target()
	h := &c01HelloSpec{C: c, Ver: "1.0", Auth: true, Params: true, Type: r.pick([]string{"", "client", "federation"}),
		URL: c01TenantURL(r, t), PKind: "v1", V1: c01V1Params{Ticket: t.Name, UserId: g.user(), Mode: "auth"}}
	for i := 0; i < mutations; i++ {
		switch r.intn(8) {
		case 0, 1, 2:
			h.URL = c01MutateURL(r, g.w, t, h.URL)
		case 3:
			h.V1.Ticket = g.w.tenants[r.intn(len(g.w.tenants))].Name
		case 4:
			h.V1.Mode = r.pick([]string{"error", "other", "badct"})
		case 5:
			h.Ver = r.pick([]string{"1.1", "3.0", "", "2", "1.0 "})
		case 6:
			switch r.intn(5) {
			case 0:
				h.Auth = false
			case 1:
				h.Params = false
			case 2:
				h.Type = r.pick([]string{"virtual", "Client", "server", "internal "})
			case 3:
				h.OmitURL = true
			case 4:
				h.PKind = "str" // opaque for 1.0: the backend decides
			}
		default:
			h.V1.Ticket = "nobody"
		}
	}
	g.ops = append(g.ops, h.line(g.w))
}

var c01Randoms = []int{0, 1, 16, 31, 32, 33, 48, 64}

func (g *c01CaseGen) helloInternal(c int, mutations int) {
	r := g.r
	t := g.target()
	rnd := strings.Repeat("r", 32+r.intn(33))
	h := &c01HelloSpec{C: c, Ver: r.pick([]string{"1.0", "2.0"}), Auth: true, Params: true, Type: "internal", PKind: "internal",
		Rnd: rnd, XTok: "good", Backend: c01TenantURL(r, t)}
	if r.chance(1, 3) {
		h.URL = c01TenantURL(r, t) // ignored by the server for internal clients
	}
	for i := 0; i < mutations; i++ {
		switch r.intn(8) {
		case 0, 1:
			n := c01Randoms[r.intn(len(c01Randoms))]
			h.Rnd = strings.Repeat("x", n)
			if r.chance(1, 4) && n >= 2 {
				// multi-byte characters: 32 is a number of bytes
				h.Rnd = strings.Repeat("é", n/2)
			}
		case 2, 3:
			h.XTok = r.pick([]string{"wrongsecret", "emptysecret", "trunc", "upper", "otherrandom", "empty"})
		case 4, 5:
			h.Backend = c01MutateURL(r, g.w, t, h.Backend)
		case 6:
			h.PKind = "str"
		default:
			h.Rnd = strings.Repeat("z", r.intn(65))
		}
	}
	g.ops = append(g.ops, h.line(g.w))
}

func (g *c01CaseGen) helloResume(c int, rid string) {
	h := &c01HelloSpec{C: c, Ver: g.r.pick([]string{"1.0", "2.0", "2.0"}), Rid: rid}
	if g.r.chance(1, 4) {
		// auth is not looked at when a resume id is given
		h.Auth, h.Params, h.PKind, h.URL = true, true, "v1", "https://evil.example/"
		h.V1 = c01V1Params{Ticket: "evilhost", UserId: "mallory", Mode: "auth"}
	}
	g.ops = append(g.ops, h.line(g.w))
}

const c01SampleHello = `{"id":"1","type":"hello","hello":{"version":"2.0","features":["a"],"auth":{"type":"client","url":"https://cloud.example/one/","params":{"token":"a.b.c"}}}}`

func (g *c01CaseGen) preHello(c int, n int) {
	for i := 0; i < n; i++ {
		if g.r.chance(1, 5) {
			// malformed stream: a strict prefix of a JSON document, or bytes that cannot start one, never decodes
			var raw string
			if g.r.chance(1, 2) {
				raw = c01SampleHello[:1+g.r.intn(len(c01SampleHello)-1)]
			} else {
				b := make([]byte, 1+g.r.intn(40))
				for j := range b {
					b[j] = byte(33 + g.r.intn(94))
				}
				b[0] = "x)]}:,#\\/"[g.r.intn(9)]
				raw = string(b)
			}
			g.ops = append(g.ops, fmt.Sprintf("msg c=%d ty=%s shape=undecodable raw=%s", c, vEnc("?"), vEnc(raw)))
			continue
		}
		k := g.r.intn(len(c01Messages))
		m := c01Messages[k]
		g.ops = append(g.ops, fmt.Sprintf("msg c=%d ty=%s shape=%s i=%d", c, vEnc(m.ty), m.shape, k))
	}
}

// a hello that is expected to succeed (used to create sessions for the resume cases)
func (g *c01CaseGen) goodHello(c int) {
	switch g.r.intn(3) {
	case 0:
		g.helloV1(c, 0)
	case 1:
		g.helloV2(c, 0)
	default:
		if g.w.secret {
			g.helloInternal(c, 0)
		} else {
			g.helloV1(c, 0)
		}
	}
	g.sess++
}

func c01GenCase(r *vRand, kind int) vCase {
	w := c01GenWorld(r)
	g := &c01CaseGen{w: w, r: r}
	g.ops = append(g.ops, w.ops()...)
	muts := func() int {
		switch r.intn(6) {
		case 0:
			return 0
		case 1, 2, 3:
			return 1
		case 4:
			return 2
		}
		return 3
	}
	switch kind {
	case 0: // token vectors
		for i, n := 0, 3+r.intn(5); i < n; i++ {
			c := g.connect()
			for j, m := 0, 1+r.intn(3); j < m; j++ {
				k := muts()
				g.helloV2(c, k)
				if k == 0 {
					break // probably accepted: further hellos on this connection would be ignored
				}
			}
		}
	case 1: // protocol 1.0
		for i, n := 0, 3+r.intn(4); i < n; i++ {
			c := g.connect()
			for j, m := 0, 1+r.intn(2); j < m; j++ {
				k := muts()
				g.helloV1(c, k)
				if k == 0 {
					break
				}
			}
		}
	case 2: // internal
		for i, n := 0, 2+r.intn(4); i < n; i++ {
			c := g.connect()
			for j, m := 0, 1+r.intn(3); j < m; j++ {
				k := muts()
				g.helloInternal(c, k)
				if k == 0 {
					break
				}
			}
		}
	case 3: // resume
		var conns []int
		for i, n := 0, 1+r.intn(3); i < n; i++ {
			c := g.connect()
			g.goodHello(c)
			conns = append(conns, c)
		}
		for i, n := 0, 3+r.intn(8); i < n; i++ {
			s := 1 + r.intn(g.sess+1)
			switch r.intn(12) {
			case 0, 1:
				c := conns[r.intn(len(conns))]
				g.ops = append(g.ops, fmt.Sprintf("disconnect c=%d", c))
			case 2:
				c := conns[r.intn(len(conns))]
				g.ops = append(g.ops, fmt.Sprintf("bye c=%d", c))
			case 3, 4, 5:
				g.helloResume(g.connect(), fmt.Sprintf("priv:%d", s))
			case 6:
				g.helloResume(g.connect(), fmt.Sprintf("pub:%d", s))
			case 7:
				g.helloResume(g.connect(), fmt.Sprintf("mut:%d:%d", s, r.intn(200)))
			case 8:
				g.helloResume(g.connect(), r.pick([]string{"foreign", "junk:" + vEnc("abc"), "junk:" + vEnc("AAAA|BBBB|CCCC"), "junk:" + vEnc(strings.Repeat("Q", 120))}))
			case 9:
				// a connection that already has a session says hello again
				c := conns[r.intn(len(conns))]
				g.helloResume(c, fmt.Sprintf("priv:%d", s))
			case 10:
				c := g.connect()
				conns = append(conns, c)
				g.goodHello(c)
			default:
				c := g.connect()
				g.preHello(c, 1+r.intn(3))
				g.helloResume(c, fmt.Sprintf("priv:%d", s))
			}
		}
	case 4: // everything before hello
		for i, n := 0, 1+r.intn(3); i < n; i++ {
			c := g.connect()
			g.preHello(c, 1+r.intn(8))
			switch r.intn(4) {
			case 0:
				g.helloV1(c, muts())
			case 1:
				g.helloV2(c, muts())
			case 2:
				g.helloInternal(c, muts())
			}
			g.preHello(c, r.intn(4))
			if r.chance(1, 3) {
				g.ops = append(g.ops, fmt.Sprintf("bye c=%d", c))
			}
		}
	case 5: // brute force: many bad resume ids / internal tokens from one address, then the block
		addr := r.pick([]string{"198.51.100.7", "2001:db8::1"})
		other := "198.51.100.99"
		if strings.Contains(addr, ":") && r.chance(1, 2) {
			other = "2001:db8::2" // same /64: same throttle record
		}
		c := g.connectFrom(addr)
		resume := r.chance(1, 2)
		for i, n := 0, 8+r.intn(6); i < n; i++ {
			if resume {
				g.helloResume(c, r.pick([]string{"junk:" + vEnc(fmt.Sprintf("guess-%d", i)), "foreign", "pub:1", "mut:1:" + strconv.Itoa(i)}))
			} else {
				h := &c01HelloSpec{C: c, Ver: "1.0", Auth: true, Params: true, Type: "internal", PKind: "internal",
					Rnd: strings.Repeat("g", 32+r.intn(8)), XTok: r.pick([]string{"wrongsecret", "emptysecret", "trunc", "otherrandom"}),
					Backend: c01TenantURL(r, g.target())}
				g.ops = append(g.ops, h.line(g.w))
			}
			if r.chance(1, 5) {
				c = g.connectFrom(addr)
			}
			if r.chance(1, 8) {
				// the other kind of attempt has its own record
				resume = !resume
			}
		}
		// correct credentials from the blocked address, and from another one
		if resume {
			c2 := g.connectFrom(other)
			g.goodHello(c2)
			g.ops = append(g.ops, fmt.Sprintf("disconnect c=%d", c2))
			g.helloResume(c, fmt.Sprintf("priv:%d", 1))
			g.helloResume(g.connectFrom(other), fmt.Sprintf("priv:%d", 1))
		} else {
			g.helloInternal(c, 0)
			g.helloInternal(g.connectFrom(other), 0)
		}
		g.helloV1(g.connectFrom(addr), 0) // other hello kinds are not throttled
	case 7: // a resume racing with the end of the session it names
		// scripted opening: sessions on connections, some of them detached; random other traffic; then one race
		var conns []int
		for i, n := 0, 1+r.intn(3); i < n; i++ {
			c := g.connect()
			g.goodHello(c)
			conns = append(conns, c)
		}
		k := 1 + r.intn(len(conns)) // session k was created on conns[k-1] (if every hello was accepted)
		end := r.pick([]string{"bye", "expire", "expire"})
		if end == "expire" {
			g.ops = append(g.ops, fmt.Sprintf("disconnect c=%d", conns[k-1]))
		}
		for i, n := 0, r.intn(3); i < n; i++ {
			switch r.intn(3) {
			case 0:
				g.preHello(g.connect(), 1+r.intn(2))
			case 1:
				g.helloResume(g.connect(), fmt.Sprintf("mut:%d:%d", k, r.intn(200)))
			default:
				g.goodHello(g.connect())
			}
		}
		c := g.connect()
		o := "-"
		if end == "bye" {
			o = strconv.Itoa(conns[k-1])
		}
		g.ops = append(g.ops, fmt.Sprintf("rrace c=%d rid=priv:%d end=%s o=%s first=%s", c, k, end, o, r.pick([]string{"resume", "end", "end", "free"})))
	default: // session limits
		for i, n := 0, 3+r.intn(5); i < n; i++ {
			c := g.connect()
			g.goodHello(c)
			if r.chance(1, 4) {
				g.ops = append(g.ops, fmt.Sprintf("bye c=%d", c))
			}
		}
	}
	return vCase{Ops: g.ops}
}

func vC01Gen(e *vEnv, r *vRand) []vCase {
	c01InitKeys()
	var cases []vCase
	n := e.scale(1200, 12000)
	weights := []int{0, 0, 0, 0, 0, 0, 1, 1, 1, 2, 2, 3, 3, 4, 4, 5, 6, 7, 7}
	for i := 0; i < n; i++ {
		rr := r.fork()
		cases = append(cases, c01GenCase(rr, weights[rr.intn(len(weights))]))
	}
	return cases
}
