package signaling

import (
	"encoding/json"
	"fmt"
	"io"
	"log"
	"net/url"
	"os"
	"sort"
	"strconv"
	"strings"
	"sync"
	"sync/atomic"
	"testing"
	"time"

	"github.com/dlintw/goconf"
)

// C13: BackendConfiguration / backendStorageStatic / backendStorageEtcd against
// Model/Backends.lean.
//
// Line protocol (one case = one storage instance):
//
//	mode static|etcd
//	load   <cfg>          static: fresh instance from <cfg>          -> ok | panic:<msg>
//	reload <cfg>          static: Reload(<cfg>) on the instance      -> ok | panic:<msg>
//	put <key> <jsonok> <url> <parseok> <normurl> <host> <scheme> <secret> <limit> <stream> <screen> <rawjson>
//	                      etcd: EtcdKeyUpdated(key, rawjson)          -> ok | panic:<msg>
//	del <key>             etcd: EtcdKeyDeleted(key)                   -> ok | panic:<msg>
//	probe <scheme> <host> <url> <dots> <raw>
//	                      GetBackend(parse(raw)) on the instance and on a fresh instance built from the final
//	                      configuration                                -> chain=<ans> fresh=<ans>
//	list                  GetBackends(), sorted                        -> chain=<ids> fresh=<ids>
//	racebegin <n>         start n goroutines doing lookups while the following reload/put/del ops run
//	raceend               join (watchdog)                              -> ok | stuck | inconsistent:<what>
//
// <cfg> = cs=<common secret> ids=<raw value of [backend] backends> { sec <id> <url> <parseok> <normurl> <host>
// <scheme> <secret> <limit> <stream> <screen> }*.  The fields <parseok> <normurl> <host> <scheme> (and, for probe,
// <scheme> <host> <url>) are computed here with net/url only — they are the model's view of the URL; everything
// the real code sees is the raw value.

// ---------- URL tokeniser (standard library only, independent of the code under test) ----------

func vC13StdPort(u *url.URL) bool {
	return (u.Scheme == "http" && u.Port() == "80") || (u.Scheme == "https" && u.Port() == "443")
}

// vC13NormStatic: what a static configuration entry's url denotes.
func vC13NormStatic(raw string) (ok bool, norm, host, scheme string) {
	if raw == "" {
		return false, "", "", ""
	}
	u := raw
	if !strings.HasSuffix(u, "/") {
		u += "/"
	}
	p, err := url.Parse(u)
	if err != nil {
		return false, "", "", ""
	}
	if strings.Contains(p.Host, ":") && vC13StdPort(p) {
		p.Host = p.Hostname()
		u = p.String()
	}
	return true, u, p.Host, p.Scheme
}

// vC13NormEtcd: what an etcd entry's url denotes (no slash is appended there).
func vC13NormEtcd(raw string) (ok bool, norm, host, scheme string) {
	if raw == "" {
		return false, "", "", ""
	}
	p, err := url.Parse(raw)
	if err != nil {
		return false, "", "", ""
	}
	u := raw
	if strings.Contains(p.Host, ":") && vC13StdPort(p) {
		p.Host = p.Hostname()
		u = p.String()
	}
	return true, u, p.Host, p.Scheme
}

func vC13NormProbe(raw string) (ok bool, scheme, host, us string, dots bool) {
	p, err := url.Parse(raw)
	if err != nil {
		return false, "", "", "", false
	}
	for _, seg := range strings.Split(p.Path, "/") {
		if seg == "." || seg == ".." {
			dots = true
		}
	}
	if strings.Contains(p.Host, ":") && vC13StdPort(p) {
		p.Host = p.Hostname()
	}
	us = p.String()
	if us == "" {
		return false, "", "", "", false
	}
	if !strings.HasSuffix(us, "/") {
		us += "/"
	}
	return true, p.Scheme, p.Host, us, dots
}

func vC13B(b bool) string {
	if b {
		return "1"
	}
	return "0"
}

// ---------- generator: static configurations ----------

type vC13Sec struct {
	id, url, secret       string
	limit, stream, screen string // "" = option absent
}

type vC13Cfg struct {
	common string
	ids    string
	secs   []vC13Sec
}

func vC13IntTok(s string) string {
	if s == "" {
		return "x"
	}
	v, err := strconv.Atoi(s)
	if err != nil {
		return "x"
	}
	return strconv.Itoa(v)
}

func (c *vC13Cfg) tokens() string {
	var sb strings.Builder
	fmt.Fprintf(&sb, "cs=%s ids=%s", vEnc(c.common), vEnc(c.ids))
	for _, s := range c.secs {
		ok, norm, host, scheme := vC13NormStatic(s.url)
		fmt.Fprintf(&sb, " sec %s %s %s %s %s %s %s %s %s %s", vEnc(s.id), vEnc(s.url), vC13B(ok), vEnc(norm), vEnc(host),
			vEnc(scheme), vEnc(s.secret), vC13IntTok(s.limit), vC13IntTok(s.stream), vC13IntTok(s.screen))
	}
	return sb.String()
}

var vC13Hosts = []string{"h1.invalid", "h2.invalid", "h3.invalid", "h4.invalid"}
var vC13Paths = []string{"", "/", "/a", "/a/", "/a/b", "/ab", "/b", "/a/b/c", "/a/b/"}
var vC13Ids = []string{"b1", "b2", "b3", "b4", "b5", "b6", "b7"}

type vC13Ent struct {
	id, scheme, host, port, path, secret string
	limit, stream, screen                string
}

func (e *vC13Ent) url() string { return e.scheme + "://" + e.host + e.port + e.path }

func vC13RandEnt(r *vRand, id string, nh int) vC13Ent {
	e := vC13Ent{id: id, scheme: "https", host: vC13Hosts[r.intn(nh)], path: r.pick(vC13Paths)}
	if r.chance(1, 4) {
		e.scheme = "http"
	}
	switch r.intn(10) {
	case 0:
		if e.scheme == "https" {
			e.port = ":443"
		} else {
			e.port = ":80"
		}
	case 1:
		e.port = ":8443"
	case 2:
		if e.scheme == "https" {
			e.port = ":80"
		}
	}
	e.secret = "s-" + id + "-" + strconv.Itoa(r.intn(3))
	if r.chance(1, 12) {
		e.secret = ""
	}
	if r.chance(1, 3) {
		e.limit = strconv.Itoa(r.intn(5) * 10)
	}
	if r.chance(1, 12) {
		e.limit = r.pick([]string{"-3", "abc", "+7", ""})
	}
	if r.chance(1, 4) {
		e.stream = strconv.Itoa(r.intn(4) * 1000)
	}
	if r.chance(1, 4) {
		e.screen = strconv.Itoa(r.intn(4) * 2000)
	}
	if r.chance(1, 20) {
		e.stream = "-5"
	}
	return e
}

// vC13Render turns the abstract entry list into a configuration with the noise a real file has.
func vC13Render(r *vRand, ents []vC13Ent, common string) vC13Cfg {
	c := vC13Cfg{common: common}
	var ids []string
	for _, e := range ents {
		ids = append(ids, e.id)
		c.secs = append(c.secs, vC13Sec{id: e.id, url: e.url(), secret: e.secret, limit: e.limit, stream: e.stream, screen: e.screen})
	}
	// noise: duplicate id, id without section, empty items, section not listed, broken url
	if len(ids) > 0 && r.chance(1, 5) {
		ids = append(ids, ids[r.intn(len(ids))])
	}
	if r.chance(1, 6) {
		k := r.intn(len(ids) + 1)
		ids = append(ids[:k], append([]string{"nosection"}, ids[k:]...)...)
	}
	if r.chance(1, 8) {
		c.secs = append(c.secs, vC13Sec{id: "unlisted", url: "https://" + vC13Hosts[0] + "/", secret: "s-unlisted"})
	}
	if r.chance(1, 10) {
		k := r.intn(len(ids) + 1)
		ids = append(ids[:k], append([]string{"broken"}, ids[k:]...)...)
		c.secs = append(c.secs, vC13Sec{id: "broken", url: r.pick([]string{"https://[::1", "http://h1.invalid:port/", "://x", ""}), secret: "s-broken"})
	}
	var sb strings.Builder
	for i, id := range ids {
		if i > 0 {
			sb.WriteString(r.pick([]string{",", ", ", " , ", ",,", ", ,"}))
		}
		sb.WriteString(id)
	}
	if r.chance(1, 8) {
		sb.WriteString(r.pick([]string{",", " ", ", "}))
	}
	c.ids = sb.String()
	if c.ids == "" && r.chance(1, 2) {
		// nothing configured: either an empty value or one that only has separators
		c.ids = r.pick([]string{",", " ", " , "})
	}
	return c
}

func vC13Mutate(r *vRand, ents []vC13Ent, nh int) []vC13Ent {
	out := append([]vC13Ent{}, ents...)
	n := 1 + r.intn(3)
	for k := 0; k < n; k++ {
		switch op := r.intn(14); {
		case op >= 12 && len(out) > 0:
			// exactly ONE option of one entry is set, changed or removed and everything else stays as it was
			// (an "is this backend unchanged?" shortcut of the reload must look at every option)
			e := &out[r.intn(len(out))]
			other := func(cur string, vals ...string) string {
				for {
					if v := r.pick(vals); v != cur {
						return v
					}
				}
			}
			switch r.intn(4) {
			case 0:
				e.secret = other(e.secret, "s-"+e.id+"-0", "s-"+e.id+"-1", "s-"+e.id+"-2")
			case 1:
				e.limit = other(e.limit, "", "10", "20", "30")
			case 2:
				e.stream = other(e.stream, "", "1000", "2000", "3000")
			case 3:
				e.screen = other(e.screen, "", "2000", "4000", "6000")
			}
		case op <= 1 && len(out) < 6: // add
			used := map[string]bool{}
			for _, e := range out {
				used[e.id] = true
			}
			var free []string
			for _, id := range vC13Ids {
				if !used[id] {
					free = append(free, id)
				}
			}
			if len(free) > 0 {
				e := vC13RandEnt(r, r.pick(free), nh)
				pos := r.intn(len(out) + 1)
				out = append(out[:pos], append([]vC13Ent{e}, out[pos:]...)...)
			}
		case op <= 4 && len(out) > 0: // remove (first ones preferably: the in-place upsert trips there)
			pos := r.intn(len(out))
			if r.chance(1, 2) {
				pos = 0
			}
			out = append(out[:pos], out[pos+1:]...)
		case op == 5 && len(out) > 0: // move to another host
			out[r.intn(len(out))].host = vC13Hosts[r.intn(nh)]
		case op == 6 && len(out) > 0: // other path
			out[r.intn(len(out))].path = r.pick(vC13Paths)
		case op == 7 && len(out) > 1: // reorder
			i, j := r.intn(len(out)), r.intn(len(out))
			out[i], out[j] = out[j], out[i]
		case op == 8 && len(out) > 0: // secret / limits
			e := &out[r.intn(len(out))]
			e.secret = "s-" + e.id + "-" + strconv.Itoa(r.intn(3))
			if r.chance(1, 2) {
				e.limit = strconv.Itoa(r.intn(5) * 10)
			}
			if r.chance(1, 2) {
				e.stream = strconv.Itoa(r.intn(4) * 1000)
			}
		case op == 9 && len(out) > 1: // swap the urls of two ids
			i, j := r.intn(len(out)), r.intn(len(out))
			out[i].host, out[j].host = out[j].host, out[i].host
			out[i].path, out[j].path = out[j].path, out[i].path
			out[i].scheme, out[j].scheme = out[j].scheme, out[i].scheme
			out[i].port, out[j].port = out[j].port, out[i].port
		case op == 10 && len(out) > 0: // scheme
			e := &out[r.intn(len(out))]
			if e.scheme == "http" {
				e.scheme = "https"
			} else {
				e.scheme = "http"
			}
			e.port = ""
		case op == 11: // reverse everything
			for i, j := 0, len(out)-1; i < j; i, j = i+1, j-1 {
				out[i], out[j] = out[j], out[i]
			}
		}
	}
	return out
}

// vC13Probes: every url seen, its prefixes and extensions, scheme/port variants.
func vC13Probes(urls []string) []string {
	seen := map[string]bool{}
	var out []string
	add := func(s string) {
		if s != "" && !seen[s] {
			if ok, _, _, _, _ := vC13NormProbe(s); ok {
				seen[s] = true
				out = append(out, s)
			}
		}
	}
	for _, raw := range urls {
		p, err := url.Parse(raw)
		if err != nil || p.Host == "" {
			continue
		}
		base := p.Scheme + "://" + p.Host
		segs := strings.Split(strings.Trim(p.Path, "/"), "/")
		paths := []string{"", "/"}
		cur := ""
		for _, s := range segs {
			if s == "" {
				continue
			}
			cur += "/" + s
			paths = append(paths, cur, cur+"/", cur+"x", cur+"/x", cur+"/ocs/v2.php/apps/spreed/api/v1/signaling/backend")
			if len(paths)%3 == 0 {
				paths = append(paths, cur+"/../zz/", cur+"/./", cur+"/%2e%2e/zz")
			}
		}
		paths = append(paths, "/zz")
		for _, pa := range paths {
			add(base + pa)
		}
		other := "http"
		if p.Scheme == "http" {
			other = "https"
		}
		add(other + "://" + p.Host + p.Path)
		hn := p.Hostname()
		add(p.Scheme + "://" + hn + p.Path)
		add("https://" + hn + ":443" + p.Path)
		add("http://" + hn + ":80" + p.Path)
		add("https://" + hn + ":8443" + p.Path)
		add("ftp://" + hn + p.Path)
	}
	add("https://unknown.invalid/a")
	return out
}

func vC13ProbeLine(raw string) string {
	_, scheme, host, us, dots := vC13NormProbe(raw)
	return fmt.Sprintf("probe %s %s %s %s %s", vEnc(scheme), vEnc(host), vEnc(us), vC13B(dots), vEnc(raw))
}

func vC13GenStatic(e *vEnv, r *vRand, race bool) vCase {
	nh := 1 + r.intn(4)
	if r.chance(1, 2) {
		nh = 1 + r.intn(2) // shared hosts are where the trouble is
	}
	common := ""
	if r.chance(1, 4) {
		common = "common-secret"
	}
	var ents []vC13Ent
	n0 := 1 + r.intn(4)
	ids := append([]string{}, vC13Ids...)
	for i := 0; i < n0; i++ {
		k := r.intn(len(ids))
		ents = append(ents, vC13RandEnt(r, ids[k], nh))
		ids = append(ids[:k], ids[k+1:]...)
	}
	nre := 1 + r.intn(e.scale(5, 8))
	cfgs := []vC13Cfg{vC13Render(r, ents, common)}
	for i := 0; i < nre; i++ {
		if r.chance(1, 10) {
			// unchanged reload
		} else {
			ents = vC13Mutate(r, ents, nh)
		}
		if r.chance(1, 15) {
			if common == "" {
				common = "common-secret"
			} else {
				common = ""
			}
		}
		cfgs = append(cfgs, vC13Render(r, ents, common))
	}
	var urls []string
	for _, c := range cfgs {
		for _, s := range c.secs {
			urls = append(urls, s.url)
		}
	}
	probes := vC13Probes(urls)
	ops := []string{"mode static", "load " + cfgs[0].tokens()}
	someProbes := func(k int) {
		for i := 0; i < k && len(probes) > 0; i++ {
			ops = append(ops, vC13ProbeLine(probes[r.intn(len(probes))]))
		}
	}
	someProbes(3)
	if race {
		ops = append(ops, fmt.Sprintf("racebegin %d", 2+r.intn(4)))
		for pass := 0; pass < 20; pass++ {
			for _, c := range cfgs[1:] {
				ops = append(ops, "reload "+c.tokens())
			}
		}
		ops = append(ops, "raceend")
	} else {
		for _, c := range cfgs[1:] {
			ops = append(ops, "reload "+c.tokens())
			someProbes(4)
		}
	}
	ops = append(ops, "list")
	for _, p := range probes {
		ops = append(ops, vC13ProbeLine(p))
	}
	return vCase{Ops: ops}
}

// ---------- generator: static chains around the common secret ----------

// vC13GenCommon: chains of configurations in which the common `[backend] secret` is present, changed, removed and
// added again (a scripted opening, then a random continuation), over backends with an own secret and backends
// that rely on the common one (such a backend is configured only while a common secret exists, and answers with
// the common secret of the file in force).  Many steps change nothing but the common secret or the own secret of
// one backend; every url configured so far is looked up after every step, so that the url set and the secret
// tied to each url are compared with a fresh start on every intermediate configuration as well.
func vC13GenCommon(e *vEnv, r *vRand) vCase {
	nh := 1 + r.intn(2)
	const A, B = "cs-A", "cs-B"
	scripts := [][]string{
		{A, ""}, {A, B}, {A, "", A}, {A, "", B}, {"", A, ""}, {A, B, ""}, {"", A}, {A, A, ""}, {A, "", ""},
	}
	script := append([]string{}, scripts[r.intn(len(scripts))]...)
	chain := r.chance(1, 4) // the common secret goes while every backend has an own one; a backend without comes later
	if chain {
		script = []string{r.pick([]string{A, B}), "", ""}
	}
	for k := r.intn(e.scale(4, 7)); k > 0; k-- {
		script = append(script, r.pick([]string{"", "", A, B, B, script[len(script)-1]}))
	}
	var ents []vC13Ent
	freeId := func() string { // an id no current entry has (at most 6 of the 7 are ever in use)
		var free []string
		for _, id := range vC13Ids {
			used := false
			for _, en := range ents {
				used = used || en.id == id
			}
			if !used {
				free = append(free, id)
			}
		}
		return r.pick(free)
	}
	newEnt := func(own bool) vC13Ent {
		en := vC13RandEnt(r, freeId(), nh)
		if own {
			en.secret = "s-" + en.id + "-" + strconv.Itoa(r.intn(3))
		} else {
			en.secret = ""
		}
		return en
	}
	n0 := 1 + r.intn(3)
	for i := 0; i < n0; i++ {
		ents = append(ents, newEnt(chain || r.chance(1, 2)))
	}
	if !chain && r.chance(3, 4) {
		ents[r.intn(len(ents))].secret = "" // at least one backend that relies on the common secret
	}
	var cfgs []vC13Cfg
	for step, common := range script {
		if step > 0 {
			switch k := r.intn(8); {
			case chain && step == 1:
				// nothing but the common secret changes
			case chain && step == 2:
				pos := r.intn(len(ents) + 1)
				ents = append(ents[:pos], append([]vC13Ent{newEnt(false)}, ents[pos:]...)...)
			case k <= 2:
				// nothing but the common secret changes
			case k == 3 && len(ents) > 0: // a backend loses / gets its own secret
				en := &ents[r.intn(len(ents))]
				if en.secret == "" {
					en.secret = "s-" + en.id + "-" + strconv.Itoa(r.intn(3))
				} else {
					en.secret = ""
				}
			case k == 4 && len(ents) < 5: // a new backend, mostly without own secret
				pos := r.intn(len(ents) + 1)
				ents = append(ents[:pos], append([]vC13Ent{newEnt(r.chance(1, 4))}, ents[pos:]...)...)
			case k == 5 && len(ents) > 1: // a backend goes
				pos := r.intn(len(ents))
				ents = append(append([]vC13Ent{}, ents[:pos]...), ents[pos+1:]...)
			case k == 6 && len(ents) > 0: // another own secret
				en := &ents[r.intn(len(ents))]
				en.secret = "s-" + en.id + "-" + strconv.Itoa(3+r.intn(3))
			default:
				ents = vC13Mutate(r, ents, nh)
			}
		}
		cfgs = append(cfgs, vC13Render(r, ents, common))
	}
	ops := []string{"mode static"}
	seen := map[string]bool{}
	var urls []string
	for i, c := range cfgs {
		if i == 0 {
			ops = append(ops, "load "+c.tokens())
		} else {
			ops = append(ops, "reload "+c.tokens())
		}
		for _, s := range c.secs {
			if ok, _, _, _ := vC13NormStatic(s.url); ok && !seen[s.url] {
				seen[s.url] = true
				urls = append(urls, s.url)
			}
		}
		for _, u := range urls {
			if ok, _, _, _, _ := vC13NormProbe(u); ok {
				ops = append(ops, vC13ProbeLine(u))
			}
		}
		if r.chance(1, 3) {
			ops = append(ops, "list")
		}
	}
	ops = append(ops, "list")
	probes := vC13Probes(urls)
	for i := 0; i < 6 && len(probes) > 0; i++ {
		ops = append(ops, vC13ProbeLine(probes[r.intn(len(probes))]))
	}
	return vCase{Ops: ops}
}

// ---------- generator: etcd event sequences ----------

type vC13Info struct {
	Url              string `json:"url"`
	Secret           string `json:"secret"`
	MaxStreamBitrate int    `json:"maxstreambitrate,omitempty"`
	MaxScreenBitrate int    `json:"maxscreenbitrate,omitempty"`
	SessionLimit     uint64 `json:"sessionlimit,omitempty"`
}

func vC13PutLine(key, raw string) string {
	var info vC13Info
	jsonok := json.Unmarshal([]byte(raw), &info) == nil
	if !jsonok {
		info = vC13Info{}
	}
	ok, norm, host, scheme := vC13NormEtcd(info.Url)
	return fmt.Sprintf("put %s %s %s %s %s %s %s %s %d %d %d %s", vEnc(key), vC13B(jsonok), vEnc(info.Url), vC13B(ok), vEnc(norm),
		vEnc(host), vEnc(scheme), vEnc(info.Secret), info.SessionLimit, info.MaxStreamBitrate, info.MaxScreenBitrate, vEnc(raw))
}

var vC13Keys = []string{"/backends/k1", "/backends/k2", "/backends/k3", "/backends/k4", "/backends/a", "/backends/z", "/backends/k10"}

func vC13RandJSON(r *vRand, nh int) (raw, u string) {
	scheme := "https"
	if r.chance(1, 4) {
		scheme = "http"
	}
	port := ""
	switch r.intn(10) {
	case 0:
		if scheme == "https" {
			port = ":443"
		} else {
			port = ":80"
		}
	case 1:
		port = ":8443"
	}
	u = scheme + "://" + vC13Hosts[r.intn(nh)] + port + r.pick(vC13Paths)
	m := map[string]any{"url": u, "secret": "s" + strconv.Itoa(r.intn(4))}
	if r.chance(1, 3) {
		m["sessionlimit"] = r.intn(4) * 10
	}
	if r.chance(1, 4) {
		m["maxstreambitrate"] = r.intn(3) * 1000
	}
	if r.chance(1, 4) {
		m["maxscreenbitrate"] = r.intn(3)*1000 - 500
	}
	// malformed stream
	switch r.intn(14) {
	case 0:
		delete(m, "url")
	case 1:
		delete(m, "secret")
	case 2:
		m["sessionlimit"] = -1
	case 3:
		m["url"] = r.pick([]string{"https://[::1", "http://h1.invalid:port/x", ""})
	case 4:
		m["secret"] = ""
	case 5:
		m["url"] = 17
	}
	data, _ := json.Marshal(m)
	raw = string(data)
	switch r.intn(30) {
	case 0:
		raw = raw[:len(raw)/2]
	case 1:
		raw = "[" + raw + "]"
	case 2:
		raw = ""
	}
	return raw, u
}

func vC13GenEtcd(e *vEnv, r *vRand, race bool) vCase {
	nh := 1 + r.intn(3)
	nk := 2 + r.intn(len(vC13Keys)-1)
	keys := vC13Keys[:nk]
	nops := 2 + r.intn(e.scale(12, 30))
	ops := []string{"mode etcd"}
	var urls []string
	var evs []string
	for i := 0; i < nops; i++ {
		key := r.pick(keys)
		if r.chance(1, 4) {
			evs = append(evs, "del "+vEnc(key))
			continue
		}
		raw, u := vC13RandJSON(r, nh)
		urls = append(urls, u)
		evs = append(evs, vC13PutLine(key, raw))
	}
	probes := vC13Probes(urls)
	if race {
		// a first half sequentially, the rest under concurrent lookups (repeated)
		h := len(evs) / 2
		ops = append(ops, evs[:h]...)
		ops = append(ops, fmt.Sprintf("racebegin %d", 2+r.intn(4)))
		for pass := 0; pass < 20; pass++ {
			ops = append(ops, evs[h:]...)
		}
		ops = append(ops, "raceend")
	} else {
		for _, ev := range evs {
			ops = append(ops, ev)
			for k := 0; k < 2 && len(probes) > 0; k++ {
				ops = append(ops, vC13ProbeLine(probes[r.intn(len(probes))]))
			}
		}
	}
	ops = append(ops, "list")
	for _, p := range probes {
		ops = append(ops, vC13ProbeLine(p))
	}
	return vCase{Ops: ops}
}

func vC13Gen(e *vEnv, r *vRand) []vCase {
	var cases []vCase
	n := e.scale(120, 1500)
	for i := 0; i < n; i++ {
		cases = append(cases, vC13GenStatic(e, r.fork(), false))
	}
	n = e.scale(120, 1500)
	for i := 0; i < n; i++ {
		cases = append(cases, vC13GenEtcd(e, r.fork(), false))
	}
	// the common secret: present, changed, removed, added again; backends with and without an own secret
	n = e.scale(120, 1200)
	for i := 0; i < n; i++ {
		cases = append(cases, vC13GenCommon(e, r.fork()))
	}
	// lookups running concurrently with reloads / etcd events (watchdog)
	n = e.scale(6, 60)
	for i := 0; i < n; i++ {
		cases = append(cases, vC13GenStatic(e, r.fork(), true))
		cases = append(cases, vC13GenEtcd(e, r.fork(), true))
	}
	return cases
}

// ---------- executor ----------

func vC13ParseCfg(f []string) (*goconf.ConfigFile, bool) {
	if len(f) < 2 || !strings.HasPrefix(f[0], "cs=") || !strings.HasPrefix(f[1], "ids=") {
		return nil, false
	}
	config := goconf.NewConfigFile()
	config.AddOption("backend", "backends", vDec(f[1][4:]))
	if cs := vDec(f[0][3:]); cs != "" {
		config.AddOption("backend", "secret", cs)
	}
	rest := f[2:]
	for len(rest) >= 11 && rest[0] == "sec" {
		id := vDec(rest[1])
		if u := vDec(rest[2]); u != "" {
			config.AddOption(id, "url", u)
		}
		if s := vDec(rest[7]); s != "" {
			config.AddOption(id, "secret", s)
		}
		for i, name := range []string{"sessionlimit", "maxstreambitrate", "maxscreenbitrate"} {
			if v := rest[8+i]; v != "x" {
				config.AddOption(id, name, v)
			}
		}
		rest = rest[11:]
	}
	return config, len(rest) == 0
}

func vC13Ans(b *Backend) string {
	if b == nil {
		return "-"
	}
	return fmt.Sprintf("%s;%s;%d;%d;%d;%s", vEnc(b.id), vEnc(string(b.secret)), b.sessionLimit, b.maxStreamBitrate, b.maxScreenBitrate, vEnc(b.url))
}

func vC13List(bs []*Backend) string {
	var xs []string
	for _, b := range bs {
		xs = append(xs, vEnc(b.id)+"@"+vEnc(b.url))
	}
	sort.Strings(xs)
	if len(xs) == 0 {
		return "-"
	}
	return strings.Join(xs, ";")
}

func vC13NewEtcd() *backendStorageEtcd {
	return &backendStorageEtcd{
		backendStorageCommon: backendStorageCommon{backends: make(map[string][]*Backend)},
		keyInfos:             make(map[string]*BackendInformationEtcd),
	}
}

type vC13Inst struct {
	static bool
	cfg    *BackendConfiguration
	etcd   *backendStorageEtcd
	// final configuration, for the fresh instance
	lastCfg []string          // tokens of the last load/reload
	kv      map[string]string // etcd: key -> raw value
	fresh   *BackendConfiguration
}

func (in *vC13Inst) freshInst() *BackendConfiguration {
	if in.fresh != nil {
		return in.fresh
	}
	if in.static {
		config, _ := vC13ParseCfg(in.lastCfg)
		st, err := NewBackendStorageStatic(config)
		if err != nil {
			panic(err)
		}
		in.fresh = &BackendConfiguration{storage: st}
	} else {
		// a freshly started server receives the current key/value pairs in key order (etcd range query)
		st := vC13NewEtcd()
		keys := make([]string, 0, len(in.kv))
		for k := range in.kv {
			keys = append(keys, k)
		}
		sort.Strings(keys)
		for _, k := range keys {
			st.EtcdKeyUpdated(nil, k, []byte(in.kv[k]), nil)
		}
		in.fresh = &BackendConfiguration{storage: st}
	}
	return in.fresh
}

func vC13Guard(fn func()) (out string) {
	defer func() {
		if r := recover(); r != nil {
			msg := fmt.Sprint(r)
			if len(msg) > 60 {
				msg = msg[:60]
			}
			out = "panic:" + vEnc(msg)
		}
	}()
	fn()
	return "ok"
}

const vC13Watchdog = 8 * time.Second

// vC13Timed runs fn in its own goroutine; false if it did not come back in time.
func vC13Timed(fn func() string) (string, bool) {
	ch := make(chan string, 1)
	go func() { ch <- fn() }()
	select {
	case s := <-ch:
		return s, true
	case <-time.After(vC13Watchdog):
		return "", false
	}
}

type vC13Race struct {
	stop     atomic.Bool
	wg       sync.WaitGroup
	progress []atomic.Int64
	mu       sync.Mutex
	seen     map[string]map[string]bool // raw url -> answers observed
	allowed  map[string]map[string]bool // raw url -> answers of a fresh instance of some configuration of the window
}

func vC13Exec(t *testing.T, c *vCase) {
	log.SetOutput(io.Discard)
	defer log.SetOutput(os.Stderr)
	RegisterBackendConfigurationStats()
	in := &vC13Inst{kv: map[string]string{}}
	var race *vC13Race
	var probesOfCase []string
	for _, line := range c.Ops {
		if f := strings.Fields(line); len(f) == 6 && f[0] == "probe" {
			probesOfCase = append(probesOfCase, vDec(f[5]))
		}
	}
	dead := false
	ensureEtcd := func() {
		if in.etcd == nil && !in.static {
			in.etcd = vC13NewEtcd()
			in.cfg = &BackendConfiguration{storage: in.etcd}
		}
	}
	// lookups before anything was loaded (shrunk cases): an etcd storage without keys
	ensureInst := func() {
		if in.cfg == nil {
			ensureEtcd()
		}
	}
	noteAllowed := func() {
		if race == nil {
			return
		}
		fr := in.freshInst()
		for _, raw := range probesOfCase {
			u, err := url.Parse(raw)
			if err != nil {
				continue
			}
			if race.allowed[raw] == nil {
				race.allowed[raw] = map[string]bool{}
			}
			race.allowed[raw][vC13Ans(fr.GetBackend(u))] = true
		}
	}
	for _, line := range c.Ops {
		f := strings.Fields(line)
		out := "bad-op"
		if dead {
			c.Impl = append(c.Impl, "skipped")
			continue
		}
		mutate := func(fn func()) string {
			if race == nil {
				return vC13Guard(fn)
			}
			s, ok := vC13Timed(func() string { return vC13Guard(fn) })
			if !ok {
				dead = true
				return "stuck"
			}
			return s
		}
		switch f[0] {
		case "mode":
			// informational: `load` starts a static instance, `put`/`del` an etcd one
			if len(f) == 2 && f[1] == "etcd" {
				ensureEtcd()
			}
			out = "ok"
		case "load":
			config, ok := vC13ParseCfg(f[1:])
			if !ok {
				break
			}
			in.lastCfg, in.fresh, in.static = f[1:], nil, true
			out = vC13Guard(func() {
				st, err := NewBackendStorageStatic(config)
				if err != nil {
					panic(err)
				}
				in.cfg = &BackendConfiguration{storage: st}
			})
		case "reload":
			config, ok := vC13ParseCfg(f[1:])
			if !ok {
				break
			}
			if in.cfg == nil || !in.static {
				// a reload without a start (shrunk cases): an instance started with no backends
				in.static, in.lastCfg, in.fresh = true, []string{"cs=%", "ids=,"}, nil
				in.cfg = in.freshInst()
			}
			in.lastCfg, in.fresh = f[1:], nil
			noteAllowed()
			out = mutate(func() { in.cfg.Reload(config) })
		case "put":
			if len(f) != 13 || in.static {
				break
			}
			ensureEtcd()
			key, raw := vDec(f[1]), vDec(f[12])
			in.kv[key], in.fresh = raw, nil
			noteAllowed()
			out = mutate(func() { in.etcd.EtcdKeyUpdated(nil, key, []byte(raw), nil) })
		case "del":
			if len(f) != 2 || in.static {
				break
			}
			ensureEtcd()
			key := vDec(f[1])
			delete(in.kv, key)
			in.fresh = nil
			noteAllowed()
			out = mutate(func() { in.etcd.EtcdKeyDeleted(nil, key, nil) })
		case "probe":
			if len(f) != 6 {
				break
			}
			ensureInst()
			raw := vDec(f[5])
			u1, err1 := url.Parse(raw)
			u2, err2 := url.Parse(raw)
			if err1 != nil || err2 != nil {
				break
			}
			res := ""
			out = vC13Guard(func() {
				a := vC13Ans(in.cfg.GetBackend(u1))
				b := vC13Ans(in.freshInst().GetBackend(u2))
				res = "chain=" + a + " fresh=" + b
			})
			if out == "ok" {
				out = res
			}
		case "list":
			ensureInst()
			out = "chain=" + vC13List(in.cfg.GetBackends()) + " fresh=" + vC13List(in.freshInst().GetBackends())
		case "racebegin":
			n, _ := strconv.Atoi(f[1])
			if n < 1 || n > 16 || race != nil {
				break
			}
			ensureInst()
			race = &vC13Race{progress: make([]atomic.Int64, n), seen: map[string]map[string]bool{}, allowed: map[string]map[string]bool{}}
			noteAllowed()
			cfg := in.cfg
			probes := append([]string{}, probesOfCase...)
			if len(probes) == 0 {
				probes = []string{"https://h1.invalid/"}
			}
			for w := 0; w < n; w++ {
				race.wg.Add(1)
				go func(w int, rc *vC13Race) {
					defer rc.wg.Done()
					local := map[string]map[string]bool{}
					for i := w; !rc.stop.Load(); i++ {
						raw := probes[i%len(probes)]
						u, err := url.Parse(raw)
						if err != nil {
							continue
						}
						a := vC13Ans(cfg.GetBackend(u))
						if local[raw] == nil {
							local[raw] = map[string]bool{}
						}
						local[raw][a] = true
						if i%7 == 0 {
							cfg.GetBackends()
						}
						rc.progress[w].Add(1)
					}
					rc.mu.Lock()
					for k, v := range local {
						if rc.seen[k] == nil {
							rc.seen[k] = map[string]bool{}
						}
						for a := range v {
							rc.seen[k][a] = true
						}
					}
					rc.mu.Unlock()
				}(w, race)
			}
			out = "ok"
		case "raceend":
			if race == nil {
				break
			}
			rc := race
			race = nil
			// every looker must make progress once more, then stop
			before := make([]int64, len(rc.progress))
			for i := range rc.progress {
				before[i] = rc.progress[i].Load()
			}
			deadline := time.Now().Add(vC13Watchdog)
			stuck := false
			for i := range rc.progress {
				for rc.progress[i].Load() == before[i] {
					if time.Now().After(deadline) {
						stuck = true
						break
					}
					time.Sleep(time.Millisecond)
				}
			}
			rc.stop.Store(true)
			if _, ok := vC13Timed(func() string { rc.wg.Wait(); return "" }); !ok || stuck {
				out = "stuck"
				dead = true
				break
			}
			out = "ok"
			var raws []string
			for raw := range rc.seen {
				raws = append(raws, raw)
			}
			sort.Strings(raws)
			for _, raw := range raws {
				for a := range rc.seen[raw] {
					if !rc.allowed[raw][a] && out == "ok" {
						out = "inconsistent:" + vEnc(raw)
					}
				}
			}
		}
		if out == "stuck" && race != nil {
			race.stop.Store(true)
			race = nil
		}
		c.Impl = append(c.Impl, out)
	}
	if race != nil {
		race.stop.Store(true)
	}
}

func TestVerifC13(t *testing.T) {
	vRun(t, vC13Gen, vC13Exec)
}
