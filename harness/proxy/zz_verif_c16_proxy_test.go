package main

// C16: the stats / metrics gate of the proxy server (and its use of GetRealUserIP)
// against Model/RealIP.lean.

import (
	"crypto/rand"
	"crypto/rsa"
	"crypto/x509"
	"encoding/hex"
	"encoding/pem"
	"io"
	"log"
	"net"
	"net/http"
	"net/http/httptest"
	"os"
	"path/filepath"
	"strconv"
	"strings"
	"testing"

	"github.com/dlintw/goconf"
	"github.com/gorilla/mux"

	signaling "github.com/strukturag/nextcloud-spreed-signaling"
)

type vC16Proxy struct {
	config *goconf.ConfigFile
	router *mux.Router
	s      *ProxyServer
}

var vC16PubKeyFile string

func vC16SetLists(config *goconf.ConfigFile, trusted, allow string) {
	config.RemoveOption("app", "trustedproxies")
	config.RemoveOption("stats", "allowed_ips")
	config.AddOption("app", "trustedproxies", trusted)
	config.AddOption("stats", "allowed_ips", allow)
}

func vC16NewProxy(t *testing.T, trusted, allow string) (*vC16Proxy, error) {
	if vC16PubKeyFile == "" {
		key, err := rsa.GenerateKey(rand.Reader, 1024)
		if err != nil {
			return nil, err
		}
		pubData, err := x509.MarshalPKIXPublicKey(&key.PublicKey)
		if err != nil {
			return nil, err
		}
		dir, err := os.MkdirTemp("", "verif-c16-")
		if err != nil {
			return nil, err
		}
		t.Cleanup(func() { os.RemoveAll(dir) })
		name := filepath.Join(dir, "pubkey.pem")
		if err := os.WriteFile(name, pem.EncodeToMemory(&pem.Block{Type: "RSA PUBLIC KEY", Bytes: pubData}), 0o600); err != nil {
			return nil, err
		}
		vC16PubKeyFile = name
	}
	config := goconf.NewConfigFile()
	config.AddOption("tokens", "verif-token", vC16PubKeyFile)
	vC16SetLists(config, trusted, allow)
	r := mux.NewRouter()
	s, err := NewProxyServer(r, "0.0", config)
	if err != nil {
		return nil, err
	}
	// Reload consults the MCU; give it the repository's inert test MCU.
	s.mcu = &TestMCU{t: t}
	return &vC16Proxy{config: config, router: r, s: s}, nil
}

func (p *vC16Proxy) close() {
	p.s.tokens.Close()
}

func vC16ShowAllowed(a *signaling.AllowedIps) string {
	if a == nil {
		return "nil"
	}
	// "[a.b.c.d/n, …]": AllowedIps hides its networks from this package; read them back through
	// its String method and re-parse with the standard library.
	s := strings.TrimSuffix(strings.TrimPrefix(a.String(), "["), "]")
	if s == "" {
		return "-"
	}
	var parts []string
	for _, e := range strings.Split(s, ", ") {
		_, n, err := net.ParseCIDR(e)
		if err != nil {
			return "unreadable:" + e
		}
		parts = append(parts, vC16CanonNet(n.IP, n.Mask))
	}
	return strings.Join(parts, ",")
}

func (p *vC16Proxy) show() string {
	return "cfg " + vC16ShowAllowed(p.s.trustedProxies.Load()) + " " + vC16ShowAllowed(p.s.statsAllowedIps.Load())
}

func vC16CheckCfg(kind string, f []string) (trusted, allow string, ok bool) {
	_, raw := vC16SplitOp(f, "S")
	if len(raw) != 3 || len(f) < 2 || f[1] != "proxy" {
		return "", "", false
	}
	trusted, allow = vDec(raw[1]), vDec(raw[2])
	return trusted, allow, vC16CfgOp(kind, "proxy", trusted, allow) == strings.Join(f, " ")
}

func vC16ProxyExec(t *testing.T, c *vCase) {
	var srv *vC16Proxy
	defer func() {
		if srv != nil {
			srv.close()
		}
	}()
	ensure := func() *vC16Proxy {
		if srv == nil {
			var err error
			if srv, err = vC16NewProxy(t, "", ""); err != nil {
				panic(err)
			}
		}
		return srv
	}
	for _, line := range c.Ops {
		f := strings.Fields(line)
		out := "bad-op"
		switch f[0] {
		case "new":
			trusted, allow, ok := vC16CheckCfg("new", f)
			if !ok {
				break
			}
			if srv != nil {
				srv.close()
				srv = nil
			}
			s, err := vC16NewProxy(t, trusted, allow)
			if err != nil {
				// refused: the case goes on with a server that has nothing configured
				out = "err " + ensure().show()
				break
			}
			srv = s
			out = srv.show()
		case "reload":
			trusted, allow, ok := vC16CheckCfg("reload", f)
			if !ok {
				break
			}
			s := ensure()
			vC16SetLists(s.config, trusted, allow)
			s.s.Reload(s.config)
			out = s.show()
		case "ip":
			if len(f) < 3 {
				break
			}
			_, raw := vC16SplitOp(f[2:], "R")
			q, ok := vC16ParseRaw(raw)
			if !ok || vC16IpOp(f[1], q) != strings.Join(f, " ") {
				break
			}
			req := &http.Request{RemoteAddr: q.Remote, Header: http.Header{}}
			for _, h := range q.Hdrs {
				req.Header.Add(h.Name, h.Value)
			}
			switch f[1] {
			case "srv":
				out = vEnc(signaling.GetRealUserIP(req, ensure().s.trustedProxies.Load()))
			case "nil":
				out = vEnc(signaling.GetRealUserIP(req, nil))
			}
		case "get":
			if len(f) < 4 || f[1] != "proxy" {
				break
			}
			route := vDec(f[2])
			_, raw := vC16SplitOp(f[3:], "R")
			q, ok := vC16ParseRaw(raw)
			if !ok || vC16GetOp("proxy", route, q) != strings.Join(f, " ") {
				break
			}
			req := httptest.NewRequest("GET", route, nil)
			req.RemoteAddr = q.Remote
			for _, h := range q.Hdrs {
				req.Header.Add(h.Name, h.Value)
			}
			rec := httptest.NewRecorder()
			ensure().router.ServeHTTP(rec, req)
			out = strconv.Itoa(rec.Code)
			if route == "/welcome" && rec.Code != http.StatusForbidden {
				out = "open"
			}
		}
		c.Impl = append(c.Impl, out)
	}
}

var vC16ProxyRoutes = []string{"/stats", "/metrics", "/stats", "/metrics", "/welcome"}

func vC16ProxyGen(e *vEnv, r *vRand) []vCase {
	// a different stream than the main server's run of the same seed
	return vC16GenCases(e, newVRand(r.u64()^0xC16), "proxy", vC16ProxyRoutes)
}

func TestVerifC16Proxy(t *testing.T) {
	log.SetOutput(io.Discard)
	vRun(t, vC16ProxyGen, vC16ProxyExec)
}

var _ = hex.EncodeToString
