package main

import (
	"fmt"
	"sort"
	"strconv"
	"strings"
	"time"
)

// Generators for C18: (1) token attribute vectors with mutations and all age /
// leeway boundaries, (2) command histories of 1–3 sessions on several
// connections, (3) a malformed stream (invalid / unknown messages before and
// after hello).  All choices come from the PRNG.

var vC18Cfgs = []string{"foo=k0,bar=k1", "foo=k0", "foo=k0,bar=k0", "-"}

var vC18Epoch = time.Date(2000, 1, 1, 0, 0, 0, 0, time.UTC)

func vC18KeyOf(cfg, iss string) string {
	switch cfg {
	case "foo=k0,bar=k1":
		return map[string]string{"foo": "k0", "bar": "k1"}[iss]
	case "foo=k0":
		return map[string]string{"foo": "k0"}[iss]
	case "foo=k0,bar=k0":
		return map[string]string{"foo": "k0", "bar": "k0"}[iss]
	}
	return ""
}

// vC18ValidTok is a token the proxy should accept under cfg (if cfg has keys).
func vC18ValidTok(r *vRand, cfg string) *vC18Tok {
	iss := "foo"
	if r.chance(1, 3) {
		iss = "bar"
	}
	key := vC18KeyOf(cfg, iss)
	if key == "" {
		iss, key = "foo", "k0"
	}
	alg := r.pick([]string{"RS256", "RS256", "RS384", "RS512"})
	a := &vC18Tok{form: "jwt", alg: alg, signer: alg + ":" + key, mut: "ok", iss: iss, iat: strconv.Itoa(-r.intn(200)), nbf: "-", exp: "-"}
	if r.chance(1, 3) {
		a.exp = strconv.Itoa(60 + r.intn(600))
	}
	if r.chance(1, 5) {
		a.nbf = strconv.Itoa(-r.intn(100))
	}
	return a
}

var vC18IatOffsets = []int{-100000, -3600, -420, -362, -361, -360, -359, -358, -301, -300, -299, -61, -60, -59, -1, 0, 1, 58, 59, 60, 61, 62, 120, 3600, 100000}
var vC18NbfOffsets = []int{-100000, -60, -1, 0, 1, 58, 59, 60, 61, 62, 300, 100000}
var vC18ExpOffsets = []int{-100000, -300, -62, -61, -60, -59, -58, -1, 0, 1, 59, 60, 61, 300, 100000}

func vC18Mutate(r *vRand, a *vC18Tok, cfg string) {
	key := vC18KeyOf(cfg, a.iss)
	if key == "" {
		key = "k0"
	}
	switch r.intn(22) {
	case 0:
		a.alg, a.signer = "none", "none:-"
	case 1:
		// algorithm confusion: HMAC keyed with the PEM of the issuer's public key
		h := r.pick([]string{"HS256", "HS384", "HS512"})
		a.alg, a.signer = h, h+":"+key
	case 2:
		p := r.pick([]string{"PS256", "PS384", "PS512"})
		a.alg, a.signer = p, p+":"+key
	case 3:
		e := r.pick([]string{"ES256"})
		a.alg, a.signer = e, e+":ec"
	case 4:
		a.alg, a.signer = "EdDSA", "EdDSA:ed"
	case 5:
		// header names an allowed algorithm, the signature was made with another hash / scheme
		a.alg = r.pick([]string{"RS256", "RS384", "RS512"})
		a.signer = r.pick([]string{"RS256", "RS384", "RS512", "PS256"}) + ":" + key
	case 6:
		a.alg = r.pick([]string{"rs256", "", "RS999", "RS256 ", "RSA", "None", "NONE"})
	case 7:
		// signed by another configured issuer's key or by a key the proxy does not know
		// (the method of the signer so far, not the header's alg: an earlier mutation may have made that a string
		// with a space, which is not a field of the op line)
		a.signer = strings.SplitN(a.signer, ":", 2)[0] + ":" + r.pick([]string{"k0", "k1", "k2"})
	case 8:
		a.iss = r.pick([]string{"baz", "", "Foo", "foo ", "bar", "foo"})
	case 9:
		a.mut = r.pick([]string{"flip", "trunc", "empty", "payload"})
	case 10:
		a.form = r.pick([]string{"garbage", "twoparts", "fourparts", "badb64", "badjson"})
	case 11, 12, 13, 14:
		a.iat = strconv.Itoa(vC18IatOffsets[r.intn(len(vC18IatOffsets))])
	case 15:
		a.iat = "-"
	case 16, 17:
		a.nbf = strconv.Itoa(vC18NbfOffsets[r.intn(len(vC18NbfOffsets))])
	case 18, 19:
		a.exp = strconv.Itoa(vC18ExpOffsets[r.intn(len(vC18ExpOffsets))])
	case 20:
		a.iat = strconv.Itoa(-360 + r.intn(5) - 2)
	case 21:
		a.iat = strconv.Itoa(60 + r.intn(5) - 2)
	}
}

func vC18HelloLine(c int, a *vC18Tok, now time.Time) string {
	return fmt.Sprintf("hello %d tok %s %s", c, a.fields(), a.verifies(vC18Keys(), now))
}

func vC18RandTok(r *vRand, cfg string) *vC18Tok {
	a := vC18ValidTok(r, cfg)
	switch r.intn(10) {
	case 0, 1:
	case 2, 3, 4, 5, 6:
		vC18Mutate(r, a, cfg)
	default:
		vC18Mutate(r, a, cfg)
		vC18Mutate(r, a, cfg)
	}
	return a
}

// ---- (1) token vectors

func vC18GenTokens(e *vEnv, r *vRand, nCases, perCase int) []vCase {
	var cases []vCase
	for i := 0; i < nCases; i++ {
		rr := r.fork()
		cfg := vC18Cfgs[rr.intn(len(vC18Cfgs)*2)%len(vC18Cfgs)]
		if rr.chance(2, 3) {
			cfg = vC18Cfgs[0]
		}
		ops := []string{"cfg " + cfg}
		now := vC18Epoch
		sleep := func(ms int) {
			ops = append(ops, fmt.Sprintf("sleep %d", ms))
			now = now.Add(time.Duration(ms) * time.Millisecond)
		}
		if rr.chance(1, 2) {
			sleep(rr.intn(5000))
		}
		for j := 0; j < perCase; j++ {
			ops = append(ops, fmt.Sprintf("connect %d", j))
			a := vC18RandTok(rr, cfg)
			ops = append(ops, vC18HelloLine(j, a, now))
			if rr.chance(1, 4) {
				// what can the connection do now?
				ops = append(ops, fmt.Sprintf("cmd %d createpub video ok", j))
			}
			switch rr.intn(6) {
			case 0:
				sleep(rr.intn(2000))
			case 1:
				sleep(500)
			case 2:
				sleep(1000 * rr.intn(400))
			}
		}
		cases = append(cases, vCase{Ops: ops, Tags: []string{"tokens"}})
	}
	return cases
}

// ---- (2) command histories

type vC18Shadow struct {
	conns   []int        // all connection numbers used
	busy    map[int]bool // handler blocked in the media server
	open    map[int]bool // believed open
	authed  map[int]int  // conn -> session (believed)
	nSess   int
	nObj    int
	objKind map[int]string
}

func vC18GenHistories(e *vEnv, r *vRand, nCases, maxOps int) []vCase {
	var cases []vCase
	streams := []string{"video", "screen"}
	for i := 0; i < nCases; i++ {
		rr := r.fork()
		cfg := vC18Cfgs[0]
		if rr.chance(1, 6) {
			cfg = vC18Cfgs[rr.intn(len(vC18Cfgs))]
		}
		ops := []string{"cfg " + cfg}
		now := vC18Epoch
		sh := &vC18Shadow{open: map[int]bool{}, busy: map[int]bool{}, authed: map[int]int{}, objKind: map[int]string{}}
		nextConn := 0
		maxSess := 1 + rr.intn(3)
		connect := func() int {
			c := nextConn
			nextConn++
			ops = append(ops, fmt.Sprintf("connect %d", c))
			sh.conns = append(sh.conns, c)
			sh.open[c] = true
			return c
		}
		anyConn := func() int {
			if len(sh.conns) == 0 || rr.chance(1, 30) {
				return rr.intn(4)
			}
			// prefer open ones whose handler is not blocked
			for k := 0; k < 6; k++ {
				c := sh.conns[rr.intn(len(sh.conns))]
				if sh.open[c] && !sh.busy[c] {
					return c
				}
			}
			return sh.conns[rr.intn(len(sh.conns))]
		}
		authedConn := func() int {
			var cs []int
			for _, c := range sh.conns {
				if _, ok := sh.authed[c]; ok && sh.open[c] && !sh.busy[c] {
					cs = append(cs, c)
				}
			}
			if len(cs) == 0 || rr.chance(1, 8) {
				return anyConn()
			}
			return cs[rr.intn(len(cs))]
		}
		anyObj := func() int {
			if sh.nObj == 0 || rr.chance(1, 10) {
				return 1 + rr.intn(sh.nObj+3)
			}
			return 1 + rr.intn(sh.nObj)
		}
		outcome := func() string {
			switch rr.intn(10) {
			case 0:
				return "fail"
			case 1:
				return "timeout"
			}
			return "ok"
		}
		hello := func(c int, valid bool) {
			var a *vC18Tok
			if valid {
				a = vC18ValidTok(rr, cfg)
			} else {
				a = vC18RandTok(rr, cfg)
			}
			ops = append(ops, vC18HelloLine(c, a, now))
			if valid && vC18KeyOf(cfg, a.iss) != "" {
				if _, ok := sh.authed[c]; !ok && sh.open[c] {
					sh.nSess++
					sh.authed[c] = sh.nSess
				}
			}
		}
		nops := 8 + rr.intn(maxOps)
		// start: usually a connection with a session
		if rr.chance(9, 10) {
			c := connect()
			if rr.chance(1, 4) {
				ops = append(ops, fmt.Sprintf("cmd %d createpub video ok", c))
			}
			hello(c, true)
		}
		for len(ops) < nops {
			switch k := rr.intn(100); {
			case k < 6:
				c := connect()
				if sh.nSess < maxSess || rr.chance(1, 5) {
					hello(c, rr.chance(5, 6))
				}
			case k < 9:
				hello(anyConn(), rr.chance(1, 2))
			case k < 27:
				c := authedConn()
				kind := "createpub"
				if rr.chance(2, 5) {
					kind = "createsub"
				}
				oc := outcome()
				if rr.chance(1, 7) {
					oc = "late"
				}
				ops = append(ops, fmt.Sprintf("cmd %d %s %s %s", c, kind, streams[rr.intn(2)], oc))
				if _, ok := sh.authed[c]; ok && sh.open[c] && !sh.busy[c] {
					switch oc {
					case "ok":
						sh.nObj++
						sh.objKind[sh.nObj] = kind
					case "late":
						sh.busy[c] = true
					}
				}
			case k < 41:
				c := authedConn()
				n := anyObj()
				kind := "delpub"
				if sh.objKind[n] == "createsub" {
					kind = "delsub"
				}
				if rr.chance(1, 6) {
					kind = rr.pick([]string{"delpub", "delsub"})
				}
				ops = append(ops, fmt.Sprintf("cmd %d %s %d", c, kind, n))
			case k < 47:
				oc := "ok"
				if rr.chance(1, 4) {
					oc = "fail"
				}
				ops = append(ops, fmt.Sprintf("cmd %d %s %d %s", authedConn(), rr.pick([]string{"pubremote", "unpubremote", "getstreams"}), anyObj(), oc))
			case k < 49:
				ops = append(ops, fmt.Sprintf("cmd %d unknown", authedConn()))
			case k < 58:
				kind, variant := "fwd", rr.pick([]string{"candidate", "requestoffer", "sendoffer", "selectStream"})
				switch rr.intn(6) {
				case 0:
					kind, variant = "eoc", "endOfCandidates"
				case 1:
					kind, variant = "unsupported", rr.pick([]string{"badsdp", "nosdp", "frobnicate"})
				}
				oc := "ok"
				if rr.chance(1, 5) {
					oc = "fail"
				}
				ops = append(ops, fmt.Sprintf("payload %d %d %s %s %s", authedConn(), anyObj(), kind, variant, oc))
			case k < 62:
				c := authedConn()
				ops = append(ops, fmt.Sprintf("bye %d", c))
				delete(sh.authed, c)
				sh.open[c] = false
			case k < 67:
				c := anyConn()
				ops = append(ops, fmt.Sprintf("close %d", c))
				sh.open[c] = false
			case k < 74:
				// resume on a fresh (or sometimes an existing) connection
				c := anyConn()
				if rr.chance(4, 5) {
					c = connect()
				}
				kind := "exact"
				if rr.chance(1, 3) {
					kind = rr.pick([]string{"flip", "fliplast", "trunc", "extend", "newline", "lower", "garbage"})
				}
				n := 1 + rr.intn(sh.nSess+1)
				wt := 0
				if rr.chance(1, 4) {
					wt = 1
				}
				ops = append(ops, fmt.Sprintf("hello %d resume %s %d %d", c, kind, n, wt))
				if kind == "exact" && n <= sh.nSess {
					for k2, v := range sh.authed {
						if v == n {
							delete(sh.authed, k2)
							sh.open[k2] = false
						}
					}
					sh.authed[c] = n
				}
			case k < 84:
				ms := []int{1, 500, 1000, 5000, 30000, 53999, 54000, 54001, 59999, 60000, 60001, 61000, 120000, 200000}[rr.intn(14)]
				ops = append(ops, fmt.Sprintf("sleep %d", ms))
				now = now.Add(time.Duration(ms) * time.Millisecond)
			case k < 89:
				ops = append(ops, "expire")
			case k < 91:
				ops = append(ops, "mcudown")
			case k < 92:
				ops = append(ops, fmt.Sprintf("mcuclose %d", anyObj()))
			case k < 94:
				// the media server answers a pending creation (sometimes there is none)
				c := anyConn()
				for b := range sh.busy {
					if sh.busy[b] && (rr.chance(1, 2) || c == b) {
						c = b
					}
				}
				oc := rr.pick([]string{"ok", "ok", "ok", "fail", "timeout"})
				ops = append(ops, fmt.Sprintf("release %d %s", c, oc))
				if sh.busy[c] {
					delete(sh.busy, c)
					if oc == "ok" {
						sh.nObj++
					}
				}
			case k < 97:
				ops = append(ops, fmt.Sprintf("invalid %d %s", anyConn(), vC18InvalidKinds[rr.intn(len(vC18InvalidKinds))]))
			default:
				ops = append(ops, fmt.Sprintf("other %d %s", anyConn(), vEnc(rr.pick([]string{"foo", "event", "error", "welcome", "Hello", "command "}))))
			}
		}
		// always end with the three ways a session can end, then look at the residue
		switch rr.intn(4) {
		case 0:
			for _, c := range sh.conns {
				ops = append(ops, fmt.Sprintf("close %d", c))
			}
			ops = append(ops, "sleep 60001", "expire")
		case 1:
			ops = append(ops, "mcudown")
		case 2:
			for _, c := range sh.conns {
				ops = append(ops, fmt.Sprintf("bye %d", c))
			}
		}
		// late answers of the media server arrive after everything else
		var bs []int
		for b := range sh.busy {
			bs = append(bs, b)
		}
		sort.Ints(bs)
		for _, b := range bs {
			ops = append(ops, fmt.Sprintf("release %d %s", b, rr.pick([]string{"ok", "ok", "fail"})))
		}
		cases = append(cases, vCase{Ops: ops, Tags: []string{"history"}})
	}
	return cases
}

// ---- (3) malformed stream: nothing but refused traffic on connections without session

func vC18GenPreHello(e *vEnv, r *vRand, nCases int) []vCase {
	var cases []vCase
	for i := 0; i < nCases; i++ {
		rr := r.fork()
		ops := []string{"cfg " + vC18Cfgs[0], "connect 0"}
		withVictim := rr.chance(1, 2)
		if withVictim {
			// a bystander session with objects: must not be touched by the stream
			ops = append(ops, "connect 9", vC18HelloLine(9, vC18ValidTok(rr, vC18Cfgs[0]), vC18Epoch),
				"cmd 9 createpub video ok", "cmd 9 createsub video ok")
		}
		n := 10 + rr.intn(30)
		for j := 0; j < n; j++ {
			c := 0
			switch rr.intn(12) {
			case 0:
				ops = append(ops, fmt.Sprintf("cmd %d createpub video ok", c))
			case 1:
				ops = append(ops, fmt.Sprintf("cmd %d createsub screen ok", c))
			case 2:
				ops = append(ops, fmt.Sprintf("cmd %d %s %d", c, rr.pick([]string{"delpub", "delsub"}), 1+rr.intn(3)))
			case 3:
				ops = append(ops, fmt.Sprintf("payload %d %d fwd requestoffer ok", c, 1+rr.intn(3)))
			case 4:
				ops = append(ops, fmt.Sprintf("bye %d", c))
			case 5:
				ops = append(ops, fmt.Sprintf("other %d %s", c, vEnc(rr.pick([]string{"foo", "event", "error"}))))
			case 6, 7:
				ops = append(ops, fmt.Sprintf("invalid %d %s", c, vC18InvalidKinds[rr.intn(len(vC18InvalidKinds))]))
			case 8:
				a := vC18ValidTok(rr, vC18Cfgs[0])
				vC18Mutate(rr, a, vC18Cfgs[0])
				ops = append(ops, vC18HelloLine(c, a, vC18Epoch))
			case 9:
				ops = append(ops, fmt.Sprintf("hello %d resume %s %d %d", c, rr.pick([]string{"flip", "trunc", "garbage", "extend", "exact"}), 1+rr.intn(2)+1, rr.intn(2)))
			case 10:
				ops = append(ops, fmt.Sprintf("cmd %d %s %d ok", c, rr.pick([]string{"pubremote", "unpubremote", "getstreams"}), 1+rr.intn(3)))
			case 11:
				ops = append(ops, fmt.Sprintf("cmd %d unknown", c))
			}
		}
		cases = append(cases, vCase{Ops: ops, Tags: []string{"prehello"}})
	}
	return cases
}

// ---- (4) the media server answers a creation after the session has ended / changed hands

func vC18GenLate(e *vEnv, r *vRand, nCases int) []vCase {
	var cases []vCase
	for i := 0; i < nCases; i++ {
		rr := r.fork()
		cfg := vC18Cfgs[0]
		ops := []string{"cfg " + cfg, "connect 0", vC18HelloLine(0, vC18ValidTok(rr, cfg), vC18Epoch)}
		if rr.chance(1, 2) {
			ops = append(ops, "cmd 0 createpub video ok")
		}
		kind := rr.pick([]string{"createpub", "createsub"})
		ops = append(ops, fmt.Sprintf("cmd 0 %s %s late", kind, rr.pick([]string{"video", "screen"})))
		if rr.chance(1, 4) {
			ops = append(ops, "cmd 0 createpub video ok", "bye 0") // queued behind the call: not modelled, skipped
		}
		// somebody else takes the session over (or not), then the session ends (or not)
		took := rr.chance(3, 4)
		if took {
			ops = append(ops, "connect 1", "hello 1 resume exact 1 0")
			if rr.chance(1, 3) {
				ops = append(ops, fmt.Sprintf("cmd 1 %s video %s", rr.pick([]string{"createpub", "createsub"}), rr.pick([]string{"ok", "late"})))
			}
		}
		switch rr.intn(5) {
		case 0:
			if took {
				ops = append(ops, "bye 1")
			}
		case 1:
			if took {
				ops = append(ops, "close 1", "sleep 60001", "expire")
			}
		case 2:
			ops = append(ops, "mcudown")
		case 3:
			ops = append(ops, "sleep 30000")
		}
		ops = append(ops, fmt.Sprintf("release 0 %s", rr.pick([]string{"ok", "ok", "ok", "fail", "timeout"})))
		if rr.chance(1, 2) {
			ops = append(ops, "release 1 ok")
		}
		// afterwards nothing may be left behind
		ops = append(ops, "sleep 200000", "expire", "cmd 0 createpub video ok", "release 1 ok")
		cases = append(cases, vCase{Ops: ops, Tags: []string{"late"}})
	}
	return cases
}

func vC18Gen(e *vEnv, r *vRand) []vCase {
	var cases []vCase
	cases = append(cases, vC18GenTokens(e, r.fork(), e.scale(100, 800), 10)...)
	cases = append(cases, vC18GenHistories(e, r.fork(), e.scale(300, 3000), e.scale(40, 120))...)
	cases = append(cases, vC18GenPreHello(e, r.fork(), e.scale(30, 200))...)
	cases = append(cases, vC18GenLate(e, r.fork(), e.scale(60, 600))...)
	return cases
}
