package main

// C18: the real ProxyServer (websocket protocol over in-memory pipes, harness
// media server, static token keys) against Model/Proxy.lean.  Every case runs in
// a testing/synctest bubble: time is virtual (starts at 2000-01-01T00:00:00Z,
// moves only by `sleep` ops), `synctest.Wait` is the quiescence point at which
// replies, the server's tables and the media server's open objects are observed.

import (
	"context"
	"crypto"
	"crypto/ecdsa"
	"crypto/ed25519"
	"crypto/elliptic"
	"crypto/rand"
	"crypto/rsa"
	"crypto/x509"
	"encoding/base64"
	"encoding/json"
	"encoding/pem"
	"errors"
	"fmt"
	"io"
	"log"
	"net"
	"net/http"
	"os"
	"path/filepath"
	"sort"
	"strconv"
	"strings"
	"sync"
	"testing"
	"testing/synctest"
	"time"

	"github.com/dlintw/goconf"
	"github.com/golang-jwt/jwt/v5"
	"github.com/gorilla/mux"
	"github.com/gorilla/websocket"
	signaling "github.com/strukturag/nextcloud-spreed-signaling"
)

// ---------------------------------------------------------------- keys

type vC18KeySet struct {
	dir  string
	rsa  map[string]*rsa.PrivateKey // k0 k1 k2
	pem  map[string][]byte          // public key PEM of k0 k1 k2
	file map[string]string
	ec   *ecdsa.PrivateKey
	ed   ed25519.PrivateKey
}

var (
	vC18KeysOnce sync.Once
	vC18KeysVal  *vC18KeySet
	vC18Dir      string // directory for the public key files (removed with the test)
)

func vC18Keys() *vC18KeySet {
	vC18KeysOnce.Do(func() {
		ks := &vC18KeySet{rsa: map[string]*rsa.PrivateKey{}, pem: map[string][]byte{}, file: map[string]string{}}
		dir, err := vC18Dir, error(nil)
		if dir == "" {
			dir, err = os.MkdirTemp("", "verif-c18-")
		}
		if err != nil {
			panic(err)
		}
		ks.dir = dir
		for _, id := range []string{"k0", "k1", "k2"} {
			k, err := rsa.GenerateKey(rand.Reader, 2048)
			if err != nil {
				panic(err)
			}
			ks.rsa[id] = k
			der, err := x509.MarshalPKIXPublicKey(&k.PublicKey)
			if err != nil {
				panic(err)
			}
			ks.pem[id] = pem.EncodeToMemory(&pem.Block{Type: "RSA PUBLIC KEY", Bytes: der})
			ks.file[id] = filepath.Join(dir, id+".pem")
			if err := os.WriteFile(ks.file[id], ks.pem[id], 0o644); err != nil {
				panic(err)
			}
		}
		ks.ec, err = ecdsa.GenerateKey(elliptic.P256(), rand.Reader)
		if err != nil {
			panic(err)
		}
		_, ks.ed, err = ed25519.GenerateKey(rand.Reader)
		if err != nil {
			panic(err)
		}
		vC18KeysVal = ks
	})
	return vC18KeysVal
}

// ---------------------------------------------------------------- tokens from attributes

// vC18Tok are the construction attributes of a token (what travels on the op line).
type vC18Tok struct {
	form   string // jwt | garbage | twoparts | fourparts | badb64 | badjson
	alg    string // header alg (any string)
	signer string // <method>:<key>, e.g. RS256:k0, HS256:k0 (HMAC keyed with k0's public PEM), ES256:ec, EdDSA:ed, none:-
	mut    string // ok | flip | trunc | empty | payload
	iss    string
	iat    string // "-" or offset in seconds relative to floor(now)
	nbf    string
	exp    string
}

func (a *vC18Tok) fields() string {
	return fmt.Sprintf("%s %s %s %s %s %s %s %s", a.form, vEnc(a.alg), a.signer, a.mut, vEnc(a.iss), a.iat, a.nbf, a.exp)
}

func vC18TokFromFields(f []string) *vC18Tok {
	return &vC18Tok{form: f[0], alg: vDec(f[1]), signer: f[2], mut: f[3], iss: vDec(f[4]), iat: f[5], nbf: f[6], exp: f[7]}
}

func vB64(b []byte) string { return base64.RawURLEncoding.EncodeToString(b) }

// build returns the token string, and (signing input, signature bytes) for the oracle.
func (a *vC18Tok) build(ks *vC18KeySet, now time.Time) (string, string, []byte) {
	hdr, _ := json.Marshal(map[string]interface{}{"alg": a.alg, "typ": "JWT"})
	claims := map[string]interface{}{}
	if a.iss != "" {
		claims["iss"] = a.iss
	}
	base := now.Unix()
	for name, v := range map[string]string{"iat": a.iat, "nbf": a.nbf, "exp": a.exp} {
		if v != "-" {
			off, _ := strconv.ParseInt(v, 10, 64)
			claims[name] = base + off
		}
	}
	cl, _ := json.Marshal(claims)
	si := vB64(hdr) + "." + vB64(cl)
	var sig []byte
	parts := strings.SplitN(a.signer, ":", 2)
	method, key := parts[0], ""
	if len(parts) == 2 {
		key = parts[1]
	}
	if m := jwt.GetSigningMethod(method); m != nil && method != "none" {
		var k interface{}
		switch {
		case strings.HasPrefix(method, "RS"), strings.HasPrefix(method, "PS"):
			// a key name the set does not have must stay an untyped nil (a typed nil *rsa.PrivateKey in the
			// interface would pass the check below and crash the signer -- a fault of this harness, not of the code)
			if pk := ks.rsa[key]; pk != nil {
				k = pk
			}
		case strings.HasPrefix(method, "ES"):
			k = ks.ec
		case method == "EdDSA":
			k = ks.ed
		case strings.HasPrefix(method, "HS"):
			k = ks.pem[key]
		}
		if k != nil {
			if s, err := m.Sign(si, k); err == nil {
				sig = s
			}
		}
	}
	switch a.mut {
	case "flip":
		if len(sig) > 0 {
			sig[len(sig)/2] ^= 0x10
		}
	case "trunc":
		if len(sig) > 0 {
			sig = sig[:len(sig)-1]
		}
	case "empty":
		sig = nil
	case "payload":
		// alter the claims after signing
		claims["iss"] = a.iss + "x"
		claims["sub"] = "changed"
		cl, _ = json.Marshal(claims)
		si2 := vB64(hdr) + "." + vB64(cl)
		// the oracle sees what the server sees: the altered signing input
		si = si2
	}
	tok := si + "." + vB64(sig)
	switch a.form {
	case "garbage":
		tok = "this-is-not-a-token"
	case "twoparts":
		tok = si
	case "fourparts":
		tok = tok + "." + vB64([]byte("extra"))
	case "badb64":
		tok = "!!!" + tok
	case "badjson":
		tok = vB64([]byte("{not json")) + "." + vB64(cl) + "." + vB64(sig)
	}
	return tok, si, sig
}

// issuerAfterMut is the issuer the server will read from the claims.
func (a *vC18Tok) issuerSeen() string {
	if a.mut == "payload" {
		return a.iss + "x"
	}
	return a.iss
}

// verifies is the signature oracle: the key ids under whose public material the
// signature is valid for the scheme named in the *header* — computed with the
// JWT library's low-level Verify, never with the code under test.
func (a *vC18Tok) verifies(ks *vC18KeySet, now time.Time) string {
	_, si, sig := a.build(ks, now)
	if a.form != "jwt" {
		return "-"
	}
	var res []string
	for _, id := range []string{"k0", "k1", "k2"} {
		ok := false
		switch {
		case a.alg == "none":
			ok = len(sig) == 0
		case strings.HasPrefix(a.alg, "RS") || strings.HasPrefix(a.alg, "PS"):
			if m := jwt.GetSigningMethod(a.alg); m != nil {
				ok = m.Verify(si, sig, &ks.rsa[id].PublicKey) == nil
			}
		case strings.HasPrefix(a.alg, "HS"):
			if m := jwt.GetSigningMethod(a.alg); m != nil {
				ok = m.Verify(si, sig, ks.pem[id]) == nil
			}
		}
		if ok {
			res = append(res, id)
		}
	}
	if len(res) == 0 {
		return "-"
	}
	return strings.Join(res, ",")
}

var _ = crypto.SHA256

// ---------------------------------------------------------------- harness media server

type vC18Mcu struct {
	TestMCU
	mu      sync.Mutex
	n       int
	open    map[int]bool
	objs    map[int]signaling.McuClient
	byUuid  map[string]int
	outcome string // outcome of the next create / remote command / payload
	// outcome "late": the creation blocks (ignoring its context, like a media server
	// whose answer is already on the wire) until the harness sends the real outcome
	gate    chan string
	waiting map[chan string]bool
}

// enter is called at the start of a creation; for "late" it waits for the release.
func (m *vC18Mcu) enter() string {
	m.mu.Lock()
	oc, gate := m.outcome, m.gate
	if oc == "late" && gate != nil {
		m.waiting[gate] = true
		m.gate = nil
	}
	m.mu.Unlock()
	if oc == "late" {
		if gate == nil {
			return "fail"
		}
		oc = <-gate
		if oc == "late" {
			oc = "fail"
		}
	}
	return oc
}

func (m *vC18Mcu) create(oc string) (int, error) {
	switch oc {
	case "fail":
		return 0, errors.New("media server says no")
	case "timeout":
		return 0, context.DeadlineExceeded
	}
	m.n++
	m.open[m.n] = true
	return m.n, nil
}

func (m *vC18Mcu) NewPublisher(ctx context.Context, listener signaling.McuListener, id string, sid string, streamType signaling.StreamType, settings signaling.NewPublisherSettings, initiator signaling.McuInitiator) (signaling.McuPublisher, error) {
	oc := m.enter()
	m.mu.Lock()
	defer m.mu.Unlock()
	n, err := m.create(oc)
	if err != nil {
		return nil, err
	}
	p := &vC18Pub{vC18Obj{mcu: m, n: n, id: id, sid: sid, streamType: streamType, listener: listener}}
	m.objs[n] = p
	m.byUuid[id] = n
	return p, nil
}

func (m *vC18Mcu) NewSubscriber(ctx context.Context, listener signaling.McuListener, publisher string, streamType signaling.StreamType, initiator signaling.McuInitiator) (signaling.McuSubscriber, error) {
	oc := m.enter()
	m.mu.Lock()
	defer m.mu.Unlock()
	n, err := m.create(oc)
	if err != nil {
		return nil, err
	}
	s := &vC18Sub{vC18Obj{mcu: m, n: n, id: fmt.Sprintf("vsub-%d", n), sid: fmt.Sprintf("vsid-%d", n), streamType: streamType, listener: listener}, publisher}
	m.objs[n] = s
	return s, nil
}

func (m *vC18Mcu) openList() []int {
	m.mu.Lock()
	defer m.mu.Unlock()
	var res []int
	for n, o := range m.open {
		if o {
			res = append(res, n)
		}
	}
	sort.Ints(res)
	return res
}

// vC18Creator is the proxy session an object was created for (its listener).
func vC18Creator(o interface{}) uint64 {
	var l signaling.McuListener
	switch x := o.(type) {
	case *vC18Pub:
		l = x.listener
	case *vC18Sub:
		l = x.listener
	}
	if s, ok := l.(*ProxySession); ok && s != nil {
		return s.Sid()
	}
	return 0
}

type vC18Obj struct {
	mcu        *vC18Mcu
	n          int
	id         string
	sid        string
	streamType signaling.StreamType
	listener   signaling.McuListener
}

func (o *vC18Obj) Id() string                       { return o.id }
func (o *vC18Obj) Sid() string                      { return o.sid }
func (o *vC18Obj) StreamType() signaling.StreamType { return o.streamType }
func (o *vC18Obj) MaxBitrate() int                  { return 0 }

// markClosed reports whether the object was open.
func (o *vC18Obj) markClosed() bool {
	o.mcu.mu.Lock()
	defer o.mcu.mu.Unlock()
	was := o.mcu.open[o.n]
	o.mcu.open[o.n] = false
	return was
}

func (o *vC18Obj) SendMessage(ctx context.Context, message *signaling.MessageClientMessage, data *signaling.MessageClientMessageData, callback func(error, map[string]interface{})) {
	o.mcu.mu.Lock()
	oc := o.mcu.outcome
	o.mcu.mu.Unlock()
	if oc == "ok" {
		callback(nil, map[string]interface{}{"type": "done"})
	} else {
		callback(errors.New("media server says no"), nil)
	}
}

type vC18Pub struct{ vC18Obj }

func (p *vC18Pub) Close(ctx context.Context) {
	if p.markClosed() {
		// like mcuJanusPublisher.Close
		p.listener.PublisherClosed(p)
	}
}
func (p *vC18Pub) HasMedia(signaling.MediaType) bool { return false }
func (p *vC18Pub) SetMedia(signaling.MediaType)      {}
func (p *vC18Pub) remote() error {
	p.mcu.mu.Lock()
	defer p.mcu.mu.Unlock()
	if p.mcu.outcome == "ok" {
		return nil
	}
	return errors.New("media server says no")
}
func (p *vC18Pub) GetStreams(ctx context.Context) ([]signaling.PublisherStream, error) {
	return nil, p.remote()
}
func (p *vC18Pub) PublishRemote(ctx context.Context, remoteId string, hostname string, port int, rtcpPort int) error {
	return p.remote()
}
func (p *vC18Pub) UnpublishRemote(ctx context.Context, remoteId string, hostname string, port int, rtcpPort int) error {
	return p.remote()
}

type vC18Sub struct {
	vC18Obj
	publisher string
}

func (s *vC18Sub) Close(ctx context.Context) {
	if s.markClosed() {
		// like mcuJanusSubscriber.Close
		s.listener.SubscriberClosed(s)
	}
}
func (s *vC18Sub) Publisher() string { return s.publisher }

// ---------------------------------------------------------------- in-memory transport

type vC18Listener struct {
	ch   chan net.Conn
	done chan struct{}
	once sync.Once
}

func (l *vC18Listener) Accept() (net.Conn, error) {
	select {
	case c := <-l.ch:
		return c, nil
	case <-l.done:
		return nil, net.ErrClosed
	}
}
func (l *vC18Listener) Close() error   { l.once.Do(func() { close(l.done) }); return nil }
func (l *vC18Listener) Addr() net.Addr { return &net.TCPAddr{IP: net.IPv4(127, 0, 0, 1), Port: 1} }

// vC18ServerConn gives the server end of the pipe a remote address that names the
// harness connection (10.0.<c/250>.<c%250+1>), so that ProxySession.client can be
// mapped back to it.
type vC18ServerConn struct {
	net.Conn
	addr net.Addr
}

func (c *vC18ServerConn) RemoteAddr() net.Addr { return c.addr }

func vC18ConnIP(c int) string { return fmt.Sprintf("10.0.%d.%d", c/250, c%250+1) }

type vC18Conn struct {
	ws     *websocket.Conn
	mu     sync.Mutex
	msgs   [][]byte
	closed bool
}

func (c *vC18Conn) take() [][]byte {
	c.mu.Lock()
	defer c.mu.Unlock()
	m := c.msgs
	c.msgs = nil
	return m
}

func (c *vC18Conn) isClosed() bool {
	c.mu.Lock()
	defer c.mu.Unlock()
	return c.closed
}

// ---------------------------------------------------------------- one case

type vC18World struct {
	t      *testing.T
	ks     *vC18KeySet
	base   time.Time
	proxy  *ProxyServer
	mcu    *vC18Mcu
	lis    *vC18Listener
	srv    *http.Server
	conns  map[int]*vC18Conn
	pubIds map[uint64]string // session id -> public id ever seen
	byIP   map[string]int
	marks  []string
	busy   map[int]chan string // connection -> gate of the creation its handler is blocked in
	armed  chan string         // gate handed to the media server by the op being executed
	armedC int
}

func vC18NewWorld(t *testing.T, cfg string) *vC18World {
	w := &vC18World{t: t, ks: vC18Keys(), base: time.Now(), conns: map[int]*vC18Conn{}, pubIds: map[uint64]string{}, byIP: map[string]int{}, busy: map[int]chan string{}}
	config := goconf.NewConfigFile()
	if cfg != "-" && cfg != "" {
		for _, p := range strings.Split(cfg, ",") {
			kv := strings.SplitN(p, "=", 2)
			if len(kv) == 2 {
				config.AddOption("tokens", vDec(kv[0]), w.ks.file[kv[1]])
			}
		}
	}
	r := mux.NewRouter()
	proxy, err := NewProxyServer(r, "0.0", config)
	if err != nil {
		t.Fatalf("NewProxyServer: %v", err)
	}
	w.proxy = proxy
	w.mcu = &vC18Mcu{TestMCU: TestMCU{t: t}, open: map[int]bool{}, objs: map[int]signaling.McuClient{}, byUuid: map[string]int{}, outcome: "ok", waiting: map[chan string]bool{}}
	proxy.mcu = w.mcu
	w.lis = &vC18Listener{ch: make(chan net.Conn), done: make(chan struct{})}
	w.srv = &http.Server{Handler: r}
	go w.srv.Serve(w.lis) // nolint
	return w
}

func (w *vC18World) shutdown() {
	for c, g := range w.busy {
		g <- "fail"
		delete(w.busy, c)
	}
	synctest.Wait()
	for _, c := range w.conns {
		c.ws.Close()
	}
	synctest.Wait()
	w.proxy.Stop()
	w.srv.Close()
	w.lis.Close()
	synctest.Wait()
}

func (w *vC18World) connect(c int) {
	if old, ok := w.conns[c]; ok {
		old.ws.Close()
		synctest.Wait()
	}
	ip := vC18ConnIP(c)
	w.byIP[ip] = c
	d := websocket.Dialer{NetDialContext: func(ctx context.Context, network, addr string) (net.Conn, error) {
		cl, sv := net.Pipe()
		select {
		case w.lis.ch <- &vC18ServerConn{Conn: sv, addr: &net.TCPAddr{IP: net.ParseIP(ip), Port: 40000 + c}}:
		case <-w.lis.done:
			return nil, net.ErrClosed
		}
		return cl, nil
	}}
	ws, _, err := d.Dial("ws://proxy.invalid/proxy", nil)
	if err != nil {
		w.t.Fatalf("dial: %v", err)
	}
	vc := &vC18Conn{ws: ws}
	w.conns[c] = vc
	go func() {
		for {
			_, data, err := ws.ReadMessage()
			vc.mu.Lock()
			if err != nil {
				vc.closed = true
				vc.mu.Unlock()
				return
			}
			vc.msgs = append(vc.msgs, data)
			vc.mu.Unlock()
		}
	}()
}

func (w *vC18World) send(c int, msg interface{}) {
	vc, ok := w.conns[c]
	if !ok || vc.isClosed() {
		return
	}
	switch m := msg.(type) {
	case string:
		vc.ws.WriteMessage(websocket.TextMessage, []byte(m)) // nolint
	case []byte:
		vc.ws.WriteMessage(websocket.BinaryMessage, m) // nolint
	default:
		data, _ := json.Marshal(msg)
		vc.ws.WriteMessage(websocket.TextMessage, data) // nolint
	}
}

type vJ = map[string]interface{}

// objUuid is the client id the proxy gave object n (or a never-issued id).
func (w *vC18World) objUuid(n int) string {
	w.mcu.mu.Lock()
	defer w.mcu.mu.Unlock()
	for u, k := range w.mcu.byUuid {
		if k == n {
			return u
		}
	}
	return fmt.Sprintf("00000000-0000-4000-8000-%012d", n)
}

func (w *vC18World) objOfUuid(u string) int {
	w.mcu.mu.Lock()
	defer w.mcu.mu.Unlock()
	return w.mcu.byUuid[u]
}

var vC18Invalid = map[string]interface{}{
	"notjson":             "{not json",
	"empty":               "",
	"array":               "[1,2,3]",
	"wrongtype":           `{"type":123}`,
	"notype":              `{"id":"i1"}`,
	"hello-nohello":       `{"type":"hello"}`,
	"hello-badversion":    `{"type":"hello","hello":{"version":"2.0","token":"x"}}`,
	"hello-noversion":     `{"type":"hello","hello":{"token":"x"}}`,
	"hello-notoken":       `{"type":"hello","hello":{"version":"1.0"}}`,
	"cmd-nocommand":       `{"type":"command"}`,
	"cmd-notype":          `{"type":"command","command":{"clientId":"x"}}`,
	"createpub-nostream":  `{"type":"command","command":{"type":"create-publisher"}}`,
	"createsub-nopub":     `{"type":"command","command":{"type":"create-subscriber","streamType":"video"}}`,
	"createsub-nostream":  `{"type":"command","command":{"type":"create-subscriber","publisherId":"p"}}`,
	"createsub-notoken":   `{"type":"command","command":{"type":"create-subscriber","publisherId":"p","streamType":"video","remoteUrl":"https://remote.invalid"}}`,
	"delpub-noid":         `{"type":"command","command":{"type":"delete-publisher"}}`,
	"delsub-noid":         `{"type":"command","command":{"type":"delete-subscriber"}}`,
	"payload-nopayload":   `{"type":"payload"}`,
	"payload-notype":      `{"type":"payload","payload":{"clientId":"x"}}`,
	"payload-noclient":    `{"type":"payload","payload":{"type":"requestoffer"}}`,
	"payload-offer-empty": `{"type":"payload","payload":{"type":"offer","clientId":"x"}}`,
	"binary":              []byte{0, 1, 2, 3},
}

var vC18InvalidKinds = func() []string {
	var ks []string
	for k := range vC18Invalid {
		ks = append(ks, k)
	}
	sort.Strings(ks)
	return ks
}()

func (w *vC18World) resumeId(kind string, n int) string {
	id, ok := w.pubIds[uint64(n)]
	if !ok {
		id = fmt.Sprintf("unknown-session-%d", n)
	}
	alt := func(b byte) byte {
		if b == 'A' {
			return 'B'
		}
		return 'A'
	}
	switch kind {
	case "exact":
		return id
	case "flip":
		b := []byte(id)
		b[len(b)/2] = alt(b[len(b)/2])
		return string(b)
	case "fliplast":
		// last character before the padding: other spelling of the trailing bits
		b := []byte(id)
		i := len(b) - 1
		for i > 0 && b[i] == '=' {
			i--
		}
		b[i] = alt(b[i])
		return string(b)
	case "trunc":
		return id[:len(id)-1]
	case "extend":
		return id + "A"
	case "newline":
		return id[:len(id)/2] + "\n" + id[len(id)/2:]
	case "lower":
		return strings.ToLower(id) + "x"
	default:
		return "garbage-resume-id"
	}
}

// connOf is the connection an op line is about (-1: none).
func vC18ConnOf(f []string) int {
	switch f[0] {
	case "connect", "close", "hello", "invalid", "cmd", "payload", "bye", "other":
		if len(f) > 1 {
			v, _ := strconv.Atoi(f[1])
			return v
		}
	}
	return -1
}

// after runs at quiescence: did the media server start waiting on the gate armed by this op?
func (w *vC18World) after() {
	if w.armed == nil {
		return
	}
	w.mcu.mu.Lock()
	waiting := w.mcu.waiting[w.armed]
	w.mcu.gate = nil
	w.mcu.outcome = "ok"
	w.mcu.mu.Unlock()
	if waiting {
		w.busy[w.armedC] = w.armed
	}
	w.armed = nil
}

func (w *vC18World) exec(f []string) {
	atoi := func(s string) int { v, _ := strconv.Atoi(s); return v }
	if c := vC18ConnOf(f); c >= 0 {
		if _, busy := w.busy[c]; busy {
			// the handler of this connection is blocked in the media server: not part of the model
			return
		}
	}
	switch f[0] {
	case "release":
		c := atoi(f[1])
		if g, ok := w.busy[c]; ok {
			delete(w.busy, c)
			w.mcu.mu.Lock()
			delete(w.mcu.waiting, g)
			w.mcu.mu.Unlock()
			if f[2] == "late" {
				w.busy[c] = g
			} else {
				g <- f[2]
			}
		}
	case "connect":
		w.connect(atoi(f[1]))
	case "close":
		if vc, ok := w.conns[atoi(f[1])]; ok {
			vc.ws.Close()
		}
	case "sleep":
		time.Sleep(time.Duration(atoi(f[1])) * time.Millisecond)
	case "expire":
		w.proxy.expireSessions()
	case "mcudown":
		w.proxy.onMcuDisconnected()
	case "mcuclose":
		w.mcu.mu.Lock()
		o := w.mcu.objs[atoi(f[1])]
		w.mcu.mu.Unlock()
		if o != nil {
			o.Close(context.Background())
		}
	case "hello":
		c := atoi(f[1])
		switch f[2] {
		case "tok":
			a := vC18TokFromFields(f[3:11])
			tok, _, _ := a.build(w.ks, time.Now())
			if len(f) > 11 && a.verifies(w.ks, time.Now()) != f[11] {
				w.marks = append(w.marks, "!oracle="+a.verifies(w.ks, time.Now()))
			}
			w.send(c, vJ{"id": "h", "type": "hello", "hello": vJ{"version": "1.0", "token": tok}})
		case "resume":
			h := vJ{"version": "1.0", "resumeid": w.resumeId(f[3], atoi(f[4]))}
			if f[5] == "1" {
				a := &vC18Tok{form: "jwt", alg: "RS256", signer: "RS256:k0", mut: "ok", iss: "foo", iat: "0", nbf: "-", exp: "-"}
				h["token"], _, _ = a.build(w.ks, time.Now())
			}
			w.send(c, vJ{"id": "h", "type": "hello", "hello": h})
		}
	case "invalid":
		w.send(atoi(f[1]), vC18Invalid[f[2]])
	case "cmd":
		c := atoi(f[1])
		w.mcu.mu.Lock()
		w.mcu.outcome = "ok"
		w.mcu.mu.Unlock()
		setOutcome := func(o string) {
			w.mcu.mu.Lock()
			w.mcu.outcome = o
			if o == "late" {
				w.armed, w.armedC = make(chan string, 1), c
				w.mcu.gate = w.armed
			}
			w.mcu.mu.Unlock()
		}
		switch f[2] {
		case "createpub":
			setOutcome(f[4])
			w.send(c, vJ{"id": "create", "type": "command", "command": vJ{"type": "create-publisher", "streamType": f[3]}})
		case "createsub":
			setOutcome(f[4])
			w.send(c, vJ{"id": "create", "type": "command", "command": vJ{"type": "create-subscriber", "streamType": f[3], "publisherId": "some-publisher"}})
		case "delpub":
			w.send(c, vJ{"id": "delete", "type": "command", "command": vJ{"type": "delete-publisher", "clientId": w.objUuid(atoi(f[3]))}})
		case "delsub":
			w.send(c, vJ{"id": "delete", "type": "command", "command": vJ{"type": "delete-subscriber", "clientId": w.objUuid(atoi(f[3]))}})
		case "pubremote":
			setOutcome(f[4])
			w.send(c, vJ{"id": "cmd", "type": "command", "command": vJ{"type": "publish-remote", "clientId": w.objUuid(atoi(f[3])), "hostname": "remote.invalid", "port": 10000, "rtcpPort": 10001}})
		case "unpubremote":
			setOutcome(f[4])
			w.send(c, vJ{"id": "cmd", "type": "command", "command": vJ{"type": "unpublish-remote", "clientId": w.objUuid(atoi(f[3])), "hostname": "remote.invalid", "port": 10000, "rtcpPort": 10001}})
		case "getstreams":
			setOutcome(f[4])
			w.send(c, vJ{"id": "cmd", "type": "command", "command": vJ{"type": "get-publisher-streams", "clientId": w.objUuid(atoi(f[3]))}})
		case "unknown":
			w.send(c, vJ{"id": "cmd", "type": "command", "command": vJ{"type": "frobnicate", "clientId": "x"}})
		}
	case "payload":
		c := atoi(f[1])
		w.mcu.mu.Lock()
		w.mcu.outcome = f[5]
		w.mcu.mu.Unlock()
		p := vJ{"clientId": w.objUuid(atoi(f[2]))}
		switch f[4] {
		case "candidate":
			p["type"] = "candidate"
			p["payload"] = vJ{"candidate": vJ{"candidate": "candidate:1 1 UDP 1 192.0.2.1 1 typ host"}}
		case "requestoffer", "sendoffer", "selectStream", "endOfCandidates":
			p["type"] = f[4]
		case "badsdp":
			p["type"] = "offer"
			p["payload"] = vJ{"sdp": 123}
		case "nosdp":
			p["type"] = "answer"
			p["payload"] = vJ{"foo": "bar"}
		default:
			p["type"] = "frobnicate"
		}
		w.send(c, vJ{"id": "payload", "type": "payload", "payload": p})
	case "bye":
		w.send(atoi(f[1]), vJ{"id": "bye", "type": "bye", "bye": vJ{}})
	case "other":
		w.send(atoi(f[1]), vJ{"id": "other", "type": vDec(f[2])})
	}
}

// canon turns one server message into the canonical form of the driver.
func (w *vC18World) canon(data []byte) string {
	var m struct {
		Id    string `json:"id"`
		Type  string `json:"type"`
		Error *struct {
			Code string `json:"code"`
		} `json:"error"`
		Hello *struct {
			SessionId string `json:"sessionid"`
		} `json:"hello"`
		Bye *struct {
			Reason string `json:"reason"`
		} `json:"bye"`
		Command *struct {
			Id  string `json:"id"`
			Sid string `json:"sid"`
		} `json:"command"`
		Payload *struct {
			Type     string `json:"type"`
			ClientId string `json:"clientId"`
		} `json:"payload"`
		Event *struct {
			Type     string `json:"type"`
			ClientId string `json:"clientId"`
		} `json:"event"`
	}
	if err := json.Unmarshal(data, &m); err != nil {
		return "raw/" + vEnc(string(data))
	}
	switch {
	case m.Type == "error" && m.Error != nil:
		return "err/" + vEnc(m.Error.Code)
	case m.Type == "hello" && m.Hello != nil:
		var sid uint64
		w.proxy.sessionsLock.RLock()
		for id, s := range w.proxy.sessions {
			if s.PublicId() == m.Hello.SessionId {
				sid = id
			}
		}
		w.proxy.sessionsLock.RUnlock()
		if sid != 0 {
			w.pubIds[sid] = m.Hello.SessionId
		}
		return fmt.Sprintf("hello/%d", sid)
	case m.Type == "bye" && m.Bye != nil:
		return "bye/" + vEnc(m.Bye.Reason)
	case m.Type == "command" && m.Command != nil:
		if strings.HasPrefix(m.Command.Sid, "vsid-") {
			if n, err := strconv.Atoi(m.Command.Sid[5:]); err == nil {
				w.mcu.mu.Lock()
				w.mcu.byUuid[m.Command.Id] = n
				w.mcu.mu.Unlock()
			}
		}
		kind := map[string]string{"create": "created", "delete": "deleted", "cmd": "cmdok"}[m.Id]
		if kind == "" {
			kind = "command"
		}
		return fmt.Sprintf("%s/%d", kind, w.objOfUuid(m.Command.Id))
	case m.Type == "payload" && m.Payload != nil:
		return fmt.Sprintf("payload/%d", w.objOfUuid(m.Payload.ClientId))
	case m.Type == "event" && m.Event != nil:
		if m.Event.ClientId != "" {
			return fmt.Sprintf("evo/%s/%d", vEnc(m.Event.Type), w.objOfUuid(m.Event.ClientId))
		}
		return "ev/" + vEnc(m.Event.Type)
	}
	return "raw/" + vEnc(string(data))
}

func vC18Join(xs []string) string {
	if len(xs) == 0 {
		return "-"
	}
	return strings.Join(xs, ",")
}

func vC18ObjNum(o interface{}) (int, string) {
	switch x := o.(type) {
	case *vC18Pub:
		return x.n, "p"
	case *vC18Sub:
		return x.n, "s"
	}
	return 0, "?"
}

// observe is called at quiescence.
func (w *vC18World) observe() string {
	var cs []int
	for c := range w.conns {
		cs = append(cs, c)
	}
	sort.Ints(cs)
	var outs, open []string
	for _, c := range cs {
		for _, data := range w.conns[c].take() {
			outs = append(outs, fmt.Sprintf("%d:%s", c, w.canon(data)))
		}
	}
	for _, c := range cs {
		if !w.conns[c].isClosed() {
			open = append(open, strconv.Itoa(c))
		}
	}
	// sessions
	p := w.proxy
	p.sessionsLock.RLock()
	var sids []uint64
	for sid := range p.sessions {
		sids = append(sids, sid)
	}
	sort.Slice(sids, func(i, j int) bool { return sids[i] < sids[j] })
	var ss []string
	for _, sid := range sids {
		s := p.sessions[sid]
		mark := ""
		if s.Sid() != sid {
			mark = "!sid"
		}
		cl := "-"
		s.clientLock.Lock()
		if s.client != nil {
			ip := s.client.RemoteAddr()
			if c, ok := w.byIP[ip]; ok {
				cl = strconv.Itoa(c)
			} else {
				cl = "?" + vEnc(ip)
			}
			if s.client.GetSession() != s {
				mark += "!backptr"
			}
		}
		if len(s.pendingMessages) > 0 {
			mark += fmt.Sprintf("!pending%d", len(s.pendingMessages))
		}
		s.clientLock.Unlock()
		var pubs, subs []int
		s.publishersLock.Lock()
		for id, o := range s.publishers {
			n, _ := vC18ObjNum(o)
			pubs = append(pubs, n)
			if s.publisherIds[o] != id {
				mark += "!pubids"
			}
		}
		if len(s.publisherIds) != len(s.publishers) {
			mark += "!pubids"
		}
		s.publishersLock.Unlock()
		s.subscribersLock.Lock()
		for id, o := range s.subscribers {
			n, _ := vC18ObjNum(o)
			subs = append(subs, n)
			if s.subscriberIds[o] != id {
				mark += "!subids"
			}
		}
		if len(s.subscriberIds) != len(s.subscribers) {
			mark += "!subids"
		}
		s.subscribersLock.Unlock()
		sort.Ints(pubs)
		sort.Ints(subs)
		semi := func(xs []int) string {
			var r []string
			for _, x := range xs {
				r = append(r, strconv.Itoa(x))
			}
			return strings.Join(r, ";")
		}
		used := (s.lastUsed.Load() - w.base.UnixNano()) / int64(time.Millisecond)
		ss = append(ss, fmt.Sprintf("%d@%s~%d[%s/%s]%s", sid, cl, used, semi(pubs), semi(subs), mark))
	}
	p.sessionsLock.RUnlock()
	// global client table
	p.clientsLock.RLock()
	type ent struct {
		n int
		s string
	}
	var ents []ent
	for id, o := range p.clients {
		n, k := vC18ObjNum(o)
		s := fmt.Sprintf("%d%s@%d", n, k, vC18Creator(o))
		if p.clientIds[o.Id()] != id {
			s += "!ids"
		}
		ents = append(ents, ent{n, s})
	}
	extra := ""
	if len(p.clientIds) != len(p.clients) {
		extra = fmt.Sprintf("!clientIds%d", len(p.clientIds))
	}
	p.clientsLock.RUnlock()
	sort.Slice(ents, func(i, j int) bool { return ents[i].n < ents[j].n })
	var cl []string
	for _, e := range ents {
		cl = append(cl, e.s)
	}
	var mo []string
	for _, n := range w.mcu.openList() {
		w.mcu.mu.Lock()
		o := w.mcu.objs[n]
		w.mcu.mu.Unlock()
		mo = append(mo, fmt.Sprintf("%d@%d", n, vC18Creator(o)))
	}
	res := fmt.Sprintf("out=%s S=%s C=%s%s M=%s K=%s", vC18Join(outs), vC18Join(ss), vC18Join(cl), extra, vC18Join(mo), vC18Join(open))
	if len(w.marks) > 0 {
		res += " " + strings.Join(w.marks, " ")
		w.marks = nil
	}
	return res
}

func vC18Exec(t *testing.T, c *vCase) {
	vC18Keys()
	log.SetOutput(io.Discard)
	synctest.Test(t, func(t *testing.T) {
		cfg := "-"
		if len(c.Ops) > 0 {
			if f := strings.Fields(c.Ops[0]); len(f) == 2 && f[0] == "cfg" {
				cfg = f[1]
			}
		}
		w := vC18NewWorld(t, cfg)
		defer w.shutdown()
		for _, line := range c.Ops {
			f := strings.Fields(line)
			if len(f) == 0 {
				c.Impl = append(c.Impl, "bad-op")
				continue
			}
			if f[0] == "cfg" {
				c.Impl = append(c.Impl, "ok")
				continue
			}
			w.exec(f)
			synctest.Wait()
			w.after()
			c.Impl = append(c.Impl, w.observe())
		}
	})
}

func TestVerifC18(t *testing.T) {
	vC18Dir = t.TempDir()
	vRun(t, vC18Gen, vC18Exec)
}
