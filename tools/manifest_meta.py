"""Texts for MANIFEST.json (kept apart from the machinery)."""

HOOK_COMMITS = []
NOTES = ("All checks: python3 tools/check.py <id>. Each run regenerates lean/SigModel/Generated from /repo's working tree, "
         "rebuilds and audits the Lean theorems (axioms limited to propext, Classical.choice, Quot.sound), rebuilds the "
         "overlay harness from the working tree and compares implementation, model and spec. See DESIGN.md.")

# properties deliberately not claimed (reason); everything without a check is listed automatically
NOT_APPLICABLE = {}

CHECKS = {
    "C17": dict(
        text="Machine-checked Lean 4 theorems about a model of throttle.go defined over constants and comparison "
             "operators regenerated from the source: delay monotone and <= 25 s for every count incl. the 64-bit "
             "computation; for every history of whole attempts under a monotone clock the outcomes equal a counting "
             "spec that never forgets (refused iff >= 10 failures within 30 min; delay = f(#failures within 12 h)); "
             "independence of keys/actions for every op sequence; forgetting after 12 h. Tied to the code by facts "
             "extraction plus a differential run of the real memoryThrottler with injected clock.",
        note="Trusted: Lean kernel, extractor, harness/comparison, net.ParseIP; unbounded-Int time. Concurrent "
             "stale write-back inside CheckBruteforce is only exhibited as a proved witness (partial).",
        technique="Lean 4 proof (refinement of the entry-list model to a counting spec by induction over op lists) + "
                  "regenerated constants + differential correspondence",
    ),
}
