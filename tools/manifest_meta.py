"""Texts for MANIFEST.json (kept apart from the machinery)."""

HOOK_COMMITS = []
NOTES = ("All checks: python3 tools/check.py <id>. Each run regenerates lean/SigModel/Generated from /repo's working tree, "
         "rebuilds and audits the Lean theorems (axioms limited to propext, Classical.choice, Quot.sound), rebuilds the "
         "overlay harness from the working tree and compares implementation, model and spec. See DESIGN.md.")

