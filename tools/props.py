"""Per-property configuration of tools/check.py."""
import collections
import re


def _verdict_stats(cases, model):
    v = collections.Counter()
    for ms in model:
        for m, verdict in ms:
            v[verdict.split(":")[0]] += 1
    return dict(v)


# ---------------------------------------------------------------- C17

def c17_stats(cases, model):
    kinds = collections.Counter()
    ops = collections.Counter()
    lens = []
    for c in cases:
        lens.append(len(c["ops"]))
        for o, i in zip(c["ops"], c.get("impl") or []):
            ops[o.split(" ", 1)[0]] += 1
            kinds[i.split(" ", 1)[0]] += 1
    delays = collections.Counter()
    for c in cases:
        for i in c.get("impl") or []:
            if i.startswith("delayed "):
                delays[i.split()[1]] += 1
    return dict(verdicts=_verdict_stats(cases, model), ops=dict(ops), impl_outcomes=dict(kinds),
                distinct_delays=len(delays), max_case_len=max(lens or [0]),
                mean_case_len=round(sum(lens) / max(1, len(lens)), 1))


def c17_nontrivial(c, ms):
    impl = c.get("impl") or []
    return any(i == "refused" for i in impl) or sum(1 for i in impl if i.startswith("delayed")) >= 3


PROPS = {
    "C17": dict(
        modules=["SigModel.Props.C17"],
        theorems=["SigModel.Throttle." + t for t in [
            "C17_delay_monotone_bounded", "C17_delay_no_overflow", "C17_block_iff_window", "C17_constants",
            "C17_spec_refused_iff", "C17_refused_records_nothing", "C17_spec_delay", "C17_independent",
            "C17_key_v6", "C17_key_raw", "C17_key_kinds", "C17_forgets", "C17_old_irrelevant",
            "C17_concurrent_lost_update"]],
        generated=["Throttle"],
        harness=dict(pkg="signaling", test="TestVerifC17"),
        stats=c17_stats,
        nontrivial=c17_nontrivial,
        rule="PRNG timelines of attempts (address pool of v4/v6-same-/64/v6-other/mapped/invalid strings x 3 actions, "
             "bursts, gaps around 30 min and 12 h, cleanups, occasional non-monotone clock and two-phase check/throttle) "
             "plus all address pairs for key sharing; a case is non-trivial if the real throttler refused at least once "
             "or delayed at least three times; distinct = distinct op lists",
        trusted_base=["net.ParseIP / IP.To4 / IP.To16 (address classification done by the harness with the standard library)",
                      "time.Time arithmetic modelled as unbounded Int nanoseconds (no saturation)"],
        assumptions=["whole calls of CheckBruteforce/throttle/cleanup are atomic (each holds the mutex for its map access); "
                     "the stale write-back inside CheckBruteforce under real concurrency is modelled only as the proved "
                     "witness C17_concurrent_lost_update (property part 'including concurrent attempts' is partial)",
                     "C17_block_iff_window assumes a monotone clock and check+throttle not separated by another attempt of the same key/action"],
    ),
}
