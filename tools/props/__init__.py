"""Per-property configuration: one module cXX.py per property with CONFIG and MANIFEST dicts
(and optionally NOT_APPLICABLE = "reason" to withdraw the claim)."""
import glob
import importlib
import os

PROPS = {}
MANIFEST = {}
NOT_APPLICABLE = {}
for _f in sorted(glob.glob(os.path.join(os.path.dirname(__file__), "c[0-9][0-9]*.py"))):
    _name = os.path.basename(_f)[:-3]
    try:
        _m = importlib.import_module("props." + _name)
    except Exception as _e:  # a half-written module must not take the other properties down
        import sys
        print("[props] cannot load %s: %r" % (_name, _e), file=sys.stderr)
        continue
    _pid = _name.upper()
    if getattr(_m, "NOT_APPLICABLE", None):
        NOT_APPLICABLE[_pid] = _m.NOT_APPLICABLE
        continue
    PROPS[_pid] = _m.CONFIG
    MANIFEST[_pid] = _m.MANIFEST
