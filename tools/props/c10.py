"""C10 — client message shapes (hub.go processMessage, api_signaling.go CheckValid, client.go read path)."""
import collections
from ._util import verdict_stats as _verdict_stats


def c10_stats(cases, model):
    ops, states, replies, by, types, shapes = (collections.Counter() for _ in range(6))
    lens = []
    cur = "?"
    for c in cases:
        lens.append(len(c["ops"]))
        for o, i in zip(c["ops"], c.get("impl") or []):
            f = o.split(" ")
            ops[f[0]] += 1
            if f[0] == "state":
                cur = f[1]
            if f[0] != "msg":
                continue
            states[cur] += 1
            kv = dict(t.split("=", 1) for t in f[3:] if "=" in t)
            if kv.get("frame") == "bin":
                shapes["binary-frame"] += 1
            elif kv.get("dec") != "ok":
                shapes["decode-error"] += 1
            else:
                types[kv.get("type", "")[:24]] += 1
                shapes["decoded"] += 1
            if int(kv.get("size", "0")) > 65536:
                shapes["oversize"] += 1
            for t in i.split(" "):
                if t.startswith("s="):
                    for k in t[2:].split("+"):
                        replies[k] += 1
                if t.startswith("b="):
                    for k in t[2:].split("+"):
                        by[k] += 1
    return dict(verdicts=_verdict_stats(cases, model), ops=dict(ops), messages_per_state=dict(states),
                sender_kinds=dict(replies), bystander_kinds=dict(by), decoded_types=dict(types.most_common(24)),
                frames=dict(shapes), max_case_len=max(lens or [0]), mean_case_len=round(sum(lens) / max(1, len(lens)), 1))


def c10_nontrivial(c, ms):
    impl = c.get("impl") or []
    # at least one message that got past validation and did something observable
    return any(("st=chg" in i) or (" b=" in i and " b=- " not in i) for i in impl)


CONFIG = dict(
    modules=["SigModel.Props.C10"],
    theorems=["SigModel.ShapesClient." + t for t in [
        "C10_total", "C10_invalid_no_effect", "C10_bystanders", "C10_addressed_message_delivered",
        "C10_addressed_message_queued",
        "C10_forwarded_raw_valid", "C10_derefs_accounted", "C10_assertions_known", "C10_media_tables_reviewed",
        "C10_deferred_tables_reviewed", "C10_payload_derefs_guarded", "C10_order_facts", "C10_raw_members_checked",
        "checkValid_no_crash",
        "C10_total_needs_dialout_guard", "C10_total_needs_fixed_label", "C10_total_needs_nil_guard",
        "C10_total_needs_validation", "C10_wellformed_needs_raw_check", "C10_total_needs_media_review",
        "C10_total_needs_payload_guard", "C10_total_needs_deferred_review", "C10_total_needs_register_guard"]],
    generated=["ShapesClient", "ShapesMedia", "ShapesDeferred"],
    harness=dict(pkg="signaling", test="TestVerifC10", timeout=1500),
    stats=c10_stats,
    nontrivial=c10_nontrivial,
    rule="a case = fresh real Hub + BackendServer + fake Nextcloud backend + a bystander client in room `vroom`, then 1-3 "
         "sender states (no session / session / in the bystander's room / same with an empty permission list / internal / "
         "internal in the room / internal with a dialout request pending before every message) x 1-9 frames each; a frame is "
         "(4/5) a valid message of one of 14 families (hello v1/v2/internal/resume/odd, bye, room join/leave/federation, "
         "message and control x 8 recipient shapes x 14 payload shapes incl. media payloads and SDPs, internal x 9, transient x 5, "
         "unknown types) with 0-3 structure-aware mutations (member missing, null, wrong-typed or hostile value, duplicated, "
         "type tag swapped, sub-object of another type grafted, member renamed, oversized string leaf padded to "
         "1000..200000 bytes incl. maxMessageSize-1/+0/+1/+2, unknown members, 1-40 and 5000-11000 levels of nesting) or "
         "(1/5) raw bytes (random, truncated or byte-flipped documents, binary frames, bracket floods, invalid UTF-8); 1 case "
         "in 12 ends with a concurrent leave / transient-update stress of two further clients; a second family (30 quick / "
         "150 thorough cases, `world mcu=2`) runs the real Janus client (mcu_janus*.go, janus_client.go) behind the hub on an "
         "in-process stand-in gateway: the bystander publishes, the sender (5 states with a session) asks for that stream and in "
         "half of the cases publishes itself, then 2-9 media messages (requestoffer / sendoffer / selectStream / offer / answer / "
         "candidate / endOfCandidates to the bystander, itself or nobody) whose payload members (substream, temporal, audio, "
         "video, type, sdp, candidate, bitrate, sid) are in 1/3 of the cases replaced by a value of another JSON type, plus the "
         "general mutations; a third family (40 quick / 100 thorough cases, `world mcu=<0|1> by=<flags>`) is about the "
         "*recipient's* side: the bystander is in no room (n), has `hide-displaynames` (h) and/or is in the call (c); scripted "
         "opening (0-2 messages for the connected bystander, `by drop` = its connection goes away without bye and the session waits "
         "to be resumed, in 1/3 of the cases a battery derived from the tree under test - for every struct type a forwarded payload "
         "is decoded into and every literal its decoders compare the type with, the document that has only the type and the one with "
         "every pointer/map/slice member null -, 2-10 messages/controls to the bystander's session, user, room or call whose data is "
         "built by reflection over those types (every member absent / null / other JSON type / present), `by resume`) and a random "
         "continuation with further sender states, drops and resumes; while the bystander is detached the harness reports what is "
         "*queued* for it (read from the session, barrier markers included) and at the resume compares what arrives with what was "
         "queued; a fourth family (15 / 30 cases, `state remote`) sends hellos of every kind and other frames over a connection "
         "without session that reaches the hub the way a connection proxied from another cluster node does (a HandlerClient that "
         "is not a *Client, fed through Hub.OnMessageReceived); every frame is followed by "
         "barriers on the sender's connection and on the backend-room, room, user and session subjects of both clients, "
         "and the hub tables are digested before and after; a case is non-trivial if some frame changed the tables or "
         "reached the bystander; distinct = distinct op lists",
    trusted_base=[
        "decoders: easyjson ClientMessage.UnmarshalJSON, encoding/json (payload, auth params), net/url, pion/sdp - the "
        "harness classifies every document with these same decoders (outside the hub) and hands the model the result",
        "gorilla/websocket framing and read limit; net/http; prometheus client (panics on invalid label values)",
        "the fake Nextcloud backend (accepts every user id not starting with `deny`, every room not starting with `deny`, "
        "empty permission list for users starting with `restricted`), the TestMCU of the repository's own tests (mcu=1) and "
        "the stand-in Janus gateway of zz_verif_c10_janus_test.go (mcu=2: answers every request at once, never looks into what the "
        "client sent); the proxy MCU client (mcu_proxy.go) and the media proxy (proxy/) are not run for this property - they are "
        "tied by the reviewed tables of Model/ShapesMedia.lean only (C16/C18 run the proxy itself)",
        "the stand-in for a connection proxied from another node (vC10Remote in zz_verif_c10_world_test.go: replies are serialised "
        "where remoteGrpcClient queues them); the harness' reading of ClientSession.pendingClientMessages under the session mutex "
        "for a detached bystander; the review of the entries of Model/ShapesDeferred.lean (envelope tables: each with its reason)",
        "the harness' barriers and digest (zz_verif_c10_world_test.go) and the go/ast walker of tools/extract/shapesclient.go "
        "(syntactic nil-guard analysis; values that leave a function through struct fields or atomics are not followed) and of "
        "tools/extract/shapesmedia.go (whole-file tables; map lookups are recognised by declaration, everything else is listed); "
        "the review of the entries of Model/ShapesMedia.lean (each with its reason in the doc comment)",
    ],
    assumptions=[
        "`every byte string` is reduced to `a decode error or a value of the decoded structure` (decoders trusted, see trusted_base)",
        "throttling is switched off in the harness (C17), hello/anonymous/expiry timers are set to one hour; clustering "
        "(gRPC, real NATS) and the established federation forwarding path are modelled (modelProxy) but not run",
        "the model's predictions for the sender's own stream are exact for the direct reply and a may-set for room events; "
        "for the bystander they are must/may sets per handler (exact for plain message/control/transient/bye/leave/join)",
        "responses of the backend (auth/room answers with missing sub-objects) are not client input and not covered here",
    ],
)

MANIFEST = dict(
    text="Machine-checked Lean 4 theorems about a hand-written model of the client-input path (ReadPump size/frame check, "
         "decode, CheckValid, processMessage dispatch, every handler incl. the pending-dialout response handler and federation "
         "forwarding) that is defined over facts regenerated from the Go sources on every run: the per-type `validated => "
         "sub-object non-nil` table of every CheckValid in api_signaling.go, the table of unguarded pointer dereferences below a "
         "client message in every function that receives one, the order decode -> validate -> dispatch, the dispatch table, the "
         "label of the message counter and maxMessageSize, and the whole-file tables of single-value type assertions, index "
         "expressions, writes to possibly-nil maps and unguarded dereferences of the media code behind the handlers (Janus client, "
         "proxy MCU client, media proxy), which must equal the reviewed lists for the model's media branch not to crash; and the "
         "tables of the recipient's side (where raw bytes of a forwarded payload are decoded again, unguarded dereferences below "
         "such a payload - each a crash branch of the model's delivery stage - and below the server/async message itself, the "
         "calls such a message flows into, uses of the nil result of a failed type assertion). The model's delivery stage depends "
         "on the recipient's state (connected / detached with its queue and the chat-refresh folding / in the call / with "
         "hide-displaynames). Proved for all connection states and all frames (any size, "
         "text/binary, undecodable or any value of the decoded structure): no crash outcome; invalid frames are answered with "
         "one error, reach nobody and change nothing; the bystander only receives kinds the message content addresses, and an "
         "addressed plain message is delivered. Counter-examples show each guard is needed. Tied to the code by a differential "
         "run of the real Hub with real websocket clients (7 sender states, structure-aware hostile documents and raw bytes, "
         "bystander and table digest, process liveness), including media conversations with wrong-typed payload members through "
         "the real Janus client on a stand-in gateway, conversations for a recipient whose connection is gone and comes back "
         "(what is queued, what is flushed on resume), and hellos over a connection that is not a websocket of this hub.",
    note="Trusted: Lean kernel, extractor, harness, the JSON/URL/SDP decoders and websocket/http libraries; backend answers "
         "are not client input. Defects found and repaired: dialout response handler nil dereference (6c2ef8c), "
         "process death on a `type` that is not valid UTF-8 (6585c31), leave vs. transient-update deadlock (001c654, by C14), "
         "raw members that are not JSON (fe02bf7), nil dereference in processRegister for a connection that is not a *Client (0d853cf).",
    technique="Lean 4 proof (case analysis over the dispatch of a total model with explicit crash outcomes, table lemmas by "
              "decide) + regenerated validation/dereference/assertion tables + differential correspondence against the real hub",
)
