"""C10 — client message shapes (hub.go processMessage, api_signaling.go CheckValid, client.go read path)."""
import collections
from ._util import verdict_stats as _verdict_stats


def c10_stats(cases, model):
    ops, states, replies, by, types, shapes = (collections.Counter() for _ in range(6))
    lens = []
    cur = "?"
    for c in cases:
        lens.append(len(c["ops"]))
        for o, i in zip(c["ops"], c.get("impl") or []):
            f = o.split(" ")
            ops[f[0]] += 1
            if f[0] == "state":
                cur = f[1]
            if f[0] != "msg":
                continue
            states[cur] += 1
            kv = dict(t.split("=", 1) for t in f[3:] if "=" in t)
            if kv.get("frame") == "bin":
                shapes["binary-frame"] += 1
            elif kv.get("dec") != "ok":
                shapes["decode-error"] += 1
            else:
                types[kv.get("type", "")[:24]] += 1
                shapes["decoded"] += 1
            if int(kv.get("size", "0")) > 65536:
                shapes["oversize"] += 1
            for t in i.split(" "):
                if t.startswith("s="):
                    for k in t[2:].split("+"):
                        replies[k] += 1
                if t.startswith("b="):
                    for k in t[2:].split("+"):
                        by[k] += 1
    return dict(verdicts=_verdict_stats(cases, model), ops=dict(ops), messages_per_state=dict(states),
                sender_kinds=dict(replies), bystander_kinds=dict(by), decoded_types=dict(types.most_common(24)),
                frames=dict(shapes), max_case_len=max(lens or [0]), mean_case_len=round(sum(lens) / max(1, len(lens)), 1))


def c10_nontrivial(c, ms):
    impl = c.get("impl") or []
    # at least one message that got past validation and did something observable
    return any(("st=chg" in i) or (" b=" in i and " b=- " not in i) for i in impl)


CONFIG = dict(
    modules=["SigModel.Props.C10"],
    theorems=["SigModel.ShapesClient." + t for t in [
        "C10_derefs_accounted", "C10_assertions_known"]],
    generated=["ShapesClient"],
    harness=dict(pkg="signaling", test="TestVerifC10", timeout=900),
    no_shrink=False,
    stats=c10_stats,
    nontrivial=c10_nontrivial,
    rule="",
    trusted_base=[],
    assumptions=[],
)

MANIFEST = dict(text="", note="", technique="")
