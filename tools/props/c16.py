"""C16 — forwarding headers are trusted only from trusted proxies (hub.go GetRealUserIP, allowed_ips.go,
stats/serverinfo/metrics gate of backend_server.go and proxy/proxy_server.go)."""
import collections
import os
import re
import urllib.parse

from ._util import verdict_stats as _verdict_stats

_HERE = os.path.dirname(os.path.dirname(os.path.dirname(os.path.abspath(__file__))))


def _gen_in_sync():
    """The proxy package carries a copy of the generator/tokeniser; it must differ in the package clause only."""
    try:
        a = open(os.path.join(_HERE, "harness", "signaling", "zz_verif_c16_gen_test.go")).read()
        b = open(os.path.join(_HERE, "harness", "proxy", "zz_verif_c16_gen_test.go")).read()
    except OSError:
        return False
    return a.replace("package signaling", "package main", 1) == b


def _shape(op):
    """Coarse branch label of one request op, from its tokens."""
    f = op.split(" ")
    try:
        x = f.index("X")
        fi = f.index("F", x)
        ri = f.index("R", fi)
    except ValueError:
        return "?"
    peer = f[x - 1]
    nx, nf = int(f[x + 1]), int(f[fi + 1])
    hops = f[fi + 2:ri]
    lab = "peer-invalid" if peer.endswith(";-") else "peer-ip"
    lab += "/xreal%d" % min(nx, 2)
    if nx:
        lab += "bad" if f[x + 2].endswith(";-") else "ok"
    valid = sum(1 for h in hops if not h.endswith(";-"))
    lab += "/hoptokens%s/valid%s" % ("0" if nf == 0 else "1-2" if nf <= 2 else "3+", "0" if valid == 0 else "1" if valid == 1 else "2+")
    return lab


_MAPPED = "00000000000000000000ffff"
_PORTED_V6 = re.compile(r"\[[0-9a-fA-F:.]+\]:\d+")


def _common_bits(a, b):
    x = int(a, 16) ^ int(b, 16)
    return 128 - x.bit_length()


def _hosts(op):
    """Single-address entries (16-byte hex) of the trusted list and of the allow-list of a new/reload line."""
    f = op.split(" ")
    try:
        t, a, s_ = f.index("T"), f.index("A"), f.index("S")
    except ValueError:
        return [], []
    pick = lambda xs: [x[1:] for x in xs if x.startswith("h") and len(x) == 33]
    return pick(f[t + 2:a]), pick(f[a + 2:s_])


def _next_door(addr, hosts):
    """addr (hex of net.ParseIP) is not one of the single addresses but shares the leading bytes with one —
    what a too short prefix (or one counted in the other family) would let in."""
    if len(addr) != 32:
        return False
    for h in hosts:
        if h == addr:
            continue
        need = 104 if h.startswith(_MAPPED) else 16
        if _common_bits(addr, h) >= need:
            return True
        # the four bytes of an IPv4 host at the start of an IPv6 address
        if h.startswith(_MAPPED) and addr.startswith(h[24:]):
            return True
    return False


def c16_stats(cases, model):
    ops, outs, shapes, chosen = (collections.Counter() for _ in range(4))
    servers = collections.Counter()
    cfg_err = 0
    lens = []
    special = collections.Counter()
    for c in cases:
        lens.append(len(c["ops"]))
        th, ah = [], []
        for o, i in zip(c["ops"], c.get("impl") or []):
            k = o.split(" ", 1)[0]
            ops[k] += 1
            if k in ("new", "reload"):
                th, ah = _hosts(o)
                for h in th + ah:
                    special["single_address_entries_v4" if h.startswith(_MAPPED) else "single_address_entries_v6"] += 1
            if k in ("ip", "get"):
                shapes[_shape(o)] += 1
                f = o.split(" ")
                x = f.index("X") if "X" in f else 0
                peer = f[x - 1].rsplit(";", 1)[-1] if x else ""
                if _next_door(peer, th):
                    special["peer_next_door_to_single_trusted_address"] += 1
                if _next_door(peer, ah):
                    special["peer_next_door_to_single_allowed_address"] += 1
                if "R" in f and _PORTED_V6.search(urllib.parse.unquote(" ".join(f[f.index("R") + 3:]))):
                    special["requests_with_bracketed_ported_v6_in_a_header"] += 1
            if k == "get":
                servers[o.split(" ")[1]] += 1
                outs["get:" + i] += 1
            elif k == "ip":
                f = o.split(" ")
                peer_text = f[2].rsplit(";", 1)[0]
                chosen["peer" if i == peer_text else "header"] += 1
            elif k in ("new", "reload"):
                if i.startswith("err"):
                    cfg_err += 1
                outs[k + (":err" if i.startswith("err") else ":ok")] += 1
            elif k == "mem":
                outs["mem:" + i] += 1
    bad = sum(1 for c in cases for i in (c.get("impl") or []) if i == "bad-op")
    bad += sum(1 for ms in model for m, _ in ms if m in ("bad-op", "<driver-missing>"))
    return dict(verdicts=_verdict_stats(cases, model), ops=dict(ops), bad_ops=bad, outcomes=dict(outs), request_shapes=dict(shapes),
                address_taken_from=dict(chosen), servers=dict(servers), config_errors=cfg_err, situations=dict(special),
                proxy_generator_in_sync=_gen_in_sync(),
                max_case_len=max(lens or [0]), mean_case_len=round(sum(lens) / max(1, len(lens)), 1))


def c16_nontrivial(c, ms):
    """Non-trivial: at least one request whose reported address is NOT the socket peer (a header was honoured),
    or a gated endpoint answered 200, or a membership test that succeeded."""
    for o, i in zip(c["ops"], c.get("impl") or []):
        f = o.split(" ")
        if f[0] == "ip" and len(f) > 2 and i != f[2].rsplit(";", 1)[0]:
            return True
        if f[0] == "get" and i == "200":
            return True
        if f[0] == "mem" and i == "1":
            return True
    return False


CONFIG = dict(
    modules=["SigModel.Props.C16"],
    theorems=["SigModel.RealIP." + t for t in [
        "C16_untrusted_peer_ignores_headers", "C16_trusted_result_shape", "C16_appended_hop_wins",
        "C16_direct_client_cannot_spoof", "C16_no_trusted_list", "C16_endpoints_gated", "C16_direct_client_gate",
        "C16_facts", "C16_contains_is_prefix_match", "C16_statement_on_bits", "C16_default_lists_wf",
        "C16_default_config_public_peer_refused", "C16_config", "C16_parse_refuses_iff",
        "C16_host_entry_exact", "C16_config_as_written", "C16_config_refused_as_written", "C16_reload_as_written",
        "C16_statement_as_written",
    ]],
    generated=["RealIP"],
    harness=dict(pkg="signaling", test="TestVerifC16"),
    extra_harness=[dict(pkg="proxy", test="TestVerifC16Proxy")],
    stats=c16_stats,
    nontrivial=c16_nontrivial,
    rule="per case one server built from a generated trusted-proxy list and allow-list (fixed table incl. /0, /32, /128, "
         "IPv4-in-IPv6 networks, single addresses of both families in every spelling, defaults, empty and unparsable "
         "lists; Reload in between), then 4-40 requests drawn from an address world derived from the configuration "
         "(inside trusted / inside allowed / outside / next door: the sibling just outside a prefix, one bit flipped at "
         "the usual prefix boundaries, network ends, the look-alikes in the other address family; spelled as v4, "
         "mapped, expanded v6, with ports, brackets, zones, spaces, garbage), 0-2 X-Real-IP lines and 0-3 "
         "X-Forwarded-For lines of 0-5 hops, plus scripted proxy chains (forged hops, the client as the proxy saw it "
         "incl. [v6]:port, further trusted proxies), sent to GetRealUserIP and through the router to the gated endpoints "
         "of the main server and of the proxy; plus direct AllowedIps.Allowed probes incl. degenerate byte lengths. The "
         "judge reads 'configured' off the written entries (no prefix length = that one address), networks are compared "
         "in canonical form (family, masked address, prefix length); non-trivial = some request is answered with a "
         "header-derived address, or a gated endpoint answers 200, or a membership probe succeeds; distinct = distinct "
         "op lists",
    trusted_base=[
        "net.SplitHostPort, net.ParseIP, net.ParseCIDR, strings.TrimSpace (unicode.IsSpace), comma splitting: "
        "done by the harness tokeniser with its own standard-library calls; the model sees (text, parsed bytes) tokens, "
        "configured entries as `single address` (no slash, bytes of net.ParseIP) or `network` (net.ParseCIDR)",
        "net/http.Header canonicalisation and Header.Get = first value; gorilla/mux routing; promhttp handler answers 200",
    ],
    assumptions=[
        "tokens are what net.ParseIP makes of the text (in particular the empty string is not an address)",
        "configuration strings reach ParseAllowedIps unchanged (goconf variable substitution `%(x)s` is not modelled)",
    ],
)

MANIFEST = dict(
    text="Machine-checked Lean 4 theorems about a model of GetRealUserIP / AllowedIps / the statistics gate over "
         "tokenised requests, defined over facts regenerated from the source (header names and order of consultation, "
         "peer check before any header, hop reversal, default lists, gated routes, refusal status), incl. that the lists "
         "a server holds are what the operator wrote (an entry without prefix length is that one address). Tied to the "
         "code by facts extraction plus a differential run of the real functions and of both servers' routers whose "
         "judge evaluates the statement against the written configuration.",
    note="Trusted: Lean kernel, extractor, harness tokeniser (standard library string/address parsing), net/http, mux.",
    technique="Lean 4 proof (case analysis + induction over the hop list, refinement to a declarative spec) + regenerated "
              "facts + differential correspondence",
)
