"""C20 — event bus (async_events.go, async_events_nats.go, natsclient_loopback.go)."""
import collections
from ._util import verdict_stats as _verdict_stats


def c20_stats(cases, model):
    ops, modes, lens = collections.Counter(), collections.Counter(), []
    deliveries = conc_events = conc_complete = conc_runs = 0
    for c in cases:
        first = c["ops"][0] if c["ops"] else ""
        mode = "conc" if first.startswith("conc") else ("hold" if any(o.startswith("hold") for o in c["ops"])
                                                        else first.replace("mode ", "det-"))
        modes[mode] += 1
        lens.append(len(c["ops"]))
        for o, i in zip(c["ops"], c.get("impl") or []):
            ops[o.split(" ", 1)[0]] += 1
            if i.startswith("H "):
                conc_runs += 1
                conc_complete += i.split(" ", 2)[1] == "1"
                evs = i.split(" ", 2)[2].split(";") if len(i.split(" ", 2)) > 2 else []
                conc_events += len(evs)
                deliveries += sum(1 for e in evs if e.startswith("rv,"))
            else:
                deliveries += sum(g.count("/") for g in i.split()[1:])
    return dict(verdicts=_verdict_stats(cases, model), ops=dict(ops), modes=dict(modes), deliveries=deliveries,
                concurrent_runs=conc_runs, concurrent_runs_complete=conc_complete, concurrent_events=conc_events,
                max_case_len=max(lens or [0]), mean_case_len=round(sum(lens) / max(1, len(lens)), 1))


def c20_nontrivial(c, ms):
    impl = c.get("impl") or []
    if impl and impl[0].startswith("H "):
        return impl[0].count("rv,") >= 20
    return sum(g.count("/") for i in impl for g in i.split()[1:]) >= 3


def c20_canon(s):
    return "conc" if s.startswith("H ") else s


CONFIG = dict(
    modules=["SigModel.Props.C20"],
    theorems=["SigModel.Bus." + t for t in [
        "C20_facts",
    ]],
    generated=["Bus"],
    harness=dict(pkg="signaling", test="TestVerifC20"),
    stats=c20_stats,
    nontrivial=c20_nontrivial,
    canon=c20_canon,
    rule="deterministic PRNG schedules of register/unregister/publish (+ dispatch steps with a harness-owned client, "
         "listeners that leave and join again from inside a callback, scripted stuck-callback schedules) over 1-3 of 10 "
         "subjects (4 kinds, same id under different kinds/backends, compat variants) and 1-4 listeners, compared step by "
         "step with the model; concurrent runs of 6-8 goroutines x 200-300 calls on 2-4 overlapping subjects judged by "
         "`admits`; a deterministic case is non-trivial with >= 3 deliveries, a concurrent one with >= 20; distinct = "
         "distinct op lists",
    trusted_base=[],
    assumptions=[],
)

MANIFEST = dict(
    text="(in progress)",
    note="",
    technique="Lean 4 proof (inductive invariants of a small-step model, all interleavings) + regenerated facts + "
              "differential correspondence / trace validation",
)
