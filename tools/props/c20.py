"""C20 — event bus (async_events.go, async_events_nats.go, natsclient_loopback.go)."""
import collections
from ._util import verdict_stats as _verdict_stats


def c20_stats(cases, model):
    ops, modes, lens = collections.Counter(), collections.Counter(), []
    deliveries = conc_events = conc_complete = conc_runs = 0
    for c in cases:
        first = c["ops"][0] if c["ops"] else ""
        mode = "conc" if first.startswith("conc") else ("hold" if any(o.startswith("hold") for o in c["ops"])
                                                        else first.replace("mode ", "det-"))
        modes[mode] += 1
        lens.append(len(c["ops"]))
        for o, i in zip(c["ops"], c.get("impl") or []):
            ops[o.split(" ", 1)[0]] += 1
            if i.startswith("H "):
                conc_runs += 1
                conc_complete += i.split(" ", 2)[1] == "1"
                evs = i.split(" ", 2)[2].split(";") if len(i.split(" ", 2)) > 2 else []
                conc_events += len(evs)
                deliveries += sum(1 for e in evs if e.startswith("rv,"))
            else:
                deliveries += sum(g.count("/") for g in i.split()[1:])
    return dict(verdicts=_verdict_stats(cases, model), ops=dict(ops), modes=dict(modes), deliveries=deliveries,
                concurrent_runs=conc_runs, concurrent_runs_complete=conc_complete, concurrent_events=conc_events,
                max_case_len=max(lens or [0]), mean_case_len=round(sum(lens) / max(1, len(lens)), 1))


def c20_nontrivial(c, ms):
    impl = c.get("impl") or []
    if impl and impl[0].startswith("H "):
        return impl[0].count("rv,") >= 20
    return sum(g.count("/") for i in impl for g in i.split()[1:]) >= 3


def c20_canon(s):
    return "conc" if s.startswith("H ") else s


CONFIG = dict(
    modules=["SigModel.Props.C20"],
    theorems=["SigModel.Bus." + t for t in [
        "C20_facts", "C20_subject_kinds_disjoint",
        "C20_no_duplicates", "C20_only_while_registered", "C20_other_subjects", "C20_nothing_after_unregister",
        "C20_order", "C20_new_subscriber_waits",
        "C20_conservation", "C20_delivery_partial", "C20_delivery_counterexample",
        "C20_publish_never_blocks", "C20_register_never_blocks", "C20_dispatcher_never_blocked", "C20_progress",
        "C20_admits", "C20_admits_widen", "C20_admits_recorded",
    ]],
    generated=["Bus"],
    harness=dict(pkg="signaling", test="TestVerifC20"),
    stats=c20_stats,
    nontrivial=c20_nontrivial,
    canon=c20_canon,
    rule="deterministic PRNG schedules of register/unregister/publish (+ dispatch steps with a harness-owned client, "
         "listeners that leave and join again from inside a callback, scripted stuck-callback schedules) over 1-3 of 10 "
         "subjects (4 kinds, same id under different kinds/backends, compat variants) and 1-4 listeners, compared step by "
         "step with the model; concurrent runs of 6-8 goroutines x 200-300 calls on 2-4 overlapping subjects judged by "
         "`admits`; a deterministic case is non-trivial with >= 3 deliveries, a concurrent one with >= 20; distinct = "
         "distinct op lists",
    trusted_base=[
        "Go runtime: mutexes, channels (a buffered channel of capacity n accepts a non-blocking send iff fewer than n "
        "elements are queued), `select`, goroutine scheduling = arbitrary interleaving of the modelled critical sections",
        "encoding/json round trip of AsyncMessage and base64 subject encoding (the harness compares payloads; the model "
        "identifies a message with its publication index)",
        "the index a publication gets is taken by a harness wrapper that serialises Publish calls around "
        "LoopbackNatsClient.Publish (which itself holds the client mutex for the whole call)",
    ],
    assumptions=[
        "atomicity at the granularity of the mutex-protected sections named at every action of Model/Bus.lean "
        "(publish, dispatch, send, take, snap, pick, call, finish, exit, register, unregister); the shape of those "
        "sections is re-extracted from the source on every run (Generated/Bus.lean, C20_facts)",
        "'before unregistration began' is proved for listeners that stay registered (C20_delivery_partial); an "
        "asynchronous bus drops what is still queued when the listener leaves (C20_delivery_counterexample, replayed on "
        "the code by corpus/C20/unregister-drops-queued.jsonl)",
        "a callback may be entered after Unregister returned when the listener had already been chosen under the mutex "
        "(message published before the unregistration returned; allowed by the statement, corpus/C20/stale-callback.jsonl)",
        "conservation (clause E of admits) only below the slow-consumer threshold: runs in which the loopback client "
        "logged 'Slow consumer' are judged on the safety clauses only",
        "a listener object re-registered on a subject may be handed a message published between its unregistration and "
        "its re-registration (published before the later registration completed: not constrained by the statement)",
        "real NATS server, Close() of the whole bus and failing Subscribe calls are not modelled",
    ],
)

MANIFEST = dict(
    text="Machine-checked Lean 4 theorems about a small-step model of the event bus (publication log, loopback FIFO with "
         "dispatcher snapshot + non-blocking sends, bounded channel and receiver goroutine per subject, listener iteration "
         "over a snapshot with the mutex released around callbacks, register/unregister where the last one closes the "
         "subscriber and a new subscriber waits for the closed one), for every interleaving of its atomic actions: no "
         "duplicate delivery, every delivery backed by a registration on that subject and published before any later "
         "unregistration returned, per-listener per-subject publication order, conservation and delivery at quiescence for "
         "listeners that stay registered (below the slow-consumer bound), publishers/registrations/dispatcher never wait, "
         "no deadlock, and every recorded history is accepted by the executable spec `admits` (monotone under widening of "
         "call intervals). Tied to the code by extracted locking skeletons/constants and by running the real "
         "asyncEventsNats + LoopbackNatsClient: deterministic schedules compared step by step with the model, concurrent "
         "goroutine runs judged by `admits`.",
    note="Trusted: Lean kernel, extractor, harness, Go runtime semantics of mutex/channel/select. Partial: messages still "
         "queued when a listener unregisters are lost for it (proved counter-example). Two defects found by the harness and "
         "fixed in /repo: duplicate delivery when a listener re-registers during the iteration (58da40a); out-of-order "
         "delivery after leave+join through a second subscriber (f4b47ff).",
    technique="Lean 4 proof (inductive invariants of a small-step model, all interleavings) + regenerated facts + "
              "differential correspondence / trace validation",
)
