"""C18 — media proxy: token holders only; cleanup (proxy/proxy_server.go, proxy_session.go)."""
import collections
from ._util import verdict_stats as _verdict_stats


def _field(line, pre):
    for tok in line.split(" "):
        if tok.startswith(pre):
            return tok[len(pre):]
    return ""


def c18_stats(cases, model):
    ops, replies, tags, lens = collections.Counter(), collections.Counter(), collections.Counter(), []
    tok_attr = collections.Counter()
    accepted = refused = 0
    max_sess = max_objs = 0
    for c in cases:
        lens.append(len(c["ops"]))
        for t in c.get("tags") or []:
            tags[t] += 1
        for o, i in zip(c["ops"], c.get("impl") or []):
            f = o.split(" ")
            kind = f[0]
            if kind in ("cmd", "hello"):
                kind += ":" + f[2]
            elif kind == "payload":
                kind += ":" + f[3]
            ops[kind] += 1
            outs = _field(i, "out=")
            for m in ([] if outs in ("", "-") else outs.split(",")):
                body = m.split(":", 1)[1]
                p = body.split("/")
                replies["/".join(p[:2]) if p[0] in ("err", "bye", "ev", "evo") else p[0]] += 1
            if f[0] == "hello" and f[2] == "tok":
                tok_attr["form=" + f[3]] += 1
                tok_attr["alg=" + f[4]] += 1
                tok_attr["mut=" + f[6]] += 1
                tok_attr["iat=" + ("absent" if f[8] == "-" else "present")] += 1
                if ":hello/" in outs:
                    accepted += 1
                else:
                    refused += 1
            s = _field(i, "S=")
            max_sess = max(max_sess, 0 if s in ("", "-") else len(s.split(",")))
            cl = _field(i, "C=")
            max_objs = max(max_objs, 0 if cl in ("", "-") else len(cl.split(",")))
    return dict(verdicts=_verdict_stats(cases, model), ops=dict(ops), replies=dict(replies), case_kinds=dict(tags),
                token_attributes=dict(tok_attr), token_hellos_accepted=accepted, token_hellos_refused=refused,
                max_live_sessions=max_sess, max_live_objects=max_objs,
                max_case_len=max(lens or [0]), mean_case_len=round(sum(lens) / max(1, len(lens)), 1))


def c18_nontrivial(c, ms):
    impl = c.get("impl") or []
    tags = c.get("tags") or []
    if "tokens" in tags or "prehello" in tags:
        return any(":err/" in i for i in impl)
    # history: a session existed, created something, and some object went away again
    had_obj = any(_field(i, "C=") not in ("", "-") for i in impl)
    ended = any(_field(a, "C=") not in ("", "-") and len(_field(b, "C=")) < len(_field(a, "C=")) for a, b in zip(impl, impl[1:]))
    return had_obj and ended


CONFIG = dict(
    modules=["SigModel.Props.C18"],
    theorems=["SigModel.Proxy." + t for t in [
        "C18_constants", "C18_accept_needs_valid_token", "C18_valid_token_accepted",
        "C18_step_session_needs_token", "C18_session_needs_token", "C18_resume_needs_live_id",
        "C18_nothing_before_hello", "C18_refused_hello_no_effect", "C18_nothing_before_hello_seq",
        "C18_cleanup", "C18_ended_stays_ended", "C18_cleanup_after_end", "C18_bye_ends_session",
        "C18_expire_ends_sessions", "C18_mcu_loss", "C18_mcu_loss_run",
        "C18_delete_owner_only", "C18_delete_owner_only_run", "C18_created_owned",
        "C18_late_answer_after_end", "C18_unguarded_late_create_orphans",
    ]],
    generated=["Proxy"],
    harness=dict(pkg="proxy", test="TestVerifC18", go="go1.26"),
    stats=c18_stats,
    nontrivial=c18_nontrivial,
    rule="four PRNG families: (1) token attribute vectors (header alg x actual signing method/key x signature mutation x "
         "issuer x iat/nbf/exp offsets on and around every leeway/age boundary, at integer and fractional virtual clock "
         "readings; 10 hellos per case), (2) command histories of 1-3 sessions over up to ~10 connections (create/delete "
         "own and foreign publishers/subscribers incl. creations the media server answers late, payloads, remote commands, "
         "bye, close, resume with exact/mutated ids, virtual sleeps around the 54 s ping and 60 s expiry, the server's "
         "expireSessions, MCU disconnect, MCU-side close), (3) malformed/pre-hello streams next to a bystander session, "
         "(4) late media-server answers after takeover / bye / expiry / MCU loss; minimised past failures (corpus/C18) run "
         "first. Non-trivial: token/pre-hello case with at least one refusal; history or late case in which objects "
         "existed and later stopped resolving. distinct = distinct op lists",
    trusted_base=["golang-jwt v5.2.2 parsing/validation order (restated in Model/Proxy.lean `checks`) and its low-level "
                  "SigningMethod.Verify used as the signature oracle by the harness",
                  "testing/synctest virtual clock (go1.26), gorilla/websocket over net.Pipe, harness media server "
                  "(Close calls the listener back like mcu_janus_publisher/subscriber.go; a late creation ignores its context)",
                  "RSA/HMAC unforgeability is not proved: signatures are an oracle parameter of the model (Tok.verifies)"],
    assumptions=["client messages and server events are atomic steps run to quiescence, except create-publisher/"
                 "create-subscriber, which are two steps (command accepted / media server answers) with any other steps "
                 "in between; messages queued on a connection whose handler is blocked in the media server are not modelled",
                 "not modelled: the unlocked window inside deleteSessionLocked, goroutine interleavings inside "
                 "clearPublishers/clearSubscribers (lock discipline is a regenerated fact only), "
                 "ProxySession.remotePublishers, shutdown scheduling, etcd token storage, remote (proxy-to-proxy) subscribers",
                 "resume attaches a connection to an existing session by its public id without a token; the statement's "
                 "token clause is read as being about session creation (C18_resume_needs_live_id covers resume)",
                 "commands other than delete (payload, publish-remote, unpublish-remote, get-publisher-streams) are not "
                 "ownership-checked by the code and the statement does not ask for it"],
)

MANIFEST = dict(
    text="Machine-checked Lean 4 theorems about a model of the media proxy (parseToken + jwt validator as an ordered "
         "list of checks with a signature oracle; sessions, global client table, per-session ownership tables, media "
         "server objects with their creating session; hello/resume, commands, payloads, bye, close, ping keep-alive, "
         "expiry, MCU loss, MCU-side close, late MCU answers) defined over facts regenerated from the Go source: for "
         "every history each live session stems from a hello whose token was RS256/384/512, verified under its issuer's "
         "key and issued within [now-6min, now+1min]; every non-hello message on a session-less connection is refused "
         "without any state change; in every reachable state whatever resolves or is open belongs to a live session "
         "(cleanup after bye/expiry/any end), nothing resolves after MCU loss; a delete succeeds only for the creating "
         "session and otherwise leaves the object resolvable and open. Tied to the code by 33 regenerated facts and a "
         "differential run of the real ProxyServer under a virtual clock.",
    note="One defect found and fixed (100c0db): object created after its session ended stayed open/resolvable. "
         "Trusted: Lean kernel, extractor, harness/comparison, golang-jwt, synctest; crypto assumed (oracle). "
         "Step granularity: messages atomic except two-phase create.",
    technique="Lean 4 proof (inductive invariant over all op sequences, refinement of the token check list to the "
              "statement's ValidToken) + regenerated facts + differential correspondence under testing/synctest",
)
