"""C12 — a remote federation server cannot crash or stall the local server (federation.go, clientsession.go filterMessage,
api_signaling.go ServerMessage)."""
import collections
import re
from ._util import verdict_stats as _verdict_stats


def _kind(op):
    return op.split(" ", 1)[0]


def _stage(ops, i):
    """Protocol stage of the federation client when op i arrives, from the ops before it (coarse)."""
    st = "before-welcome"
    for o in ops[:i]:
        f = o.split(" ")
        if f[0] in ("drop", "peerwf", "big"):
            st = "reconnected" if st in ("joined", "leaving", "resume-pending", "reconnected") else "before-welcome"
        elif f[0] == "local" and f[1] == "leave" and st == "joined":
            st = "leaving"
        elif f[0] == "peer" and len(f) > 4 and f[2] == "M":
            typ = f[4]
            if typ == "welcome" and st in ("before-welcome",):
                st = "hello-pending"
            elif typ == "welcome" and st == "reconnected":
                st = "resume-pending"
            elif typ == "hello" and st in ("hello-pending", "resume-pending"):
                st = "joined"
    return st


def c12_stats(cases, model):
    ops, stages, outcomes, shapes, types, kinds = (collections.Counter() for _ in range(6))
    lens = []
    for c in cases:
        lens.append(len(c["ops"]))
        tags = c.get("tags") or []
        kinds[(tags[-1].split(":")[0] if tags else "random")] += 1
        impl = c.get("impl") or []
        for i, o in enumerate(c["ops"]):
            k = _kind(o)
            ops["drop-hold" if o == "drop hold" else k] += 1
            if k in ("peer", "peerwf"):
                f = o.split(" ")
                stages[_stage(c["ops"], i)] += 1
                if len(f) > 2 and f[2] == "X":
                    shapes["undecodable"] += 1
                else:
                    shapes["decoded"] += 1
                    if len(f) > 4:
                        types[f[4][:16]] += 1
            if i < len(impl):
                x = impl[i]
                m = re.match(r"L:(\S+) P:(\S+) B:(\S+)", x)
                if not m:
                    outcomes[x.split(":")[0]] += 1
                    continue
                L, P = m.group(1), m.group(2)
                if k in ("peer", "peerwf"):
                    if L == "-" and P in ("-", "wfault|reconnect"):
                        outcomes["ignored"] += 1
                    for part in L.split("|"):
                        if part != "-":
                            outcomes["local:" + part.split("(")[0]] += 1
                    for part in P.split("|"):
                        if part not in ("-", "wfault"):
                            outcomes["peer:" + part.split("(")[0]] += 1
    return dict(verdicts=_verdict_stats(cases, model), ops=dict(ops), case_kinds=dict(kinds), stage_of_peer_message=dict(stages),
                decoded=dict(shapes), message_types=dict(types.most_common(24)), impl_outcomes=dict(outcomes),
                max_case_len=max(lens or [0]), mean_case_len=round(sum(lens) / max(1, len(lens)), 1))


def c12_nontrivial(c, ms):
    # at least one hostile frame reached the client after the session started
    return any(_kind(o) in ("peer", "peerwf", "drop", "big", "bin") for o in c["ops"][1:])


_T = "SigModel.ShapesFederation."

CONFIG = dict(
    modules=["SigModel.Props.C12"],
    theorems=[_T + t for t in [
        "C12_generated_sound", "C12_total", "C12_total_generated", "C12_total_run", "C12_contained", "C12_invalid_ignored",
        "C12_session_closed_only_by_bye", "C12_prehello_local_effects", "C12_validated_nonnil", "C12_derefs_validated",
        "C12_model_covers_derefs", "C12_no_deadlock_facts", "C12_read_loop_bounded", "C12_unvalidated_crashes",
        "C12_defer_under_hello_lock_deadlocks", "C12_unchecked_bye_crashes", "C12_live_queue_flush_spins",
        "C12_unguarded_details_crashes"]],
    generated=["ShapesFederation"],
    harness=dict(pkg="signaling", test="TestVerifC12", timeout=1500),
    stats=c12_stats,
    nontrivial=c12_nontrivial,
    rule="one real Hub, one real local client session joining a federated room at a hostile websocket peer, one bystander "
         "session; per case: bring the client to a stage (before welcome / hello pending / joined / leaving / reconnected "
         "with resume pending / resumed / resume refused / closed) with valid messages, then 1-3 hostile actions: a "
         "structured document of every ServerMessage type with members removed, null, wrong-typed, truncated, byte-flipped, "
         "wrapped, deeply nested, or fixed type-confused documents; the same with the client's write direction broken; "
         "connection drops (tcp / close frame / reset / the remote server refusing reconnects for a while, so that local "
         "messages are queued), binary frames, frames beyond the read limit, local leave / message; then liveness probes. "
         "Before the random cases two deterministic batteries: (1) for every raw JSON member the handlers decode themselves "
         "(found by parsing the handlers of the tree under test: error.details, message.data, control.data, event.message.data) "
         "a full template of the target type built from the struct declarations, sent with every single-member variant (absent, "
         "null, {}, wrong types, every literal the handlers compare with at every string leaf) inside an otherwise valid message, "
         "for every error code the handlers dispatch on, joined / hello pending / resume pending; (2) the handshake run round "
         "after round with one fault per round at every point (client write failing while it handles welcome / hello / room, drop "
         "right after them), with and without queued local messages, ending with a local message, the probe and the session "
         "expiry, which must complete. A case is non-trivial if a hostile frame or drop happened after the session started; "
         "distinct = distinct op lists",
    trusted_base=[
        "encoding/json + easyjson decoding of ServerMessage and of the json.RawMessage blobs (the harness decodes every document "
        "with the real decoder and hands the decoded value to the model; invalid UTF-8 bytes are conflated to U+FFFD in the model)",
        "gorilla/websocket, net, the Go scheduler (a write fault is injected by shutting down the write direction of the "
        "client's socket; a genuine RST race was observed once to produce the same deadlock)",
        "Hub / Client plumbing between ClientSession.SendMessage and the local websocket is observed, not modelled",
    ],
    assumptions=[
        "one read-loop goroutine per federation client; the local client's actions are interleaved only between frames "
        "(lock-order inversions between the read loop and other goroutines are outside the model)",
        "a scheduled reconnect happens and succeeds before the next frame unless the remote server is down "
        "('drop hold' … 'up': every attempt fails and re-arms the timer); timers are not modelled as time",
        "the local client stays connected (pending-message storage of a disconnected session is not modelled)",
    ],
)

MANIFEST = dict(
    text="Machine-checked Lean 4 theorems about a model of the federation client (readPump dispatch, processWelcome, "
         "processHello, processMessage, send/defer/reconnect/close paths with the mutexes they take) and of the local "
         "filterMessage/CloseAfterSend forwarding: for every decoded message value or decode error, at every reachable or "
         "unreachable client state, with or without a failing write, no step crashes or self-deadlocks, and every effect is "
         "addressed to the one federated session or to the remote server. Whether a message reaches the handlers is decided "
         "by tables regenerated from ServerMessage.CheckValid / EventServerMessage.CheckValid and its call in readPump; every "
         "sub-object dereference found by a go/ast walk of the handlers (including pointer members of values the handlers "
         "decode themselves from raw JSON members, and pointer sub-objects handed to helpers) must be covered by those tables; "
         "every loop the read loop runs must be a range, and the pending messages must be flushed from a snapshot of the queue "
         "(a loop over the live queue spins forever once a write fails). Tied to the code by a hostile websocket peer driving "
         "the real FederationClient of a real Hub, with connection faults at every point of the handshake / resume path.",
    note="Three defects confirmed and fixed (nil dereferences on malformed messages; self-deadlock of the read loop on a "
         "failed hello/room/bye write stalling the hub's housekeeping; nil connection after a failed bye). Trusted: JSON "
         "decoders, websocket library, harness. Not modelled: lock-order inversions with other goroutines, timers as time. "
         "Loops are judged by shape (range vs. for), not by a termination proof of the Go code.",
    technique="Lean 4 proof (case analysis over a total shape model with explicit crash/deadlock outcomes, defined over "
              "regenerated validation tables) + go/ast dereference analysis + differential correspondence against a hostile peer",
)
