"""C04 — room membership consistent for server and observers."""
from . import _hub

CONFIG = dict(
    modules=["SigModel.Props.C04"],
    theorems=["SigModel.Hub.reachable_inv", "SigModel.Hub.C04_membership_agrees", "SigModel.Hub.C04_at_most_one_room", "SigModel.Hub.C04_no_empty_rooms", "SigModel.Hub.C04_room_listeners", "SigModel.Hub.C04_rooms_per_backend", "SigModel.Hub.C04_room_creation_atomic", "SigModel.Hub.C04_backend_requests_ordered_per_type", "SigModel.Hub.C04_view_is_replay", "SigModel.Hub.C04_join_filter_exact", "SigModel.Hub.C04_observer_publication_partial", "SigModel.Hub.C04_leave_keeps_observers_right", "SigModel.Hub.C04_join_keeps_observers_right", "SigModel.Hub.C04_switch_keeps_observers_right", "SigModel.Hub.C04_end_keeps_observers_right", "SigModel.Hub.C04_views_change_by_events_only", "SigModel.Hub.C04_view_reset_on_room_change", "SigModel.Hub.C04_room_remove_keeps_observers_right"],
    generated=["Hub"],
    harness=_hub.HARNESS,
    stats=_hub.stats,
    canon=_hub.canon,
    nontrivial=_hub.nontrivial,
    rule=_hub.RULE,
    trusted_base=_hub.TRUSTED,
    assumptions=_hub.ASSUME,
)

MANIFEST = dict(
    text="Lean 4 theorems over the hub model for every finite op sequence: a session is a member of a room exactly if its own record names that room (hence at most one room), rooms are never empty and list members once, room bus listeners are exactly the non-virtual members, rooms of different backends are disjoint (corollaries of a 25-clause structural invariant proved preserved by every operation); observer side: the replay of what is written to a session is its seenJoin list, the duplicate-join filter is exact, and from every reachable state a join/leave event published to a room updates the view of exactly the non-virtual members by exactly that event (C04_observer_publication_partial), a member leaving keeps the other members' views equal to the member set (C04_leave_keeps_observers_right) and a session joining from outside any room leaves every member and the joiner with the new member set (C04_join_keeps_observers_right; C04_switch_keeps_observers_right when it comes out of another room; C04_end_keeps_observers_right when a session ends by bye / expiry / kick; nothing but join / leave events changes a view, C04_views_change_by_events_only; the lifting to 'view = member set in every reachable state' is evaluated by the driver after every step, not proved). The model is tied to the code by regenerated facts and a differential run of the real Hub (websocket clients, fake backend, loopback bus) whose tables and per-connection deliveries are compared with the model at every step; the judge checks the membership clauses on the implementation's own tables, compares the server's member sets with the statement's (latest successful join, not left/removed/bye/expired since — the model's rooms) and replays each connected member's join/leave events into its view of the room. First joins of one room are also issued concurrently (the fake backend releases the racing join replies together); that the lookup-and-create of a room is one critical section is a regenerated fact (C04_room_creation_atomic).",
    note="Synchronous routing layer: single hub, loopback bus, quiescence between ops (delivery orders of an asynchronous bus are not quantified over: the observer clause is proved for one publication from every reachable state, and otherwise checked by the judge on real traces and by the model's own executable viewBad after every step); the 'latest successful join' reading is state-based (the session's own record).",
    technique="Lean 4 proof (routing refinement over the hub model) + differential correspondence",
)
