"""C07 — messages reach exactly the addressed sessions, once, with the true sender."""
from . import _hub

CONFIG = dict(
    modules=["SigModel.Props.C07"],
    theorems=[],
    generated=["Hub"],
    harness=_hub.HARNESS,
    stats=_hub.stats,
    canon=_hub.canon,
    nontrivial=_hub.nontrivial,
    rule=_hub.RULE,
    trusted_base=_hub.TRUSTED,
    assumptions=_hub.ASSUME,
)

MANIFEST = dict(
    text="placeholder",
    note="placeholder",
    technique="Lean 4 proof (routing refinement over the hub model) + differential correspondence",
)
