"""C07 — closed sessions leave nothing behind; limits exact."""
from . import _hub

CONFIG = dict(
    modules=["SigModel.Props.C07"],
    theorems=["SigModel.Hub.reachable_inv", "SigModel.Hub.C07_no_residue", "SigModel.Hub.C07_ended_in_no_room", "SigModel.Hub.C07_connections", "SigModel.Hub.C07_facts", "SigModel.Hub.C07_limit_check_atomic", "SigModel.Hub.C07_federated_cleared", "SigModel.Hub.C07_count_is_set_size", "SigModel.Hub.C07_limit_respected", "SigModel.Hub.C07_free_slot_usable"],
    generated=["Hub"],
    harness=_hub.HARNESS,
    stats=_hub.stats,
    canon=_hub.canon,
    nontrivial=_hub.nontrivial,
    rule=_hub.RULE,
    trusted_base=_hub.TRUSTED,
    assumptions=_hub.ASSUME,
)

MANIFEST = dict(
    text="Lean 4 theorems over the hub model for every finite op sequence: any session id mentioned in any table (room members, in-call sets, room/user/session bus listeners, room-session maps, virtual-session table, expiry/anonymous/dial-out lists, per-backend counts, connections, parent/child links) belongs to a live session, so an ended session is referenced nowhere and a room it emptied is gone; the per-backend count never exceeds the configured limit and a free slot is usable. Tied to the code by regenerated facts (vtable cleanup, in-call membership guard) and the differential hub run with a full table digest at every step; the judge runs the residue and limit checks on the implementation's own tables. Registrations racing for the last free slot and a registration racing with a slot being freed are issued concurrently (battery of short race cases; the fake backend releases the racing auth replies together) and judged on the tables at rest; that the limit is compared and the session recorded inside one critical section is a regenerated fact (C07_limit_check_atomic).",
    note='Hello is modelled as one atomic step after authentication; its atomicity in the code is the regenerated fact above, concurrent registrations are exercised by the harness (any order of the racing requests must explain the tables at rest) but interleavings inside a registration are not modelled. Limits lowered at run time below the current count (reload) are outside the model. gRPC cluster-wide counts are not modelled. Federation is outside the model: the list of federated sessions is covered by a regenerated fact (C07_federated_cleared) and by the judge on the real list (sessions are put on it by the harness directly), not by C07_no_residue.',
    technique="Lean 4 proof (routing refinement over the hub model) + differential correspondence",
)
