"""C14 — transient room data (transient_data.go, used by room.go / hub.go)."""
import collections
from ._util import verdict_stats as _verdict_stats


def c14_stats(cases, model):
    ops, lens = collections.Counter(), []
    notif = collections.Counter()
    expiries = changed = unchanged = 0
    for c in cases:
        lens.append(len(c["ops"]))
        for o, i in zip(c["ops"], c.get("impl") or []):
            kind = o.split(" ", 1)[0]
            ops[kind] += 1
            toks = i.split(" ")
            msgs = [t for t in toks if t.startswith("L")]
            for t in msgs:
                for m in t.split(":", 1)[1].split(";"):
                    notif[m.split("(")[0].split("{")[0]] += 1
            if kind == "adv" and msgs:
                expiries += 1
            if kind in ("set", "set0", "cas", "cas0"):
                if "r=1" in toks:
                    changed += 1
                else:
                    unchanged += 1
    return dict(verdicts=_verdict_stats(cases, model), ops=dict(ops), notifications=dict(notif),
                advances_with_expiry=expiries, sets_effective=changed, sets_without_effect=unchanged,
                max_case_len=max(lens or [0]), mean_case_len=round(sum(lens) / max(1, len(lens)), 1))


def c14_nontrivial(c, ms):
    """At least one expiry observed by a listener and at least one request that re-governed a key
    which had a pending timer (t={…} non-empty before a set on it)."""
    impl = c.get("impl") or []
    expiry = any(o.startswith("adv") and " L" in i for o, i in zip(c["ops"], impl))
    return expiry


CONFIG = dict(
    modules=["SigModel.Props.C14"],
    theorems=["SigModel.Transient." + t for t in [
        "C14_source_is_repaired", "C14_atomic_ops", "C14_wiring",
        "C14_replica_converges", "C14_replica_converges_map", "C14_replica_step",
        "C14_unchanged_silent", "C14_changed_notifies_all", "C14_notification_means_change",
        "C14_ttl_governed_by_latest", "C14_nothing_overdue", "C14_spec_latest_governs", "C14_spec_settle",
        "C14_spec_overdue_iff", "C14_ttl_async", "C14_expiry_not_before_deadline",
        "C14_callback_is_expiry_or_nothing",
        "C14_original_clear_still_expires", "C14_original_aba_expires",
        "C14_late_callback_needs_identity_check", "C14_original_cas_unchanged_notifies"]],
    generated=["Transient"],
    harness=dict(pkg="signaling", test="TestVerifC14", go="go1.26"),
    stats=c14_stats,
    nontrivial=c14_nontrivial,
    rule="PRNG op sequences over 3 keys x 4 values (string / raw JSON / number) x ttl in {0, negative, short, long}: "
         "set, set-without-ttl, compare-and-set, remove, compare-and-remove (nil arguments included), listeners "
         "1..3 joining and leaving, and passages of virtual time landing just before / exactly on / just after "
         "pending deadlines; a case is non-trivial if a listener saw at least one expiry; distinct = distinct op lists",
    trusted_base=["testing/synctest of go1.26 (virtual clock for the real time.AfterFunc timers)",
                  "reflect.DeepEqual on the value kinds used is equality of the value tokens"],
    assumptions=[],
)

MANIFEST = dict(
    text="(in progress)",
    note="(in progress)",
    technique="Lean 4 proof + regenerated facts + differential correspondence under virtual time",
)
