"""C14 — transient room data (transient_data.go, used by room.go / hub.go)."""
import collections
from ._util import verdict_stats as _verdict_stats


def c14_stats(cases, model):
    ops, lens = collections.Counter(), []
    notif = collections.Counter()
    expiries = changed = unchanged = 0
    room_cases = stale = stray = pending_across = 0
    for c in cases:
        lens.append(len(c["ops"]))
        if c["ops"] and c["ops"][0][:1] == "r" and c["ops"][0].split(" ", 1)[0] in _ROOM_OPS:
            room_cases += 1
            if _ttl_pending_across_move(c):
                pending_across += 1
        for o, i in zip(c["ops"], c.get("impl") or []):
            kind = o.split(" ", 1)[0]
            ops[kind] += 1
            toks = i.split(" ")
            if kind in _ROOM_OPS and any(t.startswith("Z=") and t != "Z=-" for t in toks):
                stale += 1
            msgs = [t for t in toks if t.startswith("L")]
            for t in msgs:
                for m in t.split(":", 1)[1].split(";"):
                    notif[m.split("(")[0].split("{")[0]] += 1
            if kind == "adv" and msgs:
                expiries += 1
            if kind in ("set", "set0", "cas", "cas0"):
                if "r=1" in toks:
                    changed += 1
                else:
                    unchanged += 1
    return dict(verdicts=_verdict_stats(cases, model), ops=dict(ops), notifications=dict(notif),
                advances_with_expiry=expiries, sets_effective=changed, sets_without_effect=unchanged,
                room_level_cases=room_cases, room_cases_ttl_pending_across_a_move=pending_across,
                steps_with_listener_on_closed_room=stale,
                max_case_len=max(lens or [0]), mean_case_len=round(sum(lens) / max(1, len(lens)), 1))


_ROOM_OPS = ("rjoin", "rleave", "rclose", "rset", "rrm", "rbset", "rbrm", "rdel", "radv", "rget")


def _ttl_pending_across_move(c):
    """Room level: a positive ttl was requested, then some session left / switched / closed / the room was
    deleted, and only afterwards time passed."""
    armed = moved = False
    joined = set()
    for o in c["ops"]:
        f = o.split(" ")
        if f[0] in ("rset", "rbset") and len(f) == 5 and f[4].lstrip("-").isdigit() and int(f[4]) > 0:
            armed = True
        elif f[0] == "rjoin" and len(f) == 3:
            if armed and f[1] in joined:
                moved = True
            joined.add(f[1])
        elif f[0] in ("rleave", "rclose", "rdel") and armed:
            moved = True
        elif f[0] == "radv" and moved and len(f) == 2 and f[1].isdigit() and int(f[1]) > 0:
            return True
    return False


def c14_nontrivial(c, ms):
    """A virtual-time case in which a listener saw an expiry, a `late` case (callback behind another
    call), or a concurrent case whose listeners received something."""
    impl = c.get("impl") or []
    if c["ops"] and c["ops"][0].split(" ", 1)[0] in _ROOM_OPS:
        # room level: a ttl was pending across a leave / switch / close / delete and an expiry was delivered
        return _ttl_pending_across_move(c) and any(o.startswith("radv") and " L" in i for o, i in zip(c["ops"], impl))
    for o, i in zip(c["ops"], impl):
        if o.startswith("adv") and " L" in i:
            return True
        if o.startswith("late ") and i.startswith("r="):
            return True
        if o.startswith("conc ") and " L1:" in i:
            return True
    return False


CONFIG = dict(
    modules=["SigModel.Props.C14"],
    theorems=["SigModel.Transient." + t for t in [
        "C14_source_is_repaired", "C14_atomic_ops", "C14_listener_lock_is_leaf", "C14_wiring",
        "C14_replica_converges", "C14_replica_converges_map", "C14_replica_step",
        "C14_unchanged_silent", "C14_changed_notifies_all", "C14_notification_means_change",
        "C14_ttl_governed_by_latest", "C14_nothing_overdue", "C14_spec_latest_governs", "C14_spec_settle",
        "C14_spec_overdue_iff", "C14_ttl_async", "C14_expiry_not_before_deadline",
        "C14_callback_is_expiry_or_nothing",
        "C14_original_clear_still_expires", "C14_original_aba_expires",
        "C14_late_callback_needs_identity_check", "C14_original_cas_unchanged_notifies",
        "C14_listener_call_sites", "C14_membership_paths_register", "C14_last_leave_closes_room",
        "C14_room_delete_unregisters", "C14_embedding_sound",
        "C14_listeners_are_members_of_sound", "C14_listeners_are_members",
        "C14_room_replica_converges_of_sound", "C14_room_replica_converges",
        "C14_listeners_are_members_without_delete",
        "C14_room_stores_are_store_runs", "C14_last_leave_must_unregister", "C14_room_delete_keeps_listener"]],
    generated=["Transient"],
    harness=dict(pkg="signaling", test="TestVerifC14", go="go1.26"),
    stats=c14_stats,
    nontrivial=c14_nontrivial,
    rule="(1) virtual time (testing/synctest): PRNG op sequences over up to 5 keys x 7 values (string / raw JSON / number / "
         "map / list tokens) x ttl in {0, negative, short, long}: set, set-without-ttl, compare-and-set, remove, "
         "compare-and-remove (nil arguments included), listeners 1..4 joining and leaving, passages of time landing "
         "1 ns before / exactly on / 1 ns after requested deadlines (superseded ones included); per step the return "
         "value, every listener's messages, GetData() and the keys of t.timers are compared with the model and judged "
         "by the spec. (2) real clock `late` cases: the expiry callback has fired but runs behind another call "
         "(harness holds t.mu, orders the two waiters through the mutex queue). (3) `conc` cases: two writer "
         "goroutines and a listener leaving/re-joining with its own mutex held, judged by the spec only (replicas of "
         "the permanent listeners = final data; watchdog for hangs). (4) room level: a real Hub with BackendServer, "
         "in-memory Nextcloud and 4 real ClientSessions in a synctest bubble; witness histories, scripted openings "
         "(ttls armed in a room, then every member leaves / switches room / is closed / the room is deleted, "
         "re-joins, the same keys set in the rooms of now, the old deadlines pass) with random continuation, and "
         "random histories over join / leave / close / client set+remove / bus `transient` request / room delete "
         "by the backend / time; per step the outcome, every session's transient messages, its room, every "
         "room's data, timer keys and registered listeners, and the listeners left on Room objects the hub has "
         "forgotten are compared with the model; the spec judges every session's replica against the data of the "
         "room it is in. Non-trivial: a listener saw an expiry / a late callback was realised / concurrent "
         "listeners received messages / (room level) a ttl was pending across a move and an expiry was delivered; "
         "distinct = distinct op lists",
    trusted_base=["testing/synctest of go1.26 (virtual clock for the real time.AfterFunc timers); the runtime fires "
                  "timers with distinct deadlines in deadline order (the generator never makes two deadlines coincide)",
                  "reflect.DeepEqual on the value kinds used by the harness is equality of the value tokens",
                  "sync.Mutex queues waiters FIFO and its state word is `waiters << 3 | flags` (used only by the `late` "
                  "choreography of the harness)",
                  "ClientSession.SendMessage renders or queues the message it is given synchronously (the `initial` "
                  "message aliases the live map; a session that only queues it for a later resume is not modelled)",
                  "room level: sessions are built with NewClientSession and have no connection (what they are sent is "
                  "read from pendingClientMessages at the quiescence point of each step); Hub.processRoom / "
                  "processTransientMsg are called the way the read loop of a connection calls them"],
    assumptions=["one Op of the model = one exported method call or one run of the expiry callback; justified by the "
                 "extracted facts C14_atomic_ops / C14_listener_lock_is_leaf (every method is a single critical section; "
                 "senders are reached only from inside the store mutex), not by a proof about the Go memory model",
                 "RemoveListener linearises at its own (listener-set) mutex: a listener may still receive the one "
                 "notification whose delivery had begun before it was removed",
                 "two timers with the very same deadline may run in either order (covered by the theorems, which hold "
                 "for every order of callbacks; not exercised by the harness)",
                 "room level: one Op = one message of a session / one request of the backend processed to quiescence; "
                 "a join or leave racing with another goroutine's use of the same session is not modelled. The "
                 "spec-level room is the set of sessions in it, its data exists while it has a session"],
)

MANIFEST = dict(
    text="Machine-checked Lean 4 theorems about a model of transient_data.go that follows the Go functions one to one "
         "(timers as objects that can be armed, fired-but-waiting-for-the-mutex, stopped; the t.timers map beside them) "
         "and is defined over facts regenerated from the source: for every sequence of set / set-with-ttl / "
         "compare-and-set / remove / compare-and-remove / listener join / leave / passage of time / delayed expiry "
         "callback, every registered listener's replica (snapshot at join + notifications in order) equals the store; "
         "a request that leaves the value unchanged notifies nobody and every notification means a change; the store "
         "equals an ideal per-key store in which the latest effective request fixes value and deadline and time "
         "removes exactly what is past its deadline (quiescent schedules), and for callbacks delayed behind other "
         "calls a value disappears only through the expiry of the request that still governs it, at or after its "
         "deadline. Proved counter-examples show that the pinned original violated this (ttl cleared / ABA / "
         "compare-and-set notification) and that the identity check in the callback is necessary. The embedding is "
         "modelled too (room objects with one store each, sessions, the hub's room table; closed room objects keep "
         "their armed timers): for every sequence of joins, leaves, room switches, session closes, client and bus "
         "requests, room deletions by the backend and passages of time the listener set of every room object's store is exactly the set of "
         "sessions in that room object (none for a closed one), every session's replica is the data of the room it "
         "is in, and every room's store is a run of store operations to which the store theorems apply "
         "(proved witnesses show that unregistering on the last leave and on room "
         "deletion are both necessary). Tied to the code by extraction (the repaired "
         "places, single critical sections, leaf listener lock, room/hub wiring, every control-flow path of "
         "Room.AddSession / RemoveSession / Close with its register / unregister events, all call sites of "
         "AddListener / RemoveListener) and by a differential run of the real TransientData under virtual time, "
         "real-clock late-callback and goroutine cases, and a real hub with rooms and sessions under virtual time.",
    note="Trusted: Lean kernel, extractor, harness/comparison, testing/synctest, reflect.DeepEqual = token equality. "
         "Atomicity of whole calls rests on extracted lock structure, not on a proof. Found and repaired in /repo: "
         "577dda2 (ttl cleared / replaced still expires, ABA), 48f1c34 (compare-and-set to the stored value notified), "
         "001c654 (RemoveListener vs. notification lock-order deadlock, reported by the C10 builder), 315a924 (after "
         "the backend deleted a room its sessions stayed listeners of the deleted room's store, whose pending ttl "
         "expiries then reached them in other rooms).",
    technique="Lean 4 proof (inductive invariant relating timers, timer map and ideal deadlines; simulation of every "
              "model step by spec events; replica invariant) + regenerated facts + differential correspondence under "
              "virtual time (go1.26 testing/synctest) + spec judge on the implementation's trace",
)
