"""C14 — transient room data (transient_data.go, used by room.go / hub.go)."""
import collections
from ._util import verdict_stats as _verdict_stats


def c14_stats(cases, model):
    ops, lens = collections.Counter(), []
    notif = collections.Counter()
    expiries = changed = unchanged = 0
    for c in cases:
        lens.append(len(c["ops"]))
        for o, i in zip(c["ops"], c.get("impl") or []):
            kind = o.split(" ", 1)[0]
            ops[kind] += 1
            toks = i.split(" ")
            msgs = [t for t in toks if t.startswith("L")]
            for t in msgs:
                for m in t.split(":", 1)[1].split(";"):
                    notif[m.split("(")[0].split("{")[0]] += 1
            if kind == "adv" and msgs:
                expiries += 1
            if kind in ("set", "set0", "cas", "cas0"):
                if "r=1" in toks:
                    changed += 1
                else:
                    unchanged += 1
    return dict(verdicts=_verdict_stats(cases, model), ops=dict(ops), notifications=dict(notif),
                advances_with_expiry=expiries, sets_effective=changed, sets_without_effect=unchanged,
                max_case_len=max(lens or [0]), mean_case_len=round(sum(lens) / max(1, len(lens)), 1))


def c14_nontrivial(c, ms):
    """A virtual-time case in which a listener saw an expiry, a `late` case (callback behind another
    call), or a concurrent case whose listeners received something."""
    impl = c.get("impl") or []
    for o, i in zip(c["ops"], impl):
        if o.startswith("adv") and " L" in i:
            return True
        if o.startswith("late ") and i.startswith("r="):
            return True
        if o.startswith("conc ") and " L1:" in i:
            return True
    return False


CONFIG = dict(
    modules=["SigModel.Props.C14"],
    theorems=["SigModel.Transient." + t for t in [
        "C14_source_is_repaired", "C14_atomic_ops", "C14_listener_lock_is_leaf", "C14_wiring",
        "C14_replica_converges", "C14_replica_converges_map", "C14_replica_step",
        "C14_unchanged_silent", "C14_changed_notifies_all", "C14_notification_means_change",
        "C14_ttl_governed_by_latest", "C14_nothing_overdue", "C14_spec_latest_governs", "C14_spec_settle",
        "C14_spec_overdue_iff", "C14_ttl_async", "C14_expiry_not_before_deadline",
        "C14_callback_is_expiry_or_nothing",
        "C14_original_clear_still_expires", "C14_original_aba_expires",
        "C14_late_callback_needs_identity_check", "C14_original_cas_unchanged_notifies"]],
    generated=["Transient"],
    harness=dict(pkg="signaling", test="TestVerifC14", go="go1.26"),
    stats=c14_stats,
    nontrivial=c14_nontrivial,
    rule="(1) virtual time (testing/synctest): PRNG op sequences over up to 5 keys x 7 values (string / raw JSON / number / "
         "map / list tokens) x ttl in {0, negative, short, long}: set, set-without-ttl, compare-and-set, remove, "
         "compare-and-remove (nil arguments included), listeners 1..4 joining and leaving, passages of time landing "
         "1 ns before / exactly on / 1 ns after requested deadlines (superseded ones included); per step the return "
         "value, every listener's messages, GetData() and the keys of t.timers are compared with the model and judged "
         "by the spec. (2) real clock `late` cases: the expiry callback has fired but runs behind another call "
         "(harness holds t.mu, orders the two waiters through the mutex queue). (3) `conc` cases: two writer "
         "goroutines and a listener leaving/re-joining with its own mutex held, judged by the spec only (replicas of "
         "the permanent listeners = final data; watchdog for hangs). Non-trivial: a listener saw an expiry / a late "
         "callback was realised / concurrent listeners received messages; distinct = distinct op lists",
    trusted_base=["testing/synctest of go1.26 (virtual clock for the real time.AfterFunc timers); the runtime fires "
                  "timers with distinct deadlines in deadline order (the generator never makes two deadlines coincide)",
                  "reflect.DeepEqual on the value kinds used by the harness is equality of the value tokens",
                  "sync.Mutex queues waiters FIFO and its state word is `waiters << 3 | flags` (used only by the `late` "
                  "choreography of the harness)",
                  "ClientSession.SendMessage renders or queues the message it is given synchronously (the `initial` "
                  "message aliases the live map; a session that only queues it for a later resume is not modelled)"],
    assumptions=["one Op of the model = one exported method call or one run of the expiry callback; justified by the "
                 "extracted facts C14_atomic_ops / C14_listener_lock_is_leaf (every method is a single critical section; "
                 "senders are reached only from inside the store mutex), not by a proof about the Go memory model",
                 "RemoveListener linearises at its own (listener-set) mutex: a listener may still receive the one "
                 "notification whose delivery had begun before it was removed",
                 "two timers with the very same deadline may run in either order (covered by the theorems, which hold "
                 "for every order of callbacks; not exercised by the harness)"],
)

MANIFEST = dict(
    text="Machine-checked Lean 4 theorems about a model of transient_data.go that follows the Go functions one to one "
         "(timers as objects that can be armed, fired-but-waiting-for-the-mutex, stopped; the t.timers map beside them) "
         "and is defined over facts regenerated from the source: for every sequence of set / set-with-ttl / "
         "compare-and-set / remove / compare-and-remove / listener join / leave / passage of time / delayed expiry "
         "callback, every registered listener's replica (snapshot at join + notifications in order) equals the store; "
         "a request that leaves the value unchanged notifies nobody and every notification means a change; the store "
         "equals an ideal per-key store in which the latest effective request fixes value and deadline and time "
         "removes exactly what is past its deadline (quiescent schedules), and for callbacks delayed behind other "
         "calls a value disappears only through the expiry of the request that still governs it, at or after its "
         "deadline. Proved counter-examples show that the pinned original violated this (ttl cleared / ABA / "
         "compare-and-set notification) and that the identity check in the callback is necessary. Tied to the code by "
         "extraction (the repaired places, single critical sections, leaf listener lock, room/hub wiring) and by a "
         "differential run of the real TransientData under virtual time, plus real-clock late-callback and "
         "goroutine cases.",
    note="Trusted: Lean kernel, extractor, harness/comparison, testing/synctest, reflect.DeepEqual = token equality. "
         "Atomicity of whole calls rests on extracted lock structure, not on a proof. Found and repaired in /repo: "
         "577dda2 (ttl cleared / replaced still expires, ABA), 48f1c34 (compare-and-set to the stored value notified), "
         "001c654 (RemoveListener vs. notification lock-order deadlock, reported by the C10 builder).",
    technique="Lean 4 proof (inductive invariant relating timers, timer map and ideal deadlines; simulation of every "
              "model step by spec events; replica invariant) + regenerated facts + differential correspondence under "
              "virtual time (go1.26 testing/synctest) + spec judge on the implementation's trace",
)
