"""C03 — tenants (backends) never reach each other."""
from . import _hub

CONFIG = dict(
    modules=["SigModel.Props.C03", "SigModel.Props.C05"],
    theorems=["SigModel.Hub.reachable_inv", "SigModel.Hub.C03_isolation", "SigModel.Hub.C03_isolation_reachable", "SigModel.Hub.C03_state_isolation", "SigModel.Hub.C03_state_isolation_reachable", "SigModel.Hub.C03_facts", "SigModel.Hub.C03_same_call_is_per_backend", "SigModel.Hub.C03_subjects_per_backend", "SigModel.Hub.C03_rooms_distinct", "SigModel.Hub.C03_foreign_session_unreachable", "SigModel.Hub.C03_room_session_lookup", "SigModel.Hub.C03_join_does_not_kick_foreign", "SigModel.Hub.C05_routing", "SigModel.Hub.C05_addressed_once_not_sender"],
    generated=["Hub"],
    harness=_hub.HARNESS,
    stats=_hub.stats,
    canon=_hub.canon,
    nontrivial=_hub.nontrivial,
    rule=_hub.RULE,
    trusted_base=_hub.TRUSTED,
    assumptions=_hub.ASSUME,
)

MANIFEST = dict(
    text="Lean 4 theorem C03_isolation over the hub model: in every state satisfying the hub invariant (hence after every op sequence, C03_isolation_reachable) and for every operation that acts on behalf of a backend b — hello, resume, bye, join/leave, message and control message with any recipient, virtual-session requests, in-call updates and all eight kinds of room API call, with any ids, known or guessed — every message written to any connection in that step, the follow-up closing of kicked/disinvited sessions included, goes to a session of b (each output is tagged with the backend of the session owning the connection when it is written), and (C03_state_isolation) the record of every session of another backend — room, Nextcloud session id, permissions, queued messages, connection, in-call flags — is after the step exactly what it was before. Supporting theorems: all listeners of a room/user bus subject and all members of a room belong to the subject's backend (even with coinciding room ids, user ids and Nextcloud session ids), rooms of the same id on two backends are disjoint, a message or control message addressed to a foreign session id is dropped without effect, room-session-id lookups and the reconnect kick are confined to the caller's backend, and (C05_routing) every message is written exactly to the addressed sessions. The same-backend guards are facts regenerated from the source (removing one breaks a proof). Media offers are outside the hub model (no media server): that a requestoffer — whose answer is delivered as a message of the publishing session — is accepted only for a publisher in the same room of the same backend is the regenerated fact C03_same_call_is_per_backend (Hub.isInSameCall refuses unless Room.IsEqual, which compares room id and backend id); the gate itself is proved in C08. Differential hub run with 2-3 backends and coincidence-biased histories; half of the histories start with a scripted opening (a virtual session addressed from another backend, the same Nextcloud session id and room name on two backends followed by API calls naming it). The judge checks every delivery of every step against the backend of the acting session / API call, and that no step done on behalf of one backend changes what the server holds for another (sessions with room, permissions and queue, rooms, members, call, listeners, counts).",
    note="Synchronous routing layer: single hub, loopback bus, quiescence between ops; no gRPC peers, MCU or federation. Trusted: Lean kernel, extractor, harness (real websockets, fake Nextcloud backend) and comparison. Output isolation and isolation of the session records are proved for every operation of the model; rooms, listener lists and counts of other backends are covered by the invariant (they only mention sessions of their backend) and judged on real traces (cross-backend-state-change). Clustered delivery (a remote hub cannot check the sender's backend on a bare session subject) is not modelled.",
    technique="Lean 4 proof (routing refinement over the hub model) + differential correspondence",
)
