"""C15 — session ids (sessionid_codec.go, hub.go decode cache)."""
import collections
import re
from ._util import verdict_stats as _verdict_stats


def c15_stats(cases, model):
    ops, tags, outcomes = collections.Counter(), collections.Counter(), collections.Counter()
    accepted_by_tag = collections.Counter()
    lens = []
    for c in cases:
        lens.append(len(c["ops"]))
        for o, i in zip(c["ops"], c.get("impl") or []):
            f = o.split(" ")
            ops[f[0]] += 1
            tag = next((t[1:] for t in f if t.startswith("#")), None)
            if f[0] in ("dec", "hdec"):
                tags[tag or "-"] += 1
                kind = i.split(" ", 1)[0]
                outcomes[f[0] + ":" + kind] += 1
                if kind == "ok":
                    accepted_by_tag[tag or "-"] += 1
    reasons = collections.Counter()
    for ms in model:
        for m, v in ms:
            if v.startswith("violated"):
                reasons[v] += 1
    return dict(verdicts=_verdict_stats(cases, model), violation_reasons=dict(reasons), ops=dict(ops), mutation_kinds=dict(tags),
                decode_outcomes=dict(outcomes), accepted_by_mutation_kind=dict(accepted_by_tag),
                max_case_len=max(lens or [0]), mean_case_len=round(sum(lens) / max(1, len(lens)), 1))


def c15_nontrivial(c, ms):
    impl = c.get("impl") or []
    ok = sum(1 for i in impl if i.startswith("ok "))
    err = sum(1 for i in impl if i.startswith("err"))
    return (ok >= 1 and err >= 5) or sum(1 for o in c["ops"] if o.startswith("hmac ")) >= 10


CONFIG = dict(
    modules=["SigModel.Props.C15"],
    theorems=["SigModel.SessionId." + t for t in [
        "C15_field_encoding_injective", "C15_fields_separator_free", "encodeId_eq",
        "C15_roundtrip", "C15_roundtrip_data", "C15_accept_iff_tag", "C15_noncanonical_rejected",
        "C15_forgery_needs_fresh_mac", "C15_any_modification_invalid", "C15_tag_or_payload_kept_rejected",
        "C15_kinds_disjoint", "C15_names_disjoint", "C15_minted_cross_role_rejected",
        "C15_other_keys_rejected", "C15_block_key_changes_names", "C15_without_binding_block_key_ignored",
        "C15_cache_sound", "C15_source_facts",
        "opaqueMac_ideal", "opaqueMac_opaque", "C15_without_guard_malleable",
    ]] + ["SigModel.Base64.decode_encode", "SigModel.Base64.canonical_iff", "SigModel.Hmac.toyMac_ideal"],
    generated=["SessionId"],
    harness=dict(pkg="signaling", test="TestVerifC15", files=["zz_verif_hex_test.go"]),
    stats=c15_stats,
    nontrivial=c15_nontrivial,
    rule="per case two key sets (hash keys of 1..100 bytes, with/without AES block key; pairs sharing the hash key, differing "
         "in one bit, or unrelated) and ids minted by the real encoder (clock and IV pinned) for random SessionIdData; every id is "
         "decoded as it is in both roles under both key sets, byte-reversed, and under ~100-250 mutations (single-bit flips of the "
         "string and of the decoded bytes, truncations, extensions, CR/LF insertions, padding-bit and padding spellings, other "
         "alphabets); plus ids forged by a key holder from odd attributes (date texts, garbage/short/oversized values, inner "
         "base64 spellings, MAC over another name, moved separators), hub-level histories (register, decode through the cache, "
         "invalidate, cache-key suffix confusions) and HMAC vectors; a case is non-trivial if the real code accepted at least "
         "one id and rejected at least five (or it carries >= 10 HMAC vectors); distinct = distinct op lists",
    trusted_base=["gorilla/securecookie v1.1.2 Encode/Decode layout restated in Model/SessionId.lean (version pinned by a generated fact)",
                  "encoding/base64 decoder semantics restated in Basic/Base64.lean (go1.23 source)",
                  "AES-CTR and protobuf (de)serialisation are outside the model: supplied per value by the harness from "
                  "crypto/aes and proto.Unmarshal called directly (oracle lines)",
                  "executable HMAC-SHA256 of Basic/Hmac.lean is compared with crypto/hmac on every run, not proved"],
    assumptions=["ideal MAC: the tag function is injective on (key, message) — explicit hypothesis of the theorems, instance exhibited",
                 "C15_minted_cross_role_rejected (a minted public id handed to DecodePrivate and the reverse) additionally assumes "
                 "TagTailOpaque: a tag does not end in '+', '-' or a decimal digit (a MAC value is not text) — explicit hypothesis, "
                 "instance exhibited together with IdealMac; C15_kinds_disjoint (role swap by byte reversal) needs IdealMac only",
                 "key sets: (hash key, block key or none); C15_other_keys_rejected covers every pair of different key sets since the "
                 "cookie names carry MAC(hashKey, 'block-key|' ++ blockKey) (repo fix)",
                 "that nobody without the hash key can compute a tag (unforgeability) is the cryptographic assumption the "
                 "theorems reduce to; it is not proved"],
)

MANIFEST = dict(
    text="Machine-checked Lean 4 theorems about a byte-level model of SessionIdCodec over the securecookie layout and Go's "
         "lenient base64 decoder, with the MAC as a parameter under an explicit ideal-MAC hypothesis; tied to the code by "
         "regenerated facts (cookie names per function and their binding to the block key, reversal, MaxAge, "
         "canonical-spelling guard, cache key layout and fill order, securecookie version) and a differential run of the real codec and hub cache on mutated and forged ids, "
         "executing a Lean HMAC-SHA256 that is compared with crypto/hmac.",
    note="Trusted: Lean kernel, extractor, harness, securecookie/base64 restatement, AES-CTR and protobuf as oracles. "
         "Unforgeability of HMAC is assumed, not proved.",
    technique="Lean 4 proof (round trip, accept-iff-tag characterisation, reduction of any accepted unminted string to a fresh "
              "MAC value) + regenerated facts + differential correspondence",
)
