"""C05 — messages reach exactly the addressed sessions, once, with the true sender."""
from . import _hub

CONFIG = dict(
    modules=["SigModel.Props.C05"],
    theorems=["SigModel.Hub.reachable_inv", "SigModel.Hub.C05_routing", "SigModel.Hub.C05_addressed_once_not_sender", "SigModel.Hub.C05_control_needs_permission", "SigModel.Hub.publish_eq_addressed", "SigModel.Hub.route_listeners"],
    generated=["Hub"],
    harness=_hub.HARNESS,
    stats=_hub.stats,
    canon=_hub.canon,
    nontrivial=_hub.nontrivial,
    rule=_hub.RULE,
    trusted_base=_hub.TRUSTED,
    assumptions=_hub.ASSUME,
)

MANIFEST = dict(
    text="Lean 4 theorem C05_routing: in every reachable state of the hub model (every op sequence) and for every message or control message with any of the four recipient types, any payload and any target id, the messages written to connections are — as a multiset — exactly one copy per addressed session that has a connection (spec `addressed`, written from the statement: room = other members, call = other members in the call, user = all sessions of that user on the sender's backend or nobody for the own user, session = that session; virtual sessions via their internal client with rewritten recipient), each carrying the sender block built from the server's record; the addressed list is duplicate-free, never contains the sender and stays on the sender's backend. Tied to the code by the differential hub run (forged sender fields included) and a judge that recomputes `addressed` for every message op and compares it with what the real connections received.",
    note='Synchronous routing layer: single hub, loopback bus, quiescence between ops; no gRPC peers, MCU or federation. Trusted: Lean kernel, extractor, harness (real websockets, fake Nextcloud backend) and comparison. Addressed sessions without a connection get the message queued (C06). MCU-typed payloads are C08/C09.',
    technique="Lean 4 proof (routing refinement over the hub model) + differential correspondence",
)
