"""C13 — backend configuration after any reload equals a fresh start, and never blocks
(backend_configuration.go, backend_storage_static.go, backend_storage_etcd.go)."""
import collections
from ._util import verdict_stats as _verdict_stats


def _dec(tok):
    if tok == "%":
        return ""
    out, i = [], 0
    while i < len(tok):
        if tok[i] == "%" and i + 2 < len(tok) + 0 and i + 3 <= len(tok):
            try:
                out.append(chr(int(tok[i + 1:i + 3], 16)))
                i += 3
                continue
            except ValueError:
                pass
        out.append(tok[i])
        i += 1
    return "".join(out)


def _entries_of_cfg(toks):
    """(host, stored url) of every `sec` group whose url parsed (may include skipped ones: an upper bound)."""
    ents, i = [], 2
    while i + 10 < len(toks) + 1 and i < len(toks) and toks[i] == "sec":
        if toks[i + 3] == "1" and _dec(toks[i + 7]) != "":
            ents.append((_dec(toks[i + 5]), _dec(toks[i + 4])))
        i += 11
    return ents


def c13_stats(cases, model):
    ops = collections.Counter()
    outcomes = collections.Counter()
    modes = collections.Counter()
    accepted = collections.Counter()
    lens, muts_per_case = [], []
    shared_hosts = 0          # configurations / key maps with >= 2 entries on one host
    order_sensitive = 0       # lookups matched by >= 2 entries of the final configuration (order decides)
    dot_probes = 0
    cs_changes = collections.Counter()   # reloads by what they do to the common secret
    cs_reliant = 0            # configurations with a listed section without own secret (relies on the common secret)
    cs_answers = 0            # lookups answered with a common secret
    for c in cases:
        lens.append(len(c["ops"]))
        if c["ops"]:
            modes[c["ops"][0]] += 1
        n_mut = 0
        cur = []              # static: entries of the last configuration; etcd: dict key -> (host, url)
        kv = {}
        common = None
        for o, i in zip(c["ops"], c.get("impl") or []):
            f = o.split(" ")
            k = f[0]
            ops[k] += 1
            if k in ("load", "reload") and len(f) > 2 and f[1].startswith("cs="):
                cs = _dec(f[1][3:])
                if k == "reload" and common is not None:
                    cs_changes["unchanged" if cs == common else "added" if common == "" else "removed" if cs == "" else "changed"] += 1
                common = cs
                t = f[1:]
                if any(t[j] == "sec" and t[j + 3] == "1" and _dec(t[j + 7]) == "" for j in range(2, len(t) - 10, 11)):
                    cs_reliant += 1
            if k in ("load", "reload"):
                cur = _entries_of_cfg(f[1:])
                hosts = collections.Counter(h for h, _ in cur)
                if hosts and max(hosts.values()) >= 2:
                    shared_hosts += 1
            elif k == "put" and len(f) == 13:
                if f[2] == "1" and f[4] == "1" and _dec(f[3]) and _dec(f[8]):
                    kv[f[1]] = (_dec(f[6]), _dec(f[5]))
                else:
                    kv.pop(f[1], None)
                cur = list(kv.values())
                hosts = collections.Counter(h for h, _ in cur)
                if hosts and max(hosts.values()) >= 2:
                    shared_hosts += 1
            elif k == "del" and len(f) == 2:
                kv.pop(f[1], None)
                cur = list(kv.values())
            if k in ("reload", "put", "del"):
                n_mut += 1
            if i.startswith("chain="):
                a = i.split(" ")[0][6:]
                if k == "probe" and len(f) == 6:
                    accepted["accepted" if a != "-" else "rejected"] += 1
                    if a != "-" and common and len(a.split(";")) == 6 and _dec(a.split(";")[1]) == common:
                        cs_answers += 1
                    host, url = _dec(f[2]), _dec(f[3])
                    if f[4] == "1":
                        dot_probes += 1
                    if sum(1 for h, u in cur if h == host and url.startswith(u)) >= 2:
                        order_sensitive += 1
                outcomes["answer"] += 1
            else:
                outcomes[i.split(":", 1)[0]] += 1
        muts_per_case.append(n_mut)
        if any(o.startswith("racebegin") for o in c["ops"]):
            modes["concurrent"] += 1
    return dict(verdicts=_verdict_stats(cases, model), ops=dict(ops), impl_outcomes=dict(outcomes), modes=dict(modes),
                lookups=dict(accepted), lookups_where_entry_order_decides=order_sensitive, lookups_with_dot_segments=dot_probes,
                mutations_leaving_a_shared_host=shared_hosts,
                reloads_by_effect_on_the_common_secret=dict(cs_changes),
                configurations_with_a_section_relying_on_the_common_secret=cs_reliant,
                lookups_answered_with_the_common_secret=cs_answers,
                max_case_len=max(lens or [0]), mean_case_len=round(sum(lens) / max(1, len(lens)), 1),
                mean_mutations_per_case=round(sum(muts_per_case) / max(1, len(muts_per_case)), 1),
                max_mutations_per_case=max(muts_per_case or [0]))


def c13_nontrivial(c, ms):
    """At least two mutations (reload / put / del) and at least one accepted and one rejected lookup."""
    impl = c.get("impl") or []
    muts = sum(1 for o in c["ops"] if o.split(" ", 1)[0] in ("reload", "put", "del"))
    acc = any(i.startswith("chain=") and not i.startswith("chain=- ") for o, i in zip(c["ops"], impl) if o.startswith("probe"))
    rej = any(i.startswith("chain=- ") for o, i in zip(c["ops"], impl) if o.startswith("probe"))
    return muts >= 2 and acc and rej


CONFIG = dict(
    modules=["SigModel.Props.C13"],
    theorems=["SigModel.Backends." + t for t in [
        "C13_reload_eq_fresh", "C13_reload_raw_eq_fresh", "C13_config_source_facts", "C13_static_file_eq_fresh",
        "C13_static_file_reload_total", "C13_cached_common_secret_differs", "C13_static_file_meets_spec", "C13_reload_total", "C13_reload_chain_total", "C13_reload_path_audit", "C13_static_answers_from_final",
        "C13_static_configured_accepted", "C13_legacy_upsert_panics", "C13_legacy_order_differs",
        "C13_etcd_eq_fresh", "C13_etcd_eq_fresh_sorted", "C13_etcd_answers_from_final",
        "C13_etcd_deleted_not_accepted", "C13_etcd_moved_not_accepted",
        "C13_facts", "C13_scheme_rule", "C13_lookup_reload_eq_fresh", "C13_static_meets_spec", "C13_etcd_meets_spec",
    ]] + ["SigModel.RWLock." + t for t in [
        "C13_lock_programs_flat", "C13_no_deadlock", "C13_api_no_deadlock", "C13_steps_bounded",
        "C13_always_completes", "C13_mutual_exclusion", "C13_nested_rlock_deadlocks",
    ]],
    generated=["Backends"],
    harness=dict(pkg="signaling", test="TestVerifC13"),
    stats=c13_stats,
    nontrivial=c13_nontrivial,
    rule="corpus of 15 witness cases first; static: PRNG chains of 2-9 configurations (1-4 hosts, 0-6 backends, ids "
         "added/removed/moved/re-ordered/changed, nested prefixes, http/https, default and other ports, duplicate / "
         "missing / broken / emptied entries, common secret); common-secret chains: a scripted opening over the common "
         "[backend] secret (present, changed, removed, added again; or removed while every backend has an own secret and "
         "a backend without one added later) + random continuation of 0-6 steps, 1-6 backends of which about half have "
         "no own secret, many steps changing only the common secret or one backend's own secret, every url configured "
         "so far looked up after every step; etcd: 2-30 put/delete events over 2-7 keys incl. host "
         "moves and undecodable/invalid values; concurrent variants (2-5 lookup goroutines during 20 passes of the "
         "mutations, watchdog 8 s); probe set = every url seen, its prefixes and extensions, scheme / port / "
         "dot-segment variants, probed after every mutation (subset) and at the end (all); a case is non-trivial if "
         "it has >= 2 mutations and both an accepted and a rejected lookup; distinct = distinct op lists",
    trusted_base=[
        "net/url (url.Parse, Hostname, Port, String) and encoding/json: the harness hands the model what the standard "
        "library makes of every configured / looked-up url (parse ok, normalised text, host, scheme, dot segments) and "
        "of every etcd value (decodes or not, fields); the default-port and trailing-slash normalisation is "
        "re-implemented in the harness with net/url only, independently of the code under test",
        "goconf (option lookup; ids are lower-case, no %(..)s / $(..) substitution in generated values)",
        "sync.RWMutex behaves as modelled in Model/RWLock.lean (writer-preferring: a pending Lock blocks new RLocks; "
        "RUnlock and Unlock never block); Go runtime scheduling is any interleaving of lock calls",
        "critical sections of the storages call nothing that blocks on anything but leaf locks (log, prometheus "
        "gauges, a non-blocking channel send)",
        "etcd hands a starting server the current key/value pairs (any order: the theorem holds for every order; the "
        "harness uses key order as a range query does)",
    ],
    assumptions=[
        "static chains stay in \"backends\" mode: no configuration sets allowall / allowed (Reload refuses to switch "
        "to the old-style modes and logs it); configurations whose backends value is empty or incomplete are included",
        "etcd: the storage is driven through EtcdKeyUpdated / EtcdKeyDeleted directly; the etcd client, its watch loop, "
        "reconnects and revision handling are not modelled",
        "session counting per Backend object (Backend.sessions survives a reload only for unchanged entries) is not "
        "part of this property",
        "the concurrency part is a proof about the lock model plus lock programs extracted syntactically (every path; "
        "loops 0/1 times; function literals and go statements not followed); real goroutine runs with a watchdog are "
        "testing, they cannot show absence of deadlock by themselves",
        "lookups themselves are not claimed panic-free (an empty url text on a host configured with an empty host name "
        "would index out of range in getBackendLocked; unreachable through hello validation, not part of C13)",
    ],
)

MANIFEST = dict(
    text="Machine-checked Lean 4 theorems about a model of the backend table (static storage: start, Reload = "
         "RemoveBackendsForHost + UpsertHost; etcd storage: EtcdKeyUpdated / EtcdKeyDeleted with keyInfos; lookup = "
         "host table, scheme rule, first entry whose url — closed by a '/' when stored without one, as etcd entries are — is a "
         "prefix of the '/'-closed url, dot-segment refusal): for every chain of configurations (lists "
         "of backends, and raw files with duplicate / missing / incomplete ids) every lookup answers exactly as after "
         "a fresh start from the last one; for every history of etcd put/delete events (invalid values, keys moving "
         "host) the table is the canonical table of the final key/value map, hence equals a fresh start for every "
         "order in which a starting server receives the pairs; answers come only from the final configuration "
         "(removed / moved urls are rejected); Reload is total; the model's answers satisfy the judge written from "
         "the statement. The static storage is modelled with the common secret it keeps from startup; where "
         "NewBackendStorageStatic and Reload take the three arguments of getConfiguredHosts from (id list, sections, common "
         "[backend] secret) and which members of the receiver Reload touches are regenerated facts: all come from the "
         "file being loaded, so for every chain of files (common secret present, changed, removed, added again; sections "
         "with and without own secret) url set and secret per url equal a fresh start from the last file, with a proved "
         "witness that a Reload falling back to the cached common secret does not. Concurrency: Go's writer-preferring RWMutex as a transition system; the lock programs of "
         "all storage entry points are regenerated from the source (go/ast walk over every path, following calls) and "
         "must be well-bracketed and non-nested by `decide`; then for any number of threads running any sequence of "
         "those calls: no deadlock, every run terminates in the final configuration, writer excludes everyone; the "
         "nested RLock of the pinned tree is a proved deadlock witness. Tied to the code by the regenerated facts and "
         "by a differential run of the real BackendConfiguration / backendStorageStatic / backendStorageEtcd against "
         "a fresh instance of the real code and against the model, incl. lookups racing reloads under a watchdog. "
         "Seven defects found on the pinned tree (nested read lock, UpsertHost panic, reload order, etcd host move, "
         "etcd invalid update, etcd history order, reload of an emptied configuration) are each fixed by one commit; an eighth "
         "(an etcd backend /foo, stored without the final slash, also answered for the sibling path /foobar) was shown by C02's "
         "check, is fixed in getBackendLocked, and the judge's reading of 'accepts' (url lies under the backend's url) now rejects it.",
    note="Trusted: Lean kernel, extractor, harness + comparison, net/url, encoding/json, goconf, the RWMutex model. "
         "Hypotheses: backends mode only (no allowall/allowed), etcd client/watch loop not modelled, deadlock freedom "
         "is of the lock model with extracted lock programs.",
    technique="Lean 4 proof (pointwise table equivalence by induction over chains; canonical-form invariant for etcd "
              "histories; invariant + progress + measure for the RWMutex transition system) + regenerated facts "
              "(lock programs, scheme rule, partial operations on the reload path) + differential correspondence",
)
