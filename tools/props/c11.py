"""C11 — authenticated room API requests of any shape are answered, never fatal."""
import collections
from ._util import verdict_stats as _verdict_stats


def c11_stats(cases, model):
    ops, status, tags, events, lens = (collections.Counter() for _ in range(5))
    setups = collections.Counter()
    sizes = []
    for c in cases:
        for t in c.get("tags") or []:
            tags[t] += 1
        for o, i in zip(c["ops"], c.get("impl") or []):
            f = o.split(" ")
            ops[f[0]] += 1
            if f[0] == "setup":
                setups["clients=%s dial=%s" % (f[1], f[3])] += 1
                continue
            if f[0] not in ("req", "raw"):
                continue
            sizes.append(len(f[-1]))
            p = i.split(" ")
            status[p[0]] += 1
            if len(p) > 2 and p[2] != "-":
                for e in p[2].split(","):
                    events[e.split(":", 1)[1]] += 1
    return dict(verdicts=_verdict_stats(cases, model), ops=dict(ops), http_status=dict(status), shapes=dict(tags),
                setups=dict(setups), event_kinds=dict(events), max_encoded_body=max(sizes or [0]))


def c11_nontrivial(c, ms):
    """a case is non-trivial if some request in it was rejected (4xx) or produced an event"""
    for o, i in zip(c["ops"], c.get("impl") or []):
        if not (o.startswith("req ") or o.startswith("raw ")):
            continue
        p = i.split(" ")
        if p[0] != "200" or (len(p) > 2 and p[2] != "-"):
            return True
    return False


CONFIG = dict(
    modules=["SigModel.Props.C11"],
    theorems=["SigModel.ShapesBackend." + t for t in [
        "C11_shape_facts", "C11_guards_cover_derefs", "C11_answered", "C11_never_fatal", "C11_gateway_exact", "C11_gateway_converse",
        "C11_malformed_no_event", "C11_invalid_no_event", "C11_consumers_total", "C11_fixup_entries_ok",
        "C11_run_answered", "C11_unvalidated_update_kills_hub", "C11_unvalidated_delete_closes_room",
        "C11_unchecked_sessions_500", "C11_locks_balanced", "C11_incall_stays_in_room"]],
    generated=["ShapesBackend", "LockBalance"],
    harness=dict(pkg="signaling", test="TestVerifC11", go="go1.26"),
    stats=c11_stats,
    nontrivial=c11_nontrivial,
    rule="one fresh in-process Hub+BackendServer per case (testing/synctest bubble, in-memory connections). Worlds: the "
         "one-room world of `setup` (0 or 2 websocket clients, one joined; optional internal dial-out client with 5 reply "
         "policies) and 12 scripted openings built from world ops (conn/join/leave/bye/iconn/ijoin/virt/vrem): two rooms of "
         "the same backend, three clients, sessions that left / moved / said bye, a room that went away, one user in two "
         "rooms, an internal client in a room with virtual sessions (one removed). Requests: 1-4 signed requests per case "
         "built from a well-formed template of one of the 9 types (+transient) whose session ids / public ids are drawn from "
         "that world (members of the target room, of OTHER rooms, stale ids), with 0-2 structural mutations (member dropped / "
         "null / wrong-typed / emptied / duplicated / renamed / unknown member / huge list), odd or unknown types, swapped "
         "sub-objects, non-object top levels, a raw stream of byte strings that are no JSON, one over-long body; sent to "
         "existing rooms and to an absent one; plus systematic blocks (every type x member x wrong value; every opening x "
         "room x session id x the id-resolving request types; delete of every room). Observed per request: HTTP status or "
         "transport error (reply budget 30 s virtual), liveness (in every room with a connected member and in a room of the "
         "probe client's own: a participants request through the hub main loop and a room message must arrive within 5 s "
         "virtual, the probe client must be able to join and leave; a watchdog on the real clock turns a server goroutine "
         "stuck in a mutex wait into `hung@<function>`), set of events at all clients, digest of all rooms (properties, "
         "sessions in the call). A case is non-trivial if a request was rejected or produced an event; distinct = distinct "
         "op lists",
    trusted_base=["encoding/json + easyjson decoding of BackendServerRoomRequest (the theorems quantify over decoded values; "
                  "the driver's reimplementation of the decoder is only exercised by the correspondence)",
                  "net/http recovering handler panics by dropping the connection; testing/synctest quiescence",
                  "tools/extract/lockbalance.go: go/ast abstract interpretation of lock/unlock pairs per function (mutexes named by "
                  "source text; calls resolved only for methods of the same receiver; function values, locks passed around and "
                  "cross-type lock order are outside it) -- the dynamic probes cover what it cannot see on the generated paths",
                  "harness JSON printer and the small JSON reader in Driver/C11.lean"],
    assumptions=["the event bus accepts publications (a NATS outage makes roomHandler answer 500; loopback NATS in the run)",
                 "C11_answered is stated for a cooperative or absent dial-out client (a third party): when the internal "
                 "client rejects, mis-answers or ignores a well-formed dial-out request the reply is 502/504 "
                 "(C11_gateway_exact characterises exactly these); the judge marks those steps 'na'",
                 "one hub without clustering, one backend, one internal client besides the dial-out client; join/leave "
                 "notifications caused by the scripted world ops are not observed (C04/C05), media permissions are outside "
                 "the model (C08)",
                 "requests whose two delivery paths to the same client race (disinvite by user id and by session id at once; "
                 "delete naming the member's own user) are modelled sequentially and avoided by the generator"],
)

MANIFEST = dict(
    text="Machine-checked Lean 4 theorems about a total model of roomHandler, its per-type helpers and the consumers "
         "behind the event bus (Room.processBackendRoomRequestRoom, Hub.processRoom*, publishSwitchTo, filterMessage), in "
         "which every unguarded sub-object dereference / type assertion is an explicit failure outcome (no HTTP reply in "
         "the handler, process death behind the bus). The per-type 'validated => sub-object non-nil' table, the presence "
         "and position of the CheckValid call, the handler's and consumers' case lists and dereference sets are "
         "regenerated from the Go source; with them: every decoded body (or decode error) is answered 2xx/4xx without "
         "any failure outcome, a malformed request publishes nothing and leaves the state unchanged, and all published "
         "room messages are consumed without failure in every later state (any number of rooms, sessions of other rooms named "
         "in a request stay untouched). 'Responsive' rests on a regenerated lock-balance table of every function of the "
         "package (no path leaves a mutex locked or takes it twice; reviewed exceptions listed). Tied to the code by the "
         "extraction and a differential run of the real server (status, liveness probes through the hub main loop, the room "
         "subscribers and a joining client, events, digest of all rooms) on structurally mutated signed bodies in "
         "multi-room worlds.",
    note="Defect found and fixed (d040bbc): no validation — nil sub-object panics in the handler, 'update' killed the hub "
         "main loop, 'delete' closed the room before panicking, undecodable switchto sessions gave 500. JSON decoders "
         "trusted. 502/504 of a failing dial-out client are outside the full theorem (characterised exactly).",
    technique="Lean 4 proof (case analysis over the dispatch, invariant 'every forwarded participant entry carries a string "
              "sessionId' through fixupUserSessions) + regenerated validation/dereference tables + differential "
              "correspondence under testing/synctest",
)
