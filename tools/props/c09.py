"""C09 — no publisher or subscriber outlives its owner (clientsession.go, hub.go, Mcu interface)."""
import collections
from ._util import verdict_stats as _verdict_stats


def c09_stats(cases, model):
    ops, outs, tags, lens = collections.Counter(), collections.Counter(), collections.Counter(), []
    late = collections.Counter()      # how a creation that was answered `ok` ended
    racing = collections.Counter()    # what happened between the request and the answer
    open_at_state = 0
    stress = collections.Counter()
    worlds = collections.Counter()    # client types / connections of session 0 in the cases that say so
    for c in cases:
        if c["ops"] and c["ops"][0].startswith("world "):
            worlds[c["ops"][0].split()[1]] += 1
        lens.append(len(c["ops"]))
        for t in c.get("tags") or ["-"]:
            tags[t] += 1
        begun = {}
        for idx, (o, i) in enumerate(zip(c["ops"], c.get("impl") or [])):
            f = o.split()
            kind = f[0] if f else "-"
            ops[kind] += 1
            head = i.split(" ")[0]
            outs[head if kind != "state" else "state"] += 1
            if kind in ("offer", "request", "sendoffer") and head == "pending":
                begun[f[1]] = idx
            if kind == "end" and len(f) == 3:
                if f[2] == "ok" and head in ("stored", "closed"):
                    late[i] += 1
                if f[1] in begun:
                    between = set(x.split()[0] for x in c["ops"][begun[f[1]] + 1:idx])
                    for b in ("leave", "incall", "close", "perms", "join", "offer", "request", "incallall", "intincall",
                              "delroom", "disinvite", "kick", "asyncbye", "bye", "drop", "expire"):
                        if b in between:
                            racing[b] += 1
            if kind == "state" and not i.startswith("-"):
                open_at_state += 1
            if kind == "stress":
                stress["runs"] += 1
                body = i.split("open=")[1].split()[0] if "open=" in i else "-"
                stress["open_objects_at_quiescence"] += 0 if body == "-" else len(body.split(","))
                stress["sessions_closed_midway"] += i.count("=c:")
    return dict(verdicts=_verdict_stats(cases, model), ops=dict(ops), impl_outcomes=dict(outs), tags=dict(tags),
                answered_ok=dict(late), actions_between_request_and_answer=dict(racing), session0_types=dict(worlds),
                observations_with_open_objects=open_at_state, stress=dict(stress),
                max_case_len=max(lens or [0]), mean_case_len=round(sum(lens) / max(1, len(lens)), 1))


def c09_nontrivial(c, ms):
    impl = c.get("impl") or []
    return any(i == "stored" or i.startswith("closed ") or (i.startswith("stress ") and "open=-" not in i) for i in impl)


_T = "SigModel.Mcu."

CONFIG = dict(
    modules=["SigModel.Props.C09"],
    theorems=[_T + t for t in [
        "C09_code_rechecks", "C09_code_release_sites", "C09_code_streams", "C09_code_janus_cleanup", "C09_code_oldstyle",
        "C09_invariant", "C09_no_orphan", "C09_no_orphan_code", "C09_no_orphan_code_full",
        "C09_late_creation_closed", "C09_single_publisher", "C09_single_publisher_code",
        "C09_race_loser_closed", "C09_doClose_closes", "C09_epoch_monotone", "C09_no_release_between", "C09_release_bumps",
        "C09_close_bumps", "C09_closeCancel_closes", "C09_stamp_at_begin", "C09_exec_reachable", "C09_asIs_orphan",
        "C09_early_sweep_orphan", "C09_early_sweep_orphan_code",
        "C09_code_exits", "C09_leaving_releases", "C09_leaving_releases_code", "C09_exit_closes", "C09_exit_ops_end",
        "C09_incall_all_without_leave_orphan", "C09_incall_all_code_closes"]],
    generated=["Mcu"],
    harness=dict(pkg="signaling", test="TestVerifC09", go="go1.26"),
    # real-concurrency variant of the same harness files, built with the race detector: one `stress` op per case,
    # not predictable by the model (canon), judged by the spec on the state at quiescence
    extra_harness=[dict(pkg="signaling", test="TestVerifC09Stress", go="go1.26", race=True)],
    canon=lambda s: "stress" if s.startswith("stress ") else s,
    stats=c09_stats,
    nontrivial=c09_nontrivial,
    rule="real ClientSessions in a real Hub with a gate-controlled fake Mcu inside a testing/synctest bubble; cases = "
         "(a) the witness schedules of the repaired defect, (a') every way out x every client type: session 0 as user / "
         "federation / internal / internal+internal-incall client, with and without a real Client on an in-memory "
         "websocket, put into the call by the backend (one session / all=true) or by its own incall message, owning a "
         "stored object, one in creation, both, or asking again afterwards (camera, screen, two subscriber paths), then "
         "leave / room switch / backend incall for it / backend incall all=true / own incall message / room deleted / "
         "disinvite / room-session reconnect (local, asynchronous) / bye / connection lost + expiry / Close / revocation, "
         "plus the same events aimed at another room and a roomless session that ends (all of them in both tiers), "
         "(b) all orders of <= 4 concurrent threads "
         "(1-2 creations = request + media-server answer ok/fail/timeout, 0-2 of leave / leave call / close / "
         "revoke / switch room; thorough: every order of every such thread set with <= 3 threads or one creation, "
         "and of a third of the 2-creation + 2-action sets chosen by the seed; quick: PRNG sample of these), (c) PRNG histories over 3 sessions "
         "(half of them with PRNG client types / connections and the ops of (a')), "
         "2 rooms, 3 stream types, 12 permission sets with interspersed observations, (d) malformed lines, (e) stress "
         "runs under the race detector (one client goroutine per session + 2-8 backend goroutines, 5-40 actions "
         "each, the fake media server answering on its own), (f) the real Janus client against the repository's "
         "test gateway (publisher + subscriber created and closed); "
         "a case is non-trivial if the media server created at least one object (answered ok: stored or closed "
         "again, or a stress run that ended with open objects); distinct = distinct op lists",
    trusted_base=[
        "testing/synctest (go1.26): synctest.Wait() is taken as 'every goroutine of the server is blocked or done' "
        "(the harness' quiescence point)",
        "the fake Mcu stands for the media server: NewPublisher/NewSubscriber return when the schedule says so "
        "with ok / error / context.DeadlineExceeded, Close() closes and calls PublisherClosed/SubscriberClosed "
        "like mcu_janus_*.go and mcu_proxy.go do",
    ],
    assumptions=[
        "atomicity is taken at the granularity of the critical sections under ClientSession.mu (and Room.mu for the "
        "in-call set) that the model names; the harness can only schedule whole harness ops (each = a sequence of "
        "model actions run to quiescence), the proof covers every interleaving of the individual actions",
        "the Janus / proxy wire protocol is not modelled beyond 'Close() closes' and 'a failed or timed-out creation "
        "opens nothing'; both are observed for the real Janus client against the repository's TestJanusGateway (ops "
        "janus / janustimeout: publisher + subscriber closed; join never answered) and tied by the facts of "
        "C09_code_janus_cleanup; a create request (not join) that times out at Janus, and the proxy MCU's "
        "create-publisher command timing out at the proxy, may still leave objects the signaling server cannot name",
        "entitlement is 'no release (leave room / leave call / close) of the owner since the critical section that "
        "started the request'; the admission check of requestoffer (Hub.isInSameCall) happens before that section "
        "and is C08's subject: the model admits any subscriber request at any time",
        "media-server initiated closes (Janus connection lost, unshareScreen timer) and clustered (gRPC / remote) "
        "publishers are not modelled; sessions are client sessions (user, federation, internal) of one backend; virtual "
        "sessions own no media objects and only take part as members of the room's session and in-call sets",
        "ways out that are tied by facts only (exitCalls / roomClearSites / cancelSites in C09_code_exits) and not driven "
        "by the harness: the anonymous-session room-join timeout, joining a federated room (SetFederationClient -> "
        "doLeaveRoom), hub shutdown, a session resumed by a new connection (not a way out); an internal client's incall "
        "message that repeats the flags it already has is not an event (the in-call state set by the backend stays)",
        "the permission clause for screen publishers of the current tree depends on the revocation goroutine not "
        "returning early (fact sweepReturnsEarly, C08's finding): proved under that hypothesis "
        "(C09_no_orphan_code_full), refuted otherwise (C09_early_sweep_orphan_code), observed by the harness as "
        "a known finding while it reproduces",
    ],
)

MANIFEST = dict(
    text="Machine-checked Lean 4 theorems about a small-step concurrent model of the critical sections of "
         "clientsession.go around mcu.NewPublisher/NewSubscriber (request under the lock, media-server call with "
         "the lock released and an arbitrary outcome, re-check and store under the lock; leave room / leave call / "
         "three-step Close / permission change + revocation goroutine / closing goroutines as separate actions): "
         "for every interleaving and every media-server outcome, in every reachable state each open object is either "
         "handed to a closing goroutine or tracked by its live owner with the owner's current release generation; at "
         "quiescence every open object is entitled (owner live, no leave/close since the request started, permitted, "
         "owned) and there is at most one per session and key; a creation completing after the owner is gone and the "
         "loser of a creation race are closed. Every harness op - each way a session of any client type stops being in "
         "the call, in its room or alive (own leave / room switch, backend incall for one or for everybody, the internal "
         "client's own incall message, room deleted, disinvite, room-session reconnect, bye, expiry, Close) - moves the "
         "session's release generation inside the op (C09_leaving_releases), so whatever it owned or was having created "
         "is closed once things settle (C09_exit_closes); regenerated facts say for every statement that takes sessions "
         "out of a room's in-call set which of them get LeaveCall() (C09_code_exits; proved witness of what a skipped "
         "client type would leave open). The model is defined over facts regenerated from the source (lock / "
         "snapshot / create / re-check / store order of both functions, the generation check, release sites, stream "
         "types, shape of the revocation sweep, in-call removal sites with their LeaveCall feed, exit functions of hub / "
         "client) and tied by a differential run of real ClientSessions in a real Hub "
         "against a gate-controlled fake Mcu (all orders of <= 4 concurrent threads x media-server outcomes, PRNG "
         "histories); the spec's entitlement predicate is evaluated on the fake media server's open set.",
    note="Defects found and repaired: (fix: b9c3e65) objects whose creation completed after leave room / leave call / "
         "close / permission loss were stored and stayed open, GetOrCreatePublisher changed the publishers map without "
         "the lock (data race seen by the race detector on the old tree) - the unrepaired model's violation is a proved "
         "witness; (fix: a5b689b) mcu_janus.go left the Janus room behind when a publisher's join timed out. The "
         "screen-publisher permission clause depends on C08's early return in the revocation goroutine (conditional "
         "theorem + proved witness + known finding while it reproduces). Trusted: Lean kernel, extractor, harness, "
         "testing/synctest, the fake Mcu; Janus/proxy wire protocol not modelled beyond Close() (two observations "
         "against the repository's Janus test gateway).",
    technique="Lean 4 proof (inductive invariant of a small-step concurrent model, all interleavings) + regenerated "
              "facts + schedule-controlled differential correspondence",
)
