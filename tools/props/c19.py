"""C19 — virtual sessions exist only through, and as long as, their internal client."""
from . import _hub

CONFIG = dict(
    modules=["SigModel.Props.C19", "SigModel.Props.C07", "SigModel.Props.C01"],
    theorems=["SigModel.Hub.reachable_inv", "SigModel.Hub.C19_only_internal", "SigModel.Hub.C19_own_backend_only", "SigModel.Hub.C19_exists_through_parent", "SigModel.Hub.C19_table_sound", "SigModel.Hub.C19_member_not_listener", "SigModel.Hub.C19_removed_is_gone", "SigModel.Hub.C19_facts", "SigModel.Hub.C19_gone_iff", "SigModel.Hub.C19_removed_is_reported", "SigModel.Hub.C05_routing", "SigModel.Hub.C07_no_residue",
              # "an authenticated internal client": the hub model takes the hello as accepted; that an internal hello is
              # accepted only with HMAC(secret, random) under a non-empty configured secret is C01's theorem and C01's
              # regenerated facts of processHelloInternal -- obligations of this check too
              "SigModel.Auth.C01_session_needs_credentials", "SigModel.Auth.C01_facts_as_modelled"],
    generated=["Hub", "Auth"],
    harness=_hub.HARNESS,
    stats=_hub.stats,
    canon=_hub.canon,
    nontrivial=_hub.nontrivial,
    rule=_hub.RULE,
    trusted_base=_hub.TRUSTED,
    assumptions=_hub.ASSUME,
)

MANIFEST = dict(
    text="Lean 4 theorems over the hub model: add/remove/in-call requests of sessions that are not internal clients change nothing; a virtual session is created only in the room of that id on the internal client's own backend; in every reachable state a virtual session has no connection of its own and its owner exists, is an internal session of the same backend and lists it (so none can outlive its internal client), the virtual-session table is sound, a virtual session in a room is a member but not a bus listener and messages addressed to it are written to the internal client with the recipient rewritten (C05_routing); a removed virtual session is gone, with no residue (C07_no_residue), and it is among the removals the backend has to be told about (C19_gone_iff, C19_removed_is_reported). Differential hub run with add/remove from internal and ordinary clients, duplicate ids with failing adds, messages to virtual sessions from both backends, end of the parent by bye/expiry/room deletion (scripted openings + random walk); the fake backend's 'remove' requests of every step are compared with the virtual sessions that went away, and the judge flags a removal the backend was not told about or a virtual session that outlives its removal. That the internal client is authenticated (token = HMAC-SHA256(secret, random) under a non-empty configured secret, >= 32 bytes of random) is C01_session_needs_credentials over the hello model with the regenerated facts of processHelloInternal (C01_facts_as_modelled), both obligations of this check as well.",
    note='Synchronous routing layer: single hub, loopback bus, quiescence between ops; no gRPC peers, MCU or federation. Trusted: Lean kernel, extractor, harness (real websockets, fake Nextcloud backend) and comparison. Backend add requests are parameters of the ops (success/failure); remove requests are observed (room and session). Flags updates (updatesession) are not modelled.',
    technique="Lean 4 proof (routing refinement over the hub model) + differential correspondence",
)
